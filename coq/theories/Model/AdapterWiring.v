(** * C17 — the wiring of the adapters (executable definitions, no proofs).

    What the model of Model/Adapter.v / AdapterNative.v assumes about code that is NOT a handler:
    - [app/app.go]: which hooks are registered with ethermint ([evmkeeper.NewMultiEvmHooks(...)]) and in
      which order; which bank keeper the staking keeper (also used by the slashing keeper) and the gov
      keeper are built with;
    - [adapter/*/adapter.go] [NewHookAdapter]: the address filtered on and the table event -> handler;
    - [adapter/*/handler.go]: the event each handler parses and the message type it builds;
    - [syscontracts/*/generated.go]: the events of the ABI the decoder is driven by.
    tools/gotocoq/adapterwiring regenerates these facts as terms (Gen/AdapterWiringGen.v) on every run;
    the Booleans below compare a generated term with what the model transcribes.  Props/C17_wiring.v
    evaluates them on the regenerated terms. *)
From Teleport Require Import Base.Bytes Base.Outcome Base.AdapterWiringTypes Model.Adapter Model.AdapterNative.
Local Open Scope Z_scope.

Definition whook_eqb (a b : whook) : bool :=
  match a, b with WStaking, WStaking | WGov, WGov | WOther, WOther => true | _, _ => false end.

Definition bank_kind_eqb (a b : bank_kind) : bool :=
  match a, b with BKOverride, BKOverride | BKBase, BKBase | BKUnknown, BKUnknown => true | _, _ => false end.

Definition abi_ty_eqb (a b : abi_ty) : bool :=
  match a, b with
  | TAddr, TAddr | TStr, TStr | TU256, TU256 | TU64, TU64 | TU32, TU32 | TOptWeights, TOptWeights => true
  | TOther x, TOther y => bytes_eqb x y
  | _, _ => false
  end.

Definition whook_of (h : hkind) : whook := match h with HStaking => WStaking | HGov => WGov end.

(** the adapters among the registered hooks, in registration order *)
Definition adapters_of (l : list whook) : list hkind :=
  flat_map (fun w => match w with WStaking => [HStaking] | WGov => [HGov] | WOther => [] end) l.

(** ** ethermint [MultiEvmHooks] over an arbitrary registration list *)
Section MultiList.
  Variable S : Type.
  Variable exec : msg -> S -> outcome S.

  Fixpoint multi_hook_list (hs : list hkind) (logs : list log) (s : S) : outcome unit * S :=
    match hs with
    | [] => (Ok tt, s)
    | h :: r =>
        match post_tx exec h logs s with
        | (Ok _, s1) => multi_hook_list r logs s1
        | x => x
        end
    end.
End MultiList.
Arguments multi_hook_list {S}.

(** ** what the model transcribes, per event kind *)
Definition all_evkinds : list evkind := [KDelegated; KUndelegated; KRedelegated; KWithdrew; KVoted; KVotedWeighted].

Definition event_name (k : evkind) : bytes :=
  match k with
  | KDelegated => B "Delegated" | KUndelegated => B "Undelegated" | KRedelegated => B "Redelegated"
  | KWithdrew => B "Withdrew" | KVoted => B "Voted" | KVotedWeighted => B "VotedWeighted"
  end.

(** the argument shapes [unpack_event] decodes (all non-indexed: [parse_log] gives [ParseTopics] nothing) *)
Definition model_inputs (k : evkind) : list abi_ty :=
  match k with
  | KDelegated | KUndelegated => [TAddr; TStr; TU256]
  | KRedelegated => [TAddr; TStr; TStr; TU256]
  | KWithdrew => [TAddr; TStr]
  | KVoted => [TAddr; TU64; TU32]
  | KVotedWeighted => [TAddr; TU64; TOptWeights]
  end.

(** the SDK message [msg_of_event] builds *)
Definition msg_type_name (k : evkind) : bytes :=
  match k with
  | KDelegated => B "MsgDelegate" | KUndelegated => B "MsgUndelegate" | KRedelegated => B "MsgBeginRedelegate"
  | KWithdrew => B "MsgWithdrawDelegatorReward" | KVoted => B "MsgVote" | KVotedWeighted => B "MsgVoteWeighted"
  end.

Definition hook_of_evkind (k : evkind) : hkind :=
  match k with KVoted | KVotedWeighted => HGov | _ => HStaking end.

Fixpoint list_eqb' {A} (eqb : A -> A -> bool) (a b : list A) : bool :=
  match a, b with
  | [], [] => true
  | x :: a', y :: b' => eqb x y && list_eqb' eqb a' b'
  | _, _ => false
  end.

Definition event_matches (k : evkind) (e : gevent) : bool :=
  whook_eqb (ge_contract e) (whook_of (hook_of_evkind k)) && bytes_eqb (ge_name e) (event_name k).

(** the ABI has exactly the six events, each with the shape the decoder implements, no indexed input,
    not anonymous (topic 0 is the id), and the id the model dispatches on *)
Definition events_ok (evs : list gevent) : bool :=
  Nat.eqb (length evs) (length all_evkinds) &&
  forallb (fun k =>
    match filter (event_matches k) evs with
    | [e] => negb (ge_anonymous e) &&
             list_eqb' (fun x y => abi_ty_eqb (fst x) (fst y) && Bool.eqb (snd x) (snd y))
                       (ge_inputs e) (map (fun t => (t, false)) (model_inputs k)) &&
             bytes_eqb (ge_id e) (topic_of k)
    | _ => false
    end) all_evkinds.

Definition handler_matches (k : evkind) (h : ghandler) : bool :=
  whook_eqb (gh_contract h) (whook_of (hook_of_evkind k)) && bytes_eqb (gh_event h) (event_name k).

(** each event is routed to a handler that parses exactly that event and builds exactly the message the
    model builds for it; nothing else is routed; the events of a hook are those of [kinds_of] *)
Definition handlers_ok (hs : list ghandler) : bool :=
  Nat.eqb (length hs) (length all_evkinds) &&
  forallb (fun k =>
    match filter (handler_matches k) hs with
    | [h] => list_eqb' bytes_eqb (gh_parses h) [event_name k] && list_eqb' bytes_eqb (gh_msgs h) [msg_type_name k]
    | _ => false
    end) all_evkinds &&
  forallb (fun k => existsb (fun k' => match k, k' with
                                       | KDelegated, KDelegated | KUndelegated, KUndelegated | KRedelegated, KRedelegated
                                       | KWithdrew, KWithdrew | KVoted, KVoted | KVotedWeighted, KVotedWeighted => true
                                       | _, _ => false end) (kinds_of (hook_of_evkind k))) all_evkinds.

Definition addrs_ok (l : list (whook * bytes)) : bool :=
  Nat.eqb (length l) 2 &&
  forallb (fun h => match filter (fun p => whook_eqb (fst p) (whook_of h)) l with
                    | [p] => bytes_eqb (snd p) (sys_addr h)
                    | _ => false
                    end) [HStaking; HGov].

Definition hkind_eqb' (a b : hkind) : bool :=
  match a, b with HStaking, HStaking | HGov, HGov => true | _, _ => false end.

(** each adapter is registered exactly once, in the order [multi_hook] transcribes *)
Definition hooks_ok (l : list whook) : bool := list_eqb' hkind_eqb' (adapters_of l) [HStaking; HGov].

Definition banks_ok (staking gov slashing : bank_kind) : bool :=
  bank_kind_eqb staking BKOverride && bank_kind_eqb gov BKOverride && bank_kind_eqb slashing BKOverride.

(** ** burns through the keeper a module was wired with *)
Inductive burner := BStaking | BGov.     (* the staking keeper (slashes, also on behalf of x/slashing) / the gov keeper (deposits) *)

Definition burn_via (k : bank_kind) (fee_collector module : bytes) (a : Z) (s : nstate) : outcome nstate :=
  match k with
  | BKOverride => burn_coins fee_collector module a s
  | _ => burn_coins_base module a s           (* the SDK keeper; an unresolved keeper is taken to be that, too *)
  end.
