(** Executable model of the WRAPPED application of the C16 stack: ibc-go v3.0.0's ICS-20 transfer module on the
    concrete state of Model/Ics20.v ([cstate]).  With it the middleware model has no state-transforming oracle left:
    the generic theorems of Props/C16.v quantify over every wrapped application; the end-to-end theorems
    (Proofs/Ics20EndToEnd.v) instantiate it with THIS one.

    Go sources transcribed (module cache, github.com/cosmos/ibc-go/v3@v3.0.0):
      modules/apps/transfer/ibc_module.go   IBCModule.OnRecvPacket: result acknowledgement {1}; a JSON decoding error or
                                            an error of the keeper gives an error acknowledgement; NO rollback of what
                                            the keeper did before it failed (ibc-go core drops the branch, [core_recv])
      modules/apps/transfer/keeper/relay.go Keeper.OnRecvPacket: ValidateBasic, ReceiveEnabled, receiver, amount,
                                            returning tokens: NewCoin, BlockedAddr, SendCoins(escrow -> receiver);
                                            otherwise: NewCoin(voucher), MintCoins(transfer), SendCoinsFromModuleToAccount
      modules/apps/transfer/types/packet.go FungibleTokenPacketData.ValidateBasic
    cosmos-sdk v0.45.2 x/bank: MintCoins (addCoins, then supply), SendCoins (subUnlockedCoins, addCoins),
      SendCoinsFromModuleToAccount (BlockedAddr gate), sdk.NewCoin (panics on an invalid denomination), sdk.Int (256 bits).
    Not modelled: the denomination-trace store of the transfer module (SetDenomTrace), events, telemetry, vesting
    (locked coins), auth account creation.
    Oracles (pure string functions, tabulated per case by the harness): [decode], [parse_int], [from_bech32],
    [sha256] as in Model/Ics20.v, [denom_ok] = transfertypes.ValidatePrefixedDenom, [err_ack] = the bytes of the error
    acknowledgement (error strings are not modelled).  strings.TrimSpace(s) == "" is modelled for ASCII white space. *)
From Coq Require Import List ZArith Bool.
From Teleport Require Import Base.Bytes Base.Outcome Model.Ics20.
Import ListNotations.
Local Open Scope Z_scope.

(** channeltypes.NewResultAcknowledgement([]byte{1}).Acknowledgement() = {"result":"AQ=="} (sorted JSON) *)
Definition result_ack_bytes : bytes := B "{""result"":""AQ==""}".

(** unicode.IsSpace restricted to one-byte runes: \t \n \v \f \r and the space (U+0085 / U+00A0 are two-byte
    sequences in UTF-8; the generator only produces ASCII blanks) *)
Definition is_space (b : byte) : bool := byte_in 9 13 b || Byte.eqb b x20.
Definition is_blank (s : bytes) : bool := forallb is_space s.

Section Transfer.
  Variable sha256 : bytes -> bytes.
  Variable decode : bytes -> option ftpd.
  Variable parse_int : bytes -> option Z.
  Variable from_bech32 : bytes -> option bytes.
  Variable denom_ok : bytes -> bool.             (* transfertypes.ValidatePrefixedDenom(denom) == nil *)
  Variable err_ack : packet -> bytes.            (* Acknowledgement() of the error acknowledgement for this packet *)
  Variable recv_enabled : bool.                  (* transfer Params.ReceiveEnabled *)
  Variable TMODULE : bytes.                      (* address of the transfer module account (minter) *)
  Variable escrow_of : bytes -> bytes -> bytes.  (* transfertypes.GetEscrowAddress(port, channel) *)

  (** FungibleTokenPacketData.ValidateBasic *)
  Definition ftpd_valid (d : ftpd) : bool :=
    match parse_int (fd_amount d) with
    | None => false
    | Some a => (0 <? a) && negb (is_blank (fd_sender d)) && negb (is_blank (fd_receiver d)) && denom_ok (fd_denom d)
    end.

  (** bank addCoins of one valid coin: sdk.Int addition panics beyond 256 bits *)
  Definition add_bal (s : cstate) (acct d : bytes) (a : Z) : outcome cstate :=
    let b := bal s acct d in
    if W256 <=? b + a then Panic
    else Ok (with_funds s (((acct, d), b + a) :: c_bank s) (c_supply s) (c_tokens s) (c_tok_total s)).

  (** bank subUnlockedCoins of one valid coin (no vesting) *)
  Definition sub_bal (s : cstate) (acct d : bytes) (a : Z) : outcome cstate :=
    let b := bal s acct d in
    if b <? a then Err
    else Ok (with_funds s (((acct, d), b - a) :: c_bank s) (c_supply s) (c_tokens s) (c_tok_total s)).

  (** bank SendCoins(from, to, {d a}) for a valid positive coin *)
  Definition send_bal (s : cstate) (from to d : bytes) (a : Z) : outcome cstate :=
    s1 <- sub_bal s from d a ;; add_bal s1 to d a.

  (** bank MintCoins(transfer, {d a}): credit the module account, then the supply *)
  Definition mint_bal (s : cstate) (d : bytes) (a : Z) : outcome cstate :=
    s1 <- add_bal s TMODULE d a ;;
    let sup := get1 (c_supply s1) d in
    if W256 <=? sup + a then Panic
    else Ok (with_funds s1 (c_bank s1) ((d, sup + a) :: c_supply s1) (c_tokens s1) (c_tok_total s1)).

  (** Keeper.OnRecvPacket(ctx, packet, data).  Result: the state it leaves (also when it fails: nothing is rolled back
      here) and whether it returned nil. *)
  Definition keeper_recv (s : cstate) (p : packet) (d : ftpd) : outcome (cstate * bool) :=
    if negb (ftpd_valid d) then Ok (s, false) else
    if negb recv_enabled then Ok (s, false) else
    match from_bech32 (fd_receiver d) with
    | None => Ok (s, false)
    | Some r =>
        match parse_int (fd_amount d) with
        | None => Ok (s, false)
        | Some a =>
            let g := received_denom sha256 p d in
            if receiver_chain_is_source (pk_sport p) (pk_schan p) (fd_denom d) then
              (* returning tokens: release them from the channel's escrow account *)
              if negb (valid_denom g) then Panic                       (* sdk.NewCoin *)
              else if mem1 r (c_blocked s) then Ok (s, false)          (* BlockedAddr(receiver) *)
              else match send_bal s (escrow_of (pk_dport p) (pk_dchan p)) r g a with
                   | Ok s' => Ok (s', true)
                   | Err => Ok (s, false)                              (* insufficient escrow: nothing was written *)
                   | Panic => Panic
                   end
            else
              (* the sender chain is the source: mint the voucher, pay it out *)
              if negb (valid_denom g) then Panic                       (* sdk.NewCoin *)
              else match mint_bal s g a with
                   | Ok s1 =>
                       if mem1 r (c_blocked s1) then Ok (s1, false)    (* minted, not paid out: left on the branch *)
                       else match send_bal s1 TMODULE r g a with
                            | Ok s2 => Ok (s2, true)
                            | Err => Ok (s1, false)
                            | Panic => Panic
                            end
                   | Err => Ok (s, false)
                   | Panic => Panic
                   end
        end
    end.

  (** IBCModule.OnRecvPacket *)
  Definition ctransfer (s : cstate) (p : packet) : outcome (cstate * ack) :=
    match decode (pk_data p) with
    | None => Ok (s, {| ack_success := false; ack_bytes := err_ack p |})
    | Some d =>
        match keeper_recv s p d with
        | Ok (s', true) => Ok (s', {| ack_success := true; ack_bytes := result_ack_bytes |})
        | Ok (s', false) => Ok (s', {| ack_success := false; ack_bytes := err_ack p |})
        | Err => Err
        | Panic => Panic
        end
    end.
End Transfer.
