(** Correspondence and monitor definitions for C09, evaluated by [vm_compute] on
    the chains the harness ran on the real BSC client (no proofs here).

    The oracles of [Model.Bsc] (header hash, recovered sealer) are instantiated
    by the table the harness recorded from the real functions. *)
From Teleport Require Import Base.Bytes Base.Outcome Model.Bsc Model.BscRlp.
Local Open Scope N_scope.

(** * Hex literals (the case files carry byte strings as hex text; parsing a Coq string literal is much
    cheaper than a list-of-bytes literal) *)
Definition hexval (a : ascii) : N := let n := N_of_ascii a in if n <? 58 then n - 48 else n - 87.
Fixpoint unhex (s : string) : bytes :=
  match s with
  | String a (String b r) =>
      match Byte.of_N (16 * hexval a + hexval b) with Some x => x | None => x00 end :: unhex r
  | _ => []
  end.

(** * Observations *)
Record ostate := {
  o_exists : bool;
  o_head : option nat;                 (* index into genesis :: step headers of the client state's header *)
  o_vals : list bytes;
  o_rest_same : bool;                  (* chain id, epoch, interval, contract, trusting period unchanged *)
  o_recents : list (bytes * bytes);    (* store key, value; iteration order *)
  o_pending : option (list bytes);
  o_cons : list (bytes * (N * height * bytes));   (* store key, (timestamp, height field, root); iteration order *)
  o_other : N                          (* keys outside the four families *)
}.

Record ostep := {
  s_bt : N; s_hdr : header;
  s_class : nat; s_kind : N;
  s_dirty : option (list (bytes * bytes));   (* raw mode, rejected: recent signers of the store the call wrote to *)
  s_state : ostate
}.

Record ocase := {
  k_keeper : bool;                     (* true: ClientKeeper.UpdateClient; false: CheckHeaderAndUpdateState + keeper setters *)
  k_cs : cstate; k_cons0 : consstate;
  k_create_class : nat; k_create_kind : N; k_create_state : ostate;
  k_oracle : list (header * (option bytes * option bytes));   (* header -> (Hash() unless it panics, recovered sealer unless error) *)
  (* per header (creation header first): the bytes the real code hashes for Hash() (None: ToBscHeader panics) and for
     the seal hash (None: extra data shorter than the seal), and the Go-side fact that Hash() / sealHash / the
     recovered sealer are keccak256 / secp256k1 recovery of exactly these bytes *)
  k_pre : list (option bytes * option bytes * bool);
  k_steps : list ostep
}.

(** * Oracle instances *)
Definition tab_find (tab : list (header * (option bytes * option bytes))) (h : header) :=
  find (fun e => header_eqb (fst e) h) tab.
Definition tab_hash tab (h : header) : bytes :=
  match tab_find tab h with Some (_, (Some x, _)) => x | _ => [] end.
Definition tab_ecrecover tab (chain : N) (h : header) : option bytes :=
  match tab_find tab h with Some (_, (_, s)) => s | None => None end.

(** * Equality helpers *)
Fixpoint list_eqb {A} (eqb : A -> A -> bool) (a b : list A) : bool :=
  match a, b with
  | [], [] => true
  | x :: a', y :: b' => eqb x y &&& list_eqb eqb a' b'
  | _, _ => false
  end.
Definition opt_eqb {A} (eqb : A -> A -> bool) (a b : option A) : bool :=
  match a, b with Some x, Some y => eqb x y | None, None => true | _, _ => false end.
Definition kv_eqb (a b : bytes * bytes) : bool := bytes_eqb (snd a) (snd b) &&& bytes_eqb (fst a) (fst b).
Definition consv_eqb (a b : N * height * bytes) : bool :=
  key_eqb (snd (fst a)) (snd (fst b)) &&& (fst (fst a) =? fst (fst b)) &&& bytes_eqb (snd a) (snd b).
Definition conse_eqb (a b : bytes * (N * height * bytes)) : bool := consv_eqb (snd a) (snd b) &&& bytes_eqb (fst a) (fst b).

Definition ostate_eqb (a b : ostate) : bool :=
  Bool.eqb (o_exists a) (o_exists b) &&& opt_eqb Nat.eqb (o_head a) (o_head b)
  &&& list_eqb bytes_eqb (o_vals a) (o_vals b) &&& Bool.eqb (o_rest_same a) (o_rest_same b)
  &&& list_eqb kv_eqb (o_recents a) (o_recents b) &&& opt_eqb (list_eqb bytes_eqb) (o_pending a) (o_pending b)
  &&& list_eqb conse_eqb (o_cons a) (o_cons b) &&& (o_other a =? o_other b).

(** * Projection of a model state to the observables *)
Definition render_recents (st : cstore) : list (bytes * bytes) := map (fun e => (recent_key (fst e), snd e)) (recents st).
Definition render_cons (st : cstore) : list (bytes * (N * height * bytes)) :=
  map (fun e => (cons_key (fst e), (cs_time (snd e), cs_height (snd e), cs_root (snd e)))) (cons st).

Definition nth_header (c : ocase) (i : nat) : option header :=
  nth_error (c_header (k_cs c) :: map s_hdr (k_steps c)) i.

(** first difference between a model state and an observed state (0 = none):
    5 head, 6 validators, 7 recent signers, 8 pending validators, 9 consensus states, 11 anything else *)
Definition state_diff (c : ocase) (cs : cstate) (st : cstore) (o : ostate) : nat :=
  if negb (o_exists o && o_rest_same o && (o_other o =? 0)) then 11%nat
  else if negb (match o_head o with
                | Some i => match nth_header c i with Some h => header_eqb h (c_header cs) | None => false end
                | None => false end) then 5%nat
  else if negb (list_eqb bytes_eqb (c_vals cs) (o_vals o)) then 6%nat
  else if negb (list_eqb kv_eqb (render_recents st) (o_recents o)) then 7%nat
  else if negb (opt_eqb (list_eqb bytes_eqb) (pending st) (o_pending o)) then 8%nat
  else if negb (list_eqb conse_eqb (render_cons st) (o_cons o)) then 9%nat
  else 0%nat.

(** * Model vs implementation *)
Section WithOracle.
  Variable tab : list (header * (option bytes * option bytes)).
  Let HH := tab_hash tab.
  Let ER := tab_ecrecover tab.

  (** raw mode: what the harness does around CheckHeaderAndUpdateState (the keeper's two setters, no Status test) *)
  Definition raw_update (bt : N) (cs : cstate) (st : cstore) (h : header) : cstore * result cstate :=
    match check_header_and_update HH ER bt cs st h with
    | (st', ROk (cs', c')) => (set_cons st' (hheight h) c', ROk cs')
    | (st', RErr k) => (st', RErr k)
    | (st', RPanic) => (st', RPanic)
    end.

  Fixpoint cmp_steps (c : ocase) (i : nat) (cs : cstate) (st : cstore) (l : list ostep) : list (nat * nat) :=
    match l with
    | [] => []
    | o :: l' =>
        let '(st', r) := if k_keeper c then update_client HH ER (s_bt o) cs st (s_hdr o)
                         else raw_update (s_bt o) cs st (s_hdr o) in
        if negb (Nat.eqb (rclass r) (s_class o)) then [(i, 3%nat)]
        else if negb (rkind r =? s_kind o) then [(i, 4%nat)]
        else match r with
             | ROk cs' =>
                 match state_diff c cs' st' (s_state o) with
                 | O => cmp_steps c (S i) cs' st' l'
                 | d => [(i, d)]
                 end
             | RErr _ =>
                 (* rejected: the transaction wrapper discards the writes (compared with the committed store) ... *)
                 match state_diff c cs st (s_state o) with
                 | O => (* ... and in raw mode the uncommitted store shows exactly the model's left-over writes *)
                     match s_dirty o with
                     | Some d => if list_eqb kv_eqb (render_recents st') d then cmp_steps c (S i) cs st l' else [(i, 10%nat)]
                     | None => cmp_steps c (S i) cs st l'
                     end
                 | d => [(i, d)]
                 end
             | RPanic =>
                 match state_diff c cs st (s_state o) with
                 | O => cmp_steps c (S i) cs st l'
                 | d => [(i, d)]
                 end
             end
    end.

  Definition cmp_case (c : ocase) : list (nat * nat) :=
    if negb (forallb (fun h => match tab_find tab h with Some _ => true | None => false end)
                     (c_header (k_cs c) :: map s_hdr (k_steps c))) then [(0%nat, 12%nat)]
    else
    let '(st, r) := create_client ER (k_cs c) (k_cons0 c) in
    if negb (Nat.eqb (rclass r) (k_create_class c) && (rkind r =? k_create_kind c)) then [(0%nat, 1%nat)]
    else match r with
         | ROk _ =>
             match state_diff c (k_cs c) st (k_create_state c) with
             | O => cmp_steps c 1 (k_cs c) st (k_steps c)
             | _ => [(0%nat, 2%nat)]
             end
         | _ => if o_exists (k_create_state c) then [(0%nat, 2%nat)] else []
         end.
End WithOracle.

(** * The pre-images of Model/BscRlp.v against the bytes the real code hashes:
    13 block-hash pre-image (rlp of ToBscHeader, empty from number 2^63 on), 14 seal pre-image (encodeSigHeader),
    15 the real hashes are not keccak256 / recovery of the recorded bytes (harness-side fact) *)
Definition pre_diff (chain : N) (h : header) (p : option bytes * option bytes * bool) : list nat :=
  let '(bp, sp, okf) := p in
  (match bp with
   | Some b => if tobsc_ok h &&& bytes_eqb (block_rlp h) b then [] else [13%nat]
   | None => if tobsc_ok h then [13%nat] else []
   end) ++
  (match sp with
   | Some b => if negb (len (h_extra h) <? extraSeal) &&& bytes_eqb (seal_rlp chain h) b then [] else [14%nat]
   | None => if len (h_extra h) <? extraSeal then [] else [14%nat]
   end) ++
  (if okf then [] else [15%nat]).

Fixpoint cmp_pre_aux (chain : N) (i : nat) (hs : list header) (ps : list (option bytes * option bytes * bool)) : list (nat * nat) :=
  match hs, ps with
  | h :: hs', p :: ps' => map (fun k => (i, k)) (pre_diff chain h p) ++ cmp_pre_aux chain (S i) hs' ps'
  | [], [] => []
  | _, _ => [(i, 12%nat)]
  end.
Definition cmp_pre (c : ocase) : list (nat * nat) :=
  cmp_pre_aux (c_chain (k_cs c)) 0 (c_header (k_cs c) :: map s_hdr (k_steps c)) (k_pre c).

Fixpoint number {A} (i : nat) (l : list A) : list (nat * A) :=
  match l with [] => [] | x :: l' => (i, x) :: number (S i) l' end.

(** step index 0 = creation, i = i-th submission (1-based) *)
Definition mismatches (cs : list ocase) : list (nat * (nat * nat)) :=
  flat_map (fun ic => map (fun m => (fst ic, m)) (cmp_case (k_oracle (snd ic)) (snd ic) ++ cmp_pre (snd ic))) (number 0 cs).

(** * Monitor: the property, evaluated on the IMPLEMENTATION's trace alone.
    It never calls the model's step functions; it uses the recorded values of
    the real hash / signer-recovery functions and the observed store contents. *)
Record gentry := { ge_key : height; ge_sealer : bytes; ge_eff : N }.

Record mstate := {
  m_pre : ostate;                  (* observed state before the step *)
  m_head : header;                 (* the header the client state holds *)
  m_chain : list gentry;           (* accepted blocks since creation, newest first (with the genesis block) *)
  m_epoch_extra : bytes            (* extra data of the last accepted epoch header (or the genesis header) *)
}.

Definition nodup_len (vals : list bytes) : N := len (sorted_vals vals).

(** retention limit in force after an accepted block (Parlia semantics of the code) *)
Definition eff_limit (epoch num : N) (pre_vals post_vals : list bytes) : N :=
  let lo := len pre_vals / 2 + 1 in
  if num mod epoch =? len pre_vals / 2 then
    let ln := nodup_len post_vals / 2 + 1 in
    if ln <? lo then ln else len post_vals / 2 + 1
  else lo.

(** entries of the chain that the property forbids the sealer of block [n] to have sealed:
    within the last [limit - 1] blocks and never dropped from the kept window since. *)
Fixpoint in_window_aux (bound : Z) (n limit : N) (ch : list gentry) : list gentry :=
  (* [bound] = max over the later blocks j of (number j - retention limit after j): block k is still kept iff k > bound *)
  match ch with
  | [] => []
  | e :: ch' =>
      let k := snd (ge_key e) in
      if n <? k + limit then
        let rest := in_window_aux (Z.max bound (Z.of_N k - Z.of_N (ge_eff e))) n limit ch' in
        if (bound <? Z.of_N k)%Z then e :: rest else rest
      else []                                     (* the chain is descending: nothing older is within the limit *)
  end.
Definition in_window (n limit : N) (ch : list gentry) : list gentry := in_window_aux (-1)%Z n limit ch.

Definition cons_has (o : ostate) (k : height) : bool :=
  let ck := cons_key k in existsb (fun e => bytes_eqb (fst e) ck) (o_cons o).

(** |a - b| < a / 256, b >= 5000, b <= 2^63 - 1, used <= b in ordinary arithmetic *)
Definition gas_ok (parent_limit limit used : N) : bool :=
  (limit <=? 9223372036854775807) && (used <=? limit) && (minGasLimit <=? limit)
  && ((if limit <=? parent_limit then parent_limit - limit else limit - parent_limit) <? parent_limit / 256).

(** ** The property, conjunct by conjunct, as Boolean functions of plain data (what the monitor evaluates on
    the observed state; Proofs/BscMon.v shows that every step the model accepts passes each of them) *)
Definition mon_link (hash_hd : bytes) (hd h : header) : bool :=
  (h_num h =? add64 (h_num hd) 1) && bytes_eqb (to_hash (h_parent h)) hash_hd.

Definition mon_struct (epoch : N) (hd h : header) : bool :=
  (97 <=? len (h_extra h)) && bytes_eqb (to_hash (h_mix h)) (zeros 32) && bytes_eqb (to_hash (h_uncle h)) uncleHash
  && (if h_num h mod epoch =? 0 then (len (h_extra h) - 97) mod 20 =? 0 else len (h_extra h) =? 97)
  && negb (N_of_bytes (h_diff h) =? 0) && gas_ok (h_gaslimit hd) (h_gaslimit h) (h_gasused h).

Definition mon_seal (rec : option bytes) (vals : list bytes) (h : header) : bool :=
  match rec with
  | Some a => bytes_eqb (to_addr a) (to_addr (h_coinbase h)) && mem (to_addr a) (map to_addr vals)
  | None => false
  end.

Definition mon_window (ch : list gentry) (n limit : N) (sealer : bytes) : list gentry :=
  filter (fun e => bytes_eqb (ge_sealer e) sealer) (in_window n limit ch).

Definition mon_diff (vals : list bytes) (hd h : header) (sealer : bytes) : bool :=
  let sv := sorted_vals vals in
  let turn := match nth_error sv (N.to_nat (add64 (h_num hd) 1 mod len sv)) with
              | Some v => bytes_eqb v sealer | None => false end in
  N_of_bytes (h_diff h) =? (if turn then 2 else 1).

Definition mon_vals (epoch : N) (h : header) (pre_vals post_vals : list bytes) (epoch_extra : bytes) : bool :=
  if h_num h mod epoch =? len pre_vals / 2 then list_eqb bytes_eqb post_vals (parse_validators epoch_extra)
  else list_eqb bytes_eqb post_vals pre_vals.

Definition mon_pending (post_pending : option (list bytes)) (epoch_extra : bytes) : bool :=
  opt_eqb (list_eqb bytes_eqb) post_pending (pend_of (parse_validators epoch_extra)).

Section Monitor.
  Variable tab : list (header * (option bytes * option bytes)).
  Variable cs0 : cstate.             (* the client state as created *)

  (** both lists are in store order; [post] must be [pre] with at most one entry removed (the pruned one, which
      must have been expired) and the entry under [newkey] added / replaced.  Linear walk. *)
  Fixpoint cons_walk (newkey : bytes) (pre post : list (bytes * (N * height * bytes))) (removed : list (bytes * (N * height * bytes)))
    : option (list (bytes * (N * height * bytes))) :=
    match pre with
    | [] => if forallb (fun f => bytes_eqb (fst f) newkey) post then Some removed else None
    | e :: pre' =>
        (fix inner (post : list (bytes * (N * height * bytes))) : option (list (bytes * (N * height * bytes))) :=
           match post with
           | [] => cons_walk newkey pre' [] (e :: removed)
           | f :: post' =>
               if conse_eqb e f then cons_walk newkey pre' post' removed
               else if bytes_eqb (fst f) newkey then inner post'
               else cons_walk newkey pre' post (e :: removed)
           end) post
    end.

  Definition removed_ok (bt : N) (pre post : ostate) (newkey : bytes) : bool :=
    match cons_walk newkey (o_cons pre) (o_cons post) [] with
    | Some [] => true
    | Some [e] => (add64 (fst (fst (snd e))) (c_trust cs0) <? bt) || bytes_eqb (fst e) newkey
    | Some [e1; e2] => ((add64 (fst (fst (snd e1))) (c_trust cs0) <? bt) && bytes_eqb (fst e2) newkey)
                       || ((add64 (fst (fst (snd e2))) (c_trust cs0) <? bt) && bytes_eqb (fst e1) newkey)
    | _ => false
    end.

  (** kinds: 21 parent link / head, 22 structure, 23 seal / membership, 24 recent-signer window,
      25 difficulty vs turn, 26 validator-set change, 27 pending set, 28 consensus states, 29 a rejected
      submission changed the state, 30 recent-signer store gained a foreign entry,
      41 window violated with number < limit (the unsigned wrap repaired by c10316e), 42 window violated for a
      block whose consensus state had been pruned (repaired by 5f05f37) *)
  Definition mon_accept (i : nat) (ms : mstate) (o : ostep) : list nat :=
    let pre := m_pre ms in let post := s_state o in let h := s_hdr o in let hd := m_head ms in
    let epoch := c_epoch cs0 in
    let n := h_num h in
    let rec := tab_ecrecover tab 0 h in
    let sealer := match rec with Some a => to_addr a | None => [] end in
    let e_link := negb (mon_link (tab_hash tab hd) hd h && opt_eqb Nat.eqb (o_head post) (Some i)) in
    let e_struct := negb (mon_struct epoch hd h) in
    let e_seal := negb (mon_seal rec (o_vals pre) h) in
    let limit := nodup_len (o_vals pre) / 2 + 1 in
    let bad := mon_window (m_chain ms) n limit sealer in
    let e_window := match bad with
                    | [] => 0%nat
                    | _ => if n <? limit then 41%nat
                           else if forallb (fun e => negb (cons_has pre (ge_key e))) bad then 42%nat
                           else 24%nat
                    end in
    let e_diff := negb (mon_diff (o_vals pre) hd h sealer) in
    let epoch_extra := if n mod epoch =? 0 then h_extra h else m_epoch_extra ms in
    let e_vals := negb (mon_vals epoch h (o_vals pre) (o_vals post) epoch_extra) in
    let e_pending := negb (mon_pending (o_pending post) epoch_extra) in
    let newkey := cons_key (hheight h) in
    let e_cons := negb (existsb (conse_eqb (newkey, (h_time h, hheight h, h_root h))) (o_cons post)
                        && removed_ok (s_bt o) pre post newkey) in
    let e_rec := negb (forallb (fun e => existsb (kv_eqb e) (o_recents pre)
                                         || kv_eqb e (recent_key (hheight h), sealer)) (o_recents post)
                       && o_exists post && o_rest_same post && (o_other post =? 0)) in
    (if e_link then [21%nat] else []) ++ (if e_struct then [22%nat] else []) ++ (if e_seal then [23%nat] else [])
    ++ (match e_window with O => [] | k => [k] end) ++ (if e_diff then [25%nat] else [])
    ++ (if e_vals then [26%nat] else []) ++ (if e_pending then [27%nat] else []) ++ (if e_cons then [28%nat] else [])
    ++ (if e_rec then [30%nat] else []).

  Definition mon_next (ms : mstate) (o : ostep) : mstate :=
    let h := s_hdr o in
    let sealer := match tab_ecrecover tab 0 h with Some a => to_addr a | None => [] end in
    {| m_pre := s_state o; m_head := h;
       m_chain := {| ge_key := hheight h; ge_sealer := sealer;
                     ge_eff := eff_limit (c_epoch cs0) (h_num h) (o_vals (m_pre ms)) (o_vals (s_state o)) |} :: m_chain ms;
       m_epoch_extra := if h_num h mod c_epoch cs0 =? 0 then h_extra h else m_epoch_extra ms |}.

  Fixpoint mon_steps (i : nat) (ms : mstate) (l : list ostep) : list (nat * nat) :=
    match l with
    | [] => []
    | o :: l' =>
        match s_class o with
        | O => map (fun k => (i, k)) (mon_accept i ms o) ++ mon_steps (S i) (mon_next ms o) l'
        | _ => (if ostate_eqb (m_pre ms) (s_state o) then [] else [(i, 29%nat)])
               ++ mon_steps (S i) {| m_pre := s_state o; m_head := m_head ms; m_chain := m_chain ms;
                                     m_epoch_extra := m_epoch_extra ms |} l'
        end
    end.
End Monitor.

Definition mon_case (c : ocase) : list (nat * nat) :=
  match k_create_class c with
  | O =>
      let g := c_header (k_cs c) in
      let sealer := match tab_ecrecover (k_oracle c) 0 g with Some a => to_addr a | None => [] end in
      mon_steps (k_oracle c) (k_cs c) 1
        {| m_pre := k_create_state c; m_head := g;
           m_chain := [{| ge_key := hheight g; ge_sealer := sealer; ge_eff := len (c_vals (k_cs c)) / 2 + 1 |}];
           m_epoch_extra := h_extra g |} (k_steps c)
  | _ => if o_exists (k_create_state c) then [(0%nat, 29%nat)] else []
  end.

Definition monitor_failures (cs : list ocase) : list (nat * (nat * nat)) :=
  flat_map (fun ic => map (fun m => (fst ic, m)) (mon_case (snd ic))) (number 0 cs).
