(** Concrete external token contracts used by the C11 correspondence runs and by the refutations: an
    instance of the oracle ([X], [xcall], [xcontract]) of Model/Convert.v.

    kind 2  ERC20MinterBurnerDecimals deployed by a user (syscontracts/contracts_src, honest)
    kind 3  ERC20MaliciousDelayed     (transfer first emits an Approval for a thief)
    kind 4  ERC20DirectBalanceManipulation (transfer sends half to a thief)
    kind 5  AdvToken, the hand-assembled configurable token of harness/cmd/c11/advtoken.go:
            storage slot(address) = balance; slots 0..9 = totalSupply, senderFee, receiverFee, retMode, logMode,
            balMode (3: balanceOf reverts for lieAddr only), lie, lieAddr, lieStep, fakeCredit.  All arithmetic wraps modulo 2^256 like the EVM's. *)
From Teleport Require Import Base.Bytes Base.Outcome Model.Convert.
Local Open Scope Z_scope.

Record etoken := {
  et_kind : Z;
  et_owner : Z;          (* deployer = holder of the minter role (kinds 2-4) *)
  et_alive : bool;       (* false after SELFDESTRUCT *)
  et_std : std_token;    (* kinds 2-4 *)
  et_store : zmap        (* kind 5: the raw storage *)
}.

Definition xstate := list (Z * etoken).

Definition THIEF : Z := 0x4dC6ac40Af078661fc43823086E1513635Eeab14.
Definition w256 (x : Z) : Z := x mod W256.

(** ERC20PresetMinterPauser has mint / burn / transfer / balanceOf but no burnCoins *)
Definition delayed_call (owner : Z) (t : std_token) (caller : Z) (cl : call) : std_token * cres :=
  match cl with
  | CBurnCoins _ _ => (t, cfail)
  | CTransfer _ _ =>
      let '(t', r) := std_call owner t caller cl in
      if cr_ok r then (t', cok (Some 1) [LApproval; LOther]) else (t, cfail)
  | CBalanceOf _ | CMint _ _ | CBurn _ => std_call owner t caller cl
  | _ => (t, cfail)          (* allowance functions of the malicious contracts: not modelled, never exercised *)
  end.

Definition manip_call (owner : Z) (t : std_token) (caller : Z) (cl : call) : std_token * cres :=
  match cl with
  | CBurnCoins _ _ => (t, cfail)
  | CTransfer to amt =>
      if amt <? 0 then (t, cfail) else
      let half := amt / 2 in
      let '(t1, r1) := std_call owner t caller (CTransfer THIEF (amt - half)) in
      if negb (cr_ok r1) then (t, cfail) else
      let '(t2, r2) := std_call owner t1 caller (CTransfer to half) in
      if negb (cr_ok r2) then (t, cfail) else (t2, cok (Some 1) [LOther; LOther])
  | CBalanceOf _ | CMint _ _ | CBurn _ => std_call owner t caller cl
  | _ => (t, cfail)
  end.

Definition adv_call (st : zmap) (caller : Z) (cl : call) : zmap * cres :=
  match cl with
  | CBalanceOf a =>
      let mode := zget st 5 in
      if mode =? 1 then (st, cfail)
      else if mode =? 2 then (st, cok None [])
      else if (mode =? 3) && (a =? zget st 7) then (st, cfail)
      else
        let bal := zget st a in
        if a =? zget st 7
        then let lie := zget st 6 in (zset st 6 (w256 (lie + zget st 8)), cok (Some (w256 (bal + lie))) [])
        else (st, cok (Some bal) [])
  | CTransfer to amt =>
      if zget st 3 =? 2 then (st, cfail) else
      let moved :=
        if negb (zget st 9 =? 0) then Some (zset st 6 (w256 (amt + zget st 6)))
        else
          let debit := w256 (amt + zget st 1) in
          let sb := zget st caller in
          if sb <? debit then None
          else
            let sta := zset st caller (sb - debit) in
            let rfee := zget sta 2 in
            let credit := if amt <? rfee then 0 else amt - rfee in
            Some (zset sta to (w256 (zget sta to + credit))) in
      match moved with
      | None => (st, cfail)
      | Some st1 =>
          let lm := zget st1 4 in
          let logs := if lm =? 1 then [LApproval; LOther]
                      else if lm =? 2 then [LNoTopic; LOther]
                      else if lm =? 3 then [] else [LOther] in
          let rm := zget st1 3 in
          let ret := if rm =? 1 then Some 0 else if rm =? 3 then None else if rm =? 4 then Some 2 else Some 1 in
          (st1, cok ret logs)
      end
  | _ => (st, cfail)   (* unknown selector: revert *)
  end.

Definition et_set_std (t : etoken) (s : std_token) : etoken :=
  {| et_kind := et_kind t; et_owner := et_owner t; et_alive := et_alive t; et_std := s; et_store := et_store t |}.
Definition et_set_store (t : etoken) (s : zmap) : etoken :=
  {| et_kind := et_kind t; et_owner := et_owner t; et_alive := et_alive t; et_std := et_std t; et_store := s |}.

Definition etoken_call (t : etoken) (caller : Z) (cl : call) : etoken * cres :=
  if negb (et_alive t) then (t, cok None [])     (* no code: the call succeeds and returns nothing *)
  else if et_kind t =? 5 then let '(s, r) := adv_call (et_store t) caller cl in (et_set_store t s, r)
  else if et_kind t =? 4 then let '(s, r) := manip_call (et_owner t) (et_std t) caller cl in (et_set_std t s, r)
  else if et_kind t =? 3 then let '(s, r) := delayed_call (et_owner t) (et_std t) caller cl in (et_set_std t s, r)
  else let '(s, r) := std_call (et_owner t) (et_std t) caller cl in (et_set_std t s, r).

Definition xcall0 (x : xstate) (c caller : Z) (cl : call) : xstate * cres :=
  match afind Z.eqb x c with
  | None => (x, cok None [])
  | Some t => let '(t', r) := etoken_call t caller cl in (aset x c t', r)
  end.

Definition xcontract0 (x : xstate) (c : Z) : bool :=
  match afind Z.eqb x c with Some t => et_alive t | None => false end.

(** * A plain ERC-20 (balanceOf / transfer only, OpenZeppelin ERC20 without mint or burn entry points): the instance
    of the oracle used to show that the hypotheses of the voucher-backing theorem are satisfiable
    (Props/C11.v, Proofs/ConvertPlain.v). *)
Definition pstate := list (Z * zmap).      (* contract -> balances *)

Definition plain_call (x : pstate) (c caller : Z) (cl : call) : pstate * cres :=
  match afind Z.eqb x c with
  | None => (x, cfail)
  | Some bal =>
      match cl with
      | CBalanceOf a => (x, cok (Some (zget bal a)) [])
      | CTransfer to amt =>
          if (amt <? 0) || (caller =? 0) || (to =? 0) || (zget bal caller <? amt) then (x, cfail)
          else let b1 := zset bal caller (zget bal caller - amt) in
               (aset x c (zset b1 to (zget b1 to + amt)), cok (Some 1) [LOther])
      | _ => (x, cfail)
      end
  end.

Definition plain_contract (x : pstate) (c : Z) : bool :=
  match afind Z.eqb x c with Some _ => true | None => false end.

Definition plain_ledger (x : pstate) (c h : Z) : Z :=
  match afind Z.eqb x c with Some bal => zget bal h | None => 0 end.

(** * ERC20MinterBurnerDecimals deployed by a USER and registered as an external pair: balanceOf is an honest view,
    but the deployer holds BURNER_ROLE and can burn anybody's tokens, the module's escrow included
    (Refuted/C11_refuted.v: [others_cannot_debit] is necessary). *)
Definition ustate := list (Z * std_token).

Definition user_std_call (owner : Z) (x : ustate) (c caller : Z) (cl : call) : ustate * cres :=
  match afind Z.eqb x c with
  | None => (x, cfail)
  | Some t =>
      match cl with
      | CBalanceOf a => (x, cok (Some (zget (st_bal t) a)) [])
      | _ => let '(t', r) := std_call owner t caller cl in if cr_ok r then (aset x c t', r) else (x, cfail)
      end
  end.

Definition user_std_contract (x : ustate) (c : Z) : bool :=
  match afind Z.eqb x c with Some _ => true | None => false end.

Definition user_std_ledger (x : ustate) (c h : Z) : Z :=
  match afind Z.eqb x c with Some t => zget (st_bal t) h | None => 0 end.
