(** Correspondence and monitor definitions for C20, evaluated by [vm_compute]
    on the histories the harness ran on the real code (no proofs here). *)
From Teleport Require Import Base.Bytes Base.Outcome Model.Rvesting.
Local Open Scope Z_scope.

Record ostep := {
  os_block : block;              (* attempted parameter changes before the block *)
  os_rew_class : nat;            (* observed: 9 none, 0 accepted, 1 rejected, 2 panic *)
  os_class : nat;                (* observed BeginBlocker outcome: 0 returned, 2 panicked *)
  os_pool : list Z;              (* observed pool balances after, one per [h_denoms] *)
  os_fee : list Z;               (* observed fee-collector balances after *)
  os_rest_same : bool            (* observed: all other balances and the supply unchanged *)
}.

Record hist := { h_pool : balmap; h_fee : balmap; h_denoms : list bytes; h_steps : list ostep }.

Definition default_params : params :=
  {| enable := false; rewards := [(B "atele", 100000000000000000)] |}.

Fixpoint list_Z_eqb (a b : list Z) : bool :=
  match a, b with
  | [], [] => true
  | x :: a', y :: b' => (x =? y) && list_Z_eqb a' b'
  | _, _ => false
  end.

Definition proj (m : balmap) (ds : list bytes) : list Z := map (get m) ds.

(** ** Model vs implementation.  Kinds: 1 validation acceptance differs,
    2 BeginBlocker outcome class differs, 3 balances differ. *)
Fixpoint cmp_steps (ds : list bytes) (i : nat) (p : params) (s : state) (l : list ostep) : list (nat * nat) :=
  match l with
  | [] => []
  | o :: l' =>
      let b := os_block o in
      let vmis := match set_rewards b with
                  | Some r => negb (Nat.eqb (os_rew_class o) (if validate_rewards r then 0 else 1))
                  | None => negb (Nat.eqb (os_rew_class o) 9)
                  end in
      if vmis then [(i, 1%nat)] else
      let p' := apply_change p b in
      match begin_block p' s with
      | Ok s' =>
          if negb (Nat.eqb (os_class o) 0) then [(i, 2%nat)]
          else if negb (list_Z_eqb (proj (pool s') ds) (os_pool o) && list_Z_eqb (proj (fee s') ds) (os_fee o))
               then [(i, 3%nat)]
               else cmp_steps ds (S i) p' s' l'
      | _ => if Nat.eqb (os_class o) 2 then [] else [(i, 2%nat)]
      end
  end.

Definition cmp_hist (h : hist) : list (nat * nat) :=
  cmp_steps (h_denoms h) 0 default_params
    {| pool := h_pool h; fee := h_fee h; others := []; supply := [] |} (h_steps h).

Fixpoint number {A} (i : nat) (l : list A) : list (nat * A) :=
  match l with [] => [] | x :: l' => (i, x) :: number (S i) l' end.

Definition mismatches (hs : list hist) : list (nat * (nat * nat)) :=
  flat_map (fun ih => map (fun m => (fst ih, m)) (cmp_hist (snd ih))) (number 0 hs).

(** ** Monitor: the property itself, evaluated on the implementation's trace
    alone.  The parameters in force are those the real code accepted.
    Kinds: 11 BeginBlocker panicked (or a change panicked), 12 something other
    than pool / fee collector changed, 13 wrong amount moved. *)
Definition expected_move (p : params) (prepool : Z) (d : bytes) : Z :=
  if enable p then Z.min (reward_of (rewards p) d) prepool else 0.

Fixpoint check_amounts (p : params) (ds : list bytes) (pre_pool pre_fee post_pool post_fee : list Z) : bool :=
  match ds, pre_pool, pre_fee, post_pool, post_fee with
  | [], [], [], [], [] => true
  | d :: ds', a :: pp, f :: pf, a' :: qp, f' :: qf =>
      let m := expected_move p a d in
      (a' =? a - m) && (f' =? f + m) && (0 <=? a') && check_amounts p ds' pp pf qp qf
  | _, _, _, _, _ => false
  end.

Definition observed_change (p : params) (o : ostep) : params :=
  let b := os_block o in
  let p1 := match set_rewards b with
            | Some r => if Nat.eqb (os_rew_class o) 0 then {| enable := enable p; rewards := r |} else p
            | None => p end in
  match set_enable b with
  | Some e => {| enable := e; rewards := rewards p1 |}
  | None => p1
  end.

Fixpoint mon_steps (ds : list bytes) (i : nat) (p : params) (pre_pool pre_fee : list Z) (l : list ostep) : list (nat * nat) :=
  match l with
  | [] => []
  | o :: l' =>
      if Nat.eqb (os_rew_class o) 2 then [(i, 11%nat)] else
      let p' := observed_change p o in
      if negb (Nat.eqb (os_class o) 0) then [(i, 11%nat)]
      else if negb (os_rest_same o) then [(i, 12%nat)]
      else if negb (check_amounts p' ds pre_pool pre_fee (os_pool o) (os_fee o)) then [(i, 13%nat)]
      else mon_steps ds (S i) p' (os_pool o) (os_fee o) l'
  end.

Definition mon_hist (h : hist) : list (nat * nat) :=
  mon_steps (h_denoms h) 0 default_params (proj (h_pool h) (h_denoms h)) (proj (h_fee h) (h_denoms h)) (h_steps h).

Definition monitor_failures (hs : list hist) : list (nat * (nat * nat)) :=
  flat_map (fun ih => map (fun m => (fst ih, m)) (mon_hist (snd ih))) (number 0 hs).

(** Number of steps in which vesting was enabled and something moved (non-trivial). *)
