(** Correspondence and monitor definitions for C08, evaluated by [vm_compute] on the cases the harness
    (harness/cmd/c08) ran on the real ETH and BSC light clients.  No proofs here. *)
From Teleport Require Import Base.Bytes Base.Outcome Model.EvmProof.
Local Open Scope N_scope.

(** One call of [VerifyPacketCommitment] / [VerifyPacketAcknowledgement] on both copies. *)
Record ecase := {
  c_ack : bool;
  c_head : height;
  c_eth_delay : N;                         (* ETH ClientState.BlockDelay *)
  c_bsc_vals : N;                          (* BSC len(ClientState.Validators) *)
  c_contract : bytes;
  c_store : list (bytes * option bytes);   (* client store dump: key, Root of the decoded consensus state (None: undecodable) *)
  c_height : option height;                (* None: nil exported.Height *)
  c_proof : option bytes;                  (* None: nil slice.  Long proofs are represented by a digest: the model only
                                              passes the bytes to the [json_proof] oracle *)
  c_src : bytes; c_dst : bytes; c_seq : N;
  c_commitment : bytes;
  (* oracle tables filled by the harness with the real functions *)
  c_json : option proof_rec;               (* encoding/json Unmarshal of the proof bytes into the real Proof struct *)
  c_keccak : list (bytes * bytes);         (* crypto.Keccak256 *)
  c_mpt : list (bytes * bytes * list bytes * option bytes);  (* trie.VerifyProof *)
  c_copies_agree : bool;                   (* the ETH and BSC copies decode the JSON and the store identically *)
  (* observed *)
  c_eth_class : nat;                       (* 0 ok, 1 error, 2 panic *)
  c_bsc_class : nat;
  (* ground truth of the generated world, for the monitor *)
  c_honest : bool;                         (* generator: honest rendering of an honest proof of the call's slot *)
  c_gt_word : option bytes                 (* the 32-byte word the world whose root is stored at the proof height holds at
                                              slot(path) of the configured contract (None: nothing stored / unknown root /
                                              no such account / slot empty) *)
}.

(** Transport encoding of the case literals (tools/py/props/c08.py): a record string that is exactly "0x" followed
    by the lower-case hex digits of a byte string [l] is written [hex0x_lit l]. *)
Definition hexdigit_lit (d : N) : byte := byte_of_N (if d <? 10 then 48 + d else 87 + d).
Definition hex0x_lit (l : bytes) : bytes :=
  x30 :: x78 :: flat_map (fun b => [hexdigit_lit (nb b / 16); hexdigit_lit (nb b mod 16)]) l.

Fixpoint list_bytes_eqb (a b : list bytes) : bool :=
  match a, b with
  | [], [] => true
  | x :: a', y :: b' => bytes_eqb x y && list_bytes_eqb a' b'
  | _, _ => false
  end.

Fixpoint assoc {A} (k : bytes) (l : list (bytes * A)) : option A :=
  match l with
  | [] => None
  | (k', v) :: l' => if bytes_eqb k k' then Some v else assoc k l'
  end.

Fixpoint mpt_assoc (root key : bytes) (nodes : list bytes) (l : list (bytes * bytes * list bytes * option bytes))
  : option (option bytes) :=
  match l with
  | [] => None
  | (r, k, ns, v) :: l' =>
      if bytes_eqb root r && bytes_eqb key k && list_bytes_eqb nodes ns then Some v else mpt_assoc root key nodes l'
  end.

(** Table oracles.  A miss yields a harmless default; misses are detected separately through [queries]. *)
Definition keccak_of (c : ecase) (x : bytes) : bytes :=
  match assoc x (c_keccak c) with Some h => h | None => [] end.

Definition mpt_of (c : ecase) (root key : bytes) (nodes : list bytes) : option bytes :=
  match mpt_assoc root key nodes (c_mpt c) with Some v => v | None => None end.

Definition json_of (c : ecase) (p : bytes) : option proof_rec :=
  match c_proof c with
  | Some p' => if bytes_eqb p p' then c_json c else None
  | None => None
  end.

Definition cstore_of (c : ecase) (k : bytes) : cons_entry :=
  match assoc k (c_store c) with
  | None => ConsAbsent
  | Some None => ConsBad
  | Some (Some r) => ConsRoot r
  end.

Definition cs_of (c : ecase) (k : client_kind) : client_state :=
  {| cs_kind := k; cs_head := c_head c; cs_contract := c_contract c;
     cs_block_delay := c_eth_delay c; cs_nvalidators := c_bsc_vals c |}.

Definition model_class (c : ecase) (k : client_kind) : nat :=
  oclass (verify (keccak_of c) (mpt_of c) (json_of c) (cs_of c k) (cstore_of c) (c_height c) (c_proof c)
                 (c_ack c) (c_src c) (c_dst c) (c_seq c) (c_commitment c)).

Definition in_tables (c : ecase) (q : query) : bool :=
  match q with
  | QKeccak x => match assoc x (c_keccak c) with Some _ => true | None => false end
  | QMpt r k ns => match mpt_assoc r k ns (c_mpt c) with Some _ => true | None => false end
  | QJson p => match c_proof c with Some p' => bytes_eqb p p' | None => false end
  end.

Definition oracle_miss (c : ecase) (k : client_kind) : bool :=
  negb (forallb (in_tables c)
          (queries (keccak_of c) (mpt_of c) (json_of c) (cs_of c k) (cstore_of c) (c_height c) (c_proof c)
                   (c_ack c) (c_src c) (c_dst c) (c_seq c))).

(** ** Model vs implementation.  Step 0 = ETH copy, step 1 = BSC copy.
    Kinds: 1 outcome class differs; 3 the two Go copies disagree on an oracle (JSON / store decoding);
    9 the model asked an oracle something the harness did not tabulate. *)
Definition cmp_case (c : ecase) : list (nat * nat) :=
  (if c_copies_agree c then [] else [(0%nat, 3%nat)]) ++
  (if oracle_miss c ETH then [(0%nat, 9%nat)]
   else if Nat.eqb (model_class c ETH) (c_eth_class c) then [] else [(0%nat, 1%nat)]) ++
  (if oracle_miss c BSC then [(1%nat, 9%nat)]
   else if Nat.eqb (model_class c BSC) (c_bsc_class c) then [] else [(1%nat, 1%nat)]).

Fixpoint number {A} (i : nat) (l : list A) : list (nat * A) :=
  match l with [] => [] | x :: l' => (i, x) :: number (S i) l' end.

Definition mismatches (cs : list ecase) : list (nat * (nat * nat)) :=
  flat_map (fun ic => map (fun m => (fst ic, m)) (cmp_case (snd ic))) (number 0 cs).

(** ** Monitor: the property on the implementation's observed outcome and the harness's ground truth
    only (no use of [verify]).
    Kinds: 21 accepted although the proof's revision height is above the head's or fewer than the
    required confirmation blocks separate them (numerically); 22 accepted although the world whose root
    is stored at the proof height does not hold this 32-byte value at the slot of this path in the
    configured contract; 23 an honest proof of a held value, same revision as the head, confirmations
    passed, was not accepted; 24 accepted although the decoded proof record does not carry exactly one
    storage proof. *)
Definition numeric_ok (c : ecase) (delay : N) : bool :=
  match c_height c with
  | Some h => (rh h <=? rh (c_head c)) && (delay <=? rh (c_head c) - rh h)
  | None => false
  end.

Definition same_revision (c : ecase) : bool :=
  match c_height c with Some h => rn h =? rn (c_head c) | None => false end.

Definition gt_holds (c : ecase) : bool :=
  match c_gt_word c with Some w => bytes_eqb w (c_commitment c) | None => false end.

(** the decoded proof record carries exactly one (non-null) storage proof *)
Definition one_storage_proof (c : ecase) : bool :=
  match c_json c with
  | Some r => match p_storage_proof r with [Some _] => true | _ => false end
  | None => false
  end.

Definition accept_ok (c : ecase) (delay : N) : list nat :=
  (if numeric_ok c delay then [] else [21%nat]) ++
  (if Nat.eqb (length (c_commitment c)) 32 && negb (gt_holds c) then [22%nat] else []) ++
  (if one_storage_proof c then [] else [24%nat]).

Definition mon_copy (c : ecase) (delay : N) (class : nat) : list nat :=
  if Nat.eqb class 0 then accept_ok c delay
  else if c_honest c && gt_holds c && same_revision c && numeric_ok c delay
          && match c_proof c with Some _ => true | None => false end
       then [23%nat] else [].

Definition mon_case (c : ecase) : list (nat * nat) :=
  map (fun k => (0%nat, k)) (mon_copy c (delay_block (cs_of c ETH)) (c_eth_class c)) ++
  map (fun k => (1%nat, k)) (mon_copy c (delay_block (cs_of c BSC)) (c_bsc_class c)).

Definition monitor_failures (cs : list ecase) : list (nat * (nat * nat)) :=
  flat_map (fun ic => map (fun m => (fst ic, m)) (mon_case (snd ic))) (number 0 cs).

(** Statistics printed into the evidence: the model's verdict per copy. *)
Definition model_classes (cs : list ecase) : list (nat * nat) :=
  map (fun c => (model_class c ETH, model_class c BSC)) cs.
