(** Types of the terms that tools/gotocoq/rvesting regenerates from the Go source of x/rvesting and
    app/app.go (Gen/RvestingGen.v).  Hand-written, no repo content; the interpretation of these terms is in
    Model/RvestingParams.v and Model/RvestingWorld.v, the generic lemmas in Proofs/RvestingParams.v. *)
From Teleport Require Import Base.Bytes.

(** Guards of [validatePerBlockReward] before the loop (each one rejects). *)
Inductive lguard :=
| LTypeCoins                      (* r.(sdk.Coins) type assertion failed *)
| LEmpty                          (* len(reward) == 0 *)
| LUnknown (src : bytes).         (* a rejecting statement the translator does not know *)

(** Guards inside [for _, rr := range reward] (each one rejects the whole list), in source order. *)
Inductive cguard :=
| GEmptyDenom                     (* len(rr.Denom) == 0 *)
| GValidDenom                     (* sdk.ValidateDenom(rr.Denom) != nil *)
| GNilAmount                      (* rr.Amount.IsNil() *)
| GNegative                       (* rr.IsNegative()   -- panics on a nil amount *)
| GDuplicate                      (* denomination seen before in this list *)
| GUnknown (src : bytes).

(** Validator function of a ParamSetPair. *)
Inductive pvalidator :=
| VAcceptAll                      (* func(value interface{}) error { return nil } *)
| VRewards                        (* validatePerBlockReward *)
| VOther (name : bytes).

Inductive ptype := TBool | TCoins | TOtherType (name : bytes).

Record ppair := { pp_key : bytes; pp_field : bytes; pp_type : ptype; pp_validator : pvalidator }.

(** Shape of [Params.validate]. *)
Inductive pvshape :=
| PVAlways                        (* return validatePerBlockReward(m.PerBlockReward) *)
| PVIfEnabled                     (* only when m.EnableVesting *)
| PVUnknown.

(** Steps of [ValidateGenesis] (helpers inlined); the Boolean says the step is evaluated only when From is not empty. *)
Inductive gvstep :=
| GVParams                        (* data.Params.validate() *)
| GVBech32                        (* sdk.AccAddressFromBech32(data.From) *)
| GVInitCoins                     (* data.InitReward.Validate() *)
| GVUnknown (src : bytes).

(** Statements of keeper.InitGenesis in evaluation order, helpers inlined; in the regenerated list each one carries a
    Boolean: true = executed only when From is not empty (an early `return` on an empty From and a block guarded by
    `From != ""` give the same list). *)
Inductive istep :=
| ISetParams                      (* k.SetParams(ctx, genesisState.Params) *)
| IParseFrom                      (* AccAddressFromBech32(From); panic(err) *)
| ISendToModule (module : bytes)  (* bank.SendCoinsFromAccountToModule(from, module, InitReward); panic(err) *)
| IUnknown (src : bytes).

(** What keeper.ExportGenesis returns. *)
Inductive eshape :=
| EParamsOnly                     (* types.NewGenesisState(k.GetParams(ctx)), NewGenesisState leaving From "" / InitReward empty *)
| EUnknown.

(** Module-account permission row of app.go's maccPerms (names are the Go selectors, e.g.
    "rvestingtypes.ModuleName"; permissions e.g. "authtypes.Minter"). *)
Record macc := { ma_name : bytes; ma_perms : list bytes }.
