(** Correspondence and monitor definitions for C19, evaluated by [vm_compute] on
    the cases the harness (harness/cmd/c19) ran on the real code.  No proofs.
    [mismatches]: model vs implementation.  [monitor_failures]: the property
    itself evaluated on the implementation's observations alone. *)
From Teleport Require Import Base.Bytes Base.Outcome Base.Fmt Base.AbiSchema Gen.KeysGen Gen.KeysIterGen Gen.AbiSchemaGen
  Model.Keys Model.Abi.
Local Open Scope N_scope.

(** * Case records *)

(** [cl_eth]: (root, header hash, height) entries of an eth client; [cl_raw]: raw
    metadata keys imported through SetAllClientMetadata (written last) *)
Record cl_spec := { cl_name : bytes; cl_type : nat (* 0 tm, 1 bsc, 2 eth *); cl_heights : list height;
                    cl_signers : list height; cl_pending : bool;
                    cl_eth : list (bytes * bytes * N); cl_raw : list bytes }.

Record iter_spec := { is_clients : list cl_spec; is_commit : list triple; is_acks : list triple;
                      is_receipts : list triple; is_nextseq : list triple; is_relayers : list bytes;
                      is_bypath : list (bytes * bytes);
                      is_prelayers : list triple (* SetPacketRelayer entries; entry i holds the value "relayer-<i>" *) }.

(** a stored entry: (key, value); a recorded write: (tag, entry) with tag 1
    processed time, 2 iteration key, 3 recent signer, 4 pending validators,
    5 eth header index, 6 eth root main, 7 raw import *)
Definition entry := (bytes * bytes)%type.

Record cl_obs := { co_keys : list bytes; co_ptime : nat * list entry; co_tm_asc : nat * list height;
                   co_evm_asc : nat * list height; co_eth_asc : nat * list height; co_signers : nat * list height;
                   co_written : list (nat * entry);
                   co_exp_tm : nat * list entry; co_exp_bsc : nat * list entry; co_exp_eth : nat * list entry;
                   co_signers_left : nat * list bytes (* after DeleteAllSigner on a branch of the store *) }.

Record iter_obs := { io_base : list bytes; io_keys : list bytes; io_cons : nat * list (bytes * height);
                     io_clients : nat * list bytes; io_per : list cl_obs;
                     io_commit : nat * list triple; io_acks : nat * list triple; io_receipts : nat * list triple;
                     io_nextseq : nat * list triple; io_relayers : nat * nat;
                     io_allmeta : nat * list (bytes * list entry); io_bypath : list (nat * list triple);
                     io_prelayers : nat * list bytes (* GetPacketRelayer of every written triple, in order *) }.

Inductive ccase :=
| CAbi (ty : nat) (fields : list fval) (enc_class : nat) (enc : bytes) (dec_class : nat) (dec : list fval)
       (reenc_class : nat) (reenc : bytes) (commit_is_sha : bool)
| CAbiRaw (ty : nat) (input : bytes) (dec_class : nat) (dec : list fval) (reenc_class : nat) (reenc : bytes)
          (redec_class : nat) (redec : list fval)
| CCommit (p q : list fval) (cp cq enc_p enc_q : bytes)
| CKey (id : nat) (f : fmt) (hashed : bool) (a : args) (class : nat) (out pre : bytes)
| CName (s : bytes) (client src dst : bool)
| CParse (fn : nat) (input : bytes) (class : nat) (out : list fval)
| CIter (sp : iter_spec) (ob : iter_obs)
(* packet bytes EMITTED BY THE PACKET CONTRACT in a real cross-chain call, and the transfer / call data inside *)
| CContract (emitted : bytes) (dc : nat) (d : list fval) (rc : nat) (r : bytes)
            (traw : bytes) (tdc : nat) (td : list fval) (trc : nat) (tr : bytes)
            (craw : bytes) (cdc : nat) (cd : list fval) (crc : nat) (cr : bytes).

(** * Equality tests *)

Definition fval_eqb (a b : fval) : bool :=
  match a, b with
  | FU x, FU y => x =? y
  | FS x, FS y => bytes_eqb x y
  | FB x, FB y => bytes_eqb x y
  | _, _ => false
  end.

Fixpoint list_eqb {A} (e : A -> A -> bool) (a b : list A) : bool :=
  match a, b with
  | [], [] => true
  | x :: a', y :: b' => e x y && list_eqb e a' b'
  | _, _ => false
  end.

Definition fvals_eqb := list_eqb fval_eqb.
Definition height_eqb (a b : height) : bool := (rev_number a =? rev_number b) && (rev_height a =? rev_height b).
Definition triple_eqb (a b : triple) : bool :=
  bytes_eqb (t_src a) (t_src b) && bytes_eqb (t_dst a) (t_dst b) && (t_seq a =? t_seq b).
Definition name_height_eqb (a b : bytes * height) : bool := bytes_eqb (fst a) (fst b) && height_eqb (snd a) (snd b).

Definition val_eqb (a b : val) : bool :=
  match a, b with VS x, VS y => bytes_eqb x y | VN x, VN y => x =? y | _, _ => false end.

(** * ABI *)

Definition schema_of (ty : nat) : schema :=
  match ty with
  | 0%nat => packet_schema | 1%nat => ack_schema | 2%nat => transfer_data_schema | 3%nat => call_data_schema
  | _ => result_schema
  end.

Definition out_bytes_matches (o : outcome bytes) (class : nat) (b : bytes) : bool :=
  match o with
  | Ok x => Nat.eqb class 0 && bytes_eqb x b
  | Err => Nat.eqb class 1
  | Panic => Nat.eqb class 2
  end.

Definition out_fvals_matches (o : outcome (list fval)) (class : nat) (v : list fval) : bool :=
  match o with
  | Ok x => Nat.eqb class 0 && fvals_eqb x v
  | Err => Nat.eqb class 1
  | Panic => Nat.eqb class 2
  end.

(** * Parsers under test *)

Definition h2f (h : height) : list fval := [FU (rev_number h); FU (rev_height h)].

Definition parse_model (fn : nat) (k : bytes) : nat * list fval :=
  match fn with
  | 0%nat => match parse_client_key k with Some (n, p) => (0%nat, [FS n; FB p]) | None => (1%nat, []) end
  | 1%nat => match parse_consensus_state_key k with Some h => (0%nat, h2f h) | None => (1%nat, []) end
  | 2%nat => match parse_path k with Ok (a, b) => (0%nat, [FS a; FS b]) | Err => (1%nat, []) | Panic => (2%nat, []) end
  | 3%nat => match parse_height_go k with Some h => (0%nat, h2f h) | None => (1%nat, []) end
  | 4%nat => match tm_height_from_iteration_key k with Ok h => (0%nat, h2f h) | Err => (1%nat, []) | Panic => (2%nat, []) end
  | _ => match evm_height_from_key k with Ok h => (0%nat, h2f h) | Err => (1%nat, []) | Panic => (2%nat, []) end
  end.

(** * Store iteration *)

Fixpoint insert_key (k : bytes) (l : list bytes) : list bytes :=
  match l with
  | [] => [k]
  | x :: r => match bytes_cmp k x with
              | Lt => k :: l
              | Eq => l
              | Gt => x :: insert_key k r
              end
  end.
Definition sort_keys (l : list bytes) : list bytes := fold_right insert_key [] l.

Definition client_keys (c : cl_spec) : list bytes :=
  let p := client_store_prefix (cl_name c) in
  full_client_state_key (cl_name c)
  :: map (full_consensus_state_key (cl_name c)) (cl_heights c)
  ++ (match cl_type c with
      | 0%nat => map (fun h => p ++ tm_processed_time_key h) (cl_heights c) ++ map (fun h => p ++ tm_iteration_key h) (cl_heights c)
      | 1%nat => map (fun h => p ++ bsc_recent_signer_key h) (cl_signers c)
                 ++ (if cl_pending c then [p ++ bsc_PrefixPendingValidators] else [])
      | _ => flat_map (fun e => let '(root, hash, n) := e in
                                [p ++ eth_header_index_key hash n; p ++ eth_root_main_key root n]) (cl_eth c)
      end)
  ++ map (fun k => p ++ k) (cl_raw c).

Definition written_keys (s : iter_spec) : list bytes :=
  flat_map client_keys (is_clients s)
  ++ map packet_commitment_key (is_commit s) ++ map packet_ack_key (is_acks s) ++ map packet_receipt_key (is_receipts s)
  ++ map (fun t => next_seq_send_key (t_src t) (t_dst t)) (is_nextseq s)
  ++ map relayer_key (is_relayers s)
  ++ map packet_relayer_key (is_prelayers s).

Definition with_prefix (p : bytes) (l : list bytes) : list bytes := filter (is_prefix p) l.

Fixpoint strip_all (p : bytes) (l : list bytes) : list bytes :=
  match l with
  | [] => []
  | k :: r => match strip p k with Some k' => k' :: strip_all p r | None => strip_all p r end
  end.

(** run an iterator body over keys: [Ok (Got x)] collects, [Ok Skip] continues,
    [Err] stops with class 1 (error return), [Panic] class 2 *)
Fixpoint run_iter {A} (f : bytes -> outcome (seen A)) (l : list bytes) : nat * list A :=
  match l with
  | [] => (0%nat, [])
  | k :: r => match f k with
              | Ok (Got x) => let (c, xs) := run_iter f r in (c, x :: xs)
              | Ok Skip => run_iter f r
              | Err => (1%nat, [])
              | Panic => (2%nat, [])
              end
  end.

(** the value stored under a nextSequenceSend key: the last write of the spec *)
Definition nextseq_value (s : iter_spec) (src dst : bytes) : N :=
  fold_left (fun acc t => if bytes_eqb (t_src t) src && bytes_eqb (t_dst t) dst then t_seq t else acc) (is_nextseq s) 0.

Definition seen_of_outcome {A} (o : outcome A) : outcome (seen A) :=
  match o with Ok x => Ok (Got x) | Err => Err | Panic => Panic end.

Definition class_list_eqb {A} (e : A -> A -> bool) (a b : nat * list A) : bool :=
  Nat.eqb (fst a) (fst b) && (negb (Nat.eqb (fst a) 0) || list_eqb e (snd a) (snd b)).

(** what the model predicts for one client store: KEYS only (the values are the monitors' business) *)
Record cl_model := { cm_keys : list bytes; cm_ptime : nat * list bytes; cm_tm_asc : nat * list height;
                     cm_evm_asc : nat * list height; cm_eth_asc : nat * list height; cm_signers : nat * list height;
                     cm_signers_del : nat;
                     cm_exp_tm : list bytes; cm_exp_bsc : list bytes; cm_exp_eth : list bytes }.

Definition client_store_keys (store : list bytes) (name : bytes) : list bytes :=
  strip_all (client_store_prefix name) store.

Definition model_cl_obs (store : list bytes) (c : cl_spec) : cl_model :=
  let ks := client_store_keys store (cl_name c) in
  (* the keys each Go iterator visits: its REGENERATED prefix (Gen/KeysIterGen.v) *)
  let under (l : list iter_prefix) := keys_with_prefixes (prefixes_of l) ks in
  {| cm_keys := ks;
     cm_ptime := run_iter (fun k => Ok (iter_processed_time k)) (under iterprefix_tm_IterateProcessedTime);
     cm_tm_asc := run_iter (fun k => seen_of_outcome (tm_height_from_iteration_key k)) (under iterprefix_tm_IterateConsensusStateAscending);
     cm_evm_asc := run_iter iter_evm_consensus (under iterprefix_bsc_IterateConsensusStateAscending);
     cm_eth_asc := run_iter iter_evm_consensus (under iterprefix_eth_IterateConsensusStateAscending);
     cm_signers := run_iter (fun k => seen_of_outcome (bsc_signer_height_parse k)) (under iterprefix_bsc_GetRecentSigners);
     cm_signers_del := fst (run_iter (fun k => seen_of_outcome (bsc_signer_height_parse k)) (under iterprefix_bsc_DeleteAllSigner));
     cm_exp_tm := tm_export_keys ks; cm_exp_bsc := bsc_export_keys ks; cm_exp_eth := eth_export_keys ks |}.

Definition keys_of (o : nat * list entry) : nat * list bytes := (fst o, map fst (snd o)).

Definition no_raw (c : cl_spec) : bool := match cl_raw c with [] => true | _ => false end.

Definition cl_obs_diff (c : cl_spec) (m : cl_model) (o : cl_obs) : list nat :=
  (if list_eqb bytes_eqb (cm_keys m) (co_keys o) then [] else [10%nat])
  ++ (if class_list_eqb bytes_eqb (cm_ptime m) (keys_of (co_ptime o)) then [] else [13%nat])
  ++ (if class_list_eqb height_eqb (cm_tm_asc m) (co_tm_asc o) then [] else [14%nat])
  ++ (if class_list_eqb height_eqb (cm_evm_asc m) (co_evm_asc o) then [] else [15%nat])
  ++ (if class_list_eqb height_eqb (cm_eth_asc m) (co_eth_asc o) then [] else [16%nat])
  ++ (if class_list_eqb height_eqb (cm_signers m) (co_signers o) then [] else [17%nat])
  ++ (if class_list_eqb bytes_eqb (0%nat, cm_exp_tm m) (keys_of (co_exp_tm o)) then [] else [23%nat])
  ++ (if class_list_eqb bytes_eqb (0%nat, cm_exp_bsc m) (keys_of (co_exp_bsc o)) then [] else [24%nat])
  ++ (if class_list_eqb bytes_eqb (0%nat, cm_exp_eth m) (keys_of (co_exp_eth o)) then [] else [25%nat])
  (* DeleteAllSigner on the keys the builders wrote: every signer entry is deleted (key -> height -> key is exact);
     with raw imports it stops at the first malformed key: compared by outcome class only *)
  ++ (if no_raw c
      then (if class_list_eqb bytes_eqb (0%nat, []) (co_signers_left o) then [] else [28%nat])
      else (if Nat.eqb (cm_signers_del m) (fst (co_signers_left o)) then [] else [28%nat])).

Fixpoint zip_diff3 (cs : list cl_spec) (ms : list cl_model) (os : list cl_obs) : list nat :=
  match cs, ms, os with
  | [], [], [] => []
  | c :: cs', m :: ms', o :: os' => cl_obs_diff c m o ++ zip_diff3 cs' ms' os'
  | _, _, _ => [10%nat]
  end.

(** clients in the order of GetAllGenesisClients: sorted by chain name *)
Fixpoint insert_client (c : cl_spec) (l : list cl_spec) : list cl_spec :=
  match l with
  | [] => [c]
  | x :: r => match bytes_cmp (cl_name c) (cl_name x) with
              | Gt => x :: insert_client c r
              | _ => c :: l
              end
  end.
Definition sort_clients (l : list cl_spec) : list cl_spec := fold_right insert_client [] l.

Definition export_of_type (ty : nat) (ks : list bytes) : list bytes :=
  match ty with 0%nat => tm_export_keys ks | 1%nat => bsc_export_keys ks | _ => eth_export_keys ks end.

(** ClientKeeper.GetAllClientMetadata: per client (sorted), ExportMetadata of its own type; clients without metadata are omitted *)
Definition model_allmeta (store : list bytes) (cls : list cl_spec) : list (bytes * list bytes) :=
  flat_map (fun c => match export_of_type (cl_type c) (client_store_keys store (cl_name c)) with
                     | [] => []
                     | ks => [(cl_name c, ks)]
                     end) (sort_clients cls).

Definition name_keys_eqb (a b : bytes * list bytes) : bool := bytes_eqb (fst a) (fst b) && list_eqb bytes_eqb (snd a) (snd b).

(** packet keeper GetAllPacketCommitmentsByPath(src, dst): prefix iteration; the
    returned states carry the ARGUMENTS src, dst and the sequence parsed from the key *)
Definition model_bypath (store : list bytes) (sd : bytes * bytes) : nat * list triple :=
  let (c, ts) := run_iter (fun k => seen_of_outcome (iterate_hashes_parse k))
                          (with_prefix (commitment_path_prefix (fst sd) (snd sd)) store) in
  (c, map (fun t => {| t_src := fst sd; t_dst := snd sd; t_seq := t_seq t |}) ts).

Fixpoint zip_bypath (ms os : list (nat * list triple)) : list nat :=
  match ms, os with
  | [], [] => []
  | m :: ms', o :: os' => (if class_list_eqb triple_eqb m o then [] else [27%nat]) ++ zip_bypath ms' os'
  | _, _ => [27%nat]
  end.

Definition iter_mismatch (s : iter_spec) (o : iter_obs) : list nat :=
  let store := sort_keys (written_keys s ++ io_base o) in
  let under (l : list iter_prefix) := keys_with_prefixes (prefixes_of l) store in
  (if list_eqb bytes_eqb store (io_keys o) then [] else [10%nat])
  ++ (if class_list_eqb name_height_eqb (run_iter (fun k => Ok (iter_consensus_states k)) (under iterprefix_clientkeeper_IterateConsensusStates)) (io_cons o) then [] else [11%nat])
  ++ (if class_list_eqb bytes_eqb (run_iter (fun k => Ok (iter_clients k)) (under iterprefix_clientkeeper_IterateClients)) (io_clients o) then [] else [12%nat])
  ++ zip_diff3 (is_clients s) (map (model_cl_obs store) (is_clients s)) (io_per o)
  ++ (if class_list_eqb name_keys_eqb (0%nat, model_allmeta store (is_clients s))
                        (fst (io_allmeta o), map (fun x => (fst x, map fst (snd x))) (snd (io_allmeta o))) then [] else [26%nat])
  ++ zip_bypath (map (model_bypath store) (is_bypath s)) (io_bypath o)
  ++ (if class_list_eqb triple_eqb (run_iter (fun k => seen_of_outcome (iterate_hashes_parse k)) (under iterprefix_packetkeeper_IteratePacketCommitment)) (io_commit o) then [] else [18%nat])
  ++ (if class_list_eqb triple_eqb (run_iter (fun k => seen_of_outcome (iterate_hashes_parse k)) (under iterprefix_packetkeeper_IteratePacketAcknowledgement)) (io_acks o) then [] else [19%nat])
  ++ (if class_list_eqb triple_eqb (run_iter (fun k => seen_of_outcome (iterate_hashes_parse k)) (under iterprefix_packetkeeper_IteratePacketReceipt)) (io_receipts o) then [] else [20%nat])
  ++ (if class_list_eqb triple_eqb
         (run_iter (fun k => match parse_path k with
                             | Ok (a, b) => Ok (Got {| t_src := a; t_dst := b; t_seq := nextseq_value s a b |})
                             | Err => Err | Panic => Panic end)
                   (under iterprefix_packetkeeper_GetAllPacketSendSeqs)) (io_nextseq o) then [] else [21%nat])
  ++ (if Nat.eqb (fst (io_relayers o)) 0 && Nat.eqb (snd (io_relayers o)) (length (under iterprefix_clientkeeper_GetAllRelayers)) then [] else [22%nat]).

(** * Model vs implementation, one case *)

Definition case_mismatch (c : ccase) : list nat :=
  match c with
  | CAbi ty v ec e dc d rc r _ =>
      let sc := schema_of ty in
      (if out_bytes_matches (encode sc v) ec e then [] else [1%nat])
      ++ (if Nat.eqb ec 0 then
            (if out_fvals_matches (decode sc e) dc d then [] else [2%nat])
            ++ (if Nat.eqb dc 0 then (if out_bytes_matches (encode sc d) rc r then [] else [3%nat]) else [])
          else [])
  | CAbiRaw ty inp dc d rc r _ _ =>
      let sc := schema_of ty in
      (if out_fvals_matches (decode sc inp) dc d then [] else [4%nat])
      ++ (if Nat.eqb dc 0 then (if out_bytes_matches (encode sc d) rc r then [] else [5%nat]) else [])
  | CCommit p q _ _ ep eq =>
      (if out_bytes_matches (encode packet_schema p) 0 ep && out_bytes_matches (encode packet_schema q) 0 eq then [] else [6%nat])
  | CKey _ f hashed a class out pre =>
      if Nat.eqb class 0 && bytes_eqb (render f a) (if hashed then pre else out) then [] else [7%nat]
  | CName s cl sr ds =>
      if Bool.eqb (valid_chain_name s) cl && Bool.eqb (valid_src_chain s) sr && Bool.eqb (valid_dst_chain s) ds then [] else [8%nat]
  | CParse fn inp class out =>
      let m := parse_model fn inp in
      if Nat.eqb (fst m) class && (negb (Nat.eqb class 0) || fvals_eqb (snd m) out) then [] else [9%nat]
  | CIter s o => iter_mismatch s o
  | CContract em dc d rc r traw tdc td trc tr craw cdc cd crc cr =>
      let part (sc : schema) (inp : bytes) (dc : nat) (d : list fval) (rc : nat) (r : bytes) : list nat :=
        (if out_fvals_matches (decode sc inp) dc d then [] else [4%nat])
        ++ (if Nat.eqb dc 0 then (if out_bytes_matches (encode sc d) rc r then [] else [5%nat]) else []) in
      part packet_schema em dc d rc r
      ++ (match traw with [] => [] | _ => part transfer_data_schema traw tdc td trc tr end)
      ++ (match craw with [] => [] | _ => part call_data_schema craw cdc cd crc cr end)
  end.

Fixpoint number {A} (i : nat) (l : list A) : list (nat * A) :=
  match l with [] => [] | x :: l' => (i, x) :: number (S i) l' end.

Definition mismatches (cs : list ccase) : list (nat * nat) :=
  flat_map (fun ic => map (fun k => (fst ic, k)) (case_mismatch (snd ic))) (number 0 cs).

(** * Monitors: the property on the implementation's observations alone *)

Definition mem {A} (e : A -> A -> bool) (x : A) (l : list A) : bool := existsb (e x) l.
Definition subset {A} (e : A -> A -> bool) (a b : list A) : bool := forallb (fun x => mem e x b) a.
Definition same_set {A} (e : A -> A -> bool) (a b : list A) : bool := subset e a b && subset e b a.
Fixpoint dedup {A} (e : A -> A -> bool) (l : list A) : list A :=
  match l with [] => [] | x :: r => if mem e x r then dedup e r else x :: dedup e r end.
(** read back exactly once each: same set, and as many results as distinct writes *)
Definition read_back {A} (e : A -> A -> bool) (written : list A) (got : nat * list A) : bool :=
  Nat.eqb (fst got) 0 && same_set e written (snd got) && Nat.eqb (length (dedup e written)) (length (snd got)).

Definition value_in_domain (sc : schema) (v : list fval) : bool := struct_val_ok sc v && strings_valid v.

Definition nextseq_last (l : list triple) : list triple :=
  (* keep, for every (src,dst), the LAST written sequence *)
  let fix go (l : list triple) : list triple :=
    match l with
    | [] => []
    | t :: r => if existsb (fun u => bytes_eqb (t_src u) (t_src t) && bytes_eqb (t_dst u) (t_dst t)) r then go r else t :: go r
    end in go l.

Definition entry_eqb (a b : entry) : bool := bytes_eqb (fst a) (fst b) && bytes_eqb (snd a) (snd b).

(** the entries a store holds after the recorded writes: the last write of a key wins *)
Fixpoint last_writes (w : list (nat * entry)) : list (nat * entry) :=
  match w with
  | [] => []
  | x :: r => if existsb (fun y => bytes_eqb (fst (snd y)) (fst (snd x))) r then last_writes r else x :: last_writes r
  end.

Definition entries_tagged (tags : list nat) (w : list (nat * entry)) : list entry :=
  map snd (filter (fun x => mem Nat.eqb (fst x) tags) (last_writes w)).

(** The monitors of one client store use only what the implementation did and
    returned: the heights handed to the setters, the (key, value) pairs that
    reached the store (recorded at write time) and the iterators' results.
    Stores with raw imports are left to the model comparison (an imported key may
    legitimately be exported). *)
Definition cl_monitor (c : cl_spec) (o : cl_obs) : list nat :=
  if negb (no_raw c) then [] else
  let hs := cl_heights c in
  let w := co_written o in
  (* IterateProcessedTime hands out exactly the processed-time entries (key AND value) — on every store type *)
  (if read_back entry_eqb (entries_tagged [1%nat] w) (co_ptime o) then [] else [45%nat])
  ++ (if Nat.eqb (cl_type c) 0
      then (if Nat.eqb (length (snd (co_ptime o))) (length (dedup height_eqb hs)) then [] else [45%nat])
           ++ (if read_back height_eqb hs (co_tm_asc o) then [] else [46%nat])
      else [])
  ++ (if read_back height_eqb hs (co_evm_asc o) && read_back height_eqb hs (co_eth_asc o) then [] else [47%nat])
  ++ (if Nat.eqb (cl_type c) 1 then (if read_back height_eqb (cl_signers c) (co_signers o) then [] else [48%nat]) else [])
  (* ExportMetadata of each client type returns exactly the metadata entries of that type, each once *)
  ++ (if read_back entry_eqb (entries_tagged [1%nat; 2%nat] w) (co_exp_tm o)
         && read_back entry_eqb (entries_tagged [3%nat; 4%nat] w) (co_exp_bsc o)
         && read_back entry_eqb (entries_tagged [5%nat; 6%nat] w) (co_exp_eth o) then [] else [53%nat])
  (* DeleteAllSigner finds (and deletes) every signer entry: key -> height -> key is exact *)
  ++ (if Nat.eqb (fst (co_signers_left o)) 0 && match snd (co_signers_left o) with [] => true | _ => false end then [] else [56%nat]).

Fixpoint zip_monitor (cs : list cl_spec) (os : list cl_obs) : list nat :=
  match cs, os with
  | [], [] => []
  | c :: cs', o :: os' => cl_monitor c o ++ zip_monitor cs' os'
  | _, _ => [43%nat]
  end.

(** what GetPacketRelayer must return for entry i: the value of the LAST write to the same triple *)
Definition prelayer_value (i : nat) : bytes := B "relayer-" ++ dec (N.of_nat i).
Definition prelayers_expected (l : list triple) : list bytes :=
  map (fun it => let t := snd it in
                 fold_left (fun acc ju => if triple_eqb (snd ju) t then prelayer_value (fst ju) else acc) (number 0 l) [])
      (number 0 l).

Definition case_monitor (c : ccase) : list nat :=
  match c with
  | CAbi ty v ec e dc d rc r sha =>
      let sc := schema_of ty in
      if value_in_domain sc v then
        (if Nat.eqb ec 0 && Nat.eqb dc 0 && fvals_eqb d v then [] else [31%nat])
        ++ (if Nat.eqb ec 0 && Nat.eqb dc 0 && negb (Nat.eqb rc 0 && bytes_eqb r e) then [32%nat] else [])
        ++ (if sha then [] else [34%nat])
      else []
  | CAbiRaw ty inp dc d rc r rdc rd =>
      (* whatever the decoder accepts is normalised: its re-encoding decodes to the same value *)
      if Nat.eqb dc 0 && value_in_domain (schema_of ty) d
      then (if Nat.eqb rc 0 && Nat.eqb rdc 0 && fvals_eqb rd d then [] else [35%nat]) else []
  | CCommit p q cp cq _ _ =>
      if value_in_domain packet_schema p && value_in_domain packet_schema q
      then (if Bool.eqb (fvals_eqb p q) (bytes_eqb cp cq) && negb (match cp with [] => true | _ => false end) then [] else [33%nat])
      else []
  | CKey _ _ _ _ _ _ _ => []      (* injectivity is a property of PAIRS of cases: [key_collisions] *)
  | CName s cl sr ds =>
      (* what the key theorems need of an accepted chain name: no separator, not empty *)
      if (cl || sr || ds) && (negb (no_sep s) || match s with [] => true | _ => false end) then [36%nat] else []
  | CParse _ _ _ _ => []
  | CContract em dc d rc r traw tdc td trc tr craw cdc cd crc cr =>
      (* re-encoding the bytes emitted by the contract returns the same bytes *)
      let part (inp : bytes) (dc rc : nat) (r : bytes) : bool := Nat.eqb dc 0 && Nat.eqb rc 0 && bytes_eqb r inp in
      if part em dc rc r
         && (match traw with [] => true | _ => part traw tdc trc tr end)
         && (match craw with [] => true | _ => part craw cdc crc cr end)
      then [] else [37%nat]
  | CIter s o =>
      let cons_written := flat_map (fun c => map (fun h => (cl_name c, h)) (cl_heights c)) (is_clients s) in
      (* (a raw import may itself be a well-formed consensus-state key: such stores are left to the model comparison) *)
      (if existsb (fun c => negb (no_raw c)) (is_clients s) || read_back name_height_eqb cons_written (io_cons o) then [] else [43%nat])
      ++ (if read_back bytes_eqb (map cl_name (is_clients s)) (io_clients o) then [] else [44%nat])
      ++ zip_monitor (is_clients s) (io_per o)
      ++ (if read_back triple_eqb (is_commit s) (io_commit o) then [] else [49%nat])
      ++ (if read_back triple_eqb (is_acks s) (io_acks o) then [] else [50%nat])
      ++ (if read_back triple_eqb (is_receipts s) (io_receipts o) then [] else [51%nat])
      ++ (if read_back triple_eqb (nextseq_last (is_nextseq s)) (io_nextseq o) then [] else [52%nat])
      (* GetAllClientMetadata = the non-empty ExportMetadata results of the clients, each under its own name *)
      ++ (let own := flat_map (fun co => let c := fst co in let o' := snd co in
                                 let e := match cl_type c with 0%nat => co_exp_tm o' | 1%nat => co_exp_bsc o' | _ => co_exp_eth o' end in
                                 match snd e with [] => [] | l => [(cl_name c, l)] end)
                              (combine (is_clients s) (io_per o)) in
          if read_back (fun a b => bytes_eqb (fst a) (fst b) && list_eqb entry_eqb (snd a) (snd b)) own (io_allmeta o) then [] else [54%nat])
      (* the by-path iterator of (src, dst) returns exactly the commitments written for that source and destination *)
      ++ (if forallb (fun po => let sd := fst po in
                                read_back triple_eqb
                                  (filter (fun t => bytes_eqb (t_src t) (fst sd) && bytes_eqb (t_dst t) (snd sd)) (is_commit s)) (snd po))
                     (combine (is_bypath s) (io_bypath o))
             && Nat.eqb (length (is_bypath s)) (length (io_bypath o)) then [] else [55%nat])
      (* a packet-relayer entry is read back under the triple it was written for *)
      ++ (if Nat.eqb (fst (io_prelayers o)) 0 && list_eqb bytes_eqb (prelayers_expected (is_prelayers s)) (snd (io_prelayers o)) then [] else [57%nat])
  end.

(** key injectivity / disjointness over all PAIRS of key cases of a shard:
    two cases with class 0, valid arguments and the same output must be the same
    builder format with the same arguments.  Kind 41 = same builder id, 42 =
    different builders of the full-store families. *)
Definition key_case (c : ccase) : option (nat * fmt * args * bytes) :=
  match c with
  | CKey id f _ a cl out _ => if Nat.eqb cl 0 && valid f a && wf f then Some (id, f, a, out) else None
  | _ => None
  end.

(** ids whose outputs live in the same key space (the xibc store): set by the
    driver as a list; two different ids both in this list must never collide *)
Definition collides (full : list nat) (x y : nat * fmt * args * bytes) : option nat :=
  let '(i, f, a, o) := x in let '(j, g, b, p) := y in
  if bytes_eqb o p then
    if Nat.eqb i j then (if list_eqb val_eqb a b then None else Some 41%nat)
    else if mem Nat.eqb i full && mem Nat.eqb j full then Some 42%nat else None
  else None.

Fixpoint key_pairs (full : list nat) (l : list (nat * (nat * fmt * args * bytes))) : list (nat * nat) :=
  match l with
  | [] => []
  | (n, x) :: r =>
      flat_map (fun my => match collides full x (snd my) with Some k => [(n, k)] | None => [] end) r
      ++ key_pairs full r
  end.

Definition key_collisions (full : list nat) (cs : list ccase) : list (nat * nat) :=
  key_pairs full (flat_map (fun ic => match key_case (snd ic) with Some x => [(fst ic, x)] | None => [] end) (number 0 cs)).

Definition monitor_failures (full : list nat) (cs : list ccase) : list (nat * nat) :=
  flat_map (fun ic => map (fun k => (fst ic, k)) (case_monitor (snd ic))) (number 0 cs)
  ++ key_collisions full cs.

(** * State of the regenerated terms (reported in the evidence; [false] entries
    seed the counter-example search) *)

Definition schema_states : list bool :=
  map schema_ok [packet_schema; ack_schema; transfer_data_schema; call_data_schema; result_schema].

Definition sgT : list kind := [KStr; KStr; KNum].
Definition sgH : list kind := [KNum; KNum].
Definition key_states : list bool :=
  [ key_ok host_PacketReceiptKey sgT; key_ok host_PacketAcknowledgementKey sgT; key_ok host_PacketCommitmentKey sgT;
    key_ok host_PacketRelayerKey sgT; key_ok host_NextSequenceSendKey [KStr; KStr];
    key_ok host_FullClientStateKey [KStr]; key_ok host_FullConsensusStateKey [KStr; KNum; KNum];
    key_ok host_ConsensusStateKey sgH; key_ok tm_ProcessedTimeKey sgH; key_ok tm_IterationKey sgH;
    key_ok bsc_keyRecentSinger sgH; key_ok eth_EthHeaderIndexKey [KHash; KNum]; key_ok eth_EthRootMainKey [KHash; KNum] ].

(** search aid when a key obligation breaks: all pairs of small argument tuples
    of the builder's signature; returns a colliding pair of argument tuples *)
Definition small_names : list bytes := [B "aaa"; B "aab"; B "baa"; B "aa1"; B "a1a"; B "1aa"; B "aaa1"; B "1aaa"; B "a11"; B "11a"; B "111"; B "1111"].
Definition small_nums : list N := [0; 1; 11; 111; 47; 4294967296; 4294967297].

Definition small_vals (k : kind) : list val :=
  match k with
  | KStr | KRaw => map VS small_names
  | KNum => map VN small_nums
  | KHash => [VS (repeat x00 32); VS (repeat x01 32)]
  end.

Fixpoint small_args (sg : list kind) : list args :=
  match sg with
  | [] => [[]]
  | k :: r => flat_map (fun v => map (cons v) (small_args r)) (small_vals k)
  end.

Fixpoint find_collision_in (f : fmt) (l : list args) : option (args * args) :=
  match l with
  | [] => None
  | a :: r =>
      match find (fun b => bytes_eqb (render f a) (render f b) && negb (list_eqb val_eqb a b)) r with
      | Some b => Some (a, b)
      | None => find_collision_in f r
      end
  end.

(** flat numeric rendering for the driver: string = 0, length, bytes; number = 1, n; 2 separates the two tuples *)
Definition encode_args (a : args) : list N :=
  flat_map (fun v => match v with VS s => 0 :: N.of_nat (length s) :: map Byte.to_N s | VN n => [1; n] end) a.

Definition collision_search (f : fmt) (sg : list kind) : list N :=
  match find_collision_in f (small_args sg) with
  | Some (a, b) => encode_args a ++ [2] ++ encode_args b
  | None => []
  end.
