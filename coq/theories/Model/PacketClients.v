(** Packet core, client-store layer (C02: "verified at a height the STORED client accepted itself").

    [Model/Packet.v] keeps light-client verification as an oracle of an opaque environment.  This layer makes the one
    fact about that environment explicit that the packet properties depend on across governance operations: WHICH
    consensus states the client stored under a name holds.  [cstore] maps a client name to the heights of the consensus
    states written into clients/{name}/ since that client INSTANCE was installed:
      - CreateClient  (client.go CreateClient: Initialize + SetClientConsensusState at the latest height),
      - ToggleClient  (keeper.go ToggleClient: clearClientStore deletes EVERYTHING under clients/{name}/, then the new
                       client is initialised)  => none of the old heights remain,
      - UpdateClient  (the header's height is added),
      - UpgradeClient (SetClientConsensusState at the new latest height; nothing is cleared).
    Which heights a step wrote is an INPUT of the layer ([written]), observed by the harness from the store.
    Pruning of expired consensus states only removes heights, so [cstore] is a superset of the real store; a receive /
    acknowledgement through a proof-verifying client can only be accepted at a height of [cstore] (the first thing
    every client's verification does is fetch the consensus state at the proof height). *)
From Teleport Require Import Base.Bytes Base.Outcome Base.AList Model.Packet.
Local Open Scope N_scope.

Definition cstore := alist (list height).

Definition height_eqb (a b : height) : bool := (fst a =? fst b) && (snd a =? snd b).

Definition heights_of (cs : cstore) (name : bytes) : list height :=
  match aget name cs with Some l => l | None => [] end.

Definition has_height (cs : cstore) (name : bytes) (h : height) : bool := existsb (height_eqb h) (heights_of cs name).

Section Clients.
  Variable P : params.

  (** the proof height of a message is one the present client instance accepted (TSS clients have no consensus states) *)
  Definition at_accepted (s : cstate) (cs : cstore) (a : action) : bool :=
    match a with
    | ARecv m _ =>
        let p := fst (decode P (rm_packet m)) in
        match aget (p_src p) (st_clients s) with
        | Some ct => is_tss ct || has_height cs (p_src p) (rm_height m)
        | None => true
        end
    | AAck m _ _ _ =>
        let p := fst (decode P (am_packet m)) in
        match aget (p_dst p) (st_clients s) with
        | Some ct => is_tss ct || has_height cs (p_dst p) (am_height m)
        | None => true
        end
    | _ => true
    end.

  Definition cs_step (cs : cstore) (a : action) (accepted : bool) (written : list height) : cstore :=
    if accepted then
      match a with
      | ARegisterClient n _ _ => aset n written cs
      | AToggleClient n _ _ => aset n written cs                          (* clearClientStore: none of the old heights *)
      | AUpdateClient n _ => aset n (heights_of cs n ++ written) cs
      | AUpgradeClient n _ _ => aset n (heights_of cs n ++ written) cs
      | _ => cs
      end
    else cs.

  Definition deliver2 (env : N) (s : cstate) (cs : cstore) (a : action) : outcome cstate :=
    if at_accepted s cs a then deliver P env s a else Err.

  Definition op2 := (op * list height)%type.

  Definition step2 (sc : cstate * cstore) (o : op2) : (cstate * cstore) * bool :=
    let '(s, cs) := sc in
    match deliver2 (fst (fst o)) s cs (snd (fst o)) with
    | Ok s' => ((s', cs_step cs (snd (fst o)) true (snd o)), true)
    | _ => ((s, cs), false)
    end.

  Fixpoint run2 (sc : cstate * cstore) (l : list op2) : cstate * cstore :=
    match l with
    | [] => sc
    | o :: l' => run2 (fst (step2 sc o)) l'
    end.
End Clients.
