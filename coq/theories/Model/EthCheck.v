(** Correspondence and monitor definitions for C10, evaluated by [vm_compute] on the
    cases the harness (harness/cmd/c10) ran on the real Ethereum client (no proofs here).

    A case = creation of a client + a list of submissions (block time, header, probe flag)
    with, after each, the observed result class and the observed client state / client store
    projected on the header table of the case.  The hash and ethash oracles of the model are
    the tables the harness filled from the real functions. *)
From Teleport Require Import Base.Bytes Base.Outcome Model.Eth.
Local Open Scope N_scope.

(** hex text -> bytes (lower-case digits; used by the generated case files: parsing a string literal is much
    cheaper than a list-of-bytes literal) *)
Definition hexval (a : ascii) : N := let n := N_of_ascii a in if n <? 58 then n - 48 else n - 87.
Fixpoint unhex (s : string) : bytes :=
  match s with
  | String a (String b r) =>
      match Byte.of_N (16 * hexval a + hexval b) with Some x => x | None => x00 end :: unhex r
  | _ => []
  end.

(** short-circuit conjunction ([vm_compute] is strict: [a && b] would evaluate both) *)
Notation "a &&& b" := (if a then b else false) (at level 40, left associativity).

Definition header_eqb (a b : header) : bool :=
  (h_nonce a =? h_nonce b) &&& (h_num a =? h_num b) &&& (h_time a =? h_time b) &&& (h_rev a =? h_rev b)
  &&& beq (h_root a) (h_root b) &&& beq (h_extra a) (h_extra b) &&& beq (h_parent a) (h_parent b)
  &&& (h_gaslimit a =? h_gaslimit b) &&& (h_gasused a =? h_gasused b) &&& beq (h_basefee a) (h_basefee b)
  &&& beq (h_diff a) (h_diff b) &&& beq (h_uncle a) (h_uncle b) &&& beq (h_coinbase a) (h_coinbase b)
  &&& beq (h_tx a) (h_tx b) &&& beq (h_receipt a) (h_receipt b) &&& beq (h_bloom a) (h_bloom b)
  &&& beq (h_mix a) (h_mix b).

Definition cstate_eqb (a b : cstate) : bool :=
  (c_time a =? c_time b) &&& (c_rev a =? c_rev b) &&& (c_num a =? c_num b) &&& beq (c_root a) (c_root b).

(** Oracle table: header -> (real hash, real seal verdict: 1 accepted, 0 rejected, 2 not tabulated). *)
Definition table := list (header * (bytes * nat)).

Fixpoint tlookup (t : table) (h : header) : option (bytes * nat) :=
  match t with
  | [] => None
  | (x, v) :: t' => if header_eqb x h then Some v else tlookup t' h
  end.
Definition t_hash (t : table) (h : header) : bytes := match tlookup t h with Some (x, _) => x | None => [] end.
Definition t_seal (t : table) (h : header) : bool := match tlookup t h with Some (_, 1%nat) => true | _ => false end.
Definition t_seal_known (t : table) (h : header) : bool := match tlookup t h with Some (_, 2%nat) => false | Some _ => true | None => false end.

(** Observed client state / client store after a step.  Header-index and root-main
    entries are given by the table header they correspond to ([None] = the harness found
    no header of the case matching the stored bytes). *)
Record obs := {
  o_class : nat;                                   (* 0 ok, 1 error, 2 panic *)
  o_head : option header;
  o_rest_same : bool;
  o_cons : list (ckey * cstate);                   (* store order *)
  o_idx : list (option header);                    (* entry stored under (hash n, number n) with the bytes of n *)
  o_rmain : list (option header * option header);  (* key (root a, number a) -> value (hash b, number b) *)
  o_other : nat }.

Record step := { s_bt : N; s_hdr : header; s_probe : bool; s_obs : obs }.

Record case := {
  k_raw : bool;                 (* true: CheckHeaderAndUpdateState + the keeper's writes, no status gate *)
  k_chain : N; k_trust : N; k_genesis : header; k_cons : cstate;
  k_table : table;
  k_create : obs;
  k_steps : list step }.

Fixpoint number {A} (i : nat) (l : list A) : list (nat * A) :=
  match l with [] => [] | x :: l' => (i, x) :: number (S i) l' end.

(** * Model vs implementation *)

(** does the model state equal the observation?  (store contents compared as sets: equal
    sizes + every observed entry present in the model; store keys are distinct) *)
Definition same_state (t : table) (s : state) (o : obs) : bool :=
  match o_head o with Some h => header_eqb h (head s) | None => false end
  && o_rest_same o && Nat.eqb (o_other o) 0
  && Nat.eqb (length (o_cons o)) (length (cons s))
  && forallb (fun e => match cget (fst e) (cons s) with Some c => cstate_eqb c (snd e) | None => false end) (o_cons o)
  && Nat.eqb (length (o_idx o)) (length (idx s))
  && forallb (fun e => match e with
                       | Some n => match iget (t_hash t n, h_num n) (idx s) with Some a => header_eqb a n | None => false end
                       | None => false end) (o_idx o)
  && Nat.eqb (length (o_rmain o)) (length (rmain s))
  && forallb (fun e => match e with
                       | (Some a, Some b) => match rget (to_hash (h_root a), h_num a) (rmain s) with
                                             | Some v => hkey_eqb v (t_hash t b, h_num b)
                                             | None => false end
                       | _ => false end) (o_rmain o).

(** the raw mode of the harness: no status gate *)
Definition raw_update (t : table) (bt : N) (s : state) (h : header) : outcome state :=
  r <- check_header (t_hash t) (t_seal t) bt s h ;;
  let '(s', c) := r in
  Ok {| head := head s'; chain_id := chain_id s'; trusting := trusting s'; idx := idx s'; rmain := rmain s';
        cons := cset (h_rev h, h_num h) c (cons s') |}.

Definition model_step (k : case) (bt : N) (s : state) (h : header) : outcome state :=
  if k_raw k then raw_update (k_table k) bt s h else update_client (t_hash (k_table k)) (t_seal (k_table k)) bt s h.

(** would the model consult the seal oracle for [h]? *)
Definition seal_consulted (t : table) (bt : N) (s : state) (h : header) : bool :=
  negb (chain_id s =? rinkeby) && validate_basic h
  && match verify_header (t_hash t) bt s h with Ok _ => true | _ => false end
  && negb (32 <? len (h_extra h)).

(** Kinds: 1 class differs, 2 state after an accepted step differs, 3 state after creation
    differs, 12 the model consulted a seal verdict the harness did not tabulate, 13 a
    submitted header is missing from the hash table. *)
Fixpoint cmp_steps (k : case) (i : nat) (s : state) (l : list step) : list (nat * nat) :=
  match l with
  | [] => []
  | st :: l' =>
      let t := k_table k in
      let h := s_hdr st in
      match tlookup t h with
      | None => [(i, 13%nat)]
      | Some _ =>
          if seal_consulted t (s_bt st) s h && negb (t_seal_known t h) then [(i, 12%nat)] else
          let r := model_step k (s_bt st) s h in
          if negb (Nat.eqb (oclass r) (o_class (s_obs st))) then [(i, 1%nat)]
          else match r with
               | Ok s' => if same_state t s' (s_obs st)
                          then cmp_steps k (S i) (if s_probe st then s else s') l'
                          else [(i, 2%nat)]
               | _ => cmp_steps k (S i) s l'
               end
      end
  end.

Definition initial (k : case) : state :=
  create_client (t_hash (k_table k)) (k_chain k) (k_trust k) (k_genesis k) (k_cons k).

Definition cmp_case (k : case) : list (nat * nat) :=
  if negb (Nat.eqb (o_class (k_create k)) 0) then [(0%nat, 3%nat)]
  else if negb (same_state (k_table k) (initial k) (k_create k)) then [(0%nat, 3%nat)]
  else cmp_steps k 1 (initial k) (k_steps k).

Definition mismatches (ks : list case) : list (nat * (nat * nat)) :=
  flat_map (fun ik => map (fun m => (fst ik, m)) (cmp_case (snd ik))) (number 0 ks).

(** * Monitors: the property evaluated on the IMPLEMENTATION's trace alone.  The observed
    store is turned back into a [state] value; only specification-level predicates of
    Model/Eth.v (rules_b, valid_child_b, main_chain, should_accept ...) are applied to it,
    never the model's step functions. *)
Definition all_some {A} (l : list (option A)) : option (list A) :=
  fold_right (fun x acc => match x, acc with Some a, Some r => Some (a :: r) | _, _ => None end) (Some []) l.

Definition state_of_obs (k : case) (o : obs) : option state :=
  let t := k_table k in
  match o_head o, all_some (o_idx o), all_some (map (fun e => match e with (Some a, Some b) => Some (a, b) | _ => None end) (o_rmain o)) with
  | Some hd, Some ix, Some rm =>
      Some {| head := hd; chain_id := k_chain k; trusting := k_trust k;
              idx := map (fun n => ((t_hash t n, h_num n), n)) ix;
              rmain := map (fun ab => ((to_hash (h_root (fst ab)), h_num (fst ab)), (t_hash t (snd ab), h_num (snd ab)))) rm;
              cons := o_cons o |}
  | _, _, _ => None
  end.

(** (c): every consensus state kept (under the client's revision number) for a height up to
    the head's is (time, height, root) of the head's stored ancestor at that height. *)
Definition main_chain_ok (t : table) (s : state) : bool :=
  let mc := main_chain s in
  forallb (fun e => let '((r, n), c) := e in
                    negb ((r =? h_rev (head s)) && (n <=? h_num (head s)))
                    || match at_height mc n with Some a => cstate_eqb c (cstate_of a) | None => false end)
          (cons s).

(** the hypotheses about the accepted history under which Props/C10.v proves the invariant:
    same revision number as the head; no other stored header of that height with the same root *)
Definition step_hyp (t : table) (s : state) (h : header) : nat :=
  if negb (h_rev h =? h_rev (head s)) then 2%nat
  else if negb (fresh_root_b (t_hash t) s h) then 1%nat else 0%nat.

(** Kinds (st = the step):
    21 accepted although no rule-abiding parent is stored (parent lookup / hash / rules)
    23 accepted but the head is not the accepted header
    25 a header meeting every hypothesis of [no_wedge] was refused             (wedge)
    26 after an accepted header a kept consensus state is not the head's ancestor's
    27 the observation cannot be interpreted (entries outside the case's header table)
    known-finding classes (hypotheses of the theorems, each necessary -- Refuted/C10_*.v):
    41 rule-abiding child of a stored header refused: the fork point lies below the pruned prefix
    42 the accepted header left the client expired at the very block time of the update
    43 like 26 / 25, after a header whose state root equals a stored sibling's was accepted
    44 like 26 / 25, after a header with another revision number was accepted *)
Fixpoint mon_steps (k : case) (i : nat) (pre : state) (hyp : nat) (l : list step) : list (nat * nat) :=
  match l with
  | [] => []
  | st :: l' =>
      let t := k_table k in
      let h := s_hdr st in
      let bt := s_bt st in
      let o := s_obs st in
      let gate := k_raw k || active bt pre in
      let valid := valid_child_b (t_hash t) (t_seal t) bt pre h in
      if Nat.eqb (o_class o) 0 then
        match state_of_obs k o with
        | None => [(i, 27%nat)]
        | Some post =>
            let hyp' := match hyp with O => step_hyp t pre h | _ => hyp end in
            let next := if s_probe st then mon_steps k (S i) pre hyp l' else mon_steps k (S i) post hyp' l' in
            if negb (gate && valid) then [(i, 21%nat)]
            else if negb (header_eqb (head post) h) then [(i, 23%nat)]
            else if negb (main_chain_ok t post) then [(i, match hyp' with O => 26 | 1 => 43 | _ => 44 end%nat)]
            else if negb (k_raw k) && negb (active bt post) then (i, 42%nat) :: next
            else next
        end
      else
        let next := mon_steps k (S i) pre hyp l' in
        if Nat.eqb (o_class o) 2 then (i, 28%nat) :: next
        else if valid && (h_rev h =? h_rev (head pre)) && active bt pre then
          match hyp with
          | O => if should_accept (t_hash t) (t_seal t) bt pre h then (i, 25%nat) :: next
                 else if fresh_root_b (t_hash t) pre h then (i, 41%nat) :: next else (i, 43%nat) :: next
          | 1%nat => (i, 43%nat) :: next
          | _ => (i, 44%nat) :: next
          end
        else next
  end.

Definition mon_case (k : case) : list (nat * nat) :=
  match state_of_obs k (k_create k) with
  | None => [(0%nat, 27%nat)]
  | Some s0 =>
      (* the creation proposal's consensus state must be the one of the installed header (hypothesis of the theorems) *)
      let hyp0 := match cget (h_rev (k_genesis k), h_num (k_genesis k)) (cons s0) with
                  | Some c => if cstate_eqb c (cstate_of (k_genesis k)) then 0%nat else 3%nat
                  | None => 3%nat end in
      mon_steps k 1 s0 hyp0 (k_steps k)
  end.

Definition monitor_failures (ks : list case) : list (nat * (nat * nat)) :=
  flat_map (fun ik => map (fun m => (fst ik, m)) (mon_case (snd ik))) (number 0 ks).

(** Sanity of the tabulated hash oracle (hypotheses [hash_len], [hash_num] of the theorems):
    every hash has 32 bytes, headers with different numbers have different hashes. *)
Definition oracle_ok (t : table) : bool :=
  let t := filter (fun e => len (h_bloom (fst e)) <=? 256) t in     (* Header.Hash panics on a longer bloom *)
  forallb (fun e => Nat.eqb (length (fst (snd e))) 32) t
  && forallb (fun e1 => forallb (fun e2 => if h_num (fst e1) =? h_num (fst e2) then true
                                          else negb (beq (fst (snd e1)) (fst (snd e2)))) t) t.

Definition oracle_failures (ks : list case) : list nat :=
  flat_map (fun ik => if oracle_ok (k_table (snd ik)) then [] else [fst ik]) (number 0 ks).
