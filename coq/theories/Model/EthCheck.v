(** Correspondence and monitor definitions for C10, evaluated by [vm_compute] on the
    cases the harness (harness/cmd/c10) ran on the real Ethereum client (no proofs here).

    A case = creation of a client + a list of submissions (block time, header, probe flag)
    with, after each, the observed result class and the observed client state / client store
    projected on the header table of the case.  The hash and ethash oracles of the model are
    the tables the harness filled from the real functions. *)
From Teleport Require Import Base.Bytes Base.Outcome Model.Eth.
Local Open Scope N_scope.

(** hex text -> bytes (lower-case digits; used by the generated case files: parsing a string literal is much
    cheaper than a list-of-bytes literal) *)
Definition hexval (a : ascii) : N := let n := N_of_ascii a in if n <? 58 then n - 48 else n - 87.
Fixpoint unhex (s : string) : bytes :=
  match s with
  | String a (String b r) =>
      match Byte.of_N (16 * hexval a + hexval b) with Some x => x | None => x00 end :: unhex r
  | _ => []
  end.

Definition cstate_eqb (a b : cstate) : bool :=
  (c_time a =? c_time b) &&& (c_rev a =? c_rev b) &&& (c_num a =? c_num b) &&& beq (c_root a) (c_root b).

(** Oracle table: header -> (real hash, real seal verdict: 1 accepted, 0 rejected, 2 not tabulated). *)
Definition table := list (header * (bytes * nat)).

Fixpoint tlookup (t : table) (h : header) : option (bytes * nat) :=
  match t with
  | [] => None
  | (x, v) :: t' => if header_eqb x h then Some v else tlookup t' h
  end.
Definition t_hash (t : table) (h : header) : bytes := match tlookup t h with Some (x, _) => x | None => [] end.
Definition t_seal (t : table) (h : header) : bool := match tlookup t h with Some (_, 1%nat) => true | _ => false end.
Definition t_seal_known (t : table) (h : header) : bool := match tlookup t h with Some (_, 2%nat) => false | Some _ => true | None => false end.

(** Observed client state / client store after a step.  Header-index and root-main
    entries are given by the table header they correspond to ([None] = the harness found
    no header of the case matching the stored bytes). *)
Record obs := {
  o_class : nat;                                   (* 0 ok, 1 error, 2 panic *)
  o_head : option header;
  o_rest_same : bool;
  o_cons : list (ckey * cstate);                   (* store order *)
  o_idx : list (option header);                    (* entry stored under (hash n, number n) with the bytes of n *)
  o_rmain : list (option header * option header);  (* key (root a, number a) -> value (hash b, number b) *)
  o_other : nat }.

Record step := { s_bt : N; s_hdr : header; s_probe : bool; s_obs : obs }.

Record case := {
  k_raw : bool;                 (* true: CheckHeaderAndUpdateState + the keeper's writes, no status gate *)
  k_chain : N; k_trust : N; k_genesis : header; k_cons : cstate;
  k_table : table;
  k_create : obs;
  k_steps : list step }.

(** ** Decoder of the binary case format written by tools/py/props/c10.py (one byte-list literal
    per case: elaborating records/lists of thousands of observations dominated the run time).
      num    := u8 k, k bytes big-endian
      case   := u8 raw, num chain, num trust, cstate, pool, u16 n * hdr, obs (creation, full), u16 n * step
      pool   := u16 n * (u16 len, bytes)                 -- byte strings, referred to by index
      hdr    := 11 * u16 pool refs (parent uncle coinbase root tx receipt bloom diff extra mix basefee),
                num rev num gaslimit gasused time nonce, u16 pool ref (real hash), u8 seal verdict
      cstate := num time rev num, u16 len, bytes root
      step   := num bt, u16 header, u8 probe, obs
      obs    := u8 class; for class 0 only (a refused update is observed on the unchanged state):
                u16 head (65535 none), u8 rest_same, u16 other, and the store as a DELTA against the state the
                step started from (the creation observation is a delta against the empty store):
                u16 n * conskey removed, u16 n * consentry set, u16 n * u16 header-index entries removed,
                u16 n * u16 added, u16 n * (u16, u16) root-main entries removed, u16 n * (u16, u16) added
      conskey   := num rev, num height
      consentry := conskey, u16 header | 65534 creation cstate | 65535 followed by cstate *)
Definition P (A : Type) := bytes -> option (A * bytes).
Definition pret {A} (a : A) : P A := fun b => Some (a, b).
Definition pbind {A B} (p : P A) (f : A -> P B) : P B :=
  fun b => match p b with Some (a, r) => f a r | None => None end.
Notation "x <~ p ;; q" := (pbind p (fun x => q)) (at level 61, p at next level, right associativity).

Fixpoint pnum (k : nat) (acc : N) : P N :=
  match k with
  | O => pret acc
  | S k' => fun b => match b with x :: r => pnum k' (acc * 256 + Byte.to_N x) r | [] => None end
  end.
Definition u8 := pnum 1 0.
Definition u16 := pnum 2 0.
Definition pvar : P N := k <~ u8 ;; pnum (N.to_nat k) 0.
Fixpoint ptake (k : nat) : P bytes :=
  match k with
  | O => pret []
  | S k' => fun b => match b with x :: r => match ptake k' r with Some (l, r') => Some (x :: l, r') | None => None end | [] => None end
  end.
Fixpoint prep {A} (n : nat) (p : P A) : P (list A) :=
  match n with
  | O => pret []
  | S n' => x <~ p ;; l <~ prep n' p ;; pret (x :: l)
  end.
Definition plist {A} (p : P A) : P (list A) := n <~ u16 ;; prep (N.to_nat n) p.
Definition pbytes : P bytes := n <~ u16 ;; ptake (N.to_nat n).
Definition pref (pool : list bytes) : P bytes := i <~ u16 ;; pret (nth (N.to_nat i) pool []).
Definition pbool : P bool := x <~ u8 ;; pret (negb (x =? 0)).

Definition pcstate : P cstate :=
  t <~ pvar ;; r <~ pvar ;; n <~ pvar ;; root <~ pbytes ;; pret {| c_time := t; c_rev := r; c_num := n; c_root := root |}.

Definition phdr (pool : list bytes) : P (header * (bytes * nat)) :=
  parent <~ pref pool ;; uncle <~ pref pool ;; coinbase <~ pref pool ;; root <~ pref pool ;; tx <~ pref pool ;;
  receipt <~ pref pool ;; bloom <~ pref pool ;; diff <~ pref pool ;; extra <~ pref pool ;; mix <~ pref pool ;;
  basefee <~ pref pool ;;
  rev <~ pvar ;; num <~ pvar ;; gaslimit <~ pvar ;; gasused <~ pvar ;; time <~ pvar ;; nonce <~ pvar ;;
  hash <~ pref pool ;; seal <~ u8 ;;
  pret ({| h_parent := parent; h_uncle := uncle; h_coinbase := coinbase; h_root := root; h_tx := tx; h_receipt := receipt;
           h_bloom := bloom; h_diff := diff; h_rev := rev; h_num := num; h_gaslimit := gaslimit; h_gasused := gasused;
           h_time := time; h_extra := extra; h_mix := mix; h_nonce := nonce; h_basefee := basefee |},
        (hash, N.to_nat seal)).

Definition hdr_at (t : table) (i : N) : option header :=
  match nth_error t (N.to_nat i) with Some e => Some (fst e) | None => None end.

Definition pckey : P ckey := r <~ pvar ;; n <~ pvar ;; pret (r, n).
Definition pcons (t : table) (c0 : cstate) : P (ckey * cstate) :=
  k <~ pckey ;; i <~ u16 ;;
  if i =? 65535 then c <~ pcstate ;; pret (k, c)
  else if i =? 65534 then pret (k, c0)
  else pret (k, match hdr_at t i with Some h => cstate_of h
                                   | None => {| c_time := 0; c_rev := 0; c_num := 0; c_root := [] |} end).
Definition ppair : P (N * N) := a <~ u16 ;; b <~ u16 ;; pret (a, b).

(** observation with header indices, before resolving them against the table *)
Record iobs := { i_cons : list (ckey * cstate); i_idx : list N; i_rmain : list (N * N) }.
Definition iempty : iobs := {| i_cons := []; i_idx := []; i_rmain := [] |}.
Definition pair_eqb (a b : N * N) : bool := if fst a =? fst b then snd a =? snd b else false.
Definition remove_all {A} (eqb : A -> A -> bool) (del l : list A) : list A :=
  filter (fun x => negb (existsb (eqb x) del)) l.

Definition resolve (t : table) (cl : nat) (hd : N) (rs : bool) (other : N) (i : iobs) : obs :=
  {| o_class := cl; o_head := hdr_at t hd; o_rest_same := rs; o_cons := i_cons i;
     o_idx := map (hdr_at t) (i_idx i);
     o_rmain := map (fun ab => (hdr_at t (fst ab), hdr_at t (snd ab))) (i_rmain i);
     o_other := N.to_nat other |}.

(** [ref]: (head, rest_same, other, store) of the state the step started from.  Returns the
    decoded observation and the same tuple for the observed state. *)
Definition oref := (N * bool * N * iobs)%type.
Definition pobs (t : table) (c0 : cstate) (ref : oref) : P (obs * oref) :=
  cl <~ u8 ;;
  if negb (cl =? 0) then
    let '(hd, rs, other, i) := ref in pret (resolve t (N.to_nat cl) hd rs other i, ref)
  else
    hd <~ u16 ;; rs <~ pbool ;; other <~ u16 ;;
    cdel <~ plist pckey ;; cadd <~ plist (pcons t c0) ;;
    idel <~ plist u16 ;; iadd <~ plist u16 ;;
    rdel <~ plist ppair ;; radd <~ plist ppair ;;
    let i0 := snd ref in
    let i := {| i_cons := filter (fun e => negb (existsb (ckey_eqb (fst e)) (cdel ++ map fst cadd))) (i_cons i0) ++ cadd;
                i_idx := remove_all N.eqb idel (i_idx i0) ++ iadd;
                i_rmain := remove_all pair_eqb rdel (i_rmain i0) ++ radd |} in
    pret (resolve t 0 hd rs other i, (hd, rs, other, i)).

Definition dummy_header : header :=
  {| h_parent := []; h_uncle := []; h_coinbase := []; h_root := []; h_tx := []; h_receipt := []; h_bloom := []; h_diff := [];
     h_rev := 0; h_num := 0; h_gaslimit := 0; h_gasused := 0; h_time := 0; h_extra := []; h_mix := []; h_nonce := 0; h_basefee := [] |}.

(** steps thread the reference observation: a probe or a refused step leaves it unchanged *)
Fixpoint psteps (n : nat) (t : table) (c0 : cstate) (ref : oref) : P (list step) :=
  match n with
  | O => pret []
  | S n' =>
      bt <~ pvar ;; hn <~ u16 ;; pr <~ pbool ;; r <~ pobs t c0 ref ;;
      let st := {| s_bt := bt; s_hdr := match hdr_at t hn with Some h => h | None => dummy_header end;
                   s_probe := pr; s_obs := fst r |} in
      l <~ psteps n' t c0 (if pr then ref else snd r) ;;
      pret (st :: l)
  end.

Definition pcase : P case :=
  raw <~ pbool ;; chain <~ pvar ;; trust <~ pvar ;; c0 <~ pcstate ;;
  pool <~ plist pbytes ;;
  t <~ plist (phdr pool) ;;
  cr <~ pobs t c0 (65535, false, 0, iempty) ;;
  n <~ u16 ;;
  steps <~ psteps (N.to_nat n) t c0 (snd cr) ;;
  pret {| k_raw := raw; k_chain := chain; k_trust := trust;
          k_genesis := match hdr_at t 0 with Some h => h | None => dummy_header end;
          k_cons := c0; k_table := t; k_create := fst cr; k_steps := steps |}.

(** a case that does not decode (or leaves bytes over) is reported as mismatch kind 15 *)
Definition dec_case (b : bytes) : option case :=
  match pcase b with Some (k, []) => Some k | _ => None end.

Fixpoint number {A} (i : nat) (l : list A) : list (nat * A) :=
  match l with [] => [] | x :: l' => (i, x) :: number (S i) l' end.

(** * Model vs implementation *)

(** does the model state equal the observation?  (store contents compared as sets: equal
    sizes + every observed entry present in the model; store keys are distinct) *)
Definition same_state (t : table) (s : state) (o : obs) : bool :=
  match o_head o with Some h => header_eqb h (head s) | None => false end
  && o_rest_same o && Nat.eqb (o_other o) 0
  && Nat.eqb (length (o_cons o)) (length (cons s))
  && forallb (fun e => match cget (fst e) (cons s) with Some c => cstate_eqb c (snd e) | None => false end) (o_cons o)
  && Nat.eqb (length (o_idx o)) (length (idx s))
  && forallb (fun e => match e with
                       | Some n => match iget (t_hash t n, h_num n) (idx s) with Some a => header_eqb a n | None => false end
                       | None => false end) (o_idx o)
  && Nat.eqb (length (o_rmain o)) (length (rmain s))
  && forallb (fun e => match e with
                       | (Some a, Some b) => match rget (to_hash (h_root a), h_num a) (rmain s) with
                                             | Some v => hkey_eqb v (t_hash t b, h_num b)
                                             | None => false end
                       | _ => false end) (o_rmain o).

(** the raw mode of the harness: no status gate *)
Definition raw_update (t : table) (bt : N) (s : state) (h : header) : outcome state :=
  r <- check_header (t_hash t) (t_seal t) bt s h ;;
  let '(s', c) := r in
  Ok {| head := head s'; chain_id := chain_id s'; trusting := trusting s'; idx := idx s'; rmain := rmain s';
        cons := cset (h_rev h, h_num h) c (cons s') |}.

Definition model_step (k : case) (bt : N) (s : state) (h : header) : outcome state :=
  if k_raw k then raw_update (k_table k) bt s h else update_client (t_hash (k_table k)) (t_seal (k_table k)) bt s h.

(** would the model consult the seal oracle for [h]? *)
Definition seal_consulted (t : table) (bt : N) (s : state) (h : header) : bool :=
  negb (chain_id s =? rinkeby) &&& validate_basic h &&& rev_ok cur s h
  &&& match verify_header (t_hash t) bt s h with Ok _ => true | _ => false end
  &&& exp_ok cur bt s h &&& negb (32 <? len (h_extra h)).

(** Kinds: 1 class differs, 2 state after an accepted step differs, 3 state after creation
    differs, 12 the model consulted a seal verdict the harness did not tabulate, 13 a
    submitted header is missing from the hash table. *)
Fixpoint cmp_steps (k : case) (i : nat) (s : state) (l : list step) : list (nat * nat) :=
  match l with
  | [] => []
  | st :: l' =>
      let t := k_table k in
      let h := s_hdr st in
      match tlookup t h with
      | None => [(i, 13%nat)]
      | Some _ =>
          if seal_consulted t (s_bt st) s h &&& negb (t_seal_known t h) then [(i, 12%nat)] else
          let r := model_step k (s_bt st) s h in
          if negb (Nat.eqb (oclass r) (o_class (s_obs st))) then [(i, 1%nat)]
          else match r with
               | Ok s' => if same_state t s' (s_obs st)
                          then cmp_steps k (S i) (if s_probe st then s else s') l'
                          else [(i, 2%nat)]
               | _ => cmp_steps k (S i) s l'
               end
      end
  end.

Definition initial (k : case) : state :=
  create_client (t_hash (k_table k)) (k_chain k) (k_trust k) (k_genesis k) (k_cons k).

Definition cmp_case (k : case) : list (nat * nat) :=
  if negb (Nat.eqb (o_class (k_create k)) 0) then [(0%nat, 3%nat)]
  else if negb (same_state (k_table k) (initial k) (k_create k)) then [(0%nat, 3%nat)]
  else cmp_steps k 1 (initial k) (k_steps k).

Definition mismatches (ks : list (nat * option case)) : list (nat * (nat * nat)) :=
  flat_map (fun ik => match snd ik with
                      | Some k => map (fun m => (fst ik, m)) (cmp_case k)
                      | None => [(fst ik, (0%nat, 15%nat))] end) ks.

(** * Monitors: the property evaluated on the IMPLEMENTATION's trace alone.  The observed
    store is turned back into a [state] value; only specification-level predicates of
    Model/Eth.v (rules_b, valid_child_b, main_chain, should_accept ...) are applied to it,
    never the model's step functions. *)
Definition all_some {A} (l : list (option A)) : option (list A) :=
  fold_right (fun x acc => match x, acc with Some a, Some r => Some (a :: r) | _, _ => None end) (Some []) l.

Definition state_of_obs (k : case) (o : obs) : option state :=
  let t := k_table k in
  match o_head o, all_some (o_idx o), all_some (map (fun e => match e with (Some a, Some b) => Some (a, b) | _ => None end) (o_rmain o)) with
  | Some hd, Some ix, Some rm =>
      Some {| head := hd; chain_id := k_chain k; trusting := k_trust k;
              idx := map (fun n => ((t_hash t n, h_num n), n)) ix;
              rmain := map (fun ab => ((to_hash (h_root (fst ab)), h_num (fst ab)), (t_hash t (snd ab), h_num (snd ab)))) rm;
              cons := o_cons o |}
  | _, _, _ => None
  end.

(** (c): every consensus state kept (under the client's revision number) for a height up to
    the head's is (time, height, root) of the head's stored ancestor at that height. *)
Definition main_chain_ok (t : table) (s : state) : bool :=
  let mc := main_chain s in
  forallb (fun e => let '((r, n), c) := e in
                    negb ((r =? h_rev (head s)) && (n <=? h_num (head s)))
                    || match at_height mc n with Some a => cstate_eqb c (cstate_of a) | None => false end)
          (cons s).

(** the hypotheses about the accepted history under which Props/C10.v proves the invariant that are NOT met by
    every header tree: same revision number as the head (else 2); no other stored header of that height with the
    same state root (else 1).  (The third hypothesis, [noalias_b] -- the header is not a second byte encoding of a
    stored header with the same hash -- is a restriction of the proof only: the monitors keep checking the property
    at full strength after such a step.) *)
Definition step_hyp (t : table) (s : state) (h : header) : nat :=
  if negb (h_rev h =? h_rev (head s)) then 2%nat
  else if negb fix_root &&& negb (fresh_root_b (t_hash t) s h) then 1%nat else 0%nat.

(** [should_accept] without [noalias_b] *)
Definition should_accept_m (t : table) (bt : N) (s : state) (h : header) : bool :=
  active bt s &&& valid_child_b (t_hash t) (t_seal t) bt s h &&& (h_rev h =? h_rev (head s)) &&& exp_ok cur bt s h
  &&& (fix_root || fresh_root_b (t_hash t) s h) &&&
  (beq (t_hash t (head s)) (h_parent h)
   || meets s h (if prune_due bt s then base s + 1 else base s)).

(** Kinds (st = the step):
    21 accepted although no rule-abiding parent is stored (parent lookup / hash / rules)
    23 accepted but the head is not the accepted header
    25 a header meeting every hypothesis of [no_wedge] was refused             (wedge)
    26 after an accepted header a kept consensus state is not the head's ancestor's
    27 the observation cannot be interpreted (entries outside the case's header table)
    known-finding classes (hypotheses of the theorems, each necessary -- Refuted/C10_*.v):
    41 rule-abiding child of a stored header refused: the fork point lies below the pruned prefix
    42 the accepted header left the client expired at the very block time of the update
    43 like 26 / 25, after a header whose state root equals a stored sibling's was accepted
    44 like 26 / 25, after a header with another revision number was accepted *)
Fixpoint mon_steps (k : case) (i : nat) (pre : state) (hyp : nat) (l : list step) : list (nat * nat) :=
  match l with
  | [] => []
  | st :: l' =>
      let t := k_table k in
      let h := s_hdr st in
      let bt := s_bt st in
      let o := s_obs st in
      let gate := k_raw k || active bt pre in
      let valid := valid_child_b (t_hash t) (t_seal t) bt pre h in
      if Nat.eqb (o_class o) 0 then
        match state_of_obs k o with
        | None => [(i, 27%nat)]
        | Some post =>
            let hyp' := match hyp with O => step_hyp t pre h | _ => hyp end in
            let next := if s_probe st then mon_steps k (S i) pre hyp l' else mon_steps k (S i) post hyp' l' in
            if negb (gate && valid) then [(i, 21%nat)]
            else if negb (header_eqb (head post) h) then [(i, 23%nat)]
            else if negb (main_chain_ok t post) then [(i, match hyp' with O => 26 | 1 => 43 | _ => 44 end%nat)]
            else if negb (k_raw k) && negb (active bt post) then (i, 42%nat) :: next
            else next
        end
      else
        let next := mon_steps k (S i) pre hyp l' in
        if Nat.eqb (o_class o) 2 then (i, 28%nat) :: next
        else if valid && (h_rev h =? h_rev (head pre)) && active bt pre && exp_ok cur bt pre h then
          match hyp with
          | O => if should_accept_m t bt pre h then (i, 25%nat) :: next
                 else if negb fix_root &&& negb (fresh_root_b (t_hash t) pre h) then (i, 43%nat) :: next
                 else (i, 41%nat) :: next
          | 1%nat => (i, 43%nat) :: next
          | _ => (i, 44%nat) :: next
          end
        else next
  end.

Definition mon_case (k : case) : list (nat * nat) :=
  match state_of_obs k (k_create k) with
  | None => [(0%nat, 27%nat)]
  | Some s0 =>
      (* the creation proposal's consensus state must be the one of the installed header (hypothesis of the theorems) *)
      let hyp0 := match cget (h_rev (k_genesis k), h_num (k_genesis k)) (cons s0) with
                  | Some c => if cstate_eqb c (cstate_of (k_genesis k)) then 0%nat else 3%nat
                  | None => 3%nat end in
      mon_steps k 1 s0 hyp0 (k_steps k)
  end.

Definition monitor_failures (ks : list (nat * option case)) : list (nat * (nat * nat)) :=
  flat_map (fun ik => match snd ik with
                      | Some k => map (fun m => (fst ik, m)) (mon_case k)
                      | None => [] end) ks.

(** Sanity of the tabulated hash oracle = the hypothesis [hash_ok_b] of the theorems (Model/Eth.v), evaluated on the
    table: every hash has 32 bytes; two headers with the same hash have the same number and the same normalised
    parent hash. *)
Definition oracle_ok (t : table) : bool :=
  let t := filter (fun e => len (h_bloom (fst e)) <=? 256) t in     (* Header.Hash panics on a longer bloom *)
  forallb (fun e1 => Nat.eqb (length (fst (snd e1))) 32
                     && forallb (fun e2 => negb (beq (fst (snd e1)) (fst (snd e2)))
                                           || ((h_num (fst e1) =? h_num (fst e2))
                                               &&& beq (to_hash (h_parent (fst e1))) (to_hash (h_parent (fst e2))))) t) t.

Definition oracle_failures (ks : list (nat * option case)) : list nat :=
  flat_map (fun ik => match snd ik with
                      | Some k => if oracle_ok (k_table k) then [] else [fst ik]
                      | None => [] end) ks.

(** One evaluation per file: decode once, then (mismatches, monitor failures, oracle failures). *)
Definition report (qs : list bytes) :=
  let ks := number 0 (map dec_case qs) in
  (mismatches ks, monitor_failures ks, oracle_failures ks).

(** * Function-level differential (harness/cmd/c10/calc.go): the difficulty calculator, CalcBaseFee and
    VerifyGaslimit of the real code on generated (parent, time, gas limit) triples and on consecutive main-net
    headers.  [q_diff], [q_bf], [q_gl] are the values the CODE returned; [q_child] = the real child's
    (difficulty, base fee) for the main-net pairs. *)
Record qcase := {
  q_p : header; q_time : N; q_hg : N;
  q_diff : Z; q_bf : option N (* None = panic *); q_gl : bool;
  q_child : option (N * N) }.

Definition mkq (ptime pnum pgl pgu : N) (puncle pdiff pbf : string) (time hg : N) (diff : Z) (bf : option N) (gl : bool)
               (child : option (N * N)) : qcase :=
  {| q_p := {| h_parent := []; h_uncle := unhex puncle; h_coinbase := []; h_root := []; h_tx := []; h_receipt := []; h_bloom := [];
               h_diff := unhex pdiff; h_rev := 0; h_num := pnum; h_gaslimit := pgl; h_gasused := pgu; h_time := ptime;
               h_extra := []; h_mix := []; h_nonce := 0; h_basefee := unhex pbf |};
     q_time := time; q_hg := hg; q_diff := diff; q_bf := bf; q_gl := gl; q_child := child |}.

(** model vs code: 31 difficulty, 32 base fee (value or panic), 33 gas-limit verdict *)
Definition calc_cmp (q : qcase) : list nat :=
  (if (calc_difficulty (q_time q) (q_p q) =? q_diff q)%Z then [] else [31%nat]) ++
  (match calc_base_fee (q_p q), q_bf q with
   | Ok a, Some b => if a =? b then [] else [32%nat]
   | Panic, None => []
   | _, _ => [32%nat]
   end) ++
  (if Bool.eqb (verify_gaslimit (h_gaslimit (q_p q)) (q_hg q)) (q_gl q) then [] else [33%nat]).

(** monitor (code vs the real chain, no model involved): the values the CODE computes from a real main-net parent
    are the real child's -- otherwise the client refuses a rule-abiding child of a stored header.
    35 difficulty, 36 base fee, 37 gas limit refused *)
Definition calc_mon (q : qcase) : list nat :=
  match q_child q with
  | None => []
  | Some (cd, cbf) =>
      (if (q_diff q =? Z.of_N cd)%Z then [] else [35%nat]) ++
      (match q_bf q with Some b => if b =? cbf then [] else [36%nat] | None => [36%nat] end) ++
      (if q_gl q then [] else [37%nat])
  end.

Definition calc_report (qs : list qcase) : list (nat * nat) * list (nat * nat) :=
  let n := number 0 qs in
  (flat_map (fun iq => map (fun k => (fst iq, k)) (calc_cmp (snd iq))) n,
   flat_map (fun iq => map (fun k => (fst iq, k)) (calc_mon (snd iq))) n).
