(** * Abstract Merkle-Patricia tries and their encoding (C08)

    The other side of Model/EvmProofMpt.v: what a trie IS, as opposed to how a proof of one of its entries is
    verified.  [tnode] = a trie as a tree (leaf / extension / branch, children resolved); [enc] = the RLP encoding of
    a node as go-ethereum's hasher produces it (trie/hasher.go, trie/node.go [EncodeRLP], trie/encoding.go
    [hexToCompact]): a child whose encoding is shorter than 32 bytes is embedded, any other is referred to by its
    Keccak hash; [tlookup] = the content of the trie at a hex key; [db_of] = its node database.
    [enc_node] re-encodes a DECODED node ([decode_node] of Model/EvmProofMpt.v): the correspondence check evaluates
    [enc_node (decode_node n) = n] on every node of complete geth node databases, which ties [enc] to the bytes
    go-ethereum writes (Proofs/EvmProofTrie.v: [enc_node_shallow]).

    No proofs in this file. *)
From Teleport Require Import Base.Bytes Base.Outcome Model.EvmProof Model.EvmProofMpt.
Local Open Scope N_scope.

(** ** compact (hex-prefix) encoding of a nibble path: [hexToCompact] *)
Fixpoint pack (k : bytes) : bytes :=
  match k with
  | a :: b :: r => byte_of_N (16 * nb a + nb b) :: pack r
  | _ => []
  end.

Definition hex_to_compact (k : bytes) (term : bool) : bytes :=
  let t := if term then 2 else 0 in
  if Nat.odd (length k)
  then match k with a :: r => byte_of_N (16 * (t + 1) + nb a) :: pack r | [] => [] end
  else byte_of_N (16 * t) :: pack k.


(** compact encoding of a hex key as a decoded short node carries it (terminator 16 at the end = leaf flag) *)
Definition compact_of_hex (key : bytes) : bytes :=
  if has_term key then hex_to_compact (removelast key) true else hex_to_compact key false.

(** re-encoding of a decoded node: hash references and embedded nodes as they were *)
Fixpoint enc_node (n : node) : bytes :=
  match n with
  | NNil => rlp_string []
  | NHash h => rlp_string h
  | NValue v => rlp_string v
  | NShort k v => rlp_list [rlp_string (compact_of_hex k); enc_node v]
  | NFull cs => rlp_list (map enc_node cs)
  end.

(** ** abstract tries *)
Inductive tnode :=
| TLeaf (k v : bytes)                           (* remaining nibbles, value *)
| TExt (k : bytes) (c : tnode)                  (* shared nibbles, child *)
| TBranch (cs : list (option tnode)) (v : bytes). (* 16 children, value ([] = none) *)


Section Enc.
  Variable keccak256 : bytes -> bytes.

  (** how a parent refers to a child with encoding [e]: embedded when shorter than a hash, else by hash *)
  Definition mkref (e : bytes) : bytes := if (length e <? 32)%nat then e else rlp_string (keccak256 e).

  Fixpoint enc (t : tnode) : bytes :=
    match t with
    | TLeaf k v => rlp_list [rlp_string (hex_to_compact k true); rlp_string v]
    | TExt k c => rlp_list [rlp_string (hex_to_compact k false); mkref (enc c)]
    | TBranch cs v =>
        rlp_list (map (fun oc => match oc with None => rlp_string [] | Some c => mkref (enc c) end) cs ++ [rlp_string v])
    end.

  (** the node [decodeNode] yields for [enc t] *)
  Fixpoint shallow (t : tnode) : node :=
    match t with
    | TLeaf k v => NShort (k ++ [x10]) (NValue v)
    | TExt k c => NShort k (if (length (enc c) <? 32)%nat then shallow c else NHash (keccak256 (enc c)))
    | TBranch cs v =>
        NFull (map (fun oc => match oc with
                              | None => NNil
                              | Some c => if (length (enc c) <? 32)%nat then shallow c else NHash (keccak256 (enc c))
                              end) cs ++ [match v with [] => NNil | _ => NValue v end])
    end.

  Definition sref (c : tnode) : node :=
    if (length (enc c) <? 32)%nat then shallow c else NHash (keccak256 (enc c)).


  (** the node database of a trie: the encoding of every sub-trie (embedded ones are surplus entries) *)
  Fixpoint db_of (t : tnode) : list bytes :=
    enc t ::
    match t with
    | TLeaf _ _ => []
    | TExt _ c => db_of c
    | TBranch cs _ => flat_map (fun oc => match oc with Some c => db_of c | None => [] end) cs
    end.

End Enc.

(** ** what an abstract trie holds at a (hex) key *)
Fixpoint tlookup (t : tnode) (key : bytes) : bytes :=
  match t with
  | TLeaf k v => if is_prefix (k ++ [x10]) key then v else []
  | TExt k c => if is_prefix k key then tlookup c (skipn (length k) key) else []
  | TBranch cs v =>
      match key with
      | [] => []
      | k0 :: kr =>
          if Byte.eqb k0 x10 then v
          else (fix pick (l : list (option tnode)) (i : nat) {struct l} : bytes :=
                  match l with
                  | [] => []
                  | oc :: l' =>
                      match i with
                      | O => match oc with Some c => tlookup c kr | None => [] end
                      | S i' => pick l' i'
                      end
                  end) cs (N.to_nat (nb k0))
      end
  end.

