(** * C14 — the map-loop transcriptions of [Model/MapLoops.v] against the real functions

    harness/cmd/c14 (mode maploops) calls the real code — snapshot.validators / snapshot.inturn (through the verif
    hook), app.ModuleAccountAddrs / BlockedAddrs / GetMaccPerms, the handler tables of the two adapters — and
    records, next to the result, ONE enumeration of the ranged map (its own [range], i.e. a fresh random order every
    time) and the values of the functions the model treats as oracles (address derivation, event IDs).  The model
    loop is evaluated on that enumeration and compared with the real result; kinds of mismatch:
    1 validators() slice, 2 inturn outcome, 3 ModuleAccountAddrs, 4 BlockedAddrs, 5 GetMaccPerms keys,
    6 handler table keys / panic, 7 verifySeal's recently-signed verdict (through CheckHeaderAndUpdateState on a
    prepared store); and two kinds that are not about a model but about a PREMISE of a theorem on the real data:
    8 two module names derive the same address (premise of blocked_addrs_order_independent), 9 two events of the
    ABI have the same ID (premise of handler_table_order_independent). *)
From Coq Require Import List String NArith Bool.
From Teleport Require Import Base.Bytes Base.Outcome Model.MapLoops.
Import ListNotations.

Fixpoint list_eqb {A} (eqb : A -> A -> bool) (a b : list A) : bool :=
  match a, b with
  | [], [] => true
  | x :: a', y :: b' => eqb x y && list_eqb eqb a' b'
  | _, _ => false
  end.

Inductive mlcase :=
| CValidators (entries : list bytes) (number : N) (validator : bytes) (real_sorted : list bytes) (real_inturn : N) (* 0 false 1 true 2 panic *)
| CMacc (entries : list (bytes * (bytes * bool)))  (* module name -> (derived address, allowedReceivingModAcc[name]) *)
        (real_modaddrs real_blocked : list (bytes * bool)) (real_copy_keys : list bytes)
| CHandlers (events : list (bytes * bytes)) (known : list bytes) (real_ids : list bytes) (real_panicked : bool)
| CRecents (entries : list (N * bytes)) (signer : bytes) (number limit : N) (real_verdict : N). (* 1 recently signed, 0 accepted, 3 other error, 2 panic *)

Fixpoint nodup_bytes (l : list bytes) : bool :=
  match l with
  | [] => true
  | a :: t => negb (existsb (bytes_eqb a) t) && nodup_bytes t
  end.

Definition inturn_code (o : outcome bool) : N := match o with Ok false => 0 | Ok true => 1 | _ => 2 end.

(** a real map dump (sorted pairs) equals a model map: same lookups on the dumped keys, and no other key in the model *)
Definition same_map (real : list (bytes * bool)) (model : gomap bytes bool) : bool :=
  forallb (fun kv => match mlookup bytes_eqb (fst kv) model with Some v => Bool.eqb v (snd kv) | None => false end) real &&
  forallb (fun kv => existsb (fun r => bytes_eqb (fst r) (fst kv)) real) model.

Definition same_keys {V} (real : list bytes) (model : gomap bytes V) : bool :=
  forallb (fun k => match mlookup bytes_eqb k model with Some _ => true | None => false end) real &&
  forallb (fun kv => existsb (bytes_eqb (fst kv)) real) model.

Definition case_mismatch (c : mlcase) : list nat :=
  match c with
  | CValidators entries number validator real_sorted real_inturn =>
      let l := map (fun a => (a, tt)) entries in
      (if list_eqb bytes_eqb (validators_loop addr_sort l) real_sorted then [] else [1]) ++
      (if N.eqb (inturn_code (inturn addr_sort l number validator)) real_inturn then [] else [2])
  | CMacc entries real_mod real_blocked real_copy =>
      (if same_map real_mod (insert_loop (fun _ v => fst v) (fun _ _ => true) entries) then [] else [3]) ++
      (if same_map real_blocked (insert_loop (fun _ v => fst v) (fun _ v => negb (snd v)) entries) then [] else [4]) ++
      (if same_keys real_copy (insert_loop (fun k _ => k) (fun _ v => v) entries) then [] else [5]) ++
      (if nodup_bytes (map (fun e => fst (snd e)) entries) then [] else [8])
  | CHandlers events known real_ids real_panicked =>
      let handler_of n := if existsb (bytes_eqb n) known then Some n else None in
      match handler_loop handler_of (fun id : bytes => id) events with
      | Ok m => if negb real_panicked && same_keys real_ids m then [] else [6]
      | _ => if real_panicked then [] else [6]
      end ++ (if nodup_bytes (map snd events) then [] else [9])
  | CRecents entries signer number limit real =>
      if N.eqb (if recents_loop signer number limit entries then 1 else 0) real then [] else [7]
  end.

Definition ml_mismatches (cases : list mlcase) : list (nat * nat) :=
  (fix go (i : nat) (l : list mlcase) : list (nat * nat) :=
     match l with
     | [] => []
     | c :: t => map (fun k => (i, k)) (case_mismatch c) ++ go (S i) t
     end) 0 cases.
