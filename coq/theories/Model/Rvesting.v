(** Executable model of x/rvesting (reward vesting): parameter validation and
    [BeginBlocker], over the part of the bank they touch.

    Go sources modelled (line-by-line transcriptions, see DESIGN.md 5.C20):
      x/rvesting/module/abci.go     BeginBlocker
      x/rvesting/keeper/keeper.go   GetRemainingCoin, SendVestedCoins
      x/rvesting/types/param.go     validatePerBlockReward, Params.validate
    Library behaviour modelled (cosmos-sdk v0.45.2): [sdk.ValidateDenom],
    [Coins.Add] (per-denomination merge, zero coins dropped), [Coins.IsZero],
    [bank.GetBalance] (panics through [NewCoin] on an invalid denomination with
    no balance), [bank.SendCoins] ([IsValid] + per-coin sufficiency). *)
From Teleport Require Import Base.Bytes Base.Outcome.
Local Open Scope Z_scope.

(** * Balances: association lists read through [get] (later entries shadowed). *)
Definition balmap := list (bytes * Z).

Fixpoint get (m : balmap) (d : bytes) : Z :=
  match m with
  | [] => 0
  | (k, v) :: m' => if bytes_eqb k d then v else get m' d
  end.

Definition upd (m : balmap) (d : bytes) (v : Z) : balmap := (d, v) :: m.

(** * sdk.ValidateDenom (v0.45.2): ^[a-zA-Z][a-zA-Z0-9/-]{2,127}$ *)
Definition is_alpha (b : byte) : bool :=
  let n := Byte.to_N b in
  ((65 <=? n)%N && (n <=? 90)%N) || ((97 <=? n)%N && (n <=? 122)%N).
Definition is_digit (b : byte) : bool :=
  let n := Byte.to_N b in (48 <=? n)%N && (n <=? 57)%N.
Definition is_denom_tail (b : byte) : bool :=
  let n := Byte.to_N b in
  is_alpha b || is_digit b || (n =? 47)%N || (n =? 45)%N.

Definition valid_denom (d : bytes) : bool :=
  match d with
  | [] => false
  | c :: t => is_alpha c && forallb is_denom_tail t
              && (2 <=? length t)%nat && (length t <=? 127)%nat
  end.

(** * Parameters *)
Record params := { enable : bool; rewards : list (bytes * Z) }.

Fixpoint mem (d : bytes) (l : list bytes) : bool :=
  match l with [] => false | x :: l' => bytes_eqb x d || mem d l' end.

Fixpoint nodup_denoms (l : list (bytes * Z)) : bool :=
  match l with
  | [] => true
  | (d, _) :: l' => negb (mem d (map fst l')) && nodup_denoms l'
  end.

(** [validatePerBlockReward] of the current tree (after the fix of finding
    C20/C15 "duplicate or invalid reward denominations"): non-empty, every
    denomination valid, no negative amount, no denomination twice. *)
Definition validate_rewards (r : list (bytes * Z)) : bool :=
  negb (match r with [] => true | _ => false end)
  && forallb (fun c => valid_denom (fst c) && (0 <=? snd c)) r
  && nodup_denoms r.

(** The pre-fix validation, kept for [Refuted/C20_refuted.v]: it only rejects
    empty lists, empty denominations and negative amounts. *)
Definition validate_rewards_old (r : list (bytes * Z)) : bool :=
  negb (match r with [] => true | _ => false end)
  && forallb (fun c => negb (match fst c with [] => true | _ => false end) && (0 <=? snd c)) r.

(** * Bank projection: pool (module account rvesting), fee collector, the sum
    of all other accounts, and the supply.  [BeginBlocker] may only touch the
    first two. *)
Record state := { pool : balmap; fee : balmap; others : balmap; supply : balmap }.

(** One loop iteration of BeginBlocker: what is added to [vestedCoins]. *)
Definition choose (pl : balmap) (r : bytes * Z) : outcome (option (bytes * Z)) :=
  let (d, a) := r in
  let rem := get pl d in
  if (rem =? 0) then
    (* GetBalance: no stored balance -> NewCoin(denom, 0) panics on an invalid denom *)
    if valid_denom d then Ok None else Panic
  else if rem <? a then Ok (Some (d, rem)) else Ok (Some (d, a)).

Fixpoint choose_all (pl : balmap) (rs : list (bytes * Z)) : outcome (list (bytes * Z)) :=
  match rs with
  | [] => Ok []
  | r :: rs' =>
      match choose pl r with
      | Panic => Panic
      | Err => Err
      | Ok c =>
          match choose_all pl rs' with
          | Ok l => Ok (match c with Some x => x :: l | None => l end)
          | o => o
          end
      end
  end.

(** Total per denomination of the coins accumulated with [Coins.Add]. *)
Fixpoint vtotal (l : list (bytes * Z)) (d : bytes) : Z :=
  match l with
  | [] => 0
  | (k, a) :: l' => (if bytes_eqb k d then a else 0) + vtotal l' d
  end.

Definition move1 (s : state) (d : bytes) (a : Z) : state :=
  {| pool := upd (pool s) d (get (pool s) d - a);
     fee := upd (fee s) d (get (fee s) d + a);
     others := others s; supply := supply s |}.

(** Apply SendCoins for the merged coin set: per distinct denomination. *)
Fixpoint distinct (l : list bytes) : list bytes :=
  match l with
  | [] => []
  | d :: l' => if mem d l' then distinct l' else d :: distinct l'
  end.

Definition send_vested (chosen : list (bytes * Z)) (s : state) : state :=
  fold_left (fun st d => move1 st d (vtotal chosen d)) (distinct (map fst chosen)) s.

Definition begin_block (p : params) (s : state) : outcome state :=
  if negb (enable p) then Ok s else
  match choose_all (pool s) (rewards p) with
  | Panic => Panic
  | Err => Err
  | Ok chosen =>
      let ds := distinct (map fst chosen) in
      if forallb (fun d => vtotal chosen d =? 0) ds then Ok s            (* vestedCoins.IsZero() *)
      else if existsb (fun d => vtotal chosen d <? 0) ds then Panic      (* !amt.IsValid() -> err -> panic *)
      else if existsb (fun d => negb (valid_denom d)) ds then Panic
      else if existsb (fun d => get (pool s) d <? vtotal chosen d) ds then Panic (* insufficient funds *)
      else Ok (send_vested chosen s)
  end.

(** * Block histories: before each block the parameters may be replaced by a
    governance parameter change (which runs the validation function). *)
Record block := { set_enable : option bool; set_rewards : option (list (bytes * Z)) }.

Definition apply_change (p : params) (b : block) : params :=
  let p1 := match set_rewards b with
            | Some r => if validate_rewards r then {| enable := enable p; rewards := r |} else p
            | None => p end in
  match set_enable b with
  | Some e => {| enable := e; rewards := rewards p1 |}
  | None => p1
  end.

Fixpoint run (bs : list block) (p : params) (s : state) : outcome (params * state) :=
  match bs with
  | [] => Ok (p, s)
  | b :: bs' =>
      let p' := apply_change p b in
      match begin_block p' s with
      | Ok s' => run bs' p' s'
      | Err => Err
      | Panic => Panic
      end
  end.

(** The amount the property prescribes for denomination [d]. *)
Fixpoint reward_of (r : list (bytes * Z)) (d : bytes) : Z :=
  match r with
  | [] => 0
  | (k, a) :: r' => if bytes_eqb k d then a else reward_of r' d
  end.
