(** Correspondence and monitor for histories that contain registrations of token bindings (Model/BridgeGov.v): the
    functions of Model/BridgeCheck.v with the list of bindings threaded through the steps.  No proofs here. *)
From Coq Require Import List NArith Bool.
From Teleport Require Import Base.Outcome Model.Bridge Model.BridgeCheck Model.BridgeGov.
Import ListNotations.
Local Open Scope N_scope.

(** one observed step: an operation of Model/Bridge.v ([gs_bind = None]) or RegisterERC20Trace ([gs_bind = Some e];
    [os_op] of [gs_step] is then meaningless, [os_class] and [os_obs] are what was observed) *)
Record gostep := { gs_bind : option bentry; gs_step : ostep }.

Record ghist := {
  gh_u : universe;
  gh_binds : list bentry;        (* registered before the history starts *)
  gh_init : list cobs;
  gh_steps : list gostep
}.

(** * Model vs implementation.  Kinds as in [cmp_steps]; additionally 6: the case registers a binding whose slot or
    trace is already in use or whose scale factor is 0 (the generator must not do that: outside the property, see Refuted/C03_rebind.v). *)
Fixpoint gcmp_steps (U : universe) (n : nat) (binds : list bentry) (i : nat) (s : state) (l : list gostep) : list (nat * nat) :=
  match l with
  | [] => []
  | g :: l' =>
      let o := gs_step g in
      match gs_bind g with
      | Some e =>
          if negb (bind_fresh e binds) || (be_k e =? 0) then [(i, 6%nat)]
          else if negb (Nat.eqb (os_class o) 0) then [(i, 1%nat)]
          else let s' := bind_ledger e s in
               match obs_diff (project U s') (os_obs o) with
               | 0%nat => gcmp_steps U n (bind_list e binds) (S i) s' l'
               | k => [(i, k)]
               end
      | None =>
          let cfg := cfg_of n binds in
          match step cfg s (os_op o) with
          | Ok s' =>
              if negb (Nat.eqb (os_class o) 0) then [(i, 1%nat)]
              else if negb (op_code s' (os_op o) =? os_code o) then [(i, 2%nat)]
              else match obs_diff (project U s') (os_obs o) with
                   | 0%nat => gcmp_steps U n binds (S i) s' l'
                   | k => [(i, k)]
                   end
          | _ =>
              if negb (Nat.eqb (os_class o) 1) then [(i, 1%nat)]
              else match obs_diff (project U s) (os_obs o) with
                   | 0%nat => gcmp_steps U n binds (S i) s l'
                   | k => [(i, k)]
                   end
          end
      end
  end.

Definition ginit_state (h : ghist) : state := {| chains := decode (gh_u h) (gh_init h); packets := [] |}.

Definition gcmp_hist (h : ghist) : list (nat * nat) :=
  if negb (binds_ok (gh_binds h) && binds_pos (gh_binds h)) then [(0%nat, 4%nat)]
  else match obs_diff (project (gh_u h) (ginit_state h)) (gh_init h) with
       | 0%nat => gcmp_steps (gh_u h) (u_n (gh_u h)) (gh_binds h) 0 (ginit_state h) (gh_steps h)
       | _ => [(0%nat, 5%nat)]
       end.

Definition gmismatches (hs : list ghist) : list (nat * (nat * nat)) :=
  flat_map (fun ih => map (fun m => (fst ih, m)) (gcmp_hist (snd ih))) (number 0 hs).

(** * Monitor.  A registration must be accepted (kind 26 otherwise) and must not change any observable of any chain
    (kind 27); every invariant is then evaluated under the EXTENDED configuration. *)
Fixpoint gmon_steps (U : universe) (n : nat) (binds : list bentry) (cs0 : chain -> cstate) (i : nat) (ps : list packet)
  (pre : list cobs) (l : list gostep) : list (nat * nat) :=
  match l with
  | [] => []
  | g :: l' =>
      let o := gs_step g in
      let '(binds', ps', f1) :=
        match gs_bind g with
        | Some e => (bind_list e binds, ps,
                     (if Nat.eqb (os_class o) 0 then [] else [26%nat]) ++ (if same_obs pre (os_obs o) then [] else [27%nat]))
        | None => let '(ps', f) := mon_step U (cfg_of n binds) ps pre o in (binds, ps', f)
        end in
      let f := f1 ++ inv_failures U (cfg_of n binds') cs0 ps' (os_obs o) in
      match f with
      | [] => gmon_steps U n binds' cs0 (S i) ps' (os_obs o) l'
      | _ => map (fun k => (i, k)) f
      end
  end.

Definition gmon_hist (h : ghist) : list (nat * nat) :=
  let U := gh_u h in
  let cs0 := decode U (gh_init h) in
  match inv_failures U (cfg_of (u_n U) (gh_binds h)) cs0 [] (gh_init h) with
  | [] => gmon_steps U (u_n U) (gh_binds h) cs0 0 [] (gh_init h) (gh_steps h)
  | f => map (fun k => (0%nat, (100 + k)%nat)) f
  end.

Definition gmonitor_failures (hs : list ghist) : list (nat * (nat * nat)) :=
  flat_map (fun ih => map (fun m => (fst ih, m)) (gmon_hist (snd ih))) (number 0 hs).
