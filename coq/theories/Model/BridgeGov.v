(** C03 — the bridge ledger with token bindings registered IN THE MIDDLE of a history.

    Go / byte code modelled:
      x/aggregate/keeper/proposals.go    RegisterERC20Trace (governance proposal handler; no check of its own)
      x/aggregate/keeper/token_trace.go  AddERC20TraceToTransferContract -> Endpoint.bindToken(token, oriToken, oriChain, scale)

    Observed behaviour of [bindToken] called by the aggregate module (harness/cmd/c03 -probe-bind, notes/C03.md):
    it always succeeds; it (over)writes [bindings[token/oriChain]] := (oriChain, oriToken, amount := 0, scale, bound)
    and [bindingTraces[oriChain/oriToken]] := token.  In particular RE-binding a token that is already bound for
    that chain RESETS the minted amount to 0 and replaces scale and origin token (the old origin token is then
    "token not bound" on receive).

    The configuration of Model/Bridge.v becomes part of the state: [g_binds] is the list of bindings, newest
    first, and every operation of Model/Bridge.v runs under the configuration [cfg_of n binds] of the moment. *)
From Coq Require Import List NArith Bool.
From Teleport Require Import Base.Outcome Model.Bridge Model.BridgeCheck.
Import ListNotations.
Local Open Scope N_scope.

Record gstate := { g_n : nat; g_binds : list bentry; g_st : state }.

Definition g_cfg (g : gstate) : config := cfg_of (g_n g) (g_binds g).

Inductive gop :=
| GOp (o : op)             (* an operation of Model/Bridge.v *)
| GBind (e : bentry).      (* RegisterERC20Trace(chain c, local token, origin token, origin chain, 10^scale) *)

(** the slot [bindings[loc/src]] of chain [c] *)
Definition same_slot (x e : bentry) : bool :=
  Nat.eqb (be_c x) (be_c e) && Nat.eqb (be_loc x) (be_loc e) && Nat.eqb (be_src x) (be_src e).

(** [bindings[loc/src].amount := 0] on chain [c]; nothing else of any ledger changes *)
Definition bind_ledger (e : bentry) (s : state) : state :=
  let cs := chains s (be_c e) in
  {| chains := upd1 (chains s) (be_c e) (set_bind cs (upd_tc (bind_amt cs) (be_loc e) (be_src e) 0));
     packets := packets s |}.

(** the new entry replaces whatever was stored in its slot *)
Definition bind_list (e : bentry) (l : list bentry) : list bentry :=
  e :: filter (fun x => negb (same_slot x e)) l.

Definition gstep (g : gstate) (o : gop) : outcome gstate :=
  match o with
  | GOp o =>
      match step (g_cfg g) (g_st g) o with
      | Ok s' => Ok {| g_n := g_n g; g_binds := g_binds g; g_st := s' |}
      | Err => Err
      | Panic => Panic
      end
  | GBind e => Ok {| g_n := g_n g; g_binds := bind_list e (g_binds g); g_st := bind_ledger e (g_st g) |}
  end.

Definition gapply (g : gstate) (o : gop) : gstate := match gstep g o with Ok g' => g' | _ => g end.
Definition grun (g : gstate) (h : list gop) : gstate := fold_left gapply h g.

(** A binding is FRESH when neither its slot [bindings[loc/src]] nor its trace [bindingTraces[src/ori]] is in use on
    that chain.  (The first registration of a token pair; what the governance proposal is meant for.) *)
Definition bind_fresh (e : bentry) (l : list bentry) : bool :=
  is_none (trace_of l (be_c e) (be_src e) (be_ori e)) && is_none (bound_of l (be_c e) (be_loc e) (be_src e)).

(** every [GBind] of the history is fresh at the moment it is executed *)
Fixpoint no_rebind (g : gstate) (h : list gop) : Prop :=
  match h with
  | [] => True
  | o :: h' =>
      match o with
      | GBind e => bind_fresh e (g_binds g) = true
      | GOp _ => True
      end /\ no_rebind (gapply g o) h'
  end.
