(** Compact literals for the generated C09 case files: a byte string is given as
    its length and a list of primitive 63-bit integers carrying 7 bytes each
    (parsing a primitive-integer literal is ~10x cheaper than a string or a list-of-bytes literal).
    Used only by the case files evaluated with [vm_compute]; no theorem depends on it. *)
From Coq Require Import Uint63 List.
From Teleport Require Import Base.Bytes.
Import ListNotations.
Local Open Scope uint63_scope.

Definition bit (w : int) (k : int) : bool := ((w >> k) land 1) =? 1.

(** the byte at bit offset [k] (its least significant bit) of [w] *)
Definition byte_at (w : int) (k : int) : byte :=
  Byte.of_bits (bit w k, (bit w (k + 1), (bit w (k + 2), (bit w (k + 3),
               (bit w (k + 4), (bit w (k + 5), (bit w (k + 6), bit w (k + 7)))))))).

Definition word_bytes (w : int) : bytes :=
  [byte_at w 48; byte_at w 40; byte_at w 32; byte_at w 24; byte_at w 16; byte_at w 8; byte_at w 0].

Definition unpack (len : nat) (ws : list int) : bytes := firstn len (flat_map word_bytes ws).
