(** * C17 — EVM side of a system-contract transaction (MODELLED, validated by the correspondence
    on real EVM executions; there is no EVM semantics in Coq).

    - [sysfn], [event_of] : [syscontracts/contracts_src/Staking.sol], [Gov.sol] — every external
      function only does [emit Event(msg.sender, args...)]; Solidity >= 0.8 reverts when a call-data
      word does not fit the parameter type, and on an unknown selector.
    - [code], [exec_code] : the call shapes the harness can build out of its hand-assembled helper
      contracts (harness/cmd/c17/asm.go): a forwarding proxy (CALL / DELEGATECALL / STATICCALL /
      CALLCODE, optionally ignoring a failing inner call, reverting afterwards, or calling twice;
      it increments its storage slot 0 first), a batch contract (increments its slot 0, then performs
      a LIST of calls — each with its own target, call kind, call data and ignore-failure flag — in
      order, from ONE frame: [CSeq] ... [CStop]), a log emitter (arbitrary topics and data from its
      own address) and the system contracts themselves.  A frame knows its address ([fx_self], the
      address LOGs carry), its [msg.sender] and whether it runs under STATICCALL. *)
From Teleport Require Import Base.Bytes Base.Outcome Model.Adapter.
Local Open Scope N_scope.

Inductive sysfn :=
| FDelegate (v : bytes) (a : N)
| FUndelegate (v : bytes) (a : N)
| FRedelegate (s t : bytes) (a : N)
| FWithdraw (v : bytes)
| FVote (pid opt : N)
| FVoteW (pid : N) (opts : list (N * N)).

Definition fn_contract (f : sysfn) : hkind :=
  match f with FVote _ _ | FVoteW _ _ => HGov | _ => HStaking end.

Definition two64 : N := 18446744073709551616.
Definition two32 : N := 4294967296.
Definition two256 : N := 2 ^ 256.

(** the Solidity ABI decoder accepts the call data *)
Definition args_ok (f : sysfn) : bool :=
  match f with
  | FDelegate _ a | FUndelegate _ a | FRedelegate _ _ a => a <? two256
  | FWithdraw _ => true
  | FVote pid opt => (pid <? two64) && (opt <? two32)
  | FVoteW pid os => (pid <? two64) && forallb (fun ow => (fst ow <? two32) && (snd ow <? two64)) os
  end.

(** [emit X(msg.sender, ...)] *)
Definition event_of (f : sysfn) (sender : bytes) : event :=
  match f with
  | FDelegate v a => EDelegated sender v (Some a)
  | FUndelegate v a => EUndelegated sender v (Some a)
  | FRedelegate s t a => ERedelegated sender s t (Some a)
  | FWithdraw v => EWithdrew sender v
  | FVote pid opt => EVoted sender pid opt
  | FVoteW pid os => EVotedW sender pid os
  end.

Definition hkind_eqb (a b : hkind) : bool :=
  match a, b with HStaking, HStaking | HGov, HGov => true | _, _ => false end.

Inductive ckind := KCall | KDelegateCall | KStaticCall | KCallCode.

Inductive code :=
| CSys (h : hkind) (f : sysfn)          (* byte code of system contract [h], entered with call data "f(args)" *)
| CEmit (topics : list bytes) (data : bytes)
| CProxy (k : ckind) (ignore_fail then_revert twice : bool) (target : bytes) (inner : code)
| CStop                                  (* batch contract: end of its call list *)
| CSeq (k : ckind) (ignore_fail : bool) (target : bytes) (inner : code) (rest : code).
                                         (* batch contract: call [target] (code [inner]), then go on with [rest] in the SAME frame *)

Record fctx := { fx_self : bytes; fx_sender : bytes; fx_static : bool }.

(** an invocation of a system contract at its own address: (contract, msg.sender, call) *)
Definition invocation : Type := hkind * bytes * sysfn.

Record fres := {
  fr_ok : bool;
  fr_logs : list log;              (* surviving logs, in order *)
  fr_ctr : list bytes;             (* surviving increments of storage slot 0, by contract address *)
  fr_inv : list invocation         (* ghost: surviving executions of system-contract code AT the system address *)
}.

Definition ffail : fres := {| fr_ok := false; fr_logs := []; fr_ctr := []; fr_inv := [] |}.

Definition fapp (a b : fres) : fres :=
  {| fr_ok := true; fr_logs := fr_logs a ++ fr_logs b; fr_ctr := fr_ctr a ++ fr_ctr b; fr_inv := fr_inv a ++ fr_inv b |}.

Definition child_ctx (k : ckind) (target : bytes) (x : fctx) : fctx :=
  match k with
  | KCall => {| fx_self := target; fx_sender := fx_self x; fx_static := fx_static x |}
  | KStaticCall => {| fx_self := target; fx_sender := fx_self x; fx_static := true |}
  | KDelegateCall => {| fx_self := fx_self x; fx_sender := fx_sender x; fx_static := fx_static x |}
  | KCallCode => {| fx_self := fx_self x; fx_sender := fx_self x; fx_static := fx_static x |}
  end.

Fixpoint exec_code (c : code) (x : fctx) : fres :=
  match c with
  | CSys h f =>
      if fx_static x then ffail                                    (* LOG under STATICCALL *)
      else if negb (hkind_eqb (fn_contract f) h) then ffail        (* unknown selector *)
      else if negb (args_ok f) then ffail                          (* ABI decoder revert *)
      else {| fr_ok := true;
              fr_logs := [log_of_event (fx_self x) (event_of f (fx_sender x))];
              fr_ctr := [];
              fr_inv := if bytes_eqb (fx_self x) (sys_addr h) then [(h, fx_sender x, f)] else [] |}
  | CEmit ts d =>
      if fx_static x then ffail
      else if (4 <? length ts)%nat then ffail
      else {| fr_ok := true; fr_logs := [{| l_addr := fx_self x; l_topics := ts; l_data := d |}]; fr_ctr := []; fr_inv := [] |}
  | CProxy k ign rev twice target inner =>
      if fx_static x then ffail                                    (* SSTORE under STATICCALL *)
      else
        let r := exec_code inner (child_ctx k target x) in
        if negb (fr_ok r) && negb ign then ffail
        else
          let r1 := if fr_ok r then r else {| fr_ok := true; fr_logs := []; fr_ctr := []; fr_inv := [] |} in
          let rr := if twice then fapp r1 r1 else r1 in
          if rev then ffail
          else {| fr_ok := true; fr_logs := fr_logs rr; fr_ctr := fx_self x :: fr_ctr rr; fr_inv := fr_inv rr |}
  | CStop =>
      if fx_static x then ffail                                    (* SSTORE under STATICCALL *)
      else {| fr_ok := true; fr_logs := []; fr_ctr := [fx_self x]; fr_inv := [] |}
  | CSeq k ign target inner rest =>
      if fx_static x then ffail
      else
        let r := exec_code inner (child_ctx k target x) in
        if negb (fr_ok r) && negb ign then ffail                   (* the batch reverts: everything before is undone too *)
        else
          let r1 := if fr_ok r then r else {| fr_ok := true; fr_logs := []; fr_ctr := []; fr_inv := [] |} in
          let r2 := exec_code rest x in
          if fr_ok r2 then fapp r1 r2 else ffail
  end.

(** a user transaction: externally owned [tx_sender] calls address [tx_to] whose code is [tx_code]
    (contract creation: [tx_to] is the new address and [tx_code] the constructor) *)
Record txd := { tx_sender : bytes; tx_to : bytes; tx_code : code }.

Definition run_tx (t : txd) : fres :=
  exec_code (tx_code t) {| fx_self := tx_to t; fx_sender := tx_sender t; fx_static := false |}.

(** Well-formedness the harness guarantees by construction: the code found at a system address is
    that system contract and nothing else lives there. *)
Definition is_sys_addr (a : bytes) : bool := bytes_eqb a staking_addr || bytes_eqb a gov_addr.

Definition code_at_ok (a : bytes) (c : code) : bool :=
  match c with
  | CSys h _ => bytes_eqb a (sys_addr h)
  | _ => negb (is_sys_addr a)
  end.

(** what may follow a call in a batch contract's list: the next call or the end *)
Definition is_batch_tail (c : code) : bool :=
  match c with CStop | CSeq _ _ _ _ _ => true | _ => false end.

Fixpoint wf_code (c : code) : bool :=
  match c with
  | CProxy _ _ _ _ target inner => code_at_ok target inner && wf_code inner
  | CSeq _ _ target inner rest => code_at_ok target inner && wf_code inner && is_batch_tail rest && wf_code rest
  | _ => true
  end.

Definition wf_tx (t : txd) : bool := code_at_ok (tx_to t) (tx_code t) && wf_code (tx_code t).
