(** Correspondence and monitor definitions for C06, evaluated by [vm_compute] on the
    traces the harness recorded on the real code (no proofs here).

    Part A (Go authorization logic): the model of Model/Auth.v is run on the same
    histories; the lower layers (light clients, packet keeper, EVM) are instantiated by
    the per-step FACTS the harness tabulated with the real functions (client table,
    chain name, outcome class of ClientKeeper.UpdateClient / PacketKeeper.RecvPacket /
    PacketKeeper.AcknowledgePacket on a discarded branch of the state, with the TSS
    comparison neutralised).
    Part B (system contracts, byte code only): the expected access matrix as an
    executable Boolean over the exhaustive method x caller enumeration. *)
From Teleport Require Import Base.Bytes Base.Outcome Model.Auth.

(** * Part A *)
(** What `CallPacket(cctx, "onRecvPacket", packet)` + `UnpackIntoInterface` did when the harness ran them
    itself, with the real keeper and the real byte code, on a discarded branch of the state right after
    the tabulated PacketKeeper.RecvPacket (NOT read off the acknowledgement the message server wrote):
    the call returned an error / returned data that decodes to (code, result, message) or does not
    decode / panicked. *)
Inductive cbfact := CfFailed | CfRet (r : option (N * bytes * bytes)) | CfPanic.

Record facts := {
  f_clients : list (bytes * client);   (* every chain name of the case's universe that has a client *)
  f_self : bytes;                      (* GetChainName *)
  f_lower : nat;                       (* class of the tabulated lower-layer call: 0 ok, 1 error, 2 panic *)
  f_cb : cbfact                        (* the tabulated destination callback (CfRet None where it was not run) *)
}.

Fixpoint assoc {A} (l : list (bytes * A)) (k : bytes) : option A :=
  match l with
  | [] => None
  | (k', v) :: l' => if bytes_eqb k' k then Some v else assoc l' k
  end.

Definition of_class {A} (c : nat) (a : A) : outcome A :=
  match c with 0%nat => Ok a | 1%nat => Err | _ => Panic end.

Section Inst.
  Variable canon_tbl : list (bytes * bytes).   (* msg.Signer -> canonical bech32 form, tabulated *)
  Variable bech_tbl : list (bytes * bool).     (* AccAddressFromBech32 succeeds, tabulated *)

  Definition canon_f (s : bytes) : bytes := match assoc canon_tbl s with Some c => c | None => s end.
  Definition bech_f (s : bytes) : bool := match assoc bech_tbl s with Some b => b | None => false end.

  Definition lower_inst : lower facts unit unit unit :=
    {| client_of := fun d c => assoc (f_clients d) c;
       self_chain := f_self;
       lo_update := fun d _ _ => of_class (f_lower d) d;
       lo_recv := fun d _ => of_class (f_lower d) d;
       lo_callback := fun d _ => match f_cb d with
                                 | CfFailed => CbFailed facts d
                                 | CfRet r => CbReturned facts d r
                                 | CfPanic => CbPanic facts
                                 end;
       lo_write_ack := fun d _ _ => Ok d;
       lo_ack := fun d _ => of_class (f_lower d) d;
       lo_set_status := fun d _ => Ok d;
       lo_pay := fun d _ _ => Ok d;
       lo_on_ack := fun d _ => Ok d |}.

  Definition mstate := state facts.
  Definition mop := op facts unit unit unit.
  Definition mstep (s : mstate) (o : mop) := step facts unit unit unit canon_f ascii_fold_eq bech_f lower_inst s o.
End Inst.

(** What the harness did in one step and what it observed. *)
Inductive akind :=
| KGov (a : bytes) (chains addrs : list bytes)
| KRaw (a : bytes) (chains addrs : list bytes)
| KUpdate (chain signer : bytes)
| KRecv (signer src dst : bytes) (seq fee : N)
| KAck (signer src dst : bytes) (seq : N) (a : option ack).

Definition rdump := list (bytes * (list bytes * list bytes)).   (* GetAllRelayers, in iterator order *)

Record ostep := {
  os_kind : akind;
  os_facts : facts;
  os_class : nat;                   (* observed: 0 accepted, 1 error, 2 panic (ErrPanic) *)
  os_reg : rdump;                   (* observed registry after the step *)
  os_same : bool;                   (* observed: xibc store, system-contract storage and balances identical before/after *)
  os_ack : option (bytes * bytes * N * ack);   (* observed EventWriteAck of this step: src, dst, seq, decoded ack *)
  os_ack_stored : bool;             (* observed: sha256(event ack) is what the store holds under the ack key (true if no ack) *)
  os_payee : option bytes           (* observed for an accepted Acknowledgement with a fee: the account that received
                                       it (canonical bech32 form) *)
}.

Record hist := { h_canon : list (bytes * bytes); h_bech : list (bytes * bool); h_steps : list ostep }.

Fixpoint list_eqb {A} (eqb : A -> A -> bool) (a b : list A) : bool :=
  match a, b with
  | [], [] => true
  | x :: a', y :: b' => eqb x y && list_eqb eqb a' b'
  | _, _ => false
  end.

Definition rdump_of (r : registry) : rdump := map (fun kv => (fst kv, (r_chains (snd kv), r_addrs (snd kv)))) r.
Definition reg_of (r : rdump) : registry :=
  map (fun kv => (fst kv, {| r_chains := fst (snd kv); r_addrs := snd (snd kv) |})) r.

Definition rdump_eqb (a b : rdump) : bool :=
  list_eqb (fun x y => bytes_eqb (fst x) (fst y) && list_eqb bytes_eqb (fst (snd x)) (fst (snd y))
                       && list_eqb bytes_eqb (snd (snd x)) (snd (snd y))) a b.

Definition ack_eqb (a b : ack) : bool :=
  (ack_code a =? ack_code b)%N && bytes_eqb (ack_result a) (ack_result b) && bytes_eqb (ack_message a) (ack_message b)
  && bytes_eqb (ack_relayer a) (ack_relayer b) && (ack_fee a =? ack_fee b)%N.

Definition op_of (k : akind) : op facts unit unit unit :=
  match k with
  | KGov a cs ads => ORegGov _ _ _ _ a cs ads
  | KRaw a cs ads => ORegRaw _ _ _ _ a cs ads
  | KUpdate c s => OUpdate _ _ _ _ {| um_chain := c; um_signer := s; um_header := tt |}
  | KRecv s src dst seq fee =>
      ORecv _ _ _ _ {| rm_signer := s; rm_src := src; rm_dst := dst; rm_seq := seq; rm_fee := fee; rm_rest := tt |}
  | KAck s src dst seq a =>
      OAck _ _ _ _ {| am_signer := s; am_src := src; am_dst := dst; am_seq := seq; am_ack := a; am_rest := tt |}
  end.

(** class of the model's handler result (the [step] wrapper hides Err vs Panic) *)
Definition model_class (ct : list (bytes * bytes)) (bt : list (bytes * bool)) (s : mstate) (k : akind) : nat :=
  let st := fun o => match o with Ok _ => 0%nat | Err => 1%nat | Panic => 2%nat end in
  match op_of k with
  | ORegGov _ _ _ _ a cs ads => if validate_basic (bech_f bt) a cs ads then st (do_register _ s a cs ads) else 1%nat
  | ORegRaw _ _ _ _ a cs ads => st (do_register _ s a cs ads)
  | OUpdate _ _ _ _ m => st (handle_update _ _ _ _ (canon_f ct) lower_inst s m)
  | ORecv _ _ _ _ m => st (handle_recv _ _ _ _ lower_inst s m)
  | OAck _ _ _ _ m => st (handle_ack _ _ _ _ ascii_fold_eq (bech_f bt) lower_inst s m)
  | OEnv _ _ _ _ _ => 0%nat
  end.

(** the acknowledgement the model wrote in this step, if any *)
Definition new_wack (before after : mstate) : option (wack) :=
  if (length (wlog _ before) <? length (wlog _ after))%nat then last (map Some (wlog _ after)) None else None.

(** [errtext] = the acknowledgement is one of the two ERROR acknowledgements the message server builds itself
    (callback failed as a whole / destination unknown): its Message is a Go string literal — error TEXT, which
    the correspondence does not compare (a reworded message is a harmless rewrite); code, result, Relayer and
    fee option are compared in every branch, and the Message too wherever it comes from the callback. *)
Definition wack_matches (errtext : bool) (w : option wack) (o : option (bytes * bytes * N * ack)) : bool :=
  match w, o with
  | None, None => true
  | Some w, Some (src, dst, seq, a) =>
      bytes_eqb (w_src w) src && bytes_eqb (w_dst w) dst && (w_seq w =? seq)%N &&
      (if errtext
       then ack_eqb (mk_ack (ack_code (w_ack w)) (ack_result (w_ack w)) [] (ack_relayer (w_ack w)) (ack_fee (w_ack w)))
                    (mk_ack (ack_code a) (ack_result a) [] (ack_relayer a) (ack_fee a))
       else ack_eqb (w_ack w) a)
  | _, _ => false
  end.

Definition err_ack_branch (f : facts) (k : akind) : bool :=
  match k with
  | KRecv _ _ dst _ _ => negb (bytes_eqb dst (f_self f)) || match f_cb f with CfFailed => true | _ => false end
  | _ => false
  end.

(** ** Model vs implementation.  Kinds: 1 outcome class differs, 2 registry differs,
    3 written acknowledgement differs (presence, packet id, code/result/message,
    Relayer, fee option), 4 fee payee differs. *)
Definition payee_of (ct : list (bytes * bytes)) (bt : list (bytes * bool)) (s : mstate) (k : akind) : option bytes :=
  match k with
  | KAck _ src dst _ (Some a) =>
      if bytes_eqb src (f_self (low _ s))
      then match teleport_addr ascii_fold_eq (reg _ s) dst (ack_relayer a) with Ok (Some p) => Some p | _ => None end
      else None
  | _ => None
  end.

Fixpoint cmp_steps (ct : list (bytes * bytes)) (bt : list (bytes * bool)) (i : nat) (r : registry) (l : list ostep)
  : list (nat * nat) :=
  match l with
  | [] => []
  | o :: l' =>
      let s := {| reg := r; low := os_facts o; wlog := [] |} in
      let c := model_class ct bt s (os_kind o) in
      if negb (Nat.eqb c (os_class o)) then [(i, 1%nat)] else
      let s' := fst (mstep ct bt s (op_of (os_kind o))) in
      if negb (rdump_eqb (rdump_of (reg _ s')) (os_reg o)) then [(i, 2%nat)] else
      if negb (wack_matches (err_ack_branch (os_facts o) (os_kind o)) (new_wack s s') (os_ack o)) then [(i, 3%nat)] else
      if match os_payee o with
         | Some p => negb (Nat.eqb c 0) || match payee_of ct bt s (os_kind o) with Some q => negb (bytes_eqb p (canon_f ct q)) | None => true end
         | None => false end
      then [(i, 4%nat)]
      else cmp_steps ct bt (S i) (reg _ s') l'
  end.

Definition cmp_hist (h : hist) : list (nat * nat) := cmp_steps (h_canon h) (h_bech h) 0 [] (h_steps h).

Fixpoint number {A} (i : nat) (l : list A) : list (nat * A) :=
  match l with [] => [] | x :: l' => (i, x) :: number (S i) l' end.

Definition mismatches (hs : list hist) : list (nat * (nat * nat)) :=
  flat_map (fun ih => map (fun m => (fst ih, m)) (cmp_hist (snd ih))) (number 0 hs).


(** ** Which branch of the model a step takes (for the measured input distribution of the evidence
    only — no theorem depends on it).  Codes:
    update: 100 accepted, 101 signer's record does not list the chain, 102 no client, 103 CheckMsg (TSS signer),
            104 lower layer rejected, 105 lower layer panicked
    recv:   201 TSS signer mismatch, 202 lower layer rejected, 203 lower layer panicked, 204 Addresses[i] out of range,
            205 signer's record does not list the source, 210 ack: callback failed as a whole, 211 ack: callback code 0,
            212 ack: callback code <> 0, 213 callback result undecodable, 214 callback panicked,
            215 ack: destination chain unknown, 216 relayed onwards (no ack)
    ack:    300 accepted on the source chain (status, payout, callback), 301 TSS signer mismatch, 302 lower layer
            rejected / panicked, 303 acknowledgement undecodable, 304 all-zero acknowledgement, 305 accepted on a
            relay chain, 306 reverse look-up out of range, 307 ack.Relayer does not resolve, 308 payee not bech32
    reg:    400 new record, 401 rejected by ValidateBasic, 402 empty address (panic), 403 record replaced *)
Definition step_branch (ct : list (bytes * bytes)) (bt : list (bytes * bool)) (r : registry) (f : facts) (k : akind) : nat :=
  match k with
  | KGov a cs ads | KRaw a cs ads =>
      let gov := match k with KGov _ _ _ => true | _ => false end in
      if gov && negb (validate_basic (bech_f bt) a cs ads) then 401%nat else
      match a with
      | [] => 402%nat
      | _ => match reg_get r a with Some _ => 403%nat | None => 400%nat end
      end
  | KUpdate chain signer =>
      if negb (auth_relayer r chain signer) then 101%nat else
      match assoc (f_clients f) chain with
      | None => 102%nat
      | Some c => if negb (check_msg (canon_f ct) c signer) then 103%nat else
                  match f_lower f with 0%nat => 100%nat | 1%nat => 104%nat | _ => 105%nat end
      end
  | KRecv signer src dst seq fee =>
      if negb (tss_signer_ok facts unit unit unit lower_inst f src signer) then 201%nat else
      match f_lower f with
      | 1%nat => 202%nat
      | S (S _) => 203%nat
      | 0%nat =>
          match other_chain_addr r src signer with
          | Panic => 204%nat
          | Err | Ok None => 205%nat
          | Ok (Some _) =>
              if bytes_eqb dst (f_self f) then
                match f_cb f with
                | CfFailed => 210%nat
                | CfRet (Some (code, _, _)) => if (code =? 0)%N then 211%nat else 212%nat
                | CfRet None => 213%nat
                | CfPanic => 214%nat
                end
              else match assoc (f_clients f) dst with None => 215%nat | Some _ => 216%nat end
          end
      end
  | KAck signer src dst seq oa =>
      if negb (tss_signer_ok facts unit unit unit lower_inst f dst signer) then 301%nat else
      match f_lower f with
      | S _ => 302%nat
      | 0%nat =>
          match oa with
          | None => 303%nat
          | Some a =>
              if ack_is_zero a then 304%nat else
              if negb (bytes_eqb src (f_self f)) then 305%nat else
              match teleport_addr ascii_fold_eq r dst (ack_relayer a) with
              | Panic => 306%nat
              | Err | Ok None => 307%nat
              | Ok (Some p) => if bech_f bt p then 300%nat else 308%nat
              end
          end
      end
  end.

Fixpoint br_steps (ct : list (bytes * bytes)) (bt : list (bytes * bool)) (r : registry) (l : list ostep) : list nat :=
  match l with
  | [] => []
  | o :: l' => step_branch ct bt r (os_facts o) (os_kind o) :: br_steps ct bt (reg_of (os_reg o)) l'
  end.

Definition branches (hs : list hist) : list nat :=
  flat_map (fun h => br_steps (h_canon h) (h_bech h) [] (h_steps h)) hs.

(** ** Monitor: the property itself on the implementation's observed trace, with its
    own vocabulary (does not call the model's handlers).  The registry used is the one
    the implementation reported (GetAllRelayers) after the previous step.
    Kinds:
    11 UpdateClient / RecvPacket accepted although the signer's record does not list the chain
    12 TSS-secured chain: update / receive / acknowledgement accepted from a signer other than the TSS account
    13 a rejected message (or rejected proposal) changed state
    14 the Relayer of the written acknowledgement is not Addresses[first i with Chains[i] = src] of the
       submitting signer's record (or the fee option is not the packet's, or the ack is not the stored one)
    15 a message changed the relayer registry
    16 a registration did not result in exactly "that address -> the given lists, all other records untouched"
    17 an accepted receive addressed to this chain wrote no acknowledgement / a rejected one wrote one
    18 the fee of an accepted acknowledgement went to an account other than the first record (store order)
       listing (dst chain, ack.Relayer) *)
Definition dump_get (r : rdump) (a : bytes) : option (list bytes * list bytes) := assoc r a.

Definition listed (r : rdump) (signer chain : bytes) : bool :=
  match dump_get r signer with
  | Some (cs, _) => existsb (bytes_eqb chain) cs
  | None => false
  end.

Definition registered_addr (r : rdump) (signer chain : bytes) : option bytes :=
  match dump_get r signer with
  | Some (cs, ads) => match first_index cs chain with Some i => nth_error ads i | None => None end
  | None => None
  end.

Definition tss_of (f : facts) (chain : bytes) : option bytes :=
  match assoc (f_clients f) chain with Some (TSS a) => Some a | _ => None end.

Fixpoint rev_find (r : rdump) (chain a : bytes) : option bytes :=
  match r with
  | [] => None
  | (k, (cs, ads)) :: r' =>
      if existsb (fun ca => bytes_eqb (fst ca) chain && ascii_fold_eq (snd ca) a) (combine cs ads)
      then Some k else rev_find r' chain a
  end.

Definition others_same (before after : rdump) (a : bytes) : bool :=
  rdump_eqb (filter (fun kv => negb (bytes_eqb (fst kv) a)) before)
            (filter (fun kv => negb (bytes_eqb (fst kv) a)) after).

Definition mon_step (ct : list (bytes * bytes)) (before : rdump) (o : ostep) : list nat :=
  let acc := Nat.eqb (os_class o) 0 in
  let f := os_facts o in
  let is_msg := match os_kind o with KGov _ _ _ | KRaw _ _ _ => false | _ => true end in
  (if negb acc && negb (os_same o && rdump_eqb before (os_reg o)) then [13%nat] else [])
  ++ (if is_msg && negb (rdump_eqb before (os_reg o)) then [15%nat] else [])
  ++ match os_kind o with
     | KGov a cs ads | KRaw a cs ads =>
         if acc then
           if match dump_get (os_reg o) a with
              | Some (cs', ads') => list_eqb bytes_eqb cs cs' && list_eqb bytes_eqb ads ads'
              | None => false end && others_same before (os_reg o) a
           then [] else [16%nat]
         else []
     | KUpdate chain signer =>
         (if acc && negb (listed before signer chain) then [11%nat] else [])
         ++ (if acc then match tss_of f chain with
                         | Some a => if bytes_eqb (canon_f ct signer) a then [] else [12%nat]
                         | None => [] end else [])
         ++ (match os_ack o with Some _ => [17%nat] | None => [] end)
     | KRecv signer src dst seq fee =>
         (if acc && negb (listed before signer src) then [11%nat] else [])
         ++ (if acc then match tss_of f src with
                         | Some a => if bytes_eqb signer a then [] else [12%nat]
                         | None => [] end else [])
         ++ (match os_ack o with
             | Some (src', dst', seq', a) =>
                 if acc && bytes_eqb src src' && bytes_eqb dst dst' && (seq =? seq')%N && (ack_fee a =? fee)%N
                    && os_ack_stored o
                    && match registered_addr before signer src with
                       | Some x => bytes_eqb x (ack_relayer a) | None => false end
                 then [] else if acc then [14%nat] else [17%nat]
             | None => if acc && bytes_eqb dst (f_self f) then [17%nat] else []
             end)
     | KAck signer src dst seq a =>
         (if acc then match tss_of f dst with
                      | Some t => if bytes_eqb signer t then [] else [12%nat]
                      | None => [] end else [])
         ++ (match os_ack o with Some _ => [17%nat] | None => [] end)
         ++ (match os_payee o, a with
             | Some p, Some a' =>
                 match rev_find before dst (ack_relayer a') with
                 | Some q => if acc && bytes_eqb p (canon_f ct q) then [] else [18%nat]
                 | None => [18%nat] end
             | Some _, None => [18%nat]
             | None, _ => [] end)
     end.

Fixpoint mon_steps (ct : list (bytes * bytes)) (i : nat) (before : rdump) (l : list ostep) : list (nat * nat) :=
  match l with
  | [] => []
  | o :: l' => map (fun k => (i, k)) (mon_step ct before o) ++ mon_steps ct (S i) (os_reg o) l'
  end.

Definition mon_hist (h : hist) : list (nat * nat) := mon_steps (h_canon h) 0 [] (h_steps h).

Definition monitor_failures (hs : list hist) : list (nat * (nat * nat)) :=
  flat_map (fun ih => map (fun m => (fst ih, m)) (mon_hist (snd ih))) (number 0 hs).

(** The observation the MODEL predicts for one step (used to state monitor soundness:
    the monitor accepts whatever the model does). *)
Definition model_obs (ct : list (bytes * bytes)) (bt : list (bytes * bool)) (r : registry) (f : facts) (k : akind) : ostep :=
  let s := {| reg := r; low := f; wlog := [] |} in
  let c := model_class ct bt s k in
  let s' := fst (mstep ct bt s (op_of k)) in
  {| os_kind := k; os_facts := f; os_class := c; os_reg := rdump_of (reg _ s');
     os_same := Nat.eqb (length (wlog _ s')) 0 && rdump_eqb (rdump_of r) (rdump_of (reg _ s'));
     os_ack := option_map (fun w => (w_src w, w_dst w, w_seq w, w_ack w)) (new_wack s s');
     os_ack_stored := true;
     os_payee := if Nat.eqb c 0 then option_map (canon_f ct) (payee_of ct bt s k) else None |}.

(** * Part B: system contracts (byte code), exhaustive method x caller matrix *)
(** caller kinds: 0 externally owned account (signed Ethereum transaction), 1 deployed contract
    (forwarding proxy), 2 nested call through the execute contract, 3 call data carried in a received
    cross-chain packet, 4 xibc packet module address (keeper CallEVM), 5 aggregate module address
    (keeper CallEVM), 6 packet contract as caller, 7 endpoint contract as caller, 8 packet contract
    while executing the module's onRecvPacket (nested legitimate path) *)
Record cobs := {
  co_contract : nat;        (* 0 packet, 1 endpoint, 2 execute *)
  co_method : bytes;
  co_caller : nat;
  co_effect : bool;         (* the call to the method itself succeeded (tx ok and, on indirect paths, inner call ok) *)
  co_same : bool            (* the three contracts' storage + balances (and the accounts' balances) identical to the
                               reference (before; for the packet path: the run with inert call data, on every slot
                               that run did not itself change) *)
}.

(** Classification of the non-view methods: 1 privileged — the entry points named by the property
    (handing over a received packet / an acknowledgement, setting sequences, ack status, chain name,
    paying out relayer fees, binding tokens, supply limits) plus packet.sendPacket, which only the
    endpoint contract may call; 0 unprivileged (open to users by design; Execute.execute is an open
    proxy whose inner call runs with msg.sender = Execute); 3 positive control (a view). *)
Definition classification : list (nat * bytes * nat) :=
  [ (0%nat, B "OnAcknowledgePacket", 1%nat); (0%nat, B "onRecvPacket", 1%nat); (0%nat, B "sendPacket", 1%nat);
    (0%nat, B "sendPacketFeeToRelayer", 1%nat); (0%nat, B "setAckStatus", 1%nat); (0%nat, B "setChainName", 1%nat);
    (0%nat, B "setSequence", 1%nat); (0%nat, B "addPacketFee", 0%nat);
    (1%nat, B "bindToken", 1%nat); (1%nat, B "disableTimeBasedSupplyLimit", 1%nat);
    (1%nat, B "enableTimeBasedSupplyLimit", 1%nat); (1%nat, B "onAcknowledgementPacket", 1%nat);
    (1%nat, B "onRecvPacket", 1%nat); (1%nat, B "crossChainCall", 0%nat);
    (2%nat, B "execute", 0%nat);
    (0%nat, B "chainName", 3%nat) ].

Definition classify (c : nat) (m : bytes) : nat :=
  match find (fun e => Nat.eqb (fst (fst e)) c && bytes_eqb (snd (fst e)) m) classification with
  | Some e => snd e
  | None => 2%nat
  end.

Definition legit_caller (c : nat) : bool := (4 <=? c)%nat.

(** Kinds: 21 privileged method took effect (or changed state) for a non-module caller,
    22 a non-view method of the ABI is not classified, 23 a positive control failed (the call path
    did not even execute a harmless view, so its rejections prove nothing). *)
Definition cobs_check (o : cobs) : list nat :=
  let k := classify (co_contract o) (co_method o) in
  (if Nat.eqb k 2 then [22%nat] else [])
  ++ (if Nat.eqb k 1 && negb (legit_caller (co_caller o)) && (co_effect o || negb (co_same o))
      then [21%nat] else [])
  ++ (if Nat.eqb k 3 && negb (co_effect o) then [23%nat] else []).

Definition contract_failures (l : list cobs) : list (nat * nat) :=
  flat_map (fun io => map (fun k => (fst io, k)) (cobs_check (snd io))) (number 0 l).

Definition same_method (a b : nat * bytes) : bool := Nat.eqb (fst a) (fst b) && bytes_eqb (snd a) (snd b).

(** every privileged method must have been accepted from at least one legitimate caller (otherwise a
    rejection proves nothing about the caller check), and must have been tried from every
    non-module caller kind 0..3: the indices (into [classification]) of privileged methods for which
    that is not the case. *)
Definition undemonstrated (l : list cobs) : list nat :=
  let has := fun (cm : nat * bytes) (p : cobs -> bool) => existsb (fun o => same_method cm (co_contract o, co_method o) && p o) l in
  flat_map (fun ie =>
    let e := snd ie in
    if Nat.eqb (snd e) 1 then
      if has (fst e) (fun o => legit_caller (co_caller o) && co_effect o)
         && forallb (fun c => has (fst e) (fun o => Nat.eqb (co_caller o) c)) [0%nat; 1%nat; 2%nat; 3%nat]
      then [] else [fst ie]
    else []) (number 0 classification).

(** the classification covers exactly the regenerated ABI inventory *)
Definition abi_classified (nonview : list (nat * bytes)) : bool :=
  forallb (fun cm => negb (Nat.eqb (classify (fst cm) (snd cm)) 2)) nonview
  && forallb (fun e => Nat.eqb (snd e) 3 || existsb (same_method (fst e)) nonview) classification.

(** ** The calls the chain's own modules make into the system contracts.  Inventory regenerated from the Go
    source by tools/gotocoq/modcalls: normalised (from, target, method) triples, calls followed interprocedurally
    through wrappers and helpers ("?" = a component that could not be traced).  Obligation: a call whose target is
    the packet contract is made FROM the xibc packet module address, a call whose target is the endpoint contract
    FROM the aggregate module address (the two callers the byte code accepts, see part B); every method called
    there is traced, exists in the ABI inventory and is a privileged method of [classification] or a view; both
    contracts are actually called (an inventory that lost them proves nothing); the two module accounts differ.
    Calls to other targets (token contracts, contract creation) are not C06's. *)
Definition mc_pkt_from : bytes := B "x/xibc/core/packet/types.ModuleAddress".
Definition mc_agg_from : bytes := B "x/aggregate/types.ModuleAddress".
Definition mc_pkt_target (t : bytes) : bool := bytes_eqb t (B "syscontracts/xibc_packet.PacketContractAddress").
Definition mc_ep_target (t : bytes) : bool := bytes_eqb t (B "syscontracts/xibc_endpoint.EndpointContractAddress").

Definition modcall := (bytes * bytes * bytes)%type.

Definition mc_method_ok (views : list (nat * bytes)) (c : nat) (m : bytes) : bool :=
  Nat.eqb (classify c m) 1 || existsb (same_method (c, m)) views.

Definition modcall_ok (views : list (nat * bytes)) (e : modcall) : bool :=
  let '(from, target, method) := e in
  if mc_pkt_target target then bytes_eqb from mc_pkt_from && mc_method_ok views 0%nat method
  else if mc_ep_target target then bytes_eqb from mc_agg_from && mc_method_ok views 1%nat method
  else true.

Definition modcalls_ok (views : list (nat * bytes)) (calls : list modcall) (addrs : list (bytes * bytes)) : bool :=
  forallb (modcall_ok views) calls
  && existsb (fun e : modcall => mc_pkt_target (snd (fst e))) calls
  && existsb (fun e : modcall => mc_ep_target (snd (fst e))) calls
  && match addrs with
     | [(p1, n1); (p2, n2)] => negb (bytes_eqb n1 n2) && negb (bytes_eqb n1 []) && negb (bytes_eqb n2 [])
     | _ => false
     end.

(** the (contract, method) pairs the Go modules exercise on the two system contracts (for the evidence) *)
Definition mc_exercised (calls : list modcall) : list (nat * bytes) :=
  flat_map (fun e : modcall => let '(_, target, method) := e in
              if mc_pkt_target target then [(0%nat, method)]
              else if mc_ep_target target then [(1%nat, method)] else []) calls.
