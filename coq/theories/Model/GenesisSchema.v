(** C13: the tie of the hand model Model/Genesis.v to the SHAPE of the genesis code, checked against inventories
    REGENERATED from the Go source on every run (Gen/GenesisSchemaGen.v, tools/gotocoq/genesisschema).

    1. Genesis structs.  [model_fields] lists, per module, the Go fields of GenesisState the records of
       Model/Genesis.v transcribe.  [schema_ok]: the regenerated struct fields are exactly those (plus the two
       import-only fields of rvesting, a funding instruction that is not state), ExportGenesis fills exactly the state
       fields from the state, InitGenesis reads and the validation looks at every field.  A field added to a genesis
       proto that the export forgets, or that the model does not know, makes [schema_ok] compute to [false].
    2. Light clients.  [lc_ok]: the iterations of each ClientState.ExportMetadata are the ones [export_metadata]
       transcribes (same prefixes, the processed-time filter for Tendermint only), and every key family a light client
       WRITES into its client store ([lc_store_writes]: key expression of every Set on a sdk.KVStore parameter) is a
       known family that the export covers: a consensus state key (exported by the client keeper), the Tendermint
       processed-time key, or a format of Gen/KeysGen.v that starts with a literal under one of the exported prefixes.
       This is defect D8 (iteration keys written, never exported) as a regenerated obligation.
    No proofs here (Proofs/GenesisSchema.v). *)
From Coq Require Import String.
From Teleport Require Import Base.Bytes Base.Outcome Base.Fmt Gen.KeysGen Gen.GenesisSchemaGen Model.Keys Model.Genesis.
Local Open Scope string_scope.

Fixpoint slookup {X} (k : string) (l : list (string * X)) : option X :=
  match l with [] => None | (k', x) :: r => if String.eqb k k' then Some x else slookup k r end.
Definition fields_of (m : string) (t : list (string * list string)) : list string :=
  match slookup m t with Some l => l | None => [] end.
Definition smem (x : string) (l : list string) : bool := existsb (String.eqb x) l.
Definition subset (a b : list string) : bool := forallb (fun x => smem x b) a.
Definition same_set (a b : list string) : bool := subset a b && subset b a.

(** the Go fields the model's records transcribe:
      genesis.g_client / g_packet; client_genesis.g_clients / g_consensus / g_metadata / g_native / g_relayers;
      packet_genesis.g_acks / g_commitments / g_receipts / g_send_seqs; g_agg_params / g_pairs; g_rv_params *)
Definition model_fields : list (string * list string) :=
  [("xibc", ["ClientGenesis"; "PacketGenesis"]);
   ("client", ["Clients"; "ClientsConsensus"; "ClientsMetadata"; "NativeChainName"; "Relayers"]);
   ("packet", ["Acknowledgements"; "Commitments"; "Receipts"; "SendSequences"]);
   ("aggregate", ["Params"; "TokenPairs"]);
   ("rvesting", ["Params"])].
(** fields InitGenesis consumes that are no state (rvesting: account to debit and amount of the initial funding;
    every export has them empty) *)
Definition import_only : list (string * list string) := [("rvesting", ["From"; "InitReward"])].
Definition modules : list string := ["xibc"; "client"; "packet"; "aggregate"; "rvesting"].

Definition module_ok (m : string) : bool :=
  let fields := fields_of m gs_struct_fields in
  same_set fields (fields_of m model_fields ++ fields_of m import_only)
  && same_set (fields_of m gs_export_fields) (fields_of m model_fields)
  && subset fields (fields_of m gs_init_fields)
  && subset fields (fields_of m gs_validate_fields).

Definition no_translator_errors : bool := match translator_errors with [] => true | _ => false end.

Definition schema_ok : bool :=
  no_translator_errors && forallb module_ok modules && same_set (map fst gs_struct_fields) modules.

(** * Light clients *)
Inductive family :=
| FConsensus             (* host.ConsensusStateKey: a consensus state, exported by the client keeper for every type *)
| FProcessedTime         (* tendermint ProcessedTimeKey: consensus state key ++ "/processedTime" *)
| FMeta (f : fmt).       (* a key format of Gen/KeysGen.v *)

Definition lc_types : list (string * ctype) := [("tendermint", TM); ("bsc", BSC); ("eth", ETH); ("tss", TSS)].

(** key expression of a client store write -> the family it builds *)
Definition write_families : list (string * list (string * family)) :=
  [("tendermint", [("ProcessedTimeKey", FProcessedTime); ("IterationKey", FMeta tm_IterationKey)]);
   ("bsc", [("keyRecentSinger", FMeta bsc_keyRecentSinger); ("const:PrefixPendingValidators", FMeta [Lit bsc_PrefixPendingValidators])]);
   ("eth", [("EthHeaderIndexKey", FMeta eth_EthHeaderIndexKey); ("EthRootMainKey", FMeta eth_EthRootMainKey);
            ("host.ConsensusStateKey", FConsensus)]);
   ("tss", [])].
Definition write_family (t head : string) : option family :=
  match slookup t write_families with Some l => slookup head l | None => None end.

(** the prefix constants ExportMetadata iterates over *)
Definition prefix_consts : list (string * bytes) :=
  [("KeyIterateConsensusStatePrefix", tm_KeyIterateConsensusStatePrefix);
   ("PrefixKeyRecentSingers", bsc_PrefixKeyRecentSingers); ("PrefixPendingValidators", bsc_PrefixPendingValidators);
   ("KeyIndexEthHeaderPrefix", eth_KeyIndexEthHeaderPrefix); ("KeyMainRootPrefix", eth_KeyMainRootPrefix)].

(** what [export_metadata] / [metadata_path] of Model/Genesis.v export: (processed-time filter?, prefixes in order) *)
Definition model_exports (t : ctype) : bool * list bytes :=
  match t with
  | TM => (true, [tm_KeyIterateConsensusStatePrefix])
  | BSC => (false, [bsc_PrefixKeyRecentSingers; bsc_PrefixPendingValidators])
  | ETH => (false, [eth_KeyIndexEthHeaderPrefix; eth_KeyMainRootPrefix])
  | TSS => (false, [])
  end.

(** the regenerated iterations of ExportMetadata, decoded: [None] = an iteration the model does not know *)
Definition decode_iterates (its : list (string * string)) : option (bool * list bytes) :=
  fold_right (fun it acc =>
    match acc with
    | None => None
    | Some (pt, ps) =>
        if String.eqb (fst it) "IterateProcessedTime" then (if String.eqb (snd it) "" then Some (true, ps) else None)
        else match slookup (snd it) prefix_consts with Some p => Some (pt, p :: ps) | None => None end
    end) (Some (false, [])) its.

Fixpoint bytes_list_eqb (a b : list bytes) : bool :=
  match a, b with
  | [], [] => true
  | x :: a', y :: b' => bytes_eqb x y && bytes_list_eqb a' b'
  | _, _ => false
  end.

Definition family_covered (t : ctype) (fam : family) : bool :=
  match fam with
  | FConsensus => true
  | FProcessedTime => fst (model_exports t)
  | FMeta (Lit p :: _) => existsb (fun q => is_prefix q p) (snd (model_exports t))
  | FMeta _ => false
  end.

Definition lc_type_ok (nt : string * ctype) : bool :=
  let (name, t) := nt in
  match slookup name lc_export_iterates, slookup name lc_store_writes with
  | Some its, Some heads =>
      match decode_iterates its with
      | Some (pt, ps) => Bool.eqb pt (fst (model_exports t)) && bytes_list_eqb ps (snd (model_exports t))
      | None => false
      end
      && forallb (fun h => match write_family name h with Some fam => family_covered t fam | None => false end) heads
  | _, _ => false
  end.

Definition lc_ok : bool :=
  no_translator_errors && forallb lc_type_ok lc_types && same_set (map fst lc_export_iterates) (map fst lc_types)
  && same_set (map fst lc_store_writes) (map fst lc_types).
