(** World-level model for C20: the bank (all accounts + stored supply), the rvesting params subspace, the block
    height; operations = rvesting BeginBlocker, a whole BeginBlock (rvesting and distribution in app.go's order),
    governance parameter changes, and arbitrary bank operations of other modules / transactions (send, mint,
    burn); InitGenesis / ExportGenesis of x/rvesting.  The BeginBlocker itself is [Rvesting.begin_block]
    (this file lifts it).  No proofs here.

    Go sources:
      x/rvesting/module/abci.go, keeper/keeper.go   via Model/Rvesting.v
      x/rvesting/keeper/genesis.go                  InitGenesis (interpreted from the regenerated statement list), ExportGenesis
      app/app.go                                    SetOrderBeginBlockers (regenerated)
    SDK code (specification from the library source, validated by the harness "world"/"full" modes):
      x/distribution BeginBlocker -> AllocateTokens: when height > 1, ALL balances of the fee collector are sent
      to the distribution module account (the split among validators is accounting inside x/distribution and
      does not touch the bank). *)
From Teleport Require Import Base.Bytes Base.Outcome Model.Rvesting Model.RvestingIR Model.RvestingBank Model.RvestingParams.
Local Open Scope Z_scope.

Record world := {
  w_accts : accts;
  w_sup : balmap;                 (* bank supply store *)
  w_ps : kv;                      (* params subspace "rvesting" *)
  w_height : Z                    (* ctx.BlockHeight() of the last begun block *)
}.

Definition w_state (w : world) : state :=
  {| pool := acct (w_accts w) A_POOL; fee := acct (w_accts w) A_FEE; others := []; supply := w_sup w |}.

Definition with_accts (w : world) (a : accts) : world :=
  {| w_accts := a; w_sup := w_sup w; w_ps := w_ps w; w_height := w_height w |}.

(** Module BeginBlockers that touch the bank. *)
Inductive bbmod := BBRvesting | BBDistr.

(** x/distribution AllocateTokens, bank effect. *)
Definition distr_sweep (a : accts) : accts :=
  let l := all_balances (acct a A_FEE) in add_coins (sub_coins a A_FEE l) A_DISTR l.

Inductive wop :=
| WBegin                                        (* rvesting.BeginBlocker alone *)
| WBlock                                        (* a whole BeginBlock of the next height *)
| WParam (key : bytes) (v : pvalue)             (* params proposal handler on subspace rvesting *)
| WSend (i j : nat) (l : list (bytes * Z))      (* bank.SendCoins by anybody *)
| WMint (i : nat) (l : list (bytes * Z))        (* bank.MintCoins by a module with the Minter permission *)
| WBurn (i : nat) (l : list (bytes * Z)).       (* bank.BurnCoins by a module with the Burner permission *)

Section WithCode.
  Variable pairs : list ppair.
  Variable lgs : list lguard.
  Variable cgs : list cguard.
  Variable order : list bbmod.                  (* bank-relevant BeginBlockers in app order *)

  Definition w_begin_block (w : world) : outcome world :=
    match get_params pairs (w_ps w) with
    | Ok p =>
        match begin_block p (w_state w) with
        | Ok s' => Ok (with_accts w (set_acct (set_acct (w_accts w) A_POOL (pool s')) A_FEE (fee s')))
        | Err => Err
        | Panic => Panic
        end
    | Err => Err
    | Panic => Panic
    end.

  Definition w_module_bb (m : bbmod) (w : world) : outcome world :=
    match m with
    | BBRvesting => w_begin_block w
    | BBDistr => if 1 <? w_height w then Ok (with_accts w (distr_sweep (w_accts w))) else Ok w
    end.

  Fixpoint w_bbs (ms : list bbmod) (w : world) : outcome world :=
    match ms with
    | [] => Ok w
    | m :: t => match w_module_bb m w with Ok w' => w_bbs t w' | Err => Err | Panic => Panic end
    end.

  Definition w_block (w : world) : outcome world :=
    w_bbs order {| w_accts := w_accts w; w_sup := w_sup w; w_ps := w_ps w; w_height := w_height w + 1 |}.

  (** One operation.  A rejected parameter change / bank operation leaves the world unchanged (cache context not
      written; transaction rolled back): [Ok w].  BeginBlock and the params handler run outside any recover:
      [Panic] is a halt. *)
  Definition w_step (op : wop) (w : world) : outcome world :=
    match op with
    | WBegin => w_begin_block w
    | WBlock => w_block w
    | WParam k v =>
        match subspace_update pairs lgs cgs (w_ps w) k v with
        | Ok (Some s') => Ok {| w_accts := w_accts w; w_sup := w_sup w; w_ps := s'; w_height := w_height w |}
        | Ok None => Ok w
        | Err => Err
        | Panic => Panic
        end
    | WSend i j l => match bank_send (w_accts w) i j l with Ok a => Ok (with_accts w a) | _ => Ok w end
    | WMint i l =>
        match bank_mint (w_accts w) (w_sup w) i l with
        | Ok (a, s) => Ok {| w_accts := a; w_sup := s; w_ps := w_ps w; w_height := w_height w |}
        | _ => Ok w
        end
    | WBurn i l =>
        match bank_burn (w_accts w) (w_sup w) i l with
        | Ok (a, s) => Ok {| w_accts := a; w_sup := s; w_ps := w_ps w; w_height := w_height w |}
        | _ => Ok w
        end
    end.

  Fixpoint w_run (ops : list wop) (w : world) : outcome world :=
    match ops with
    | [] => Ok w
    | op :: t => match w_step op w with Ok w' => w_run t w' | Err => Err | Panic => Panic end
    end.

  (** ** keeper.InitGenesis interpreted from its (guarded) statement list ([fa] = the decoded `from` address once
      IParseFrom has run). *)
  Variable module : bytes.

  Definition from_empty (g : genesis) : bool := match g_from g with FromEmpty => true | _ => false end.

  Fixpoint init_steps (steps : list (bool * istep)) (g : genesis) (fa : option nat) (w : world) : outcome world :=
    match steps with
    | [] => Ok w
    | (only_with_from, st) :: t =>
        if only_with_from && from_empty g then init_steps t g fa w else
        match st with
        | ISetParams =>
            match set_param_set pairs lgs cgs (g_enable g) (g_rewards g) (w_ps w) with
            | Ok s' => init_steps t g fa {| w_accts := w_accts w; w_sup := w_sup w; w_ps := s'; w_height := w_height w |}
            | Err => Err
            | Panic => Panic
            end
        | IParseFrom => match g_from g with FromAcct i => init_steps t g (Some i) w | _ => Panic end
        | ISendToModule m =>
            if negb (bytes_eqb m module) then Err else
            match fa with
            | None => Err
            | Some i =>
                match bank_send (w_accts w) i A_POOL (g_init g) with
                | Ok a => init_steps t g fa (with_accts w a)
                | _ => Panic
                end
            end
        | IUnknown _ => Err
        end
    end.

  Definition init_genesis (steps : list (bool * istep)) (g : genesis) (w : world) : outcome world := init_steps steps g None w.

  (** keeper.ExportGenesis (shape EParamsOnly): the parameters, From "" and no InitReward. *)
  Definition export_genesis (sh : eshape) (w : world) : outcome genesis :=
    match sh with
    | EParamsOnly =>
        match get_params pairs (w_ps w) with
        | Ok p => Ok {| g_enable := enable p; g_rewards := lift_coins (rewards p); g_from := FromEmpty; g_init := [] |}
        | Err => Err
        | Panic => Panic
        end
    | EUnknown => Err
    end.
End WithCode.
