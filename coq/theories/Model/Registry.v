(** Executable model of the token-pair registry of x/aggregate (property C12).

    Transcribed from
      x/aggregate/keeper/proposals.go   RegisterCoin AddCoin verifyMetadata RegisterERC20
                                        CreateCoinMetadata ToggleRelay UpdateTokenPairERC20
      x/aggregate/keeper/token_pairs.go the three maps, GetTokenPairID, DeleteTokenPair
      x/aggregate/keeper/mint.go        MintingEnabled
      x/aggregate/keeper/msg_server.go  ConvertCoin / ConvertERC20 (only their effect on the registry:
                                        MintingEnabled, the self-destruct clean-up)
      x/aggregate/types/token_pair.go   NewTokenPair GetID Validate
      x/aggregate/types/utils.go        EqualMetadata
      x/aggregate/types/proposal.go     ValidateBasic of the five proposals, CreateDenom(Description)
      x/aggregate/types/genesis.go, x/aggregate/genesis.go   Validate, InitGenesis
      cosmos-sdk x/bank/types/metadata.go Validate, types/coin.go ValidateDenom,
      ibc-go transfer/types ValidateIBCDenom, go-ethereum common IsHexAddress / HexToAddress.

    The store prefixes 0x01 id->pair, 0x02 address->id, 0x03 denom->id and the bank's metadata map are
    association lists kept in key order ([Base.AList]: the iteration order of the real store).

    External functions are arguments ([Section] variables):
      [hid text denom]  = TokenPair{ERC20Address:text, Denoms:[denom,..]}.GetID()  (sha256 of "text|denom")
      [canon a]         = common.Address(a).Hex()  (EIP-55 check-summed text, needs keccak)
      [evm_denom]       = evm params EvmDenom.
    The EVM and the bank supply are environment: the result of QueryERC20, whether an account is a live
    contract, whether a denomination has supply, and the address the module account will create next are
    inputs of the operations (the harness observes them on the real application right before the call).

    The code exists in several historical variants (defects D6, AGG1-3, C12a-c and their repairs); the
    [variant] record selects them.  [head] is the code at /repo HEAD, [pinned] the pinned commit.  No
    proofs in this file. *)
From Teleport Require Import Base.Bytes Base.Outcome Base.AList.
Local Open Scope N_scope.

(** * Strings *)

Definition byte_in (lo hi : N) (b : byte) : bool := (lo <=? Byte.to_N b) && (Byte.to_N b <=? hi).
Definition is_digit (b : byte) : bool := byte_in 48 57 b.
Definition is_letter (b : byte) : bool := byte_in 65 90 b || byte_in 97 122 b.
(* go-ethereum common.isHexCharacter *)
Definition is_hex_char (b : byte) : bool := is_digit b || byte_in 97 102 b || byte_in 65 70 b.

(* go-ethereum common.has0xPrefix: len >= 2, s[0]=='0', s[1]=='x' or 'X' *)
Definition strip_0x (s : bytes) : bytes :=
  match s with
  | a :: b :: r => if Byte.eqb a "0"%byte && (Byte.eqb b "x"%byte || Byte.eqb b "X"%byte) then r else s
  | _ => s
  end.

(* common.IsHexAddress *)
Definition is_hex_address (s : bytes) : bool :=
  let t := strip_0x s in Nat.eqb (length t) 40 && forallb is_hex_char t.

Definition hex_val (b : byte) : N :=
  let n := Byte.to_N b in
  if is_digit b then n - 48 else if byte_in 97 102 b then n - 87 else n - 55.

Definition byte_of_N (n : N) : byte := match Byte.of_N n with Some b => b | None => x00 end.

(* encoding/hex.DecodeString as used by common.Hex2Bytes (error ignored): the bytes decoded before the
   first invalid character; a trailing single character is dropped *)
Fixpoint hex_decode_prefix (s : bytes) : bytes :=
  match s with
  | a :: b :: r =>
      if is_hex_char a && is_hex_char b then byte_of_N (16 * hex_val a + hex_val b) :: hex_decode_prefix r else []
  | _ => []
  end.

(* common.FromHex *)
Definition from_hex (s : bytes) : bytes :=
  let t := strip_0x s in
  hex_decode_prefix (if Nat.odd (length t) then "0"%byte :: t else t).

(* common.HexToAddress = BytesToAddress(FromHex(s)): cropped from the left / left-padded to 20 bytes *)
Definition addr_of (s : bytes) : bytes :=
  let b := from_hex s in
  let n := length b in
  if Nat.ltb 20 n then skipn (n - 20) b else repeat x00 (20 - n) ++ b.

(* sdk.ValidateDenom, regex ^[a-zA-Z][a-zA-Z0-9/-]{2,127}$ (cosmos-sdk v0.45.2) *)
Definition denom_char (b : byte) : bool :=
  is_letter b || is_digit b || Byte.eqb b "/"%byte || Byte.eqb b "-"%byte.
Definition valid_denom (s : bytes) : bool :=
  match s with
  | c :: r => is_letter c && Nat.leb 2 (length r) && Nat.leb (length r) 127 && forallb denom_char r
  | [] => false
  end.

(* strings.TrimSpace(s) == "" for ASCII input *)
Definition is_space (b : byte) : bool := byte_in 9 13 b || Byte.eqb b " "%byte.
Definition blank (s : bytes) : bool := forallb is_space s.

(* strings.SplitN(s, "/", 2) *)
Fixpoint split_slash (s : bytes) : bytes * option bytes :=
  match s with
  | [] => ([], None)
  | c :: r => if Byte.eqb c "/"%byte then ([], Some r)
              else let '(a, b) := split_slash r in (c :: a, b)
  end.

Fixpoint contains (sub s : bytes) : bool :=
  is_prefix sub s || match s with [] => false | _ :: r => contains sub r end.

(* ibc-go transfer types.ValidateIBCDenom *)
Definition validate_ibc_denom (d : bytes) : bool :=
  valid_denom d &&
  (if bytes_eqb d (B "ibc") then false else
   match split_slash d with
   | (p, Some rest) =>
       if bytes_eqb p (B "ibc")
       then negb (blank rest) && Nat.even (length rest) && forallb is_hex_char rest &&
            (Nat.eqb (length rest) 0 || Nat.eqb (length rest) 64)   (* ParseHexHash: 32 bytes *)
       else true
   | (_, None) => true
   end).

(** * Bank metadata *)

Record metadata := {
  md_desc : bytes; md_units : list (bytes * N); md_base : bytes; md_display : bytes;
  md_name : bytes; md_symbol : bytes }.

Fixpoint units_ok (base display : bytes) (first : bool) (cur : N) (seen : list bytes) (us : list (bytes * N))
  : option bool (* Some hasDisplay, None = error *) :=
  match us with
  | [] => Some false
  | (d, e) :: r =>
      if (if first then bytes_eqb d base && (e =? 0) else negb (e <=? cur)) &&
         negb (existsb (bytes_eqb d) seen) && valid_denom d
      then match units_ok base display false e (d :: seen) r with
           | Some h => Some (h || bytes_eqb d display)
           | None => None
           end
      else None
  end.

(* bank Metadata.Validate (unit aliases are not modelled: the generator produces none) *)
Definition metadata_validate (m : metadata) : bool :=
  negb (blank (md_name m)) && negb (blank (md_symbol m)) &&
  valid_denom (md_base m) && valid_denom (md_display m) &&
  match units_ok (md_base m) (md_display m) true 0 [] (md_units m) with Some true => true | _ => false end.

(* x/aggregate/types/proposal.go validateIBC *)
Definition validate_ibc (m : metadata) : bool :=
  match split_slash (md_base m) with
  | (_, None) => negb (blank (md_base m))    (* blank base: falls through to the length test and fails *)
  | (p, Some _) => bytes_eqb p (B "ibc") && contains (B "channel-") (md_name m) && is_prefix (B "ibc") (md_symbol m)
  end.

(* EqualMetadata: the five strings are compared by value, the denom units by POINTER ([v != b.DenomUnits[i]]
   on [*DenomUnit]): two separately allocated unit lists are "equal" only when both are empty *)
Definition equal_metadata (a b : metadata) : bool :=
  bytes_eqb (md_base a) (md_base b) && bytes_eqb (md_desc a) (md_desc b) && bytes_eqb (md_display a) (md_display b) &&
  bytes_eqb (md_name a) (md_name b) && bytes_eqb (md_symbol a) (md_symbol b) &&
  Nat.eqb (length (md_units a)) (length (md_units b)) && Nat.eqb (length (md_units a)) 0.

(** * Registry state *)

Record pair := { p_text : bytes; p_denoms : list bytes; p_enabled : bool; p_owner : N }.
Definition OWNER_MODULE : N := 1.
Definition OWNER_EXTERNAL : N := 2.

Record state := {
  st_pairs : alist pair;        (* 0x01 | id -> TokenPair *)
  st_erc20 : alist bytes;       (* 0x02 | address (20 bytes) -> id *)
  st_denom : alist bytes;       (* 0x03 | denomination -> id *)
  st_meta : alist metadata;     (* bank: denomination -> Metadata *)
  st_enable : bool }.           (* params.EnableAggregate *)

Definition empty_state : state :=
  {| st_pairs := []; st_erc20 := []; st_denom := []; st_meta := []; st_enable := true |}.

(* result of QueryERC20 plus types.SanitizeERC20Name(name) *)
Record erc20q := { q_name : bytes; q_symbol : bytes; q_decimals : N; q_sname : bytes }.

(** The code variants. *)
Record variant := {
  v_reindex_all : bool;     (* D6 repaired: UpdateTokenPairERC20 re-indexes every denomination *)
  v_update_guard : bool;    (* AGG1: UpdateTokenPairERC20 refuses a registered new address *)
  v_mint_direct : bool;     (* AGG2: MintingEnabled looks the denomination up in the denom index only *)
  v_genesis_all : bool;     (* AGG3: genesis Validate checks every denomination, refuses empty Denoms *)
  v_reject_hex : bool;      (* C12a: a denomination that reads as a hex address is refused *)
  v_test_base : bool;       (* C12b: RegisterCoin/AddCoin test IsDenomRegistered(Base), not (Name) *)
  v_genesis_addr : bool }.  (* C12c: genesis Validate de-duplicates contracts by address, not spelling *)

Definition head : variant :=
  {| v_reindex_all := true; v_update_guard := true; v_mint_direct := true; v_genesis_all := true;
     v_reject_hex := true; v_test_base := true; v_genesis_addr := true |}.
Definition pinned : variant :=
  {| v_reindex_all := false; v_update_guard := false; v_mint_direct := false; v_genesis_all := false;
     v_reject_hex := false; v_test_base := false; v_genesis_addr := false |}.

Definition get0 (m : alist bytes) (k : bytes) : bytes := match aget k m with Some v => v | None => [] end.

Section Model.
  Variable hid : bytes -> bytes -> bytes.
  Variable canon : bytes -> bytes.
  Variable evm_denom : bytes.
  Variable v : variant.

  (* TokenPair.GetID: Denoms[0] panics on an empty list *)
  Definition pair_id (p : pair) : outcome bytes :=
    match p_denoms p with [] => Panic | d :: _ => Ok (hid (p_text p) d) end.

  Definition create_denom (text : bytes) : bytes := B "aggregate/" ++ text.
  Definition create_descr (text : bytes) : bytes := B "Cosmos coin token representation of " ++ text.

  (* GetTokenPairID *)
  Definition get_token_pair_id (s : state) (token : bytes) : bytes :=
    if is_hex_address token then get0 (st_erc20 s) (addr_of token) else get0 (st_denom s) token.

  (* GetTokenPair: nil / empty id or missing value -> not found *)
  Definition get_pair (s : state) (id : bytes) : option pair :=
    match id with [] => None | _ => aget id (st_pairs s) end.

  Definition set_pair (s : state) (p : pair) : outcome state :=
    id <- pair_id p ;;
    Ok {| st_pairs := aset id p (st_pairs s); st_erc20 := st_erc20 s; st_denom := st_denom s;
          st_meta := st_meta s; st_enable := st_enable s |}.

  Definition set_denoms (m : alist bytes) (ds : list bytes) (id : bytes) : alist bytes :=
    fold_left (fun m d => aset d id m) ds m.
  Definition del_denoms (m : alist bytes) (ds : list bytes) : alist bytes :=
    fold_left (fun m d => adel d m) ds m.

  (* DeleteTokenPair *)
  Definition delete_pair (s : state) (p : pair) : outcome state :=
    id <- pair_id p ;;
    Ok {| st_pairs := adel id (st_pairs s);
          st_erc20 := adel (addr_of (p_text p)) (st_erc20 s);
          st_denom := del_denoms (st_denom s) (p_denoms p);
          st_meta := st_meta s; st_enable := st_enable s |}.

  (* SetTokenPair; SetDenomsMap(pair.Denoms); SetERC20Map(HexToAddress(pair.ERC20Address)) *)
  Definition store_new_pair (s : state) (p : pair) : outcome state :=
    id <- pair_id p ;;
    Ok {| st_pairs := aset id p (st_pairs s);
          st_erc20 := aset (addr_of (p_text p)) id (st_erc20 s);
          st_denom := set_denoms (st_denom s) (p_denoms p) id;
          st_meta := st_meta s; st_enable := st_enable s |}.

  Definition with_meta (s : state) (m : alist metadata) : state :=
    {| st_pairs := st_pairs s; st_erc20 := st_erc20 s; st_denom := st_denom s; st_meta := m; st_enable := st_enable s |}.

  (* the checks shared by RegisterCoin and AddCoin, then verifyMetadata *)
  Definition coin_checks (s : state) (md : metadata) (has_supply : bool) : outcome state :=
    if negb (st_enable s) then Err else
    if v_reject_hex v && is_hex_address (md_base md) then Err else
    if bytes_eqb (md_base md) evm_denom then Err else
    if ahas (if v_test_base v then md_base md else md_name md) (st_denom s) then Err else
    if negb has_supply then Err else
    match aget (md_base md) (st_meta s) with
    | None => Ok (with_meta s (aset (md_base md) md (st_meta s)))    (* bank keys metadata by its Base *)
    | Some m => if equal_metadata m md then Ok s else Err
    end.

  (* RegisterCoin; [deploy] = crypto.CreateAddress(module, nonce), the address DeployERC20Contract creates *)
  Definition register_coin (s : state) (md : metadata) (deploy : bytes) (has_supply : bool) : outcome state :=
    s1 <- coin_checks s md has_supply ;;
    match md_units md with
    | [] => Panic                                   (* coinMetadata.DenomUnits[0] *)
    | _ => store_new_pair s1 {| p_text := canon deploy; p_denoms := [md_base md]; p_enabled := true; p_owner := OWNER_MODULE |}
    end.

  (* AddCoin *)
  Definition add_coin (s : state) (md : metadata) (contract : bytes) (has_supply : bool) : outcome state :=
    if negb (is_hex_address contract) then Err else
    s1 <- coin_checks s md has_supply ;;
    let id := get0 (st_erc20 s1) (addr_of contract) in
    match get_pair s1 id with
    | None => Err
    | Some p =>
        let p' := {| p_text := p_text p; p_denoms := p_denoms p ++ [md_base md]; p_enabled := p_enabled p; p_owner := p_owner p |} in
        id' <- pair_id p' ;;
        if negb (bytes_eqb id id') then Err else
        Ok {| st_pairs := aset id' p' (st_pairs s1); st_erc20 := st_erc20 s1;
              st_denom := aset (md_base md) id' (st_denom s1); st_meta := st_meta s1; st_enable := st_enable s1 |}
    end.

  (* CreateCoinMetadata *)
  Definition erc20_metadata (text : bytes) (q : erc20q) : metadata :=
    let base := create_denom text in
    {| md_desc := create_descr text;
       md_units := (base, 0) :: (if 0 <? q_decimals q then [(q_sname q, q_decimals q)] else []);
       md_base := base;
       md_display := if 0 <? q_decimals q then q_sname q else base;
       md_name := base; md_symbol := q_symbol q |}.

  (* handleRegisterERC20Proposal + RegisterERC20 *)
  Definition register_erc20 (s : state) (text : bytes) (q : option erc20q) : outcome state :=
    let contract := addr_of text in
    if negb (st_enable s) then Err else
    if ahas contract (st_erc20 s) then Err else
    let str := canon contract in
    match q with
    | None => Err
    | Some q =>
        if ahas (create_denom str) (st_meta s) then Err else
        if ahas (create_denom str) (st_denom s) then Err else
        let md := erc20_metadata str q in
        if negb (metadata_validate md) then Err else
        store_new_pair (with_meta s (aset (md_base md) md (st_meta s)))
          {| p_text := str; p_denoms := [md_name md]; p_enabled := true; p_owner := OWNER_EXTERNAL |}
    end.

  (* ToggleRelay *)
  Definition toggle (s : state) (token : bytes) : outcome state :=
    let id := get_token_pair_id s token in
    match id with
    | [] => Err
    | _ => match get_pair s id with
           | None => Err
           | Some p => set_pair s {| p_text := p_text p; p_denoms := p_denoms p; p_enabled := negb (p_enabled p); p_owner := p_owner p |}
           end
    end.

  (* the denom-unit loop of UpdateTokenPairERC20: first unit named like the ERC20, its exponent must agree *)
  Fixpoint unit_matches (us : list (bytes * N)) (name : bytes) (dec : N) : bool :=
    match us with
    | [] => false
    | (d, e) :: r => if bytes_eqb d name then e =? dec else unit_matches r name dec
    end.

  (* handleUpdateTokenPairERC20Proposal + UpdateTokenPairERC20 *)
  Definition update_pair (s : state) (old_text new_text : bytes) (q : option erc20q) : outcome state :=
    let old := addr_of old_text in
    let new := addr_of new_text in
    let id := get0 (st_erc20 s) old in
    match id with
    | [] => Err
    | _ =>
      if v_update_guard v && ahas new (st_erc20 s) then Err else
      match get_pair s id with
      | None => Err
      | Some p =>
        match p_denoms p with
        | [] => Panic                               (* pair.Denoms[0] *)
        | d0 :: _ =>
          match aget d0 (st_meta s) with
          | None => Err
          | Some m =>
            match md_units m, q with
            | [], _ => Err
            | _, None => Err
            | _, Some q =>
              if negb (bytes_eqb (md_display m) (q_name q)) || negb (bytes_eqb (md_symbol m) (q_symbol q)) ||
                 negb (bytes_eqb (md_desc m) (create_descr (canon old))) then Err else
              if negb (unit_matches (md_units m) (q_name q) (q_decimals q)) then Err else
              let m' := {| md_desc := create_descr (canon new); md_units := md_units m; md_base := md_base m;
                           md_display := md_display m; md_name := md_name m; md_symbol := md_symbol m |} in
              s1 <- delete_pair (with_meta s (aset (md_base m') m' (st_meta s))) p ;;
              let p' := {| p_text := canon new; p_denoms := p_denoms p; p_enabled := p_enabled p; p_owner := p_owner p |} in
              new_id <- pair_id p' ;;
              Ok {| st_pairs := aset new_id p' (st_pairs s1);
                    st_erc20 := aset new new_id (st_erc20 s1);
                    st_denom := if v_reindex_all v then set_denoms (st_denom s1) (p_denoms p') new_id
                                else aset d0 new_id (st_denom s1);
                    st_meta := st_meta s1; st_enable := st_enable s1 |}
            end
          end
        end
      end
    end.

  (* MintingEnabled (sender = receiver, not a blocked address) *)
  Definition minting_enabled (s : state) (token denom : bytes) : outcome pair :=
    if negb (st_enable s) then Err else
    let id := get_token_pair_id s token in
    let denom_id := if v_mint_direct v then get0 (st_denom s) denom else get_token_pair_id s denom in
    if negb (bytes_eqb denom_id id) then Err else
    match id with
    | [] => Err
    | _ => match get_pair s id with
           | None => Err
           | Some p => if p_enabled p then Ok p else Err
           end
    end.

  (* what ConvertCoin / ConvertERC20 do to the registry: 1 = refused by MintingEnabled, 0 = the pair of a
     self-destructed contract is deleted (returns nil), 9 = conversion proper (registry untouched) *)
  Definition convert (s : state) (token denom : bytes) (live : list bytes) : outcome (state * nat) :=
    match minting_enabled s token denom with
    | Ok p => if existsb (bytes_eqb (addr_of (p_text p))) live then Ok (s, 9%nat)
              else s' <- delete_pair s p ;; Ok (s', 0%nat)
    | Err => Ok (s, 1%nat)
    | Panic => Panic
    end.

  (** ** Genesis *)

  (* TokenPair.Validate *)
  Definition pair_validate (p : pair) : bool :=
    forallb (fun d => valid_denom d && negb (v_reject_hex v && is_hex_address d)) (p_denoms p) &&
    is_hex_address (p_text p).

  (* the seenDenom loop of GenesisState.Validate: None = a denomination repeats *)
  Fixpoint check_denoms (seen : list bytes) (ds : list bytes) : option (list bytes) :=
    match ds with
    | [] => Some seen
    | d :: ds' => if existsb (bytes_eqb d) seen then None else check_denoms (d :: seen) ds'
    end.

  (* GenesisState.Validate *)
  Fixpoint validate_genesis (seen_erc20 seen_denom : list bytes) (ps : list pair) : outcome unit :=
    match ps with
    | [] => Ok tt
    | p :: r =>
        let key := if v_genesis_addr v then addr_of (p_text p) else p_text p in
        if existsb (bytes_eqb key) seen_erc20 then Err else
        if v_genesis_all v then
          match p_denoms p with
          | [] => Err
          | _ =>
            match check_denoms seen_denom (p_denoms p) with
            | None => Err
            | Some seen' => if pair_validate p then validate_genesis (key :: seen_erc20) seen' r else Err
            end
          end
        else
          match p_denoms p with
          | [] => Panic                             (* b.Denoms[0] *)
          | d0 :: _ =>
            if existsb (bytes_eqb d0) seen_denom then Err else
            if pair_validate p then validate_genesis (key :: seen_erc20) (d0 :: seen_denom) r else Err
          end
    end.

  (* InitGenesis (the token pairs) *)
  Fixpoint init_genesis (s : state) (ps : list pair) : outcome state :=
    match ps with
    | [] => Ok s
    | p :: r => s' <- store_new_pair s p ;; init_genesis s' r
    end.

  (** ** Operations *)

  Inductive op :=
  | ORegisterCoin (md : metadata) (deploy : bytes) (has_supply : bool)
  | OAddCoin (md : metadata) (contract : bytes) (has_supply : bool)
  | ORegisterERC20 (text : bytes) (q : option erc20q)
  | OToggle (token : bytes)
  | OUpdate (old_text new_text : bytes) (q : option erc20q)
  | OConvertCoin (denom : bytes) (live : list bytes)
  | OConvertERC20 (contract denom : bytes) (live : list bytes)
  | OSetEnable (b : bool)
  | OGenesis (pairs : list pair) (metas : list metadata)
  | OEnv.     (* contract deployment, self-destruct, minting: the registry is not involved *)

  (* ValidateBasic of the proposal contents / messages (title, description, amounts and the account
     addresses are fixed valid values in the harness) *)
  Definition coin_vb (md : metadata) : bool :=
    metadata_validate md && validate_ibc_denom (md_base md) && validate_ibc md.

  Definition validate_aggregate_denom (d : bytes) : bool :=
    match split_slash d with
    | (p, Some rest) => bytes_eqb p (B "aggregate") && is_hex_address rest
    | _ => false
    end.

  Definition validate_basic (o : op) : bool :=
    match o with
    | ORegisterCoin md _ _ => coin_vb md
    | OAddCoin md c _ => coin_vb md && is_hex_address c
    | ORegisterERC20 t _ => is_hex_address t
    | OToggle t => is_hex_address t || valid_denom t
    | OUpdate a b _ => is_hex_address a && is_hex_address b
    | OConvertCoin d _ => validate_aggregate_denom d || validate_ibc_denom d
    | OConvertERC20 c _ _ => is_hex_address c
    | _ => true
    end.

  (* gov: ValidateBasic at submission; the handler runs on a cache context written only when it returns nil
     (x/gov EndBlocker); DeliverTx does the same for messages.  Classes: 0 ok, 1 error, 2 panic,
     3 refused by ValidateBasic, 9 conversion proper (outcome depends on balances, not compared). *)
  Definition commit (s : state) (r : outcome state) : state * nat :=
    match r with Ok s' => (s', 0%nat) | Err => (s, 1%nat) | Panic => (s, 2%nat) end.

  Definition set_metas (s : state) (ms : list metadata) : state :=
    with_meta s (fold_left (fun m md => if metadata_validate md then aset (md_base md) md m else m) ms (st_meta s)).

  Definition step (s : state) (o : op) : state * nat :=
    if negb (validate_basic o) then (s, 3%nat) else
    match o with
    | ORegisterCoin md a sup => commit s (register_coin s md a sup)
    | OAddCoin md c sup => commit s (add_coin s md c sup)
    | ORegisterERC20 t q => commit s (register_erc20 s t q)
    | OToggle t => commit s (toggle s t)
    | OUpdate a b q => commit s (update_pair s a b q)
    | OConvertCoin d live =>
        match convert s d d live with Ok r => r | _ => (s, 2%nat) end
    | OConvertERC20 c d live =>
        match convert s c d live with Ok r => r | _ => (s, 2%nat) end
    | OSetEnable b =>
        ({| st_pairs := st_pairs s; st_erc20 := st_erc20 s; st_denom := st_denom s; st_meta := st_meta s; st_enable := b |}, 0%nat)
    | OGenesis ps ms =>
        let s0 := set_metas s ms in    (* the bank genesis is imported independently *)
        match validate_genesis [] [] ps with
        | Ok _ => commit s0 (init_genesis s0 ps)
        | Err => (s0, 1%nat)
        | Panic => (s0, 2%nat)
        end
    | OEnv => (s, 9%nat)
    end.

  Fixpoint run (s : state) (os : list op) : state :=
    match os with [] => s | o :: r => run (fst (step s o)) r end.

End Model.
