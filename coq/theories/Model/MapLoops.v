(** * C14 — the places where Go's semantics is not a function of the inputs: [range] over a map.

    Go specifies that "the iteration order over maps is not specified and is not guaranteed to be the same
    from one iteration to the next" (and the runtime randomises it on purpose).  One execution of
    [for k, v := range m { body }] therefore runs [body] once per entry, in SOME enumeration of the entries;
    the enumeration is a list [l : list (K * V)] with pairwise different keys ([NoDup (map fst l)]), and two
    executions (two nodes, two replays) may see any two permutations of it.

    Each map-ranging loop of the consensus-critical code is transcribed here as a function of that entry
    LIST (a fold in list order).  [Proofs/MapLoops.v] proves for each one that its observable result does not
    change under permutation of the list.  Whether a [range]-over-map statement of the source is COVERED is not
    decided here but by the classifier of [Model/MapLoopsIR.v] on the loop regenerated from the source (sound for
    every interpretation of the loop's expressions, [Proofs/MapLoopsIR.v]); a statement outside the classified
    fragment is an open obligation ([Model/DeterminismCheck.v: unmatched_sites]). *)
From Coq Require Import List String NArith Bool Permutation Sorting.Sorted.
From Teleport Require Import Base.Bytes Base.Outcome.
Import ListNotations.

(** ** Go maps as values

    A Go map is observable only through lookup ([m[k]], [v, ok := m[k]]), [len] and [range]; it is modelled as
    an association list in which the FIRST binding of a key is the current one ([m[k] = v] conses). *)
Section GoMap.
  Context {K V : Type} (keqb : K -> K -> bool).

  Definition gomap := list (K * V).

  Fixpoint mlookup (k : K) (m : gomap) : option V :=
    match m with
    | [] => None
    | (k', v) :: t => if keqb k k' then Some v else mlookup k t
    end.

  (** [m[k] = v] *)
  Definition minsert (k : K) (v : V) (m : gomap) : gomap := (k, v) :: m.

  (** two maps are the same Go value iff every lookup agrees (then [len] and the SET of entries agree too) *)
  Definition mequiv (m m' : gomap) : Prop := forall k, mlookup k m = mlookup k m'.
End GoMap.

Arguments gomap K V : clear implicits.

(** ** Loop 1 — building a map from a map

    [for k, v := range src { dst[tk k] = tv k v }] with [dst] empty before the loop.
    - app/app.go ModuleAccountAddrs:  [modAccAddrs[NewModuleAddress(acc).String()] = true]
    - app/app.go BlockedAddrs:        [blockedAddrs[NewModuleAddress(acc).String()] = !allowedReceivingModAcc[acc]]
    - app/app.go GetMaccPerms:        [dupMaccPerms[k] = v]
    - app/app.go GetStoreKeys:        [storeKey := *v; copyStoreKeys[k] = &storeKey]
    [tk] (module name -> bech32 address, a SHA-256 based derivation) and [tv] are arbitrary functions. *)
Section InsertLoop.
  Context {K V K' V' : Type} (tk : K -> V -> K') (tv : K -> V -> V').

  Definition insert_step (m : gomap K' V') (e : K * V) : gomap K' V' :=
    minsert (tk (fst e) (snd e)) (tv (fst e) (snd e)) m.

  Definition insert_loop (l : list (K * V)) : gomap K' V' := fold_left insert_step l [].
End InsertLoop.

(** ** Loop 2 — the handler tables of the staking / gov adapters

    adapter/staking/adapter.go, adapter/gov/adapter.go: NewHookAdapter
    [for name, event := range parsed.Events { switch name { case "Delegated": handlers[event.ID] = hook.HandleDelegated ...
       default: panic(errors.New("unknown topic")) } }]
    [handler_of name = None] is the [default] branch.  The loop runs at application construction (outside any
    recovery): a panic aborts node start-up. *)
Section HandlerLoop.
  Context {Name Ev Id H : Type} (handler_of : Name -> option H) (id_of : Ev -> Id).

  Definition handler_step (acc : outcome (gomap Id H)) (e : Name * Ev) : outcome (gomap Id H) :=
    match acc with
    | Ok m => match handler_of (fst e) with
              | Some h => Ok (minsert (id_of (snd e)) h m)
              | None => Panic
              end
    | other => other
    end.

  Definition handler_loop (l : list (Name * Ev)) : outcome (gomap Id H) := fold_left handler_step l (Ok []).
End HandlerLoop.

(** ** Loop 3 — BSC "recently signed" test

    x/xibc/clients/light-clients/bsc/types/header.go verifySeal
    [for seen, recent := range snap.Recents { if recent == signer { if limit := uint64(len(snap.Validators)/2 + 1);
        number < limit || seen > number-limit { return ErrRecentlySigned(signer) } } }]
    (the [number < limit] guard is fix c10316e).  The loop RETURNS from inside; [true] = the error return (its text
    depends only on [signer]).  [number-limit] is a uint64 subtraction (it would wrap for number < limit, which the
    guard now catches first). *)
Definition sub64 (a b : N) : N := ((a + 2 ^ 64 - b) mod 2 ^ 64)%N.

Section RecentsLoop.
  Context (signer : bytes) (number limit : N).

  Definition recent_hit (e : N * bytes) : bool :=
    bytes_eqb (snd e) signer && ((number <? limit) || (sub64 number limit <? fst e))%N.

  Fixpoint recents_loop (l : list (N * bytes)) : bool :=
    match l with
    | [] => false                       (* fell through: no error *)
    | e :: t => if recent_hit e then true (* return ErrRecentlySigned *) else recents_loop t
    end.
End RecentsLoop.

(** ** Loop 4 — BSC validator list: collect, then sort

    x/xibc/clients/light-clients/bsc/types/snapshot.go, method validators of snapshot
    [for v := range s.Validators { validators = append(validators, v) }; sort.Sort(validatorsAscending(validators))]
    with [Less(i, j) = bytes.Compare(s[i][:], s[j][:]) < 0].  [inturn] indexes the result
    ([validators[(Number+1) % len]]), so the ORDER of the returned slice decides which signer is in turn and with
    it which difficulty a header must carry.  [sort] is Go's [sort.Sort] — not modelled, only specified
    ([sort_spec]): the result is a permutation of the argument and no later element is [Less] than an earlier one. *)
Definition addr_le (a b : bytes) : Prop := bytes_ltb b a = false.   (* not Less(b, a) *)

Definition sort_spec (sort : list bytes -> list bytes) : Prop :=
  forall l, Permutation.Permutation (sort l) l /\ Sorted.StronglySorted addr_le (sort l).

Section ValidatorsLoop.
  Context {V : Type} (sort : list bytes -> list bytes).

  Definition collect_loop (l : list (bytes * V)) : list bytes := fold_left (fun acc e => acc ++ [fst e]) l [].

  Definition validators_loop (l : list (bytes * V)) : list bytes := sort (collect_loop l).

  (** inturn: [validators[(Number + 1) % len(validators)] == validator]; an empty set panics (division by zero) *)
  Definition inturn (l : list (bytes * V)) (number : N) (validator : bytes) : outcome bool :=
    let vs := validators_loop l in
    match vs with
    | [] => Panic
    | _ => match nth_error vs (N.to_nat (((number + 1) mod 2 ^ 64) mod N.of_nat (List.length vs))%N) with
           | Some v => Ok (bytes_eqb v validator)
           | None => Panic
           end
    end.
End ValidatorsLoop.

(** an executable instance of [sort_spec] (insertion sort), for the non-vacuity example and the differential run *)
Fixpoint addr_insert (a : bytes) (l : list bytes) : list bytes :=
  match l with
  | [] => [a]
  | h :: t => if bytes_ltb h a then h :: addr_insert a t else a :: l
  end.

Definition addr_sort (l : list bytes) : list bytes := fold_right addr_insert [] l.

(** ** Loop 5 — a library loop reached from teleport: cosmos-sdk v0.45.2 types.TypedEventToEvent

    Until fix b88fea5 every event of x/xibc and x/aggregate was emitted through [EventManager.EmitTypedEvent], which calls
    [for k, v := range attrMap { attrs = append(attrs, abci.EventAttribute{Key: []byte(k), Value: v}) }]
    and nothing else: the attribute list of the event IS the enumeration order (finding typed-event-attr-order, found
    by the replay engine; [Refuted/C14_refuted.v]).  The loop is outside /repo, hence not in the inventory of [range]
    statements; the CALLS are inventoried as hazard kind "sdk-typed-event" and are not on the allow-list. *)
Definition typed_event_attrs {K V : Type} (l : list (K * V)) : list (K * V) :=
  fold_left (fun acc e => acc ++ [e]) l [].

(** the code now ([types.EmitTypedEvent], fix b88fea5): the list is then sorted by key (sort.SliceStable) *)
Definition attr_le {V : Type} (a b : bytes * V) : Prop := addr_le (fst a) (fst b).

Definition attr_sort_spec {V : Type} (sort : list (bytes * V) -> list (bytes * V)) : Prop :=
  forall l, Permutation.Permutation (sort l) l /\ Sorted.StronglySorted attr_le (sort l).

Definition typed_event_attrs_sorted {V : Type} (sort : list (bytes * V) -> list (bytes * V)) (l : list (bytes * V)) :=
  sort (typed_event_attrs l).

(** ** An environment read: ETH seal verification

    x/xibc/clients/light-clients/eth/types/header.go VerifyCascadingFields, as it was until fix b24f7c9 (finding
    eth-ethash-tmpdir, D10; [Refuted/C14_refuted.v]):
    [cachedir, err := ioutil.TempDir("", ""); if err != nil { return errEthashStopped }; ...
     if err := ethash.VerifySeal(header, false); err != nil { return ErrHeader }; return nil]
    [tmp_ok]: does ioutil.TempDir succeed ON THIS NODE; [seal_ok]: the ethash verdict for the header (a function
    of the header alone: hashimotoLight over cache words that depend only on the epoch). *)
Definition verify_cascading (tmp_ok seal_ok : bool) : outcome unit :=
  if tmp_ok then (if seal_ok then Ok tt else Err) else Err.

(** the code now (fix b24f7c9): in-memory cache, no directory — the environment is not consulted *)
Definition verify_cascading_in_memory (tmp_ok seal_ok : bool) : outcome unit :=
  if seal_ok then Ok tt else Err.

(** ** ETH seal verification with ALL its environment touch points

    ethash.go [cache.generate(dir, ...)] and verify_header.go [VerifySeal(header, fulldag)], as called from
    VerifyCascadingFields.  The node's environment enters in two places:
    - the verification cache: [dir = ""] generates the words in memory; otherwise an existing file
      [dir/cache-R23-<seed>] that memory-maps and starts with the magic number is used AS IT IS (the words are not
      checked against the seed: a stale or corrupted file changes the verdict), and only when there is none the words
      are generated (into a new file, or in memory when that fails);
    - [fulldag = true]: the full dataset is generated in a background goroutine; the verdict comes from the dataset when
      it is ready ([generated()]), from the cache otherwise — which one depends on the scheduler.
    [gen]: the cache words for the header's epoch (a function of the epoch alone); [light words h]: hashimotoLight on the
    given words compared with the header's mix digest and target; [full sched h]: the dataset's verdict when ready. *)
Record fs_env := {
  fe_mapped_file : option (list N);   (* memoryMap(path) succeeds and finds these words *)
  fe_can_create : bool                (* memoryMapAndGenerate succeeds *)
}.

Definition cache_generate (cache_dir_empty : bool) (gen : list N) (fs : fs_env) : list N :=
  if cache_dir_empty then gen
  else match fe_mapped_file fs with
       | Some words => words
       | None => gen            (* generated into the new file, or the in-memory fallback: the same words *)
       end.

Section EthSeal.
  Context {Header Sched : Type} (light : list N -> Header -> bool) (full : Sched -> Header -> option bool).

  Definition verify_seal (fulldag cache_dir_empty : bool) (gen : list N) (fs : fs_env) (sc : Sched) (h : Header) : bool :=
    let by_cache := light (cache_generate cache_dir_empty gen fs) h in
    if fulldag then match full sc h with Some v => v | None => by_cache end else by_cache.

  (** VerifyCascadingFields: ErrHeader unless the seal verifies *)
  Definition verify_cascading_env (fulldag cache_dir_empty : bool) (gen : list N) (fs : fs_env) (sc : Sched) (h : Header) : outcome unit :=
    if verify_seal fulldag cache_dir_empty gen fs sc h then Ok tt else Err.
End EthSeal.

(** ** The specific transcriptions: which loop of the source each definition above transcribes, and the lemma of
    [Proofs/MapLoops.v] that proves its order independence (certificates in [Proofs/MapLoopsTable.v]).

    This table is DOCUMENTATION plus a name check; it no longer decides whether a [range]-over-map statement of the
    source is covered.  That is decided by [Model/MapLoopsIR.v: classify] on the loop as REGENERATED from the source
    ([Gen/HazardsGen.v: map_range_sites_ir]), whose soundness for every evaluator is [Proofs/MapLoopsIR.v]; the
    transcriptions here say what the loops COMPUTE (sorted key set, existence test, handler table, ...) and are tied
    to the real functions by the differential run ([Model/MapLoopsCheck.v]). *)
Local Open Scope string_scope.

(** (file, function, lemma) *)
Definition site_table : list (string * string * string) := [
  ("adapter/gov/adapter.go", "NewHookAdapter", "handler_loop_perm");
  ("adapter/staking/adapter.go", "NewHookAdapter", "handler_loop_perm");
  ("app/app.go", "*Teleport.BlockedAddrs", "insert_loop_perm");
  ("app/app.go", "*Teleport.ModuleAccountAddrs", "insert_loop_const_perm");
  ("app/app.go", "GetMaccPerms", "copy_loop_perm");
  ("app/app.go", "GetStoreKeys", "copy_loop_perm");
  ("x/xibc/clients/light-clients/bsc/types/header.go", "verifySeal", "recents_loop_perm");
  ("x/xibc/clients/light-clients/bsc/types/snapshot.go", "*snapshot.validators", "validators_loop_perm")
].

(** the lemma names the table relies on (checked against the certificates in [Proofs/MapLoopsTable.v]) *)
Definition lemmas_used : list string := map (fun t => snd t) site_table.
