(** Correspondence and monitor definitions for C03, evaluated by [vm_compute] on the histories the
    harness (harness/cmd/c03) ran on 2-3 real chains.  No proofs here. *)
From Coq Require Import List NArith Bool.
From Teleport Require Import Base.Outcome Model.Bridge.
Import ListNotations.
Local Open Scope N_scope.

(** * What the harness reports *)

(** Observables of one chain, read after every step (canonical order, see [project_chain]):
    - [o_bal]    balanceOf / bank balance: token 0..ntok (0 = native coin) x holder (users, Endpoint,
                 PacketC, Execute, Agent, Relayer)
    - [o_supply] totalSupply of token 1..ntok
    - [o_out]    endpoint.outTokens:  token 0..ntok x chain 0..n-1
    - [o_bind]   endpoint.bindings[token/chain].amount, same shape
    - [o_next]   packet.getNextSequenceSend(chain d), 0 for the chain itself
    - [o_pk]     for every packet sent from this chain so far (creation order):
                 (getAckStatus, (fee token, fee amount)) from packet.packetFees
    - [o_eff]    for every packet with succeeding call data sent TOWARDS this chain so far: the
                 allowance its call data sets *)
Record cobs := {
  o_bal : list N; o_supply : list N; o_out : list N; o_bind : list N; o_next : list N;
  o_pk : list (N * (N * N)); o_eff : list N
}.

Record ostep := {
  os_op : op;
  os_class : nat;          (* observed: 0 accepted, 1 rejected *)
  os_code : N;             (* Recv: result code of the acknowledgement the destination wrote *)
  os_onward : option packet; (* Recv: the packet the callback sent on (agent multi-hop), as emitted by the chain *)
  os_obs : list cobs       (* all chains, after the step *)
}.

Record universe := { u_n : nat; u_users : nat; u_ntok : list nat }.

Record hist := {
  h_u : universe;
  h_binds : list (nat * nat * nat * nat * N);   (* chain, local token, source chain, origin token, 10^scale *)
  h_init : list cobs;
  h_steps : list ostep
}.

(** * Universe *)
Definition ntok (U : universe) (c : chain) : nat := nth c (u_ntok U) 0%nat.
Definition sys_holders : list holder := [Endpoint; PacketC; Execute; Agent; Relayer].
Definition holders (U : universe) : list holder := map User (seq 0 (u_users U)) ++ sys_holders.
Definition nholders (U : universe) : nat := (u_users U + 5)%nat.
Definition hidx (U : universe) (h : holder) : option nat :=
  match h with
  | User n => if Nat.ltb n (u_users U) then Some n else None
  | Endpoint => Some (u_users U)
  | PacketC => Some (u_users U + 1)%nat
  | Execute => Some (u_users U + 2)%nat
  | Agent => Some (u_users U + 3)%nat
  | Relayer => Some (u_users U + 4)%nat
  end.
Definition chain_ids (U : universe) : list chain := seq 0 (u_n U).
Definition tokens (U : universe) (c : chain) : list token := seq 0 (S (ntok U c)).

(** * Configuration from the list of bindings *)
Definition bentry := (nat * nat * nat * nat * N)%type.
Definition be_c (e : bentry) := let '(c, _, _, _, _) := e in c.
Definition be_loc (e : bentry) := let '(_, l, _, _, _) := e in l.
Definition be_src (e : bentry) := let '(_, _, s, _, _) := e in s.
Definition be_ori (e : bentry) := let '(_, _, _, o, _) := e in o.
Definition be_k (e : bentry) := let '(_, _, _, _, k) := e in k.

Fixpoint trace_of (l : list bentry) (c src : chain) (ori : token) : option (token * N) :=
  match l with
  | [] => None
  | e :: l' => if Nat.eqb (be_c e) c && Nat.eqb (be_src e) src && Nat.eqb (be_ori e) ori
               then Some (be_loc e, be_k e) else trace_of l' c src ori
  end.

Fixpoint bound_of (l : list bentry) (c : chain) (loc : token) (dst : chain) : option (token * N) :=
  match l with
  | [] => None
  | e :: l' => if Nat.eqb (be_c e) c && Nat.eqb (be_loc e) loc && Nat.eqb (be_src e) dst
               then Some (be_ori e, be_k e) else bound_of l' c loc dst
  end.

Definition cfg_of (n : nat) (l : list bentry) : config :=
  {| nchains := n; trace := trace_of l; bound := bound_of l |}.

(** At most one local token per (chain, source, origin) and one origin per (chain, local, source). *)
Fixpoint binds_ok (l : list bentry) : bool :=
  match l with
  | [] => true
  | e :: l' =>
      is_none (trace_of l' (be_c e) (be_src e) (be_ori e)) && is_none (bound_of l' (be_c e) (be_loc e) (be_src e))
      && binds_ok l'
  end.

(** every scale factor is positive (10^scale) *)
Definition binds_pos (l : list bentry) : bool := forallb (fun e => negb (be_k e =? 0)) l.

(** * Decoding observations into ledgers, and projecting ledgers onto observations *)
Definition decode_chain (U : universe) (c : chain) (o : cobs) : cstate :=
  let nt := ntok U c in
  {| bal := fun t h => match hidx U h with
                       | Some i => if Nat.leb t nt then nth (t * nholders U + i) (o_bal o) 0 else 0
                       | None => 0 end;
     supply := fun t => if Nat.leb 1 t && Nat.leb t nt then nth (t - 1) (o_supply o) 0 else 0;
     out_tokens := fun t d => if Nat.leb t nt && Nat.ltb d (u_n U) then nth (t * u_n U + d) (o_out o) 0 else 0;
     bind_amt := fun t d => if Nat.leb t nt && Nat.ltb d (u_n U) then nth (t * u_n U + d) (o_bind o) 0 else 0;
     next_seq := fun d => if Nat.ltb d (u_n U) && negb (Nat.eqb d c) then nth d (o_next o) 1 else 1;
     ack_status := fun _ _ => 0;
     fees := fun _ _ => (0%nat, 0);
     effects := fun _ => 0 |}.

Definition dummy_obs : cobs :=
  {| o_bal := []; o_supply := []; o_out := []; o_bind := []; o_next := []; o_pk := []; o_eff := [] |}.

Definition decode (U : universe) (obs : list cobs) : chain -> cstate :=
  fun c => decode_chain U c (nth c obs dummy_obs).

Definition project_chain (U : universe) (ps : list packet) (c : chain) (cs : cstate) : cobs :=
  {| o_bal := flat_map (fun t => map (fun h => bal cs t h) (holders U)) (tokens U c);
     o_supply := map (supply cs) (seq 1 (ntok U c));
     o_out := flat_map (fun t => map (fun d => out_tokens cs t d) (chain_ids U)) (tokens U c);
     o_bind := flat_map (fun t => map (fun d => bind_amt cs t d) (chain_ids U)) (tokens U c);
     o_next := map (fun d => if Nat.eqb d c then 0 else next_seq cs d) (chain_ids U);
     o_pk := flat_map (fun p => if Nat.eqb (p_src p) c
                                then [(ack_status cs (p_dst p) (p_seq p),
                                       (N.of_nat (fst (fees cs (p_dst p) (p_seq p))), snd (fees cs (p_dst p) (p_seq p))))]
                                else []) ps;
     o_eff := flat_map (fun p => match p_cd p with
                                 | CdOk e => if Nat.eqb (p_dst p) c then [effects cs e] else []
                                 | _ => [] end) ps |}.

Fixpoint list_N_eqb (a b : list N) : bool :=
  match a, b with
  | [], [] => true
  | x :: a', y :: b' => (x =? y) && list_N_eqb a' b'
  | _, _ => false
  end.

Fixpoint list_pk_eqb (a b : list (N * (N * N))) : bool :=
  match a, b with
  | [], [] => true
  | (x1, (x2, x3)) :: a', (y1, (y2, y3)) :: b' => (x1 =? y1) && (x2 =? y2) && (x3 =? y3) && list_pk_eqb a' b'
  | _, _ => false
  end.

(** first differing field: 0 = equal, 31 bal, 32 supply, 33 out, 34 bind, 35 next, 36 pk, 37 eff *)
Definition cobs_diff (a b : cobs) : nat :=
  if negb (list_N_eqb (o_bal a) (o_bal b)) then 31
  else if negb (list_N_eqb (o_supply a) (o_supply b)) then 32
  else if negb (list_N_eqb (o_out a) (o_out b)) then 33
  else if negb (list_N_eqb (o_bind a) (o_bind b)) then 34
  else if negb (list_N_eqb (o_next a) (o_next b)) then 35
  else if negb (list_pk_eqb (o_pk a) (o_pk b)) then 36
  else if negb (list_N_eqb (o_eff a) (o_eff b)) then 37
  else 0%nat.

Fixpoint obs_diff (a b : list cobs) : nat :=
  match a, b with
  | [], [] => 0%nat
  | x :: a', y :: b' => match cobs_diff x y with 0%nat => obs_diff a' b' | k => k end
  | _, _ => 38%nat
  end.

Definition project (U : universe) (s : state) : list cobs :=
  map (fun c => project_chain U (packets s) c (chains s c)) (chain_ids U).

(** * Model vs implementation.  Kinds: 1 accepted/rejected differs, 2 acknowledgement code differs,
    31..38 an observable differs after the step (see [cobs_diff]), 4 the case itself is malformed
    (bindings not unique), 5 the decoded initial state does not project back onto the observation. *)
Definition op_code (s : state) (o : op) : N :=
  match o with
  | Recv src dst sq => match lookup src dst sq (packets s) with Some p => p_code p | None => 0 end
  | _ => 0
  end.

Fixpoint cmp_steps (U : universe) (cfg : config) (i : nat) (s : state) (l : list ostep) : list (nat * nat) :=
  match l with
  | [] => []
  | o :: l' =>
      match step cfg s (os_op o) with
      | Ok s' =>
          if negb (Nat.eqb (os_class o) 0) then [(i, 1%nat)]
          else if negb (op_code s' (os_op o) =? os_code o) then [(i, 2%nat)]
          else match obs_diff (project U s') (os_obs o) with
               | 0%nat => cmp_steps U cfg (S i) s' l'
               | k => [(i, k)]
               end
      | _ =>
          if negb (Nat.eqb (os_class o) 1) then [(i, 1%nat)]
          else match obs_diff (project U s) (os_obs o) with
               | 0%nat => cmp_steps U cfg (S i) s l'
               | k => [(i, k)]
               end
      end
  end.

Definition init_state (h : hist) : state := {| chains := decode (h_u h) (h_init h); packets := [] |}.

Definition cmp_hist (h : hist) : list (nat * nat) :=
  if negb (binds_ok (h_binds h)) then [(0%nat, 4%nat)]
  else match obs_diff (project (h_u h) (init_state h)) (h_init h) with
       | 0%nat => cmp_steps (h_u h) (cfg_of (u_n (h_u h)) (h_binds h)) 0 (init_state h) (h_steps h)
       | _ => [(0%nat, 5%nat)]
       end.

Fixpoint number {A} (i : nat) (l : list A) : list (nat * A) :=
  match l with [] => [] | x :: l' => (i, x) :: number (S i) l' end.

Definition mismatches (hs : list hist) : list (nat * (nat * nat)) :=
  flat_map (fun ih => map (fun m => (fst ih, m)) (cmp_hist (snd ih))) (number 0 hs).

(** * The property as an executable monitor on the IMPLEMENTATION's observations.
    The monitor keeps its own ghost packet table, driven only by what the implementation did
    (accepted / rejected, acknowledgement code), and evaluates after every step, on the decoded
    observations of all chains, the conservation equation, the solvency / supply accounting
    invariants and the one-outcome rules.  It does not use [step]. *)

(** ** The conservation equation (also the statement of the theorem, Props/C03.v) *)
Definition inflight (st : status) : bool := match st with Sent | RecvErr => true | _ => false end.

(** what packet [p] contributes to "in flight between origin chain A (token t) and chain B" *)
Definition contrib (A B : chain) (t : token) (p : packet) : N :=
  if inflight (p_status p) then
    match p_ori p with
    | None => if Nat.eqb (p_src p) A && Nat.eqb (p_dst p) B && Nat.eqb (p_token p) t then p_amount p else 0
    | Some t0 => if Nat.eqb (p_src p) B && Nat.eqb (p_dst p) A && Nat.eqb t0 t then p_amount p else 0
    end
  else 0.

Fixpoint sum_contrib (A B : chain) (t : token) (ps : list packet) : N :=
  match ps with [] => 0 | p :: ps' => contrib A B t p + sum_contrib A B t ps' end.

Definition conserved_at (cfg : config) (cs : chain -> cstate) (ps : list packet) (A B : chain) (t : token) : bool :=
  match trace cfg B A t with
  | Some (loc, k) => out_tokens (cs A) t B * k =? bind_amt (cs B) loc A + k * sum_contrib A B t ps
  | None => out_tokens (cs A) t B =? sum_contrib A B t ps
  end.

Definition conserved_all (U : universe) (cfg : config) (cs : chain -> cstate) (ps : list packet) : bool :=
  forallb (fun A => forallb (fun B => Nat.eqb A B || forallb (fun t => conserved_at cfg cs ps A B t) (tokens U A))
                      (chain_ids U)) (chain_ids U).

(** ** Solvency of the escrow and of the fee escrow, supply accounting, ERC-20 totals *)
Definition sumN (l : list N) : N := fold_right N.add 0 l.

Definition escrow_solvent (U : universe) (cs : chain -> cstate) : bool :=
  forallb (fun A => forallb (fun t => sumN (map (fun B => out_tokens (cs A) t B) (chain_ids U)) <=? bal (cs A) t Endpoint)
                      (tokens U A)) (chain_ids U).

Definition unpaid (p : packet) : bool := match p_status p with AckOk | Refunded => false | _ => true end.

Definition fee_due (cs : chain -> cstate) (A : chain) (t : token) (p : packet) : N :=
  if Nat.eqb (p_src p) A && unpaid p && Nat.eqb (fst (fees (cs A) (p_dst p) (p_seq p))) t
  then snd (fees (cs A) (p_dst p) (p_seq p)) else 0.

Definition fees_solvent (U : universe) (cs : chain -> cstate) (ps : list packet) : bool :=
  forallb (fun A => forallb (fun t => sumN (map (fee_due cs A t) ps) <=? bal (cs A) t PacketC) (tokens U A)) (chain_ids U).

(** totalSupply of an ERC-20 = locally issued supply (constant, read off the initial observation) + everything
    minted for the bindings; and totalSupply = sum of the balances of the holders of the universe (every
    holder that ever holds a token of the history is in it) ; the native coin is only moved. *)
Definition local_supply (U : universe) (cs : cstate) (t : token) : option N :=
  let b := sumN (map (fun A => bind_amt cs t A) (chain_ids U)) in
  if b <=? supply cs t then Some (supply cs t - b) else None.

Definition opt_N_eqb (a b : option N) : bool :=
  match a, b with Some x, Some y => x =? y | _, _ => false end.

Definition total_held (U : universe) (cs : cstate) (t : token) : N := sumN (map (bal cs t) (holders U)).

Definition supply_ok (U : universe) (cs0 cs : chain -> cstate) : bool :=
  forallb (fun c => forallb (fun t =>
      match t with
      | O => total_held U (cs c) t =? total_held U (cs0 c) t
      | _ => opt_N_eqb (local_supply U (cs c) t) (local_supply U (cs0 c) t) && (total_held U (cs c) t =? supply (cs c) t)
      end) (tokens U c)) (chain_ids U).

(** ** "Nothing changed" on the observed universe *)
Definition same_obs (a b : list cobs) : bool := Nat.eqb (obs_diff a b) 0.

(** ** Ghost table maintained by the monitor *)
Definition mon_packet (cfg : config) (c : chain) (u : nat) (tok : token) (amt : N) (dst : chain) (rcv : option holder)
  (cd : calldata) (cb : callback) (sq : N) : packet :=
  {| p_src := c; p_dst := dst; p_seq := sq; p_sender := User u; p_recv := rcv; p_token := tok;
     p_ori := if amt =? 0 then None else match bound cfg c tok dst with Some (ori, _) => Some ori | None => None end;
     p_amount := amt; p_cd := cd; p_cb := cb;
     p_status := Sent; p_code := 0; p_delivered := 0; p_refunded := 0; p_feepaid := 0 |}.

(** amount the sender must get back with an error acknowledgement, and where (token on the source) *)
Definition refund_due (cfg : config) (p : packet) : N :=
  match p_ori p with
  | None => p_amount p
  | Some _ => match bound cfg (p_src p) (p_token p) (p_dst p) with Some (_, k) => p_amount p * k | None => 0 end
  end.

(** (token on the destination, amount) the receiver must get with a success acknowledgement *)
Definition delivery_due (cfg : config) (p : packet) : option (token * N) :=
  if p_amount p =? 0 then None
  else match p_ori p with
       | Some t => Some (t, p_amount p)
       | None => match trace cfg (p_dst p) (p_src p) (p_token p) with
                 | Some (loc, k) => Some (loc, p_amount p * k)
                 | None => None
                 end
       end.

Definition is_user (h : holder) : bool := match h with User _ => true | _ => false end.

(** ack status recorded in the packet contract must agree with the ghost status *)
Definition ackstatus_ok (cs : chain -> cstate) (p : packet) : bool :=
  ack_status (cs (p_src p)) (p_dst p) (p_seq p) =?
    match p_status p with AckOk => 1 | Refunded => 2 | _ => 0 end.

(** the per-packet part of an observation is not decoded by [decode_chain]; overlay it *)
Definition overlay_chain (cs : cstate) (c : chain) (ps : list packet) (pk : list (N * (N * N))) : cstate :=
  let mine := filter (fun p => Nat.eqb (p_src p) c) ps in
  let tbl := combine mine pk in
  let find := fun d sq => fold_right (fun pe acc => if Nat.eqb (p_dst (fst pe)) d && (p_seq (fst pe) =? sq) then Some (snd pe) else acc) None tbl in
  set_fees (set_ackst cs (fun d sq => match find d sq with Some e => fst e | None => 0 end))
           (fun d sq => match find d sq with Some e => (N.to_nat (fst (snd e)), snd (snd e)) | None => (0%nat, 0) end).

Definition decode_full (U : universe) (ps : list packet) (obs : list cobs) : chain -> cstate :=
  fun c => overlay_chain (decode U obs c) c ps (o_pk (nth c obs dummy_obs)).

(** Invariants evaluated after every step.  Kinds: 16 conservation equation, 17 escrow not backed,
    18 fee escrow not backed, 19 supply accounting / totals, 21 ack status disagrees with the outcome. *)
Definition inv_failures (U : universe) (cfg : config) (cs0 : chain -> cstate) (ps : list packet) (obs : list cobs) : list nat :=
  let cs := decode_full U ps obs in
  (if conserved_all U cfg cs ps then [] else [16%nat]) ++
  (if escrow_solvent U cs then [] else [17%nat]) ++
  (if fees_solvent U cs ps then [] else [18%nat]) ++
  (if supply_ok U cs0 cs then [] else [19%nat]) ++
  (if forallb (ackstatus_ok cs) ps then [] else [21%nat]).

(** One step of the monitor: new ghost table and the failures.  Kinds: 11 a rejected operation changed
    something, 12 a packet was received twice / acknowledged twice / acknowledged before being received /
    an unknown packet was accepted, 13 an error acknowledgement was written but the destination (or any
    chain) changed, 14 success acknowledgement: the source changed beyond ack status + relayer fee,
    15 error acknowledgement: the sender did not get back exactly what he sent, 20 success receive: a user
    receiver was not credited exactly, 22 a transfer was accepted with a sequence other than the next one,
    25 an accepted acknowledgement did not move the packet's relayer fee from the packet contract to the relayer. *)
Definition bal_of (U : universe) (obs : list cobs) (c : chain) (t : token) (h : holder) : N := bal (decode U obs c) t h.

Definition mon_step (U : universe) (cfg : config) (ps : list packet) (pre : list cobs) (o : ostep) : list packet * list nat :=
  let post := os_obs o in
  if Nat.eqb (os_class o) 1 then (ps, if same_obs pre post then [] else [11%nat])
  else
  match os_op o with
  | Transfer c u tok amt dst rcv cd broken ftok fee =>
      let sq := next_seq (decode U pre c) dst in
      let p := mon_packet cfg c u tok amt dst rcv cd (if broken then CbBroken else CbNone) sq in
      (ps ++ [p], if is_none (lookup c dst sq ps) && (next_seq (decode U post c) dst =? sq + 1) then [] else [22%nat])
  | Recv src dst sq =>
      match lookup src dst sq ps with
      | None => (ps, [12%nat])
      | Some p =>
          if negb (is_sent p) then (ps, [12%nat])
          else
            let ps1 := update src dst sq (on_recv (os_code o) 0) ps in
            if negb (os_code o =? 0) then (ps1, (if same_obs pre post then [] else [13%nat]) ++ (if is_none (os_onward o) then [] else [24%nat]))
            else
            let ps' := ps1 ++ opt_list (os_onward o) in
            let fresh := match os_onward o with
                         | Some q => is_none (lookup (p_src q) (p_dst q) (p_seq q) ps1) && Nat.eqb (p_src q) dst
                                     && (p_seq q =? next_seq (decode U pre dst) (p_dst q))
                         | None => true end in
            (ps', (if fresh then [] else [22%nat]) ++
                  match delivery_due cfg p, p_recv p with
                  | Some (t, a), Some r =>
                      if is_user r && negb (bal_of U post dst t r =? bal_of U pre dst t r + a) then [20%nat] else []
                  | Some _, None => [20%nat]
                  | None, _ => []
                  end)
      end
  | Ack src dst sq =>
      match lookup src dst sq ps with
      | None => (ps, [12%nat])
      | Some p =>
          if negb (is_received p) then (ps, [12%nat])
          else
            let ps' := update src dst sq (on_ack 0) ps in
            let sender_same := forallb (fun t => (bal_of U post src t (p_sender p) =? bal_of U pre src t (p_sender p))
                                                 && (bal_of U post src t (refund_target p) =? bal_of U pre src t (refund_target p)))
                                       (tokens U src) in
            let others_same := forallb (fun c => Nat.eqb c src || (Nat.eqb (cobs_diff (nth c pre dummy_obs) (nth c post dummy_obs)) 0))
                                       (chain_ids U) in
            (* the relayer fee recorded for the packet before the step moves from the packet contract to the relayer *)
            let '(ft, f) := fees (decode_full U ps pre src) dst sq in
            let fee_paid := (bal_of U post src ft Relayer =? bal_of U pre src ft Relayer + f)
                            && (bal_of U post src ft PacketC + f =? bal_of U pre src ft PacketC) in
            let feef := if fee_paid then [] else [25%nat] in
            if p_code p =? 0 then
              (ps', feef ++ if sender_same && others_same
                       && list_N_eqb (o_out (nth src pre dummy_obs)) (o_out (nth src post dummy_obs))
                       && list_N_eqb (o_bind (nth src pre dummy_obs)) (o_bind (nth src post dummy_obs))
                       && list_N_eqb (o_supply (nth src pre dummy_obs)) (o_supply (nth src post dummy_obs))
                    then [] else [14%nat])
            else
              (ps', feef ++ if others_same
                       && forallb (fun t => bal_of U post src t (refund_target p) =?
                                            bal_of U pre src t (refund_target p)
                                            + (if Nat.eqb t (p_token p) && negb (p_amount p =? 0) then refund_due cfg p else 0))
                                  (tokens U src)
                    then [] else [15%nat])
      end
  | AddFee c u dst sq amt => (ps, [])
  | Fault _ _ _ _ => (ps, [12%nat])     (* a forged / altered / misrouted relay message was ACCEPTED *)
  end.

Fixpoint mon_steps (U : universe) (cfg : config) (cs0 : chain -> cstate) (i : nat) (ps : list packet) (pre : list cobs)
  (l : list ostep) : list (nat * nat) :=
  match l with
  | [] => []
  | o :: l' =>
      let '(ps', f1) := mon_step U cfg ps pre o in
      let f := f1 ++ inv_failures U cfg cs0 ps' (os_obs o) in
      match f with
      | [] => mon_steps U cfg cs0 (S i) ps' (os_obs o) l'
      | _ => map (fun k => (i, k)) f
      end
  end.

Definition mon_hist (h : hist) : list (nat * nat) :=
  let U := h_u h in
  let cfg := cfg_of (u_n U) (h_binds h) in
  let cs0 := decode U (h_init h) in
  match inv_failures U cfg cs0 [] (h_init h) with
  | [] => mon_steps U cfg cs0 0 [] (h_init h) (h_steps h)
  | f => map (fun k => (0%nat, (100 + k)%nat)) f     (* the initial state itself is not a valid starting point *)
  end.

Definition monitor_failures (hs : list hist) : list (nat * (nat * nat)) :=
  flat_map (fun ih => map (fun m => (fst ih, m)) (mon_hist (snd ih))) (number 0 hs).
