(** Executable model of the ICS-20 receive path of the Teleport app (property C16).

    Go sources transcribed (at /repo HEAD, i.e. including the repairs 6fec139 — `return ack` — and e0a53b0 — no
    conversion for a receiver whose address is not 20 bytes — of Keeper.OnRecvPacket):
      x/aggregate/ibc_middleware.go      IBCMiddleware.OnRecvPacket / OnAcknowledgementPacket; OnTimeoutPacket is
                                         inherited from the embedded *ibc.Module
      ibc/module.go                      Module: every callback forwards to the wrapped application unchanged
      x/aggregate/keeper/ibc_hook.go     Keeper.OnRecvPacket (every early return), OnAcknowledgementPacket
      x/aggregate/types/ibc.go           IBCDenom
      app/app.go                         transferStack = aggregate.NewIBCMiddleware(AggregateKeeper, transfer.IBCModule);
                                         the IBC router maps port "transfer" to it
      x/aggregate/keeper/msg_server.go   ConvertCoin, convertCoinNativeCoin, convertCoinNativeERC20   ([convert_coin])
      x/aggregate/keeper/mint.go         MintingEnabled
    Library behaviour modelled:
      ibc-go v3.0.0  modules/core/keeper/msg_server.go RecvPacket: callback in a cache context,
                     `if ack == nil || ack.Success() { writeFn() }`, `if ack != nil { WriteAcknowledgement }`   ([core_recv])
                     04-channel WriteAcknowledgement: empty bytes are refused, the store keeps sha256(bytes)
                     transfer/types: GetDenomPrefix, ReceiverChainIsSource, ParseDenomTrace, DenomTrace.IBCDenom
      cosmos-sdk v0.45.2  sdk.NewCoin (panics on a negative amount / invalid denomination), ValidateDenom,
                     bank SendCoinsFromAccountToModule, BurnCoins, BlockedAddr, IsSendEnabledCoin; sdk.Int (256 bits)
      go-ethereum    common.BytesToAddress (keeps the LAST 20 bytes / left-pads)
      syscontracts ERC20MinterBurnerDecimals (OpenZeppelin): mint, transfer, balanceOf
    Oracles (Section variables): the wrapped ICS-20 application [transfer_recv] (ibc-go's transfer IBCModule),
    the JSON codec [decode], sdk.NewIntFromString [parse_int], sdk.AccAddressFromBech32 [from_bech32], [sha256],
    and — in the generic part — the conversion [convert]. *)
From Coq Require Import List ZArith Bool.
From Teleport Require Import Base.Bytes Base.Outcome.
Import ListNotations.
Local Open Scope Z_scope.

(** * Packets and acknowledgements *)
Record ftpd := {                 (* transfertypes.FungibleTokenPacketData *)
  fd_denom : bytes; fd_amount : bytes; fd_sender : bytes; fd_receiver : bytes }.

Record packet := {               (* channeltypes.Packet, the fields the code reads *)
  pk_data : bytes; pk_seq : N;
  pk_sport : bytes; pk_schan : bytes; pk_dport : bytes; pk_dchan : bytes }.

Record ack := {                  (* exported.Acknowledgement: Success(), Acknowledgement() *)
  ack_success : bool; ack_bytes : bytes }.

(** * Byte-string helpers *)
Definition slash : byte := x2f.

(** transfertypes.GetDenomPrefix: fmt.Sprintf("%s/%s/", port, channel) *)
Definition denom_prefix (port chan : bytes) : bytes := port ++ [slash] ++ chan ++ [slash].

(** transfertypes.ReceiverChainIsSource: strings.HasPrefix(denom, GetDenomPrefix(sourcePort, sourceChannel)) *)
Definition receiver_chain_is_source (sport schan denom : bytes) : bool := is_prefix (denom_prefix sport schan) denom.

(** everything before / after the LAST "/" ([None]: no "/" at all) *)
Fixpoint split_last_slash (s : bytes) : option (bytes * bytes) :=
  match s with
  | [] => None
  | c :: t =>
      match split_last_slash t with
      | Some (p, b) => Some (c :: p, b)
      | None => if Byte.eqb c slash then Some ([], t) else None
      end
  end.

Definition hex_digit (n : N) : byte :=
  nth (N.to_nat n) [x30;x31;x32;x33;x34;x35;x36;x37;x38;x39;x41;x42;x43;x44;x45;x46] x30.

(** tmbytes.HexBytes.String(): upper-case hex *)
Fixpoint hex_upper (b : bytes) : bytes :=
  match b with
  | [] => []
  | c :: t => let n := Byte.to_N c in hex_digit (n / 16) :: hex_digit (n mod 16) :: hex_upper t
  end.

Definition ibc_slash : bytes := [x69;x62;x63;x2f].   (* "ibc/" *)

Section Hash.
  Variable sha256 : bytes -> bytes.

  (** ParseDenomTrace(raw).IBCDenom(): Path = everything before the last "/", BaseDenom = the rest; an empty Path
      gives the base denomination itself, otherwise "ibc/" + HEX(sha256(Path + "/" + BaseDenom)). *)
  Definition trace_ibc_denom (raw : bytes) : bytes :=
    match split_last_slash raw with
    | None => raw
    | Some (path, base) =>
        match path with
        | [] => base
        | _ => ibc_slash ++ hex_upper (sha256 (path ++ [slash] ++ base))
        end
    end.

  (** x/aggregate/types.IBCDenom(port, channel, denom): never fails *)
  Definition ibc_denom (port chan denom : bytes) : bytes := trace_ibc_denom (denom_prefix port chan ++ denom).

  (** The denomination ibc-go's transfer keeper credits to the receiver (relay.go OnRecvPacket):
      returning tokens: the sender's prefix is stripped and the rest is the native denomination or the voucher of
      the remaining trace; otherwise the voucher of destPort/destChannel/denom. *)
  (** relay.go, returning branch: `denom := unprefixedDenom; if ParseDenomTrace(unprefixedDenom).Path != "" { denom =
      denomTrace.IBCDenom() }` — with an EMPTY path the unprefixed string itself is used (for "/x" that is "/x", not
      the base "x" that DenomTrace.IBCDenom() would give) *)
  Definition unescrow_denom (un : bytes) : bytes :=
    match split_last_slash un with
    | Some (_ :: _, _) => trace_ibc_denom un
    | _ => un
    end.

  Definition received_denom (p : packet) (d : ftpd) : bytes :=
    if receiver_chain_is_source (pk_sport p) (pk_schan p) (fd_denom d)
    then unescrow_denom (skipn (length (denom_prefix (pk_sport p) (pk_schan p))) (fd_denom d))
    else trace_ibc_denom (denom_prefix (pk_dport p) (pk_dchan p) ++ fd_denom d).
End Hash.

(** common.BytesToAddress: the last 20 bytes, left-padded with zeros *)
Definition evm_addr (b : bytes) : bytes :=
  let n := length b in
  if (20 <=? n)%nat then skipn (n - 20) b else repeat x00 (20 - n) ++ b.

(** sdk.ValidateDenom (v0.45.2): [a-zA-Z][a-zA-Z0-9/-]{2,127} *)
Definition byte_in (lo hi : N) (b : byte) : bool := let n := Byte.to_N b in ((lo <=? n) && (n <=? hi))%N.
Definition is_alpha (b : byte) : bool := byte_in 65 90 b || byte_in 97 122 b.
Definition is_denom_tail (b : byte) : bool := is_alpha b || byte_in 48 57 b || Byte.eqb b x2f || Byte.eqb b x2d.
Definition valid_denom (d : bytes) : bool :=
  match d with
  | [] => false
  | c :: t => is_alpha c && forallb is_denom_tail t && (2 <=? length t)%nat && (length t <=? 127)%nat
  end.

(** * The conversion message the hook builds: types.NewMsgConvertCoin(sdk.NewCoin(denom, amount),
      common.BytesToAddress(receiver), receiver) *)
Record conv_msg := {
  cm_denom : bytes; cm_amount : Z;
  cm_receiver : bytes;       (* EVM address (20 bytes) that is credited *)
  cm_sender : bytes }.       (* bank account that is debited *)

(** Which return statement of Keeper.OnRecvPacket was taken (event status: STATUS_SUCCESS only for the last). *)
Inductive hook_path := HDecodeErr | HAmountErr | HNotEvmReceiver | HNotRegistered | HConvertErr | HConverted.

Definition path_code (p : hook_path) : nat :=
  match p with
  | HDecodeErr => 1 | HAmountErr => 2 | HNotRegistered => 3 | HConvertErr => 4 | HConverted => 5 | HNotEvmReceiver => 6
  end.
(** EventIBCAggregate.Status: 1 STATUS_SUCCESS, 2 STATUS_FAILED *)
Definition path_status (p : hook_path) : nat := match p with HConverted => 1 | _ => 2 end.

(** * The middleware over an abstract state *)
Section Middleware.
  Variable state : Type.
  Variable sha256 : bytes -> bytes.
  Variable decode : bytes -> option ftpd.                 (* transfertypes.ModuleCdc.UnmarshalJSON *)
  Variable parse_int : bytes -> option Z.                 (* sdk.NewIntFromString *)
  Variable from_bech32 : bytes -> option bytes.           (* sdk.AccAddressFromBech32 *)
  Variable is_registered : state -> bytes -> bool.        (* Keeper.IsDenomRegistered *)
  Variable convert : state -> conv_msg -> outcome state.  (* Keeper.ConvertCoin on the given (cache) state *)
  Variable transfer_recv : state -> packet -> outcome (state * ack). (* the wrapped app's OnRecvPacket; never nil *)

  (** `receiver, _ := sdk.AccAddressFromBech32(data.Receiver)`: the error is ignored, a failed decoding gives the
      empty address *)
  Definition hook_receiver (d : ftpd) : bytes :=
    match from_bech32 (fd_receiver d) with Some r => r | None => [] end.

  (** the ConvertCoin message of ibc_hook.go for a decoded packet *)
  Definition hook_msg (pkt : packet) (d : ftpd) (amt : Z) : conv_msg :=
    let receiver := hook_receiver d in
    {| cm_denom := ibc_denom sha256 (pk_dport pkt) (pk_dchan pkt) (fd_denom d);
       cm_amount := amt; cm_receiver := evm_addr receiver; cm_sender := receiver |}.

  (** Keeper.OnRecvPacket(ctx, packet, ack), parametrised by the two repairs: [chk20] = the test
      `len(receiver) != common.AddressLength` of e0a53b0 is present; [ret ack] = what every path returns (HEAD returns
      the acknowledgement it was given, the code before 6fec139 returned nil).  The conversion runs on a branch of
      the state (ctx.CacheContext()) that is written back only when ConvertCoin returns nil error. *)
  Definition hook_gen (chk20 : bool) (ret : ack -> option ack) (st : state) (pkt : packet) (a : ack)
    : outcome (state * option ack * hook_path) :=
    match decode (pk_data pkt) with
    | None => Ok (st, ret a, HDecodeErr)
    | Some d =>
        match parse_int (fd_amount d) with
        | None => Ok (st, ret a, HAmountErr)
        | Some amt =>
            if chk20 && negb (Nat.eqb (length (hook_receiver d)) 20) then Ok (st, ret a, HNotEvmReceiver) else
            let m := hook_msg pkt d amt in
            (* types.IBCDenom never returns an error: that branch is dead *)
            if negb (is_registered st (cm_denom m)) then Ok (st, ret a, HNotRegistered)
            else if (amt <? 0) || negb (valid_denom (cm_denom m)) then Panic   (* sdk.NewCoin *)
            else match convert st m with
                 | Panic => Panic
                 | Err => Ok (st, ret a, HConvertErr)          (* cache context dropped *)
                 | Ok st' => Ok (st', ret a, HConverted)       (* write() *)
                 end
        end
    end.

  Definition hook := hook_gen true (fun a => Some a).        (* /repo HEAD *)
  Definition hook_v1 := hook_gen false (fun a => Some a).     (* between 6fec139 and e0a53b0: any receiver length *)
  Definition hook_old := hook_gen false (fun _ => None).      (* before 6fec139: `return nil` on every path *)

  (** IBCMiddleware.OnRecvPacket: wrapped application first; an error acknowledgement is returned at once, a
      successful one is handed to the keeper hook.  Result: state, returned acknowledgement (None = nil),
      hook path (None = hook not called). *)
  Definition middleware_gen (hk : state -> packet -> ack -> outcome (state * option ack * hook_path))
             (st : state) (pkt : packet) : outcome (state * option ack * option hook_path) :=
    match transfer_recv st pkt with
    | Panic => Panic
    | Err => Err
    | Ok (st1, a) =>
        if negb (ack_success a) then Ok (st1, Some a, None)
        else match hk st1 pkt a with
             | Ok (st2, oa, p) => Ok (st2, oa, Some p)
             | Err => Err
             | Panic => Panic
             end
    end.

  Definition middleware := middleware_gen hook.
  Definition middleware_v1 := middleware_gen hook_v1.
  Definition middleware_old := middleware_gen hook_old.

  (** the bare transfer module seen through the same result type *)
  Definition bare (st : state) (pkt : packet) : outcome (state * option ack * option hook_path) :=
    match transfer_recv st pkt with
    | Ok (st1, a) => Ok (st1, Some a, None)
    | Err => Err
    | Panic => Panic
    end.

  (** ibc-go core RecvPacket after the channel checks: the callback runs on a branch; the branch is written for
      a nil or successful acknowledgement; a non-nil acknowledgement is written to the acknowledgement store
      (WriteAcknowledgement refuses empty bytes: the message then fails).  Result: committed application state
      and the stored acknowledgement commitment (None = nothing stored). *)
  Definition core_recv (cb : state -> packet -> outcome (state * option ack * option hook_path))
             (st : state) (pkt : packet) : outcome (state * option bytes) :=
    match cb st pkt with
    | Panic => Panic
    | Err => Err
    | Ok (st1, oa, _) =>
        let st' := match oa with
                   | None => st1
                   | Some a => if ack_success a then st1 else st
                   end in
        match oa with
        | None => Ok (st', None)
        | Some a => match ack_bytes a with
                    | [] => Err
                    | _ => Ok (st', Some (sha256 (ack_bytes a)))
                    end
        end
    end.

  (** A history of MsgRecvPacket transactions: each is delivered on its own (baseapp: a failing or panicking message
      changes nothing and stores nothing); the trace records the state each packet met and what core did with it. *)
  Fixpoint core_history (cb : state -> packet -> outcome (state * option ack * option hook_path))
             (st : state) (pkts : list packet) : list (state * packet * outcome (state * option bytes)) :=
    match pkts with
    | [] => []
    | p :: t =>
        let r := core_recv cb st p in
        (st, p, r) :: core_history cb (match r with Ok (st', _) => st' | _ => st end) t
    end.

  (** IBCMiddleware.OnAcknowledgementPacket: the wrapped application's callback, then Keeper.OnAcknowledgementPacket
      ("nothing to do", returns nil).  OnTimeoutPacket is ibc.Module's: the wrapped application's. *)
  Definition on_ack_gen (app_ack : state -> packet -> bytes -> outcome state) (st : state) (pkt : packet) (a : bytes)
    : outcome state :=
    match app_ack st pkt a with
    | Ok st1 => Ok st1      (* keeper.OnAcknowledgementPacket returns nil *)
    | Err => Err
    | Panic => Panic
    end.
  Definition on_timeout_gen (app_to : state -> packet -> outcome state) (st : state) (pkt : packet) : outcome state :=
    app_to st pkt.
End Middleware.

(** * A concrete state and the conversion (standard ERC20MinterBurnerDecimals tokens) *)
Record cpair := {
  cp_erc20 : bytes;          (* contract address, 20 bytes *)
  cp_denoms : list bytes;
  cp_enabled : bool;
  cp_owner : nat }.          (* 1 OWNER_MODULE, 2 OWNER_EXTERNAL *)

Definition key2 := (bytes * bytes)%type.
Definition key2_eqb (a b : key2) : bool := bytes_eqb (fst a) (fst b) && bytes_eqb (snd a) (snd b).

Fixpoint get2 (m : list (key2 * Z)) (k : key2) : Z :=
  match m with [] => 0 | (k', v) :: m' => if key2_eqb k' k then v else get2 m' k end.
Fixpoint get1 (m : list (bytes * Z)) (k : bytes) : Z :=
  match m with [] => 0 | (k', v) :: m' => if bytes_eqb k' k then v else get1 m' k end.
Fixpoint find1 {V} (m : list (bytes * V)) (k : bytes) : option V :=
  match m with [] => None | (k', v) :: m' => if bytes_eqb k' k then Some v else find1 m' k end.
Fixpoint del1 {V} (m : list (bytes * V)) (k : bytes) : list (bytes * V) :=
  match m with [] => [] | (k', v) :: m' => if bytes_eqb k' k then del1 m' k else (k', v) :: del1 m' k end.
Fixpoint mem1 (k : bytes) (l : list bytes) : bool :=
  match l with [] => false | x :: l' => bytes_eqb x k || mem1 k l' end.

Record cstate := {
  c_enabled : bool;                        (* Params.EnableAggregate *)
  c_denom_idx : list (bytes * bytes);      (* KeyPrefixTokenPairByDenom: denomination -> pair id *)
  c_erc20_idx : list (bytes * bytes);      (* KeyPrefixTokenPairByERC20: address -> pair id *)
  c_pairs : list (bytes * cpair);          (* KeyPrefixTokenPair: id -> pair *)
  c_bank : list (key2 * Z);                (* (account, denomination) -> balance *)
  c_supply : list (bytes * Z);
  c_tokens : list (key2 * Z);              (* (contract, holder) -> ERC-20 balance *)
  c_tok_total : list (bytes * Z);          (* contract -> totalSupply *)
  c_code : list bytes;                     (* addresses that hold contract code *)
  c_blocked : list bytes;                  (* bank blocked addresses *)
  c_send_disabled : list bytes }.          (* denominations with SendEnabled = false *)

Definition with_funds (s : cstate) bank supply tokens total : cstate :=
  {| c_enabled := c_enabled s; c_denom_idx := c_denom_idx s; c_erc20_idx := c_erc20_idx s; c_pairs := c_pairs s;
     c_bank := bank; c_supply := supply; c_tokens := tokens; c_tok_total := total;
     c_code := c_code s; c_blocked := c_blocked s; c_send_disabled := c_send_disabled s |}.

Definition with_registry (s : cstate) didx eidx pairs : cstate :=
  {| c_enabled := c_enabled s; c_denom_idx := didx; c_erc20_idx := eidx; c_pairs := pairs;
     c_bank := c_bank s; c_supply := c_supply s; c_tokens := c_tokens s; c_tok_total := c_tok_total s;
     c_code := c_code s; c_blocked := c_blocked s; c_send_disabled := c_send_disabled s |}.

Definition W256 : Z := 2 ^ 256.
Definition zero20 : bytes := repeat x00 20.

Section Concrete.
  Variable MODULE : bytes.      (* types.ModuleAddress (= the module account's bank address) *)

  Definition bal (s : cstate) (a d : bytes) : Z := get2 (c_bank s) (a, d).
  Definition tok (s : cstate) (c h : bytes) : Z := get2 (c_tokens s) (c, h).

  (** Keeper.IsDenomRegistered: the denom index has the key *)
  Definition c_is_registered (s : cstate) (d : bytes) : bool :=
    match find1 (c_denom_idx s) d with Some _ => true | None => false end.

  (** DeleteTokenPair *)
  Definition delete_pair (s : cstate) (id : bytes) (p : cpair) : cstate :=
    with_registry s (fold_left (fun m d => del1 m d) (cp_denoms p) (c_denom_idx s))
                    (del1 (c_erc20_idx s) (cp_erc20 p))
                    (del1 (c_pairs s) id).

  (** MintingEnabled(sender, receiver, denom, denom) for a denomination that is not a 40-hex-digit string
      (the hook's denominations start with "ibc/"): both ids come from the denom index. *)
  Definition minting_enabled (s : cstate) (m : conv_msg) : option (bytes * cpair) :=
    if negb (c_enabled s) then None else
    match find1 (c_denom_idx s) (cm_denom m) with
    | None => None
    | Some id =>
        match id with [] => None | _ =>
        match find1 (c_pairs s) id with
        | None => None
        | Some p =>
            if negb (cp_enabled p) then None
            else if mem1 (cm_receiver m) (c_blocked s) then None
            else if negb (bytes_eqb (cm_sender m) (cm_receiver m)) && mem1 (cm_denom m) (c_send_disabled s) then None
            else Some (id, p)
        end end
    end.

  (** bank SendCoinsFromAccountToModule(sender, aggregate, {denom amount}): the coin must be valid and positive,
      the sender must hold it; sdk.Int addition panics beyond 256 bits. *)
  Definition escrow (s : cstate) (m : conv_msg) : outcome cstate :=
    let d := cm_denom m in let a := cm_amount m in
    if negb (valid_denom d) || (a <=? 0) then Err else
    let b := bal s (cm_sender m) d in
    if b <? a then Err else
    let bank1 := ((cm_sender m, d), b - a) :: c_bank s in
    let mb := get2 bank1 (MODULE, d) in
    if W256 <=? mb + a then Panic else
    Ok (with_funds s (((MODULE, d), mb + a) :: bank1) (c_supply s) (c_tokens s) (c_tok_total s)).

  (** convertCoinNativeCoin: escrow, module mints tokens to the receiver (ERC20 _mint: not to the zero address,
      totalSupply must not overflow), receiver's token balance must have grown by exactly the amount. *)
  Definition convert_native_coin (s : cstate) (p : cpair) (m : conv_msg) : outcome cstate :=
    s1 <- escrow s m ;;
    let c := cp_erc20 p in let a := cm_amount m in
    if bytes_eqb (cm_receiver m) zero20 || (W256 <=? get1 (c_tok_total s1) c + a) then Err else
    Ok (with_funds s1 (c_bank s1) (c_supply s1)
                   (((c, cm_receiver m), tok s1 c (cm_receiver m) + a) :: c_tokens s1)
                   ((c, get1 (c_tok_total s1) c + a) :: c_tok_total s1)).

  (** convertCoinNativeERC20: escrow, the module transfers its own tokens to the receiver (ERC20 _transfer: not to
      the zero address, sufficient balance), the receiver's balance must have grown by exactly the amount (false when
      the receiver is the module itself), the escrowed coins are burned. *)
  Definition convert_native_erc20 (s : cstate) (p : cpair) (m : conv_msg) : outcome cstate :=
    s1 <- escrow s m ;;
    let c := cp_erc20 p in let a := cm_amount m in let d := cm_denom m in
    if bytes_eqb (cm_receiver m) zero20 || (tok s1 c MODULE <? a) || bytes_eqb (cm_receiver m) MODULE then Err else
    let t1 := ((c, MODULE), tok s1 c MODULE - a) :: c_tokens s1 in
    let t2 := ((c, cm_receiver m), get2 t1 (c, cm_receiver m) + a) :: t1 in
    let mb := bal s1 MODULE d in
    let sup := get1 (c_supply s1) d in
    if sup <? a then Panic else       (* bank BurnCoins: supply.Sub panics on a negative result *)
    Ok (with_funds s1 (((MODULE, d), mb - a) :: c_bank s1) ((d, sup - a) :: c_supply s1) t2 (c_tok_total s1)).

  (** Keeper.ConvertCoin *)
  Definition convert_coin (s : cstate) (m : conv_msg) : outcome cstate :=
    match minting_enabled s m with
    | None => Err
    | Some (id, p) =>
        if negb (mem1 (cp_erc20 p) (c_code s)) then Ok (delete_pair s id p)   (* self-destructed: `return nil, nil` *)
        else match cp_owner p with
             | 1%nat => convert_native_coin s p m
             | 2%nat => convert_native_erc20 s p m
             | _ => Err
             end
    end.
End Concrete.
