(** ABI encoding of the XIBC packet types (x/xibc/core/packet/types/{evm,packet}.go):
    a schema-driven transcription of

      ABIPack   = abi.Arguments{{Type: tuple}}.Pack(structValue)
      ABIDecode = abi.Arguments{{Type: tuple}}.Unpack(bz) ; json.Marshal ; json.Unmarshal(into the struct)

    for go-ethereum v1.10.16 [accounts/abi] and Go's [encoding/json].  The
    schemas (tuple component lists, struct fields with json tags) are
    REGENERATED from the Go source (Gen/AbiSchemaGen.v).  No proofs here. *)
From Teleport Require Import Base.Bytes Base.Outcome Base.Fmt Base.AbiSchema.
Local Open Scope N_scope.

(** * Values: one [fval] per field of the Go struct, in struct order *)

Inductive fval := FU (n : N) | FS (s : bytes) | FB (b : bytes).

Definition fval_ty (v : fval) : aty := match v with FU _ => TU64 | FS _ => TStr | FB _ => TBytes end.

Definition zero_of (t : aty) : fval := match t with TU64 => FU 0 | TStr => FS [] | TBytes => FB [] end.

(** * Names *)

Definition upper (b : byte) : byte :=
  let n := Byte.to_N b in if (97 <=? n) && (n <=? 122) then byte_of_N (n - 32) else b.

Definition is_underscore (b : byte) : bool := Byte.eqb b x5f.

(** go-ethereum [abi.ToCamelCase]: split at "_", upper-case the first letter of
    every non-empty part, join *)
Definition camel (s : bytes) : bytes :=
  flat_map (fun p => match p with [] => [] | c :: r => upper c :: r end) (split_on is_underscore s).

(** encoding/json: the name of a struct field is the tag up to the first comma,
    or the Go name when there is no tag or the tag name is empty; the tag "-"
    (exactly) hides the field *)
Definition is_comma (b : byte) : bool := Byte.eqb b x2c.
Definition json_name (f : sfield) : option bytes :=
  match sf_tag f with
  | None => Some (sf_go f)
  | Some t =>
      if bytes_eqb t [x2d] then None
      else match fst (span (fun c => negb (is_comma c)) t) with
           | [] => Some (sf_go f)
           | nm => Some nm
           end
  end.

Definition fold_eqb (a b : bytes) : bool := bytes_eqb (map upper a) (map upper b).

Fixpoint find_idx {A} (p : A -> bool) (l : list A) : option nat :=
  match l with
  | [] => None
  | x :: r => if p x then Some 0%nat else match find_idx p r with Some i => Some (S i) | None => None end
  end.

(** encoding/json (decode.go, [object]): exact name first, otherwise the first
    field whose name matches case-insensitively *)
Definition json_field (sfs : list sfield) (key : bytes) : option nat :=
  match find_idx (fun f => match json_name f with Some n => bytes_eqb n key | None => false end) sfs with
  | Some i => Some i
  | None => find_idx (fun f => match json_name f with Some n => fold_eqb n key | None => false end) sfs
  end.

(** go-ethereum [mapArgNamesToStructFields] without [abi:] tags: the struct
    field called [ToCamelCase(name)] *)
Definition pack_field (sfs : list sfield) (name : bytes) : option nat :=
  find_idx (fun f => bytes_eqb (sf_go f) (camel name)) sfs.

(** * Encoding *)

Definition word (n : N) : bytes := be_bytes 32 n.

Definition pad_len (l : nat) : nat := ((l + 31) / 32 * 32 - l)%nat.

(** [packBytesSlice]: length word, data, zero padding to a multiple of 32 *)
Definition enc_dyn (s : bytes) : bytes := word (N.of_nat (length s)) ++ s ++ repeat x00 (pad_len (length s)).

Definition tail_of (v : fval) : bytes :=
  match v with FU _ => [] | FS s | FB s => enc_dyn s end.

Definition head_of (v : fval) (off : N) : bytes :=
  match v with FU n => word n | _ => word off end.

Fixpoint heads (vs : list fval) (off : N) : bytes :=
  match vs with
  | [] => []
  | v :: r => head_of v off ++ heads r (off + N.of_nat (length (tail_of v)))
  end.

Definition tails (vs : list fval) : bytes := flat_map tail_of vs.

(** [Type.pack] of a tuple: heads (values or offsets relative to the tuple start), then tails *)
Definition enc_tuple (vs : list fval) : bytes := heads vs (32 * N.of_nat (length vs)) ++ tails vs.

(** [Arguments.Pack] with the single dynamic tuple argument: offset word 32, then the tuple *)
Definition abi_pack (vs : list fval) : bytes := word 32 ++ enc_tuple vs.

Fixpoint nodupb (l : list nat) : bool :=
  match l with [] => true | x :: r => negb (existsb (Nat.eqb x) r) && nodupb r end.

Fixpoint all_some {A} (l : list (option A)) : option (list A) :=
  match l with
  | [] => Some []
  | Some x :: r => match all_some r with Some t => Some (x :: t) | None => None end
  | None :: _ => None
  end.

(** struct index for every tuple component (an error when a component has no
    field, two components share one, or the Go type does not fit) *)
Definition pack_map (sfs : list sfield) (tup : list tfield) : option (list nat) :=
  match all_some (map (fun t => pack_field sfs (tf_name t)) tup) with
  | Some m =>
      if nodupb m && forallb (fun it => match nth_error sfs (fst it) with
                                        | Some f => aty_eqb (sf_ty f) (tf_ty (snd it))
                                        | None => false end) (combine m tup)
      then Some m else None
  | None => None
  end.

Definition typed_val (t : aty) (v : fval) : bool :=
  match t, v with
  | TU64, FU n => n <? two64
  | TStr, FS _ => true
  | TBytes, FB _ => true
  | _, _ => false
  end.

Fixpoint typed_vals (ts : list aty) (vs : list fval) : bool :=
  match ts, vs with
  | [], [] => true
  | t :: ts', v :: vs' => typed_val t v && typed_vals ts' vs'
  | _, _ => false
  end.

(** a struct value: right number of fields, right types, uint64 range *)
Definition struct_val_ok (sc : schema) (v : list fval) : bool := typed_vals (map sf_ty (sc_struct sc)) v.

(** [ABIPack] *)
Definition encode (sc : schema) (v : list fval) : outcome bytes :=
  match pack_map (sc_struct sc) (sc_pack sc) with
  | None => Err
  | Some m =>
      match all_some (map (nth_error v) m) with
      | Some tv => Ok (abi_pack tv)
      | None => Err
      end
  end.

(** * Decoding (go-ethereum's lenient decoder, transcribed) *)

Definition slice (l : bytes) (a n : N) : bytes := firstn (N.to_nat n) (skipn (N.to_nat a) l).

Definition two63 : N := 9223372036854775808.
Definition lenN (l : bytes) : N := N.of_nat (length l).

(** [toGoType(index = 32*i, t, output)] for the three component types.
    uint64: [ReadInteger] takes the LOW 8 bytes of the word (= value mod 2^64;
    the high 24 bytes are not checked in v1.10.16).  string / bytes:
    [lengthPrefixPointsTo], no check of the padding or of the tail order. *)
Definition dec_field (t : aty) (i : N) (out : bytes) : outcome fval :=
  if lenN out <? i * 32 + 32 then Err else
  match t with
  | TU64 => Ok (FU (be_val (slice out (i * 32) 32) mod two64))
  | TStr | TBytes =>
      let oe := be_val (slice out (i * 32) 32) + 32 in
      if lenN out <? oe then Err else
      if two63 <=? oe then Err else
      let ln := be_val (slice out (oe - 32) 32) in
      let total := oe + ln in
      if two63 <=? total then Err else
      if lenN out <? total then Err else
      let data := slice out oe ln in
      Ok (match t with TStr => FS data | _ => FB data end)
  end.

Fixpoint dec_fields (ts : list aty) (i : N) (out : bytes) : outcome (list fval) :=
  match ts with
  | [] => Ok []
  | t :: ts' =>
      v <- dec_field t i out ;;
      r <- dec_fields ts' (i + 1) out ;;
      Ok (v :: r)
  end.

(** [Arguments.Unpack] with the single dynamic tuple: empty input is an error;
    [tuplePointsTo] reads the offset word, then [forTupleUnpack] on [output[offset:]] *)
Definition abi_unpack (ts : list aty) (data : bytes) : outcome (list fval) :=
  match data with
  | [] => Err
  | _ =>
      if lenN data <? 32 then Err else
      let off := be_val (slice data 0 32) in
      if lenN data <? off then Err else
      if two63 <=? off then Err else
      dec_fields ts 0 (skipn (N.to_nat off) data)
  end.

(** * The JSON step *)

(** Go's UTF-8 decoding of one rune at the head of [l]: 0 = invalid (RuneError,
    width 1), otherwise the width of the well-formed sequence *)
Definition in_rng (b : byte) (lo hi : N) : bool := let n := Byte.to_N b in (lo <=? n) && (n <=? hi).
Definition cont (b : byte) : bool := in_rng b 128 191.

Definition rune_size (l : bytes) : nat :=
  match l with
  | [] => 0
  | b0 :: r =>
      let n := Byte.to_N b0 in
      if n <? 128 then 1
      else if (194 <=? n) && (n <=? 223) then match r with b1 :: _ => if cont b1 then 2 else 0 | _ => 0 end
      else if n =? 224 then match r with b1 :: b2 :: _ => if in_rng b1 160 191 && cont b2 then 3 else 0 | _ => 0 end
      else if ((225 <=? n) && (n <=? 236)) || (n =? 238) || (n =? 239)
           then match r with b1 :: b2 :: _ => if cont b1 && cont b2 then 3 else 0 | _ => 0 end
      else if n =? 237 then match r with b1 :: b2 :: _ => if in_rng b1 128 159 && cont b2 then 3 else 0 | _ => 0 end
      else if n =? 240 then match r with b1 :: b2 :: b3 :: _ => if in_rng b1 144 191 && cont b2 && cont b3 then 4 else 0 | _ => 0 end
      else if (241 <=? n) && (n <=? 243)
           then match r with b1 :: b2 :: b3 :: _ => if cont b1 && cont b2 && cont b3 then 4 else 0 | _ => 0 end
      else if n =? 244 then match r with b1 :: b2 :: b3 :: _ => if in_rng b1 128 143 && cont b2 && cont b3 then 4 else 0 | _ => 0 end
      else 0
  end.

(** [skip] = bytes of the current well-formed sequence still to be copied *)
Fixpoint utf8_valid_aux (l : bytes) (skip : nat) : bool :=
  match l with
  | [] => true
  | _ :: r =>
      match skip with
      | S k => utf8_valid_aux r k
      | O => match rune_size l with O => false | S k => utf8_valid_aux r k end
      end
  end.

(** = Go [utf8.Valid] *)
Definition utf8_valid (l : bytes) : bool := utf8_valid_aux l 0.

(** A Go string after [json.Marshal] and [json.Unmarshal]: every byte that does
    not start a well-formed sequence becomes U+FFFD (EF BF BD); everything else
    survives (escapes are undone by the decoder). *)
Fixpoint json_string_aux (l : bytes) (skip : nat) : bytes :=
  match l with
  | [] => []
  | b :: r =>
      match skip with
      | S k => b :: json_string_aux r k
      | O => match rune_size l with
             | O => xef :: xbf :: xbd :: json_string_aux r 0
             | S k => b :: json_string_aux r k
             end
      end
  end.
Definition json_string (l : bytes) : bytes := json_string_aux l 0.

(** value of a tuple component after the JSON round trip into a field of Go
    type [t]; [None] = the JSON value does not fit the Go type (json.Unmarshal
    reports an error) *)
Definition json_value (t : aty) (v : fval) : option fval :=
  match t, v with
  | TU64, FU n => Some (FU n)
  | TStr, FS s => Some (FS (json_string s))
  | TBytes, FB b => Some (FB b)
  | _, _ => None
  end.

Fixpoint set_nth {A} (l : list A) (i : nat) (x : A) : list A :=
  match l, i with
  | [], _ => []
  | _ :: r, O => x :: r
  | y :: r, S k => y :: set_nth r k x
  end.

(** [json.Unmarshal] of the object {name_i: value_i} (tuple order) into a zero
    struct: keys without a matching field are ignored, later keys overwrite *)
Fixpoint json_remap (sfs : list sfield) (kvs : list (tfield * fval)) (acc : list fval) : outcome (list fval) :=
  match kvs with
  | [] => Ok acc
  | (t, v) :: r =>
      match json_field sfs (tf_name t) with
      | None => json_remap sfs r acc
      | Some j =>
          match nth_error sfs j with
          | None => Err
          | Some f => match json_value (sf_ty f) v with
                      | Some v' => json_remap sfs r (set_nth acc j v')
                      | None => Err
                      end
          end
      end
  end.

(** [ABIDecode] into a fresh (zero) struct *)
Definition decode (sc : schema) (bz : bytes) : outcome (list fval) :=
  tv <- abi_unpack (map tf_ty (sc_unpack sc)) bz ;;
  json_remap (sc_struct sc) (combine (sc_unpack sc) tv) (map (fun f => zero_of (sf_ty f)) (sc_struct sc)).

(** * The decidable side condition on a regenerated schema *)

Definition tuple_field_ok (sc : schema) (pk up : tfield) : bool :=
  aty_eqb (tf_ty pk) (tf_ty up) &&
  match pack_field (sc_struct sc) (tf_name pk), json_field (sc_struct sc) (tf_name up) with
  | Some a, Some b => Nat.eqb a b
  | _, _ => false
  end.

Definition schema_ok (sc : schema) : bool :=
  match pack_map (sc_struct sc) (sc_pack sc) with
  | None => false
  | Some m =>
      Nat.eqb (length (sc_pack sc)) (length (sc_unpack sc))
      && forallb (fun pu => tuple_field_ok sc (fst pu) (snd pu)) (combine (sc_pack sc) (sc_unpack sc))
      && forallb (fun j => existsb (Nat.eqb j) m) (seq 0 (length (sc_struct sc)))
  end.

(** strings of a struct value are well-formed UTF-8 (the property's domain) *)
Definition strings_valid (v : list fval) : bool :=
  forallb (fun x => match x with FS s => utf8_valid s | _ => true end) v.
