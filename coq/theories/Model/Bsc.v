(** Executable model of the BSC (Parlia) light client of XIBC: header validation,
    seal verification, snapshot/recent-signer bookkeeping, validator-set
    rotation and the keeper's [UpdateClient] / [CreateClient] around it.

    Go sources modelled (transcriptions of the code as it is, quirks included):
      x/xibc/clients/light-clients/bsc/types/header.go        ValidateBasic, verifyHeader, verifyCascadingFields,
                                                              verifySeal, ecrecover (length guard; recovery = oracle)
      x/xibc/clients/light-clients/bsc/types/update.go        CheckHeaderAndUpdateState, checkValidity, update
      x/xibc/clients/light-clients/bsc/types/snapshot.go      snapshot, validators, inturn
      x/xibc/clients/light-clients/bsc/types/store.go         SetSigner, DeleteSigner, GetRecentSigners, Set/GetPendingValidators,
                                                              IterateConsensusStateAscending, GetConsensusState
      x/xibc/clients/light-clients/bsc/types/bsc.go           ParseValidators, BytesToBloom / BytesToBlockNonce (panics), constants
      x/xibc/clients/light-clients/bsc/types/client_state.go  Initialize, Status
      x/xibc/core/client/keeper/client.go                     CreateClient, UpdateClient
    Library behaviour modelled: go-ethereum [common.BytesToHash] / [BytesToAddress]
    (left-crop / left-pad), [big.Int.SetBytes] / [Uint64] / [Cmp], Go int64/uint64
    conversion and wrap-around, [fmt.Sprintf "%d-%d"], [sdk.Uint64ToBigEndian],
    the byte-ordered iteration of the KV store.
    ORACLES (Section variables, tabulated by the harness from the real code):
      [hdr_hash h]          = Header.Hash() = keccak256(rlp(ToBscHeader h))
      [ecrecover chain h]   = crypto.Ecrecover(sealHash(h, chain), seal) as an address; None = error. *)
From Teleport Require Import Base.Bytes Base.Outcome.
Local Open Scope N_scope.

(** * uint64 / int64 arithmetic with explicit wrap-around *)
Definition two64 : N := 18446744073709551616.
Definition two63 : N := 9223372036854775808.
Definition add64 (a b : N) : N := (a + b) mod two64.
Definition sub64 (a b : N) : N := (a mod two64 + two64 - b mod two64) mod two64.

(** Go [int64(x)] for a uint64 [x], and the wrap of an int64 result. *)
Definition wrap_i64 (z : Z) : Z := ((z + 9223372036854775808) mod 18446744073709551616 - 9223372036854775808)%Z.
Definition i64_of_u64 (x : N) : Z := wrap_i64 (Z.of_N x).
Definition u64_of_i64 (z : Z) : N := Z.to_N (z mod 18446744073709551616)%Z.

Definition len {A} (l : list A) : N := N.of_nat (length l).

(** * Results: like [Outcome.outcome] but errors carry the kind the harness can
    observe (the registered error code): bsc-client codes 2..16, 1 = an error
    without registered code (gas checks, signature recovery), 100+c = code c of
    the xibc client module (105 consensus state not found, 109 not active). *)
Inductive result (A : Type) : Type := ROk (a : A) | RErr (kind : N) | RPanic.
Arguments ROk {A} a.
Arguments RErr {A} kind.
Arguments RPanic {A}.

Definition to_outcome {A} (r : result A) : outcome A :=
  match r with ROk a => Ok a | RErr _ => Err | RPanic => Panic end.
Definition rclass {A} (r : result A) : nat := oclass (to_outcome r).
Definition rkind {A} (r : result A) : N := match r with RErr k => k | _ => 0 end.

(** * Byte helpers *)
Definition zeros (n : nat) : bytes := repeat x00 n.

(** [common.BytesToHash] / [common.BytesToAddress]: keep the LAST [n] bytes, left-pad with zeros. *)
Definition fit (n : nat) (b : bytes) : bytes :=
  if (n <? length b)%nat then skipn (length b - n) b else zeros (n - length b) ++ b.
Definition to_hash (b : bytes) : bytes := fit 32 b.
Definition to_addr (b : bytes) : bytes := fit 20 b.

(** big-endian bytes -> number ([big.Int.SetBytes]) *)
Definition N_of_bytes (b : bytes) : N := fold_left (fun acc x => acc * 256 + Byte.to_N x) b 0.

(** [sdk.Uint64ToBigEndian] (bit operations: cheap under vm_compute) *)
Fixpoint be_bytes (n : nat) (x : N) : bytes :=
  match n with
  | O => []
  | S n' => be_bytes n' (N.shiftr x 8) ++ [match Byte.of_N (N.land x 255) with Some b => b | None => x00 end]
  end.
Definition be64 (x : N) : bytes := be_bytes 8 (N.land x 18446744073709551615).

(** decimal rendering ([%d]) *)
Fixpoint digits_of_uint (u : Decimal.uint) : bytes :=
  match u with
  | Decimal.Nil => []
  | Decimal.D0 u' => x30 :: digits_of_uint u'
  | Decimal.D1 u' => x31 :: digits_of_uint u'
  | Decimal.D2 u' => x32 :: digits_of_uint u'
  | Decimal.D3 u' => x33 :: digits_of_uint u'
  | Decimal.D4 u' => x34 :: digits_of_uint u'
  | Decimal.D5 u' => x35 :: digits_of_uint u'
  | Decimal.D6 u' => x36 :: digits_of_uint u'
  | Decimal.D7 u' => x37 :: digits_of_uint u'
  | Decimal.D8 u' => x38 :: digits_of_uint u'
  | Decimal.D9 u' => x39 :: digits_of_uint u'
  end.
Definition dec (n : N) : bytes := digits_of_uint (N.to_uint n).

(** * Heights and store keys *)
Definition height := (N * N)%type.   (* (revision number, revision height) *)
Definition key_eqb (a b : height) : bool := (fst a =? fst b) && (snd a =? snd b).

(** store.go keyRecentSinger / DeleteSigner: "recentSingers/<rev>-<height>" *)
Definition recent_key (k : height) : bytes := B "recentSingers/" ++ dec (fst k) ++ B "-" ++ dec (snd k).
(** host.ConsensusStateKey: "consensusStates/" ++ BE64 rev ++ BE64 height *)
Definition cons_key (k : height) : bytes := B "consensusStates/" ++ be64 (fst k) ++ be64 (snd k).
Definition pending_key : bytes := B "pendingValidators".

(** * Headers (bsc.pb.go Header; every field the real hash / seal hash depends on) *)
Record header := {
  h_rev : N; h_num : N;                 (* Height: revision number is NOT covered by either hash *)
  h_parent : bytes; h_uncle : bytes; h_coinbase : bytes; h_root : bytes;
  h_txhash : bytes; h_receipt : bytes; h_bloom : bytes;
  h_diff : bytes;                       (* big-endian big.Int *)
  h_gaslimit : N; h_gasused : N; h_time : N;
  h_extra : bytes; h_mix : bytes; h_nonce : bytes
}.

Definition hheight (h : header) : height := (h_rev h, h_num h).

(** [a &&& b]: conjunction that does not evaluate [b] when [a] is false (vm_compute is call-by-value) *)
Notation "a &&& b" := (if a then b else false) (at level 40, left associativity).

Definition header_eqb (a b : header) : bool :=
  (h_num a =? h_num b) &&& (h_rev a =? h_rev b) &&& bytes_eqb (h_root a) (h_root b)
  &&& bytes_eqb (h_parent a) (h_parent b) &&& bytes_eqb (h_extra a) (h_extra b)
  &&& bytes_eqb (h_coinbase a) (h_coinbase b) &&& bytes_eqb (h_diff a) (h_diff b)
  &&& (h_gaslimit a =? h_gaslimit b) &&& (h_gasused a =? h_gasused b) &&& (h_time a =? h_time b)
  &&& bytes_eqb (h_uncle a) (h_uncle b) &&& bytes_eqb (h_mix a) (h_mix b) &&& bytes_eqb (h_nonce a) (h_nonce b)
  &&& bytes_eqb (h_txhash a) (h_txhash b) &&& bytes_eqb (h_receipt a) (h_receipt b) &&& bytes_eqb (h_bloom a) (h_bloom b).

(** constants of bsc.go *)
Definition extraVanity : N := 32.
Definition extraSeal : N := 65.
Definition addressLength : N := 20.
Definition gasLimitBoundDivisor : N := 256.
Definition minGasLimit : N := 5000.          (* params.MinGasLimit *)
Definition diffInTurn : N := 2.
Definition diffNoTurn : N := 1.
(** types.CalcUncleHash(nil) = keccak256(rlp([])) *)
Definition uncleHash : bytes :=
  [x1d;xcc;x4d;xe8;xde;xc7;x5d;x7a;xab;x85;xb5;x67;xb6;xcc;xd4;x1a;
   xd3;x12;x45;x1b;x94;x8a;x74;x13;xf0;xa1;x42;xfd;x40;xd4;x93;x47].

(** [ToBscHeader] panics when the bloom is longer than 256 or the nonce longer than 8 bytes
    (only the header of a client state that was created without validation can be like that). *)
Definition tobsc_ok (h : header) : bool := (len (h_bloom h) <=? 256) && (len (h_nonce h) <=? 8).

(** * Client state, consensus state, client store *)
Record cstate := {
  c_header : header; c_chain : N; c_epoch : N; c_interval : N;
  c_vals : list bytes; c_contract : bytes; c_trust : N
}.

Record consstate := { cs_time : N; cs_height : height; cs_root : bytes }.

(** The client-prefixed store, by key family.  [recents] is kept in the
    iteration order of the real store (ascending rendered key). *)
Record cstore := {
  recents : list (height * bytes);     (* recentSingers/<rev>-<height> -> validator *)
  pending : option (list bytes);       (* pendingValidators -> ValidatorSet *)
  cons : list (height * consstate)     (* consensusStates/<BE rev><BE height>, ascending *)
}.

Definition empty_store : cstore := {| recents := []; pending := None; cons := [] |}.

(** ** recent signers *)
Definition del_key {V} (k : height) (l : list (height * V)) : list (height * V) :=
  filter (fun e => negb (key_eqb (fst e) k)) l.

Fixpoint ins_by {V} (lt : height -> height -> bool) (k : height) (v : V) (l : list (height * V)) : list (height * V) :=
  match l with
  | [] => [(k, v)]
  | e :: l' => if lt k (fst e) then (k, v) :: l else e :: ins_by lt k v l'
  end.

Definition recent_lt (a b : height) : bool := bytes_ltb (recent_key a) (recent_key b).
(** byte order of the fixed-width big-endian keys = numeric order of (revision number, revision height) *)
Definition cons_lt (a b : height) : bool := (fst a <? fst b) || ((fst a =? fst b) && (snd a <? snd b)).

Definition set_signer (st : cstore) (k : height) (v : bytes) : cstore :=
  {| recents := ins_by recent_lt k v (del_key k (recents st)); pending := pending st; cons := cons st |}.
Definition del_signer (st : cstore) (k : height) : cstore :=
  {| recents := del_key k (recents st); pending := pending st; cons := cons st |}.
(** store.go SetPendingValidators: the empty set marshals to no bytes and is stored as a MISSING entry
    (GetPendingValidators reads a missing entry as the empty set) *)
Definition pend_of (l : list bytes) : option (list bytes) := match l with [] => None | _ => Some l end.
Definition pend_read (p : option (list bytes)) : list bytes := match p with Some v => v | None => [] end.
Definition set_pending (st : cstore) (v : list bytes) : cstore :=
  {| recents := recents st; pending := pend_of v; cons := cons st |}.
Definition set_cons (st : cstore) (k : height) (c : consstate) : cstore :=
  {| recents := recents st; pending := pending st; cons := ins_by cons_lt k c (del_key k (cons st)) |}.
Definition del_cons (st : cstore) (k : height) : cstore :=
  {| recents := recents st; pending := pending st; cons := del_key k (cons st) |}.

Fixpoint get_key {V} (k : height) (l : list (height * V)) : option V :=
  match l with
  | [] => None
  | e :: l' => if key_eqb (fst e) k then Some (snd e) else get_key k l'
  end.
Definition get_cons (st : cstore) (k : height) : option consstate := get_key k (cons st).

(** snapshot.go: [snap.Recents] is a map keyed by the revision HEIGHT only, filled
    in iteration order (a later entry with the same height overwrites). *)
Fixpoint mset (n : N) (a : bytes) (m : list (N * bytes)) : list (N * bytes) :=
  match m with
  | [] => [(n, a)]
  | e :: m' => if fst e =? n then (n, a) :: m' else e :: mset n a m'
  end.
Definition snap_recents (l : list (height * bytes)) : list (N * bytes) :=
  fold_left (fun m e => mset (snd (fst e)) (to_addr (snd e)) m) l [].

(** snapshot.go validators(): the map's keys, sorted ascending byte-wise (no duplicates). *)
Fixpoint ins_addr (a : bytes) (l : list bytes) : list bytes :=
  match l with
  | [] => [a]
  | x :: l' => match bytes_cmp a x with
               | Lt => a :: l
               | Eq => l
               | Gt => x :: ins_addr a l'
               end
  end.
Definition sorted_vals (vals : list bytes) : list bytes :=
  fold_right ins_addr [] (map to_addr vals).

Fixpoint mem (a : bytes) (l : list bytes) : bool :=
  match l with [] => false | x :: l' => bytes_eqb x a || mem a l' end.

(** bsc.go ParseValidators on an extra of length >= 97: the 20-byte chunks between vanity and seal. *)
Fixpoint chunks20 (n : nat) (b : bytes) : list bytes :=
  match n with
  | O => []
  | S n' => firstn 20 b :: chunks20 n' (skipn 20 b)
  end.
Definition validator_bytes (extra : bytes) : bytes :=
  firstn (length extra - 97) (skipn 32 extra).
Definition parse_validators (extra : bytes) : list bytes :=
  let vb := validator_bytes extra in chunks20 (length vb / 20) vb.

Section Model.
  Variable hdr_hash : header -> bytes.
  Variable ecrecover : N -> header -> option bytes.

  (** header.go ValidateBasic (bloom / nonce lengths are checked first, so the
      [ToBscHeader] it calls for the difficulty cannot panic) *)
  Definition validate_basic (h : header) : result unit :=
    if 256 <? len (h_bloom h) then RErr 1
    else if 8 <? len (h_nonce h) then RErr 1
    else if len (h_extra h) <? extraVanity then RErr 4
    else if len (h_extra h) <? extraVanity + extraSeal then RErr 5
    else if negb (bytes_eqb (to_hash (h_mix h)) (zeros 32)) then RErr 6
    else if negb (bytes_eqb (to_hash (h_uncle h)) uncleHash) then RErr 7
    else if (0 <? h_num h) && (N_of_bytes (h_diff h) mod two64 =? 0) then RErr 8   (* Difficulty.Uint64() == 0 *)
    else ROk tt.

  (** The gas-limit bound of verifyCascadingFields: the distance is taken in uint64 (no wrap: the larger
      minus the smaller).  Before the repair ff33d14 it went through int64 casts ([gas_bound_bad_old]). *)
  Definition gas_bound_bad (parent_limit limit : N) : bool :=
    let d := if limit <? parent_limit then parent_limit - limit else limit - parent_limit in
    (parent_limit / gasLimitBoundDivisor <=? d) || (limit <? minGasLimit).
  Definition gas_bound_bad_old (parent_limit limit : N) : bool :=
    let d := wrap_i64 (i64_of_u64 parent_limit - i64_of_u64 limit)%Z in
    let d := if (d <? 0)%Z then wrap_i64 (d * -1)%Z else d in
    (parent_limit / gasLimitBoundDivisor <=? u64_of_i64 d) || (limit <? minGasLimit).

  (** The sealer as the code sees it: the recovered account as a 20-byte address. *)
  Definition sealer (chain : N) (h : header) : option bytes :=
    match ecrecover chain h with Some a => Some (to_addr a) | None => None end.

  Definition limit_of_vals (vals : list bytes) : N := len (sorted_vals vals) / 2 + 1.   (* len(snap.Validators)/2 + 1 *)

  (** verifySeal: [number < limit || seen > number-limit] over the snapshot map.  Before the repair
      c10316e the test was [seen > number-limit] alone ([recently_signed_old]): void for number < limit. *)
  Definition recently_signed (rs : list (height * bytes)) (signer : bytes) (number limit : N) : bool :=
    existsb (fun e => bytes_eqb (snd e) signer && ((number <? limit) || (sub64 number limit <? fst e))) (snap_recents rs).
  Definition recently_signed_old (rs : list (height * bytes)) (signer : bytes) (number limit : N) : bool :=
    existsb (fun e => bytes_eqb (snd e) signer && (sub64 number limit <? fst e)) (snap_recents rs).

  Definition inturn (cs : cstate) (signer : bytes) : bool :=
    let vs := sorted_vals (c_vals cs) in
    match nth_error vs (N.to_nat (add64 (h_num (c_header cs)) 1 mod len vs)) with
    | Some v => bytes_eqb v signer
    | None => false
    end.

  (** verifyHeader + verifyCascadingFields + verifySeal up to (excluding) SetSigner:
      returns the signer.  No store write happens on this part. *)
  Definition verify_pre_gen (rsf : list (height * bytes) -> bytes -> N -> N -> bool)
             (cs : cstate) (st : cstore) (h : header) : result bytes :=
    match validate_basic h with                                          (* checkValidity; verifyHeader repeats it *)
    | RErr k => RErr k | RPanic => RPanic
    | ROk _ =>
      if c_epoch cs =? 0 then RPanic                                     (* number % Epoch: division by zero *)
      else
      let is_epoch := h_num h mod c_epoch cs =? 0 in
      let signers_bytes := len (h_extra h) - extraVanity - extraSeal in
      if negb is_epoch && negb (signers_bytes =? 0) then RErr 14
      else if is_epoch && negb (signers_bytes mod addressLength =? 0) then RErr 15
      else
      let parent := c_header cs in
      (* parent.Hash() -> ToBscHeader runs on EVERY path from here: in the comparison when the numbers match,
         in the text of ErrUnknownAncestor when they do not *)
      if negb (tobsc_ok parent) then RPanic
      else if negb (h_num parent =? sub64 (h_num h) 1) then RErr 9
      else if negb (bytes_eqb (hdr_hash parent) (to_hash (h_parent h))) then RErr 9
      else if 9223372036854775807 <? h_gaslimit h then RErr 1
      else if h_gaslimit h <? h_gasused h then RErr 1
      else if gas_bound_bad (h_gaslimit parent) (h_gaslimit h) then RErr 1
      else
      match sealer (c_chain cs) h with
      | None => RErr 1
      | Some signer =>
        if negb (bytes_eqb signer (to_addr (h_coinbase h))) then RErr 10
        else if negb (mem signer (map to_addr (c_vals cs))) then RErr 11
        else if rsf (recents st) signer (h_num h) (limit_of_vals (c_vals cs)) then RErr 12
        else ROk signer
      end
    end.
  Definition verify_pre := verify_pre_gen recently_signed.

  (** verifySeal after SetSigner: the difficulty must match the turn. *)
  Definition verify_post (cs : cstate) (h : header) (signer : bytes) : result unit :=
    let d := N_of_bytes (h_diff h) in
    if inturn cs signer then (if d =? diffInTurn then ROk tt else RErr 13)
    else (if d =? diffNoTurn then ROk tt else RErr 13).

  (** update.go CheckHeaderAndUpdateState: the pruning of the EARLIEST consensus
      state (IterateConsensusStateAscending stops after the first key; keys are
      parsed at fixed offsets, every stored consensus state is visited). *)
  Definition prune_target (bt : N) (cs : cstate) (st : cstore) : option height :=
    match cons st with
    | (k, c) :: _ => if add64 (cs_time c) (c_trust cs) <? bt then Some k else None
    | [] => None
    end.
  (** Only the consensus state goes.  Before the repair 5f05f37 the recent-signer entry of the pruned
      height was deleted with it ([prune_old]). *)
  Definition prune (bt : N) (cs : cstate) (st : cstore) : cstore :=
    match prune_target bt cs st with
    | Some k => del_cons st k
    | None => st
    end.
  Definition prune_old (bt : N) (cs : cstate) (st : cstore) : cstore :=
    match prune_target bt cs st with
    | Some k => del_signer (del_cons st k) k
    | None => st
    end.

  (** update.go update *)
  Fixpoint del_range (st : cstore) (rev number newLimit : N) (cnt : nat) : cstore :=
    (* for i := 0; i < cnt; i++ { DeleteSigner(rev, number - newLimit - i) } *)
    match cnt with
    | O => st
    | S c => del_signer (del_range st rev number newLimit c) (rev, sub64 (sub64 number newLimit) (N.of_nat c))
    end.

  Definition update (cs : cstate) (st : cstore) (h : header) : cstore * result (cstate * consstate) :=
    if c_epoch cs =? 0 then (st, RPanic) else
    let number := h_num h in
    let r1 : cstore * result unit :=
      if number mod c_epoch cs =? 0 then
        if len (h_extra h) <? extraVanity + extraSeal then (st, RPanic)        (* slice bounds *)
        else if negb ((len (h_extra h) - 97) mod addressLength =? 0) then (st, RErr 3)
        else (set_pending st (parse_validators (h_extra h)), ROk tt)
      else (st, ROk tt) in
    match r1 with
    | (st1, RErr k) => (st1, RErr k)
    | (st1, RPanic) => (st1, RPanic)
    | (st1, ROk _) =>
      let '(st2, vals2) :=
        if number mod c_epoch cs =? len (c_vals cs) / 2 then
          let validators := match pending st1 with Some v => v | None => [] end in
          let oldLimit := len (c_vals cs) / 2 + 1 in
          let newLimit := limit_of_vals validators in                            (* len(newVals)/2 + 1, newVals a map *)
          let st2 := if newLimit <? oldLimit
                     then del_range st1 (h_rev h) number newLimit (N.to_nat (oldLimit - newLimit))
                     else st1 in
          (st2, validators)
        else (st1, c_vals cs) in
      let limit := len vals2 / 2 + 1 in
      let st3 := if limit <=? number then del_signer st2 (h_rev h, sub64 number limit) else st2 in
      (st3, ROk ({| c_header := h; c_chain := c_chain cs; c_epoch := c_epoch cs; c_interval := c_interval cs;
                    c_vals := vals2; c_contract := c_contract cs; c_trust := c_trust cs |},
                 {| cs_time := h_time h; cs_height := hheight h; cs_root := h_root h |}))
    end.

  (** CheckHeaderAndUpdateState on the raw store: the store is returned on every
      path because SetSigner happens BEFORE the difficulty check (a rejected
      header can leave a recent-signer entry behind; the transaction wrapper
      [deliver] below discards it, as BaseApp does). *)
  Definition check_header_and_update_gen (rsf : list (height * bytes) -> bytes -> N -> N -> bool)
             (prf : N -> cstate -> cstore -> cstore) (bt : N) (cs : cstate) (st : cstore) (h : header)
    : cstore * result (cstate * consstate) :=
    match get_cons st (hheight (c_header cs)) with
    | None => (st, RErr 105)
    | Some _ =>
      match verify_pre_gen rsf cs st h with
      | RErr k => (st, RErr k)
      | RPanic => (st, RPanic)
      | ROk signer =>
        let st1 := set_signer st (hheight h) signer in
        match verify_post cs h signer with
        | RErr k => (st1, RErr k)
        | RPanic => (st1, RPanic)
        | ROk _ => update cs (prf bt cs st1) h
        end
      end
    end.
  Definition check_header_and_update := check_header_and_update_gen recently_signed prune.
  (** the code before the repairs c10316e and 5f05f37 (kept for Refuted/C09_refuted.v) *)
  Definition check_header_and_update_old := check_header_and_update_gen recently_signed_old prune_old.

  (** client_state.go Status + keeper UpdateClient *)
  Definition active (bt : N) (cs : cstate) (st : cstore) : bool :=
    match get_cons st (hheight (c_header cs)) with
    | None => false
    | Some c => negb (add64 (cs_time c) (c_trust cs) <? bt)
    end.

  Definition update_client (bt : N) (cs : cstate) (st : cstore) (h : header) : cstore * result cstate :=
    if negb (active bt cs st) then (st, RErr 109)
    else match check_header_and_update bt cs st h with
         | (st', ROk (cs', c')) => (set_cons st' (hheight h) c', ROk cs')
         | (st', RErr k) => (st', RErr k)
         | (st', RPanic) => (st', RPanic)
         end.

  (** client_state.go Initialize + keeper CreateClient (on the client's empty store) *)
  Definition initialize (cs : cstate) (st : cstore) : cstore * result unit :=
    let h := c_header cs in
    if c_epoch cs =? 0 then (st, RPanic)
    else if negb (h_num h mod c_epoch cs =? 0) then (st, RErr 2)
    else if len (h_extra h) <? extraSeal then (st, RErr 5)
    else match sealer (c_chain cs) h with
         | None => (st, RErr 1)
         | Some signer =>
           if negb (bytes_eqb signer (to_addr (h_coinbase h))) then (st, RErr 10)
           else
             let st1 := set_signer st (hheight h) signer in
             if len (h_extra h) <? extraVanity + extraSeal then (st1, RPanic)     (* ParseValidators: slice bounds *)
             else if negb ((len (h_extra h) - 97) mod addressLength =? 0) then (st1, RErr 3)
             else (set_pending st1 (parse_validators (h_extra h)), ROk tt)
         end.

  Definition create_client (cs : cstate) (c0 : consstate) : cstore * result unit :=
    match initialize cs empty_store with
    | (st, ROk _) => (set_cons st (hheight (c_header cs)) c0, ROk tt)
    | r => r
    end.

  (** ** Transactions: a failed or panicking message leaves no trace (BaseApp.runTx) *)
  Definition kstate := (cstate * cstore)%type.

  Definition deliver (bt : N) (k : kstate) (h : header) : kstate * result unit :=
    match update_client bt (fst k) (snd k) h with
    | (st', ROk cs') => ((cs', st'), ROk tt)
    | (_, RErr e) => (k, RErr e)
    | (_, RPanic) => (k, RPanic)
    end.

  Fixpoint run (k : kstate) (steps : list (N * header)) : kstate :=
    match steps with
    | [] => k
    | (bt, h) :: steps' => run (fst (deliver bt k h)) steps'
    end.
End Model.
