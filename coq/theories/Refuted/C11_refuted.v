(** C11 — statements that are FALSE of the faithful model (witnesses computed by [vm_compute]; each is
    replayed on the real code by the targeted histories of harness/cmd/c11, see notes/C11.md).

    Voucher backing ("the supply of the voucher coin of an external pair never exceeds the ERC-20 balance the
    module holds") does NOT hold for arbitrary external token contracts:

    1. a token that charges the SENDER of a transfer a fee passed every check of convertCoinNativeERC20 as it
       was before the repair c5eeeaa (only the receiver's balance was compared) while the module was debited more
       than the vouchers burnt — finding C11 / O4, FIXED: the flow now also compares the module's balance
       ([convert_coin_native_erc20_old] is the flow before the repair);
    2. a token whose balanceOf is not a view of its ledger passes the escrow check of convertERC20NativeToken
       without moving anything ([honest_view] is necessary) — inherent: the module can only ask the contract;
    3. a token that reports honestly but lets somebody else lower the module's balance — the repository's own
       ERC20MinterBurnerDecimals deployed by a USER and registered as an external pair: its deployer holds
       BURNER_ROLE and burns the escrow ([others_cannot_debit] is necessary) — inherent as well. *)
From Teleport Require Import Base.Bytes Base.Outcome Model.Convert Model.ConvertTokens
  Proofs.ConvertBacking Proofs.ConvertVoucher Proofs.ConvertGap.
Local Open Scope Z_scope.

Definition M0 : Z := 0xEE3c65B5c7F4DD0ebeD8bF046725e273e3eeeD3c.   (* types.ModuleAddress *)
Definition TOK : Z := 0xAd00000000000000000000000000000000000a01.
Definition U1 : Z := 0x1111111111111111111111111111111111111111.
Definition U2 : Z := 0x2222222222222222222222222222222222222222.
Definition TOKs : bytes := B "0xAd00000000000000000000000000000000000a01".
Definition U1s : bytes := B "0x1111111111111111111111111111111111111111".
Definition U2s : bytes := B "0x2222222222222222222222222222222222222222".
Definition VOUCHER : bytes := B "aggregate/0xAd00000000000000000000000000000000000a01".
Definition PID : bytes := B "pair-id".

Definition the_pair : pair :=
  {| p_id := PID; p_erc20 := TOK; p_denoms := [VOUCHER]; p_enabled := true; p_owner := 2 |}.

(** the true ledger of an AdvToken: its raw storage *)
Definition ledger0 (x : xstate) (c h : Z) : Z :=
  match afind Z.eqb x c with Some t => zget (et_store t) h | None => 0 end.

(** a registered AdvToken with storage [st]; user U1 holds 1000 tokens; no voucher exists yet *)
Definition start (st : zmap) : state xstate :=
  {| s_params := true; s_evm_call := true;
     s_pairs := [(PID, the_pair)]; s_erc20 := [(TOK, PID)]; s_denom := [(VOUCHER, PID)];
     s_bank := []; s_supply := []; s_blocked := [M0]; s_send_default := true; s_send := [];
     s_accts := [M0; U1; U2]; s_mtok := [];
     s_ext := [(TOK, {| et_kind := 5; et_owner := U1; et_alive := true;
                        et_std := {| st_bal := []; st_total := 0; st_allow := [] |}; et_store := st |})] |}.

Definition to_voucher (a : Z) : op :=
  OMsg (MCE {| ce_contract := TOKs; ce_amount := a; ce_receiver := U1; ce_receiver_ok := true;
               ce_sender := U1s; ce_denom := VOUCHER |}).
Definition to_token (a : Z) (receiver : bytes) : op :=
  OMsg (MCC {| cc_denom := VOUCHER; cc_amount := a; cc_receiver := receiver; cc_sender := U1; cc_sender_ok := true |}).

Lemma start_wf st : WFv (start st).
Proof.
  split; [split; [|split; [|split]]|]; cbn [start s_pairs s_denom map fst].
  - repeat constructor. intros [].
  - intros id p [H|[]]. inversion H; subst. cbn [the_pair p_id p_denoms]. split; [reflexivity|].
    split; [repeat constructor; intros []|]. intros d [<-|[]]. vm_compute. reflexivity.
  - intros d p H. cbn [aget] in H. destruct (bytes_eqb VOUCHER d) eqn:E.
    + apply bytes_eqb_eq in E; subst d. vm_compute in H. inversion H; subst. left; reflexivity.
    + vm_compute in H. discriminate.
  - intros p [H|[]]. inversion H.
  - intros id p id' p' [H|[]] [H'|[]]. inversion H; inversion H'; subst. reflexivity.
Qed.

(** ** 1. Sender-side fee (repaired by c5eeeaa; the statement is about the flow as it was) *)
Definition fee_store : zmap := [(U1, 1000); (1, 1)].          (* U1 holds 1000; senderFee = 1 *)

(** state after converting 100 tokens into vouchers (the sender pays the fee: 101 debited, module holds 100) *)
Definition fee_mid : state xstate :=
  Eval vm_compute in run xcall0 xcontract0 M0 (start fee_store) [to_voucher 100].

Theorem C11_voucher_backing_sender_fee_refuted :
  (* a well-formed, fully backed state ... *)
  WFv fee_mid /\ VBacked M0 ledger0 fee_mid /\
  sget (s_supply fee_mid) VOUCHER = 100 /\ ledger0 (s_ext fee_mid) TOK M0 = 100 /\
  (* ... in which the PRE-FIX flow converts 50 vouchers back (every check passes) ... *)
  exists s', convert_coin_native_erc20_old xcall0 M0 fee_mid the_pair VOUCHER 50 U2 U1 = Ok s' /\
    (* ... leaving 50 vouchers in circulation backed by 49 tokens *)
    sget (s_supply s') VOUCHER = 50 /\ ledger0 (s_ext s') TOK M0 = 49 /\ ~ VBacked M0 ledger0 s'.
Proof.
  split.
  { pose proof (start_wf fee_store) as W. unfold WFv, WF in *.
    change (s_pairs fee_mid) with (s_pairs (start fee_store)).
    change (s_denom fee_mid) with (s_denom (start fee_store)). exact W. }
  split.
  { intros id p v [H|[]] _ D _. inversion H; subst. cbn in D. inversion D; subst. vm_compute. discriminate. }
  split; [vm_compute; reflexivity|]. split; [vm_compute; reflexivity|].
  eexists. split; [vm_compute; reflexivity|].
  split; [vm_compute; reflexivity|]. split; [vm_compute; reflexivity|].
  intro Bk. specialize (Bk PID the_pair VOUCHER). vm_compute in Bk. apply Bk; try reflexivity. left; reflexivity.
Qed.

(** the repaired flow refuses that conversion (and [deliver] then leaves the state unchanged) *)
Theorem C11_sender_fee_now_refused :
  convert_coin_native_erc20 xcall0 M0 fee_mid the_pair VOUCHER 50 U2 U1 = Err /\
  deliver xcall0 xcontract0 M0 fee_mid
    (MCC {| cc_denom := VOUCHER; cc_amount := 50; cc_receiver := U2s; cc_sender := U1; cc_sender_ok := true |})
  = (fee_mid, 1%nat).
Proof. split; vm_compute; reflexivity. Qed.

(** ** 2. balanceOf that is not a view of the ledger *)
Definition fake_store : zmap := [(U1, 1000); (9, 1); (7, M0)]. (* fakeCredit on, lieAddr = module *)

Theorem C11_voucher_backing_misreport_refuted :
  exists (s : state xstate) (l : list op),
    WFv s /\ VBacked M0 ledger0 s /\ Forall (not_module_signed M0) l /\
    sget (s_supply (run xcall0 xcontract0 M0 s l)) VOUCHER = 100 /\
    ledger0 (s_ext (run xcall0 xcontract0 M0 s l)) TOK M0 = 0 /\
    ledger0 (s_ext (run xcall0 xcontract0 M0 s l)) TOK U1 = 1000 /\
    ~ VBacked M0 ledger0 (run xcall0 xcontract0 M0 s l).
Proof.
  exists (start fake_store), [to_voucher 100].
  split; [apply start_wf|]. split.
  { intros id p v [H|[]] _ D _. inversion H; subst. cbn in D. inversion D; subst. vm_compute. discriminate. }
  split.
  { repeat constructor; unfold not_module_signed; cbn; intro H; inversion H. }
  split; [vm_compute; reflexivity|]. split; [vm_compute; reflexivity|]. split; [vm_compute; reflexivity|].
  intro Bk. specialize (Bk PID the_pair VOUCHER). vm_compute in Bk. apply Bk; try reflexivity. left; reflexivity.
Qed.

(** ** 3. Honest balanceOf, but a third party can debit the module: ERC20MinterBurnerDecimals deployed by U1 *)
Lemma user_std_honest owner : honest_view (user_std_call owner) user_std_ledger.
Proof.
  intros x c caller a x' r H O. unfold user_std_call in H. unfold user_std_ledger.
  destruct (afind Z.eqb x c) as [t|]; inversion H; subst; [|cbn in O; discriminate].
  split; reflexivity.
Qed.

Definition start_user : state ustate :=
  {| s_params := true; s_evm_call := true;
     s_pairs := [(PID, the_pair)]; s_erc20 := [(TOK, PID)]; s_denom := [(VOUCHER, PID)];
     s_bank := []; s_supply := []; s_blocked := [M0]; s_send_default := true; s_send := [];
     s_accts := [M0; U1; U2]; s_mtok := [];
     s_ext := [(TOK, {| st_bal := [(U2, 1000)]; st_total := 1000; st_allow := [] |})] |}.

Definition confiscation : list op :=
  [ OMsg (MCE {| ce_contract := TOKs; ce_amount := 100; ce_receiver := U2; ce_receiver_ok := true;
                 ce_sender := U2s; ce_denom := VOUCHER |});
    OTokenCall TOK U1 (CBurnCoins M0 100) ].   (* the deployer: burnCoins(module, 100) *)

Theorem C11_voucher_backing_confiscation_refuted :
  honest_view (user_std_call U1) user_std_ledger /\
  WFv start_user /\ VNamed start_user /\ VBacked M0 user_std_ledger start_user /\
  Forall (not_module_signed M0) confiscation /\ Forall no_voucher_mint confiscation /\
  let s := run (user_std_call U1) user_std_contract M0 start_user confiscation in
  sget (s_supply s) VOUCHER = 100 /\ user_std_ledger (s_ext s) TOK M0 = 0 /\ ~ VBacked M0 user_std_ledger s.
Proof.
  split; [apply user_std_honest|]. split.
  { pose proof (start_wf []) as W. unfold WFv, WF in *. exact W. }
  split.
  { intros id p v [H|[]] _ D. inversion H; subst. cbn in D. inversion D; subst. vm_compute. reflexivity. }
  split.
  { intros id p v [H|[]] _ D _. inversion H; subst. cbn in D. inversion D; subst. vm_compute. discriminate. }
  split.
  { repeat constructor; unfold not_module_signed; cbn; intro H; inversion H. }
  split; [repeat constructor|]. cbv zeta.
  split; [vm_compute; reflexivity|]. split; [vm_compute; reflexivity|].
  intro Bk. specialize (Bk PID the_pair VOUCHER). vm_compute in Bk. apply Bk; try reflexivity. left; reflexivity.
Qed.

(** ** 4. The hypotheses of the native-coin theorems are necessary as well.
    A module-owned pair (contract MTOK, denomination "acoin"), 50 acoin escrowed, 50 tokens held by U1. *)
Definition MTOK : Z := 0x90d3e9B208998d1048467bFDcbE3661322373712.
Definition MTOKs : bytes := B "0x90d3e9B208998d1048467bFDcbE3661322373712".
Definition ACOIN : bytes := B "acoin".
Definition mpair : pair := {| p_id := PID; p_erc20 := MTOK; p_denoms := [ACOIN]; p_enabled := true; p_owner := 1 |}.
Definition start_mod (blocked : list Z) : state xstate :=
  {| s_params := true; s_evm_call := true;
     s_pairs := [(PID, mpair)]; s_erc20 := [(MTOK, PID)]; s_denom := [(ACOIN, PID)];
     s_bank := [((M0, ACOIN), 50)]; s_supply := [(ACOIN, 50)]; s_blocked := blocked; s_send_default := true; s_send := [];
     s_accts := [M0; U1; U2];
     s_mtok := [(MTOK, {| st_bal := [(U1, 50)]; st_total := 50; st_allow := [] |})]; s_ext := [] |}.

Lemma start_mod_wf bl : WF (start_mod bl).
Proof.
  split; [|split; [|split]]; cbn [start_mod s_pairs s_denom map fst].
  - repeat constructor. intros [].
  - intros id p [H|[]]. inversion H; subst. cbn [mpair p_id p_denoms]. split; [reflexivity|].
    split; [repeat constructor; intros []|]. intros d [<-|[]]. vm_compute. reflexivity.
  - intros d p H. cbn [aget] in H. destruct (bytes_eqb ACOIN d) eqn:E.
    + apply bytes_eqb_eq in E; subst d. vm_compute in H. inversion H; subst. left; reflexivity.
    + vm_compute in H. discriminate.
  - intros p [H|[]]. inversion H.
Qed.

(** [not_module_signed] is necessary for [C11_native_coin_backing]: a MsgConvertCoin whose sender is the module
    account (impossible on chain: nobody can sign for it) "escrows" the module's own coins and mints tokens for them *)
Theorem C11_backing_needs_not_module_signed_refuted :
  let s := start_mod [M0] in
  let m := MCC {| cc_denom := ACOIN; cc_amount := 10; cc_receiver := U1s; cc_sender := M0; cc_sender_ok := true |} in
  WF s /\ Backed M0 s /\ ~ not_module_signed M0 (OMsg m) /\
  snd (deliver xcall0 xcontract0 M0 s m) = 0%nat /\ ~ Backed M0 (step xcall0 xcontract0 M0 s (OMsg m)).
Proof.
  cbv zeta. split; [apply start_mod_wf|]. split.
  { intros c t F. unfold find_mtok in F. cbn [start_mod s_mtok afind] in F.
    destruct (MTOK =? c) eqn:E; [|discriminate]. inversion F; subst t. apply Z.eqb_eq in E; subst c.
    vm_compute. discriminate. }
  split; [intro N; apply N; reflexivity|]. split; [vm_compute; reflexivity|].
  intro Bk. specialize (Bk MTOK). vm_compute in Bk. specialize (Bk _ eq_refl). apply Bk. reflexivity.
Qed.

(** ... and for [C11_conversions_preserve_gap]: the same message widens nothing but mints 10 unbacked tokens
    (gap 0 -> -10) *)
Theorem C11_gap_needs_not_module_signed_refuted :
  let s := start_mod [M0] in
  let o := OMsg (MCC {| cc_denom := ACOIN; cc_amount := 10; cc_receiver := U1s; cc_sender := M0; cc_sender_ok := true |}) in
  let s' := step xcall0 xcontract0 M0 s o in
  WF s /\ is_conversion o /\
  backing M0 s MTOK - 50 = 0 /\ option_map st_total (find_mtok s' MTOK) = Some 60 /\ backing M0 s' MTOK - 60 = -10.
Proof.
  cbv zeta. split; [apply start_mod_wf|]. split; [exact I|].
  repeat split; vm_compute; reflexivity.
Qed.
