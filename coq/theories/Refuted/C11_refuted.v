(** C11 — statements that are FALSE of the faithful model (witnesses computed by [vm_compute]; each is
    replayed on the real code by the targeted histories of harness/cmd/c11, see notes/C11.md).

    Voucher backing ("the supply of the voucher coin of an external pair never exceeds the ERC-20 balance the
    module holds") does NOT hold for arbitrary external token contracts:

    1. a token that charges the SENDER of a transfer a fee passed every check of convertCoinNativeERC20 as it
       was before the repair c5eeeaa (only the receiver's balance was compared) while the module was debited more
       than the vouchers burnt — finding C11 / O4, FIXED: the flow now also compares the module's balance
       ([convert_coin_native_erc20_old] is the flow before the repair);
    2. a token whose balanceOf is not a view of its ledger passes the escrow check of convertERC20NativeToken
       without moving anything ([honest_view] is necessary) — inherent: the module can only ask the contract. *)
From Teleport Require Import Base.Bytes Base.Outcome Model.Convert Model.ConvertTokens
  Proofs.ConvertBacking Proofs.ConvertVoucher.
Local Open Scope Z_scope.

Definition M0 : Z := 0xEE3c65B5c7F4DD0ebeD8bF046725e273e3eeeD3c.   (* types.ModuleAddress *)
Definition TOK : Z := 0xAd00000000000000000000000000000000000a01.
Definition U1 : Z := 0x1111111111111111111111111111111111111111.
Definition U2 : Z := 0x2222222222222222222222222222222222222222.
Definition TOKs : bytes := B "0xAd00000000000000000000000000000000000a01".
Definition U1s : bytes := B "0x1111111111111111111111111111111111111111".
Definition U2s : bytes := B "0x2222222222222222222222222222222222222222".
Definition VOUCHER : bytes := B "aggregate/0xAd00000000000000000000000000000000000a01".
Definition PID : bytes := B "pair-id".

Definition the_pair : pair :=
  {| p_id := PID; p_erc20 := TOK; p_denoms := [VOUCHER]; p_enabled := true; p_owner := 2 |}.

(** the true ledger of an AdvToken: its raw storage *)
Definition ledger0 (x : xstate) (c h : Z) : Z :=
  match afind Z.eqb x c with Some t => zget (et_store t) h | None => 0 end.

(** a registered AdvToken with storage [st]; user U1 holds 1000 tokens; no voucher exists yet *)
Definition start (st : zmap) : state xstate :=
  {| s_params := true; s_evm_call := true;
     s_pairs := [(PID, the_pair)]; s_erc20 := [(TOK, PID)]; s_denom := [(VOUCHER, PID)];
     s_bank := []; s_supply := []; s_blocked := [M0]; s_send_default := true; s_send := [];
     s_accts := [M0; U1; U2]; s_mtok := [];
     s_ext := [(TOK, {| et_kind := 5; et_owner := U1; et_alive := true;
                        et_std := {| st_bal := []; st_total := 0 |}; et_store := st |})] |}.

Definition to_voucher (a : Z) : op :=
  OMsg (MCE {| ce_contract := TOKs; ce_amount := a; ce_receiver := U1; ce_receiver_ok := true;
               ce_sender := U1s; ce_denom := VOUCHER |}).
Definition to_token (a : Z) (receiver : bytes) : op :=
  OMsg (MCC {| cc_denom := VOUCHER; cc_amount := a; cc_receiver := receiver; cc_sender := U1; cc_sender_ok := true |}).

Lemma start_wf st : WFv (start st).
Proof.
  split; [split; [|split; [|split]]|]; cbn [start s_pairs s_denom map fst].
  - repeat constructor. intros [].
  - intros id p [H|[]]. inversion H; subst. cbn [the_pair p_id p_denoms]. split; [reflexivity|].
    split; [repeat constructor; intros []|]. intros d [<-|[]]. vm_compute. reflexivity.
  - intros d p H. cbn [aget] in H. destruct (bytes_eqb VOUCHER d) eqn:E.
    + apply bytes_eqb_eq in E; subst d. vm_compute in H. inversion H; subst. left; reflexivity.
    + vm_compute in H. discriminate.
  - intros p [H|[]]. inversion H.
  - intros id p id' p' [H|[]] [H'|[]]. inversion H; inversion H'; subst. reflexivity.
Qed.

(** ** 1. Sender-side fee (repaired by c5eeeaa; the statement is about the flow as it was) *)
Definition fee_store : zmap := [(U1, 1000); (1, 1)].          (* U1 holds 1000; senderFee = 1 *)

(** state after converting 100 tokens into vouchers (the sender pays the fee: 101 debited, module holds 100) *)
Definition fee_mid : state xstate :=
  Eval vm_compute in run xcall0 xcontract0 M0 (start fee_store) [to_voucher 100].

Theorem C11_voucher_backing_sender_fee_refuted :
  (* a well-formed, fully backed state ... *)
  WFv fee_mid /\ VBacked M0 ledger0 fee_mid /\
  sget (s_supply fee_mid) VOUCHER = 100 /\ ledger0 (s_ext fee_mid) TOK M0 = 100 /\
  (* ... in which the PRE-FIX flow converts 50 vouchers back (every check passes) ... *)
  exists s', convert_coin_native_erc20_old xcall0 M0 fee_mid the_pair VOUCHER 50 U2 U1 = Ok s' /\
    (* ... leaving 50 vouchers in circulation backed by 49 tokens *)
    sget (s_supply s') VOUCHER = 50 /\ ledger0 (s_ext s') TOK M0 = 49 /\ ~ VBacked M0 ledger0 s'.
Proof.
  split.
  { pose proof (start_wf fee_store) as W. unfold WFv, WF in *.
    change (s_pairs fee_mid) with (s_pairs (start fee_store)).
    change (s_denom fee_mid) with (s_denom (start fee_store)). exact W. }
  split.
  { intros id p v [H|[]] _ D _. inversion H; subst. cbn in D. inversion D; subst. vm_compute. discriminate. }
  split; [vm_compute; reflexivity|]. split; [vm_compute; reflexivity|].
  eexists. split; [vm_compute; reflexivity|].
  split; [vm_compute; reflexivity|]. split; [vm_compute; reflexivity|].
  intro Bk. specialize (Bk PID the_pair VOUCHER). vm_compute in Bk. apply Bk; try reflexivity. left; reflexivity.
Qed.

(** the repaired flow refuses that conversion (and [deliver] then leaves the state unchanged) *)
Theorem C11_sender_fee_now_refused :
  convert_coin_native_erc20 xcall0 M0 fee_mid the_pair VOUCHER 50 U2 U1 = Err /\
  deliver xcall0 xcontract0 M0 fee_mid
    (MCC {| cc_denom := VOUCHER; cc_amount := 50; cc_receiver := U2s; cc_sender := U1; cc_sender_ok := true |})
  = (fee_mid, 1%nat).
Proof. split; vm_compute; reflexivity. Qed.

(** ** 2. balanceOf that is not a view of the ledger *)
Definition fake_store : zmap := [(U1, 1000); (9, 1); (7, M0)]. (* fakeCredit on, lieAddr = module *)

Theorem C11_voucher_backing_misreport_refuted :
  exists (s : state xstate) (l : list op),
    WFv s /\ VBacked M0 ledger0 s /\ Forall (not_module_signed M0) l /\
    sget (s_supply (run xcall0 xcontract0 M0 s l)) VOUCHER = 100 /\
    ledger0 (s_ext (run xcall0 xcontract0 M0 s l)) TOK M0 = 0 /\
    ledger0 (s_ext (run xcall0 xcontract0 M0 s l)) TOK U1 = 1000 /\
    ~ VBacked M0 ledger0 (run xcall0 xcontract0 M0 s l).
Proof.
  exists (start fake_store), [to_voucher 100].
  split; [apply start_wf|]. split.
  { intros id p v [H|[]] _ D _. inversion H; subst. cbn in D. inversion D; subst. vm_compute. discriminate. }
  split.
  { repeat constructor; unfold not_module_signed; cbn; intro H; inversion H. }
  split; [vm_compute; reflexivity|]. split; [vm_compute; reflexivity|]. split; [vm_compute; reflexivity|].
  intro Bk. specialize (Bk PID the_pair VOUCHER). vm_compute in Bk. apply Bk; try reflexivity. left; reflexivity.
Qed.
