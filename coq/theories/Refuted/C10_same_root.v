(** C10, eth-sibling-same-root: the hypothesis of the theorems of Props/C10.v that an accepted header's state
    root differs from the root of every stored header of the same height ([fresh_root_b]) is NECESSARY for
    the code as it is: the root-main index ethRootMain/{root}{height} has one slot per (root, height), the
    later header overwrites it, and RestrictChain finds "the main-chain header at the new header's height"
    through that slot.
    Witness: G; A1; sibling B1; A2; A3 (head A3, main chain G-A1-A2-A3); then B2' = a rule-abiding child of
    B1 whose state root is A2's.  [update] points the slot (root A2, 102) at B2', RestrictChain starts from B2'
    instead of A2, finds "equal parents" at once and re-points height 102 only: the head is B2', whose
    ancestor at height 101 is B1, but the consensus state kept for height 101 is still A1's.
    Stated for [unrepaired] = the code without the candidate repair eth-sibling-same-root.diff (which is [cur], the
    code of /repo, as long as [fix_root = false] in Model/Eth.v); with the repair the same submission leaves the
    consensus states on the head's ancestry (second theorem).  The harness runs the scenario
    "witness:eth-sibling-same-root" on the real code. *)
From Teleport Require Import Base.Bytes Base.Outcome Model.Eth Model.EthCheck Model.EthToy Proofs.EthChain Proofs.Eth Proofs.EthTop.
Local Open Scope N_scope.

Definition hist4 : list (N * header) := map (fun h => (bt1, h)) [A1; B1; A2; A3].
Definition m4 := st_of (run toy_hash toy_seal unrepaired s0 hist4).
Definition m5 := st_of (upd_un bt1 m4 B2r).

Theorem C10_sibling_same_root_refuted :
  run toy_hash toy_seal unrepaired s0 hist4 = Ok m4 /\ head m4 = A3 /\
  (* B2' meets every hypothesis of an accepted step except the fresh root *)
  active bt1 m4 = true /\ valid_child_b toy_hash toy_seal bt1 m4 B2r = true /\ h_rev B2r = 0 /\ h_num B2r < two63 /\
  noalias_b toy_hash m4 B2r = true /\ fresh_root_b toy_hash m4 B2r = false /\
  upd_un bt1 m4 B2r = Ok m5 /\ head m5 = B2r /\
  (* main_chain_roots fails: height 101 is on the head's ancestry (B1), the state kept for it is A1's *)
  nth_anc (idx m5) (head m5) 1 = Some B1 /\ cget (0, 101) (cons m5) = Some (cstate_of A1) /\
  c_root (cstate_of A1) <> c_root (cstate_of B1) /\
  main_chain_ok [] m5 = false.
Proof.
  split; [vm_compute; reflexivity|]. split; [vm_compute; reflexivity|]. split; [vm_compute; reflexivity|].
  split; [vm_compute; reflexivity|]. split; [vm_compute; reflexivity|]. split; [vm_compute; reflexivity|].
  split; [vm_compute; reflexivity|]. split; [vm_compute; reflexivity|]. split; [vm_compute; reflexivity|].
  split; [vm_compute; reflexivity|]. split; [vm_compute; reflexivity|]. split; [vm_compute; reflexivity|].
  split; [vm_compute; discriminate|]. vm_compute. reflexivity.
Qed.

(** the candidate repair (variant [v_root]): the same submission is accepted and the consensus states follow the
    head's ancestry G - B1 - B2' *)
Definition repaired_root : variant := {| v_d2 := true; v_rev := false; v_exp := false; v_root := true |}.
Definition m5r := st_of (update_client_gen toy_hash toy_seal repaired_root bt1 m4 B2r).
Theorem C10_sibling_same_root_repaired :
  update_client_gen toy_hash toy_seal repaired_root bt1 m4 B2r = Ok m5r /\ head m5r = B2r /\
  cget (0, 101) (cons m5r) = Some (cstate_of B1) /\ cget (0, 102) (cons m5r) = Some (cstate_of B2r) /\
  main_chain_ok [] m5r = true.
Proof.
  split; [vm_compute; reflexivity|]. split; [vm_compute; reflexivity|]. split; [vm_compute; reflexivity|].
  split; [vm_compute; reflexivity|]. vm_compute. reflexivity.
Qed.

(** the state before the submission is reachable in the sense of Props/C10.v *)
Theorem C10_sibling_same_root_state_reachable :
  hash_ok_b toy_hash (B2r :: univ1) = true /\
  Reach toy_hash toy_seal (fun a => In a (B2r :: univ1)) 0 100 [A3; A2; B1; A1; G] m4.
Proof.
  split; [vm_compute; reflexivity|].
  destruct (run_checked toy_hash toy_seal (B2r :: univ1) 0 [G] s0 hist4) as [[hs s]|] eqn:E; [|vm_compute in E; discriminate].
  assert (Q : hs = [A3; A2; B1; A1; G] /\ s = m4) by (vm_compute in E; inversion E; split; vm_compute; reflexivity).
  destruct Q as [<- <-].
  eapply (run_checked_init toy_hash toy_seal (B2r :: univ1) 0 100 4 1000000000 G); [..|exact E]; vm_compute; reflexivity.
Qed.
