(** The statement "every parameter value accepted by validation vests without
    panic" was FALSE for the validation function of the pinned commit
    ([validate_rewards_old]); witnesses, each replayed on the real code by the
    C20/C15 checks before the repair (KNOWN_FINDINGS.txt, "fixed:" entries). *)
From Teleport Require Import Base.Bytes Base.Outcome Model.Rvesting.
Local Open Scope Z_scope.

(** Duplicate denomination, pool smaller than the sum: SendCoins fails -> panic. *)
Theorem C20_old_validation_dup_refuted :
  exists r s, validate_rewards_old r = true /\ (forall d, 0 <= get (pool s) d) /\
    begin_block {| enable := true; rewards := r |} s = Panic.
Proof.
  exists [(B "atele", 5); (B "atele", 7)], {| pool := [(B "atele", 8)]; fee := []; others := []; supply := [] |}.
  split; [reflexivity|]. split; [|reflexivity].
  intro d; cbn [get pool]. destruct (bytes_eqb (B "atele") d); lia.
Qed.

(** Invalid denomination: GetBalance -> NewCoin panics. *)
Theorem C20_old_validation_denom_refuted :
  exists r s, validate_rewards_old r = true /\ begin_block {| enable := true; rewards := r |} s = Panic.
Proof.
  exists [(B "1", 5)], {| pool := []; fee := []; others := []; supply := [] |}. split; reflexivity.
Qed.

(** Duplicate denomination with a large pool: more than the per-block reward moves. *)
Theorem C20_old_validation_overpay_refuted :
  exists r s s', validate_rewards_old r = true /\
    begin_block {| enable := true; rewards := r |} s = Ok s' /\
    get (pool s') (B "atele") < get (pool s) (B "atele") - Z.min (reward_of r (B "atele")) (get (pool s) (B "atele")).
Proof.
  exists [(B "atele", 5); (B "atele", 7)], {| pool := [(B "atele", 100)]; fee := []; others := []; supply := [] |}.
  eexists. split; [reflexivity|]. split; [reflexivity|]. vm_compute. reflexivity.
Qed.
