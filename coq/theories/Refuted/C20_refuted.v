(** The statement "every parameter value accepted by validation vests without
    panic" was FALSE for the validation function of the pinned commit
    ([validate_rewards_old]); witnesses, each replayed on the real code by the
    C20/C15 checks before the repair (KNOWN_FINDINGS.txt, "fixed:" entries). *)
From Teleport Require Import Base.Bytes Base.Outcome Model.Rvesting.
Local Open Scope Z_scope.

(** Duplicate denomination, pool smaller than the sum: SendCoins fails -> panic. *)
Theorem C20_old_validation_dup_refuted :
  exists r s, validate_rewards_old r = true /\ (forall d, 0 <= get (pool s) d) /\
    begin_block {| enable := true; rewards := r |} s = Panic.
Proof.
  exists [(B "atele", 5); (B "atele", 7)], {| pool := [(B "atele", 8)]; fee := []; others := []; supply := [] |}.
  split; [reflexivity|]. split; [|reflexivity].
  intro d; cbn [get pool]. destruct (bytes_eqb (B "atele") d); lia.
Qed.

(** Invalid denomination: GetBalance -> NewCoin panics. *)
Theorem C20_old_validation_denom_refuted :
  exists r s, validate_rewards_old r = true /\ begin_block {| enable := true; rewards := r |} s = Panic.
Proof.
  exists [(B "1", 5)], {| pool := []; fee := []; others := []; supply := [] |}. split; reflexivity.
Qed.

(** Duplicate denomination with a large pool: more than the per-block reward moves. *)
Theorem C20_old_validation_overpay_refuted :
  exists r s s', validate_rewards_old r = true /\
    begin_block {| enable := true; rewards := r |} s = Ok s' /\
    get (pool s') (B "atele") < get (pool s) (B "atele") - Z.min (reward_of r (B "atele")) (get (pool s) (B "atele")).
Proof.
  exists [(B "atele", 5); (B "atele", 7)], {| pool := [(B "atele", 100)]; fee := []; others := []; supply := [] |}.
  eexists. split; [reflexivity|]. split; [reflexivity|]. vm_compute. reflexivity.
Qed.

(** The hypothesis [code_op_known] of C20_world_step / C20_world_history (parameter changes name a registered
    key) is necessary: cosmos-sdk's Subspace.Update panics on an unregistered key, and the params proposal
    handler runs in gov's EndBlocker without recover.  SDK behaviour, not x/rvesting's; replayed on the real
    handler by the harness (world corpus case -6; outcome class 2). *)
From Teleport Require Import Model.RvestingIR Model.RvestingBank Model.RvestingParams Model.RvestingWorld Model.RvestingCode
  Model.RvestingWorldCheck.

Theorem C20_unregistered_key_refuted :
  exists w k v, code_get_params (w_ps w) = Ok code_default_params /\ code_step (WParam k v) w = Panic.
Proof.
  exists {| w_accts := []; w_sup := []; w_ps := match default_store with Ok s => s | _ => [] end; w_height := 1 |},
         (B "Bogus"), (JBool true).
  split; vm_compute; reflexivity.
Qed.

(** Without the nil-amount guard BEFORE the sign test (the order of the pre-fix code: IsNegative first), the
    validation function itself panics on an absent amount: the condition [nil_safe] of [guards_std] is needed. *)
Theorem C20_nil_amount_guard_order_refuted :
  exists l, validate_raw [LTypeCoins; LEmpty] [GEmptyDenom; GNegative; GNilAmount] l = Panic.
Proof. exists [(B "atele", None)]. reflexivity. Qed.
