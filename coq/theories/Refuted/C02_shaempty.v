(** C02's acknowledgement theorems carry the hypothesis [forall x, sha256 x <> []].  It is NECESSARY for the faithful
    model: AcknowledgePacket reads the stored commitment with GetPacketCommitment (nil when the key is absent) and
    compares it with [bytes.Equal], and bytes.Equal(nil, []) holds.  With a hash function that returns the empty
    string, an acknowledgement for a packet that was never sent (no commitment stored at all) is accepted.
    (The real sha256 returns 32 bytes, so this is not a defect of /repo; it is why the hypothesis is stated.) *)
From Teleport Require Import Base.Bytes Base.Outcome Base.AList Model.Packet Model.PacketKeys
     Proofs.Packet Proofs.PacketC02 Proofs.PacketKeys Proofs.PacketExamples.
Local Open Scope N_scope.

Definition exP_empty_hash : params :=
  mkParams k_receipt k_ack k_commitment k_nextseq k_valid (decode exP) (abi_pack exP) (fun _ => []) (decode_ack exP)
           (pack_ack exP) (client_verify exP) (bech32_decode exP) (equal_fold exP).

Theorem C02_shaempty_refuted :
  exists (s : cstate) (m : ack_msg),
    (* nothing is stored at all — in particular no commitment of the packet *)
    st_store s = [] /\
    (* the acknowledgement is accepted: the conclusion of C02_ack_accepted_verified fails *)
    is_ok (exec exP_empty_hash 1 s (AAck m cb_plain cb_plain cb_plain)) = true /\
    ~ ack_verified exP_empty_hash 1 s m.
Proof.
  exists exA, (ack_of (pkt x61 x62 1)).
  split; [reflexivity|]. split; [vm_compute; reflexivity|].
  unfold ack_verified. intro H. cbv zeta in H.
  destruct H as (_ & _ & ct & bz & _ & _ & St & _). vm_compute in St. discriminate.
Qed.
Print Assumptions C02_shaempty_refuted.
