(** Statements of C09 that were FALSE of the faithful model of the code before
    the repairs c10316e ("recent-signer check does not wrap below the window
    size") and 5f05f37 ("pruning a consensus state keeps its recent-signer
    entry"), with their witnesses; both were replayed on the real code by the
    C09 check (KNOWN_FINDINGS.txt, "fixed:" entries; the witnesses are now
    corpus cases of harness/cmd/c09), and ff33d14 ("gas-limit bound is computed
    without int64 casts"). *)
From Teleport Require Import Base.Bytes Base.Outcome Model.Bsc Model.BscToy Model.BscRlp Proofs.BscInv.
Local Open Scope N_scope.

(** "A sealer has not sealed any of the last floor(N/2) blocks": with the old
    check [seen > number - limit] (unsigned), five validators (limit 3) and a
    client created at height 0, validator B seals block 1 and block 2. *)
Theorem C09_old_recents_wrap_refuted :
  exists st0 st1 cs1 st2 cs2 signer,
    create_client toy_er cs5 c5 = (st0, ROk tt) /\ limit_of_vals (c_vals cs5) = 3 /\
    update_client_old 1010 cs5 st0 b1 = (st1, ROk cs1) /\
    update_client_old 1010 cs1 st1 b2_same = (st2, ROk cs2) /\
    sealer toy_er 56 b1 = Some signer /\ sealer toy_er 56 b2_same = Some signer /\
    h_num b2_same = h_num b1 + 1.
Proof.
  eexists; eexists; eexists; eexists; eexists; eexists.
  split; [vm_compute; reflexivity|]. split; [vm_compute; reflexivity|].
  split; [vm_compute; reflexivity|]. split; [vm_compute; reflexivity|].
  split; [vm_compute; reflexivity|]. split; [vm_compute; reflexivity|]. vm_compute. reflexivity.
Qed.

(** Same property, old pruning: seven validators (limit 4, window = last three
    blocks), trusting period 12 s.  A sealed the creation block 1000; the
    update to 1002 finds the consensus state of 1000 expired and deletes it
    together with the recent-signer entry (1000, A); A then seals 1003 although
    1000 is one of the last three blocks. *)
Theorem C09_old_prune_refuted :
  exists st0 st1 cs1 st2 cs2 st3 cs3 signer,
    create_client toy_er cs7 c7 = (st0, ROk tt) /\ limit_of_vals (c_vals cs7) = 4 /\
    update_client_old 1010 cs7 st0 p1 = (st1, ROk cs1) /\
    update_client_old 1014 cs1 st1 p2 = (st2, ROk cs2) /\
    update_client_old 1014 cs2 st2 p3_recent = (st3, ROk cs3) /\
    sealer toy_er 56 g7 = Some signer /\ sealer toy_er 56 p3_recent = Some signer /\
    h_num p3_recent = h_num g7 + 3.
Proof.
  eexists; eexists; eexists; eexists; eexists; eexists; eexists; eexists.
  split; [vm_compute; reflexivity|]. split; [vm_compute; reflexivity|].
  split; [vm_compute; reflexivity|]. split; [vm_compute; reflexivity|].
  split; [vm_compute; reflexivity|]. split; [vm_compute; reflexivity|].
  split; [vm_compute; reflexivity|]. vm_compute. reflexivity.
Qed.

(** Before the repair ff33d14 the gas-limit test of verifyCascadingFields computed |parent - limit| through
    int64 casts; for a parent limit of 2^64-1 (a creation-time header nobody validated) a child limit of 5000
    passed although the true distance is far beyond parent/256. *)
Theorem C09_old_gas_bound_cast_refuted :
  exists parent_limit limit,
    gas_bound_bad_old parent_limit limit = false /\ limit <= 9223372036854775807 /\
    parent_limit / 256 <= parent_limit - limit /\ gas_bound_bad parent_limit limit = true.
Proof.
  exists 18446744073709551615, 5000. split; [vm_compute; reflexivity|].
  split; [vm_compute; discriminate|]. split; [vm_compute; discriminate | vm_compute; reflexivity].
Qed.

(** "Has not sealed any of the last floor(N/2) blocks" with N the CURRENT set size is false of the code (and of
    upstream Parlia) right after the set has grown by more than two limit steps: the entries that the small
    limit already dropped are not there to be checked.  Three validators (limit 2) grow to eight (limit 5) at
    block 13; C sealed block 10, whose entry left the store at block 12, and seals block 14 although 10 is one of
    the last four blocks.  This is why [C09_recents_window] speaks about the blocks that are [kept]. *)
Theorem C09_window_without_kept_refuted :
  exists k ch h st' cs' b signer,
    reach toy_hash toy_er k ch /\
    update_client toy_hash toy_er 1100 (fst k) (snd k) h = (st', ROk cs') /\
    sealer toy_er (c_chain (fst k)) h = Some signer /\
    In b ch /\ h_num h < gnum b + limit_of_vals (c_vals (fst k)) /\ gb_sealer b = signer /\
    limit_of_vals (c_vals (fst k)) = 5 /\ ~ kept ch b.
Proof.
  assert (Hw : forall h, h_num h < 100 -> len (h_extra h) < 1000 -> wf_hdr h).
  { intros h H1 H2. unfold wf_hdr. unfold two64. split; lia. }
  eexists (_, _). eexists. exists w14. eexists. eexists. eexists. eexists.
  split.
  - eapply (reach_step toy_hash toy_er _ _ _ 1100 w13).
    + eapply (reach_step toy_hash toy_er _ _ _ 1100 w12).
      * eapply (reach_step toy_hash toy_er _ _ _ 1100 w11).
        -- eapply (reach_step toy_hash toy_er _ _ _ 1100 w10).
           ++ eapply (reach_step toy_hash toy_er _ _ _ 1100 w9).
              ** eapply (reach_create toy_hash toy_er cs3 c3).
                 --- vm_compute. reflexivity.
                 --- vm_compute. reflexivity.
                 --- apply Hw; vm_compute; reflexivity.
                 --- vm_compute. reflexivity.
              ** vm_compute. reflexivity.
              ** vm_compute. reflexivity.
              ** apply Hw; vm_compute; reflexivity.
              ** vm_compute. reflexivity.
           ++ vm_compute. reflexivity.
           ++ vm_compute. reflexivity.
           ++ apply Hw; vm_compute; reflexivity.
           ++ vm_compute. reflexivity.
        -- vm_compute. reflexivity.
        -- vm_compute. reflexivity.
        -- apply Hw; vm_compute; reflexivity.
        -- vm_compute. reflexivity.
      * vm_compute. reflexivity.
      * vm_compute. reflexivity.
      * apply Hw; vm_compute; reflexivity.
      * vm_compute. reflexivity.
    + vm_compute. reflexivity.
    + vm_compute. reflexivity.
    + apply Hw; vm_compute; reflexivity.
    + vm_compute. reflexivity.
  - cbn [fst snd]. split; [vm_compute; reflexivity|]. split; [vm_compute; reflexivity|].
    split; [right; right; right; left; reflexivity|].
    split; [vm_compute; reflexivity|]. split; [vm_compute; reflexivity|]. split; [vm_compute; reflexivity|].
    unfold kept. intro K.
    (* block 12 (the third entry of the chain) had retention limit 2: 12 < 10 + 2 fails *)
    match goal with
    | K : forall j, In j (?b13 :: ?b12 :: _) -> _ |- _ =>
        specialize (K b12 (or_intror (or_introl eq_refl)))
    end.
    vm_compute in K. specialize (K eq_refl). discriminate K.
Qed.

(** "Direct child of its head: ... parent hash".  The block hash of a header whose number is 2^63 or more is
    keccak256 of NOTHING (Header.Hash drops the RLP error for the negative big.Int number): two heads that
    differ in number, state root and everything else have the same hash, for every hash function.  The
    parent-hash link therefore binds nothing from height 2^63 on ([C09_block_hash_covers] has the premise
    [h_num h < 2^63]; unreachable for a real BSC chain, reachable only through a client created up there). *)
Theorem C09_block_hash_above_2p63_refuted :
  exists h1 h2, h_num h1 <> h_num h2 /\ h_root h1 <> h_root h2 /\ h_coinbase h1 <> h_coinbase h2 /\
    forall keccak, block_hash keccak h1 = block_hash keccak h2.
Proof.
  exists (mk_header 9223372036854775808 (zeros 32) vA 1 []), (mk_header 9223372036854775813 (zeros 32) vB 2 []).
  split; [vm_compute; discriminate|]. split; [vm_compute; discriminate|]. split; [vm_compute; discriminate|].
  intro keccak. unfold block_hash. f_equal.
Qed.
