(** Statements of C09 that were FALSE of the faithful model of the code before
    the repairs c10316e ("recent-signer check does not wrap below the window
    size") and 5f05f37 ("pruning a consensus state keeps its recent-signer
    entry"), with their witnesses; both were replayed on the real code by the
    C09 check (KNOWN_FINDINGS.txt, "fixed:" entries; the witnesses are now
    corpus cases of harness/cmd/c09), and ff33d14 ("gas-limit bound is computed
    without int64 casts"). *)
From Teleport Require Import Base.Bytes Base.Outcome Model.Bsc Model.BscToy.
Local Open Scope N_scope.

(** "A sealer has not sealed any of the last floor(N/2) blocks": with the old
    check [seen > number - limit] (unsigned), five validators (limit 3) and a
    client created at height 0, validator B seals block 1 and block 2. *)
Theorem C09_old_recents_wrap_refuted :
  exists st0 st1 cs1 st2 cs2 signer,
    create_client toy_er cs5 c5 = (st0, ROk tt) /\ limit_of_vals (c_vals cs5) = 3 /\
    update_client_old 1010 cs5 st0 b1 = (st1, ROk cs1) /\
    update_client_old 1010 cs1 st1 b2_same = (st2, ROk cs2) /\
    sealer toy_er 56 b1 = Some signer /\ sealer toy_er 56 b2_same = Some signer /\
    h_num b2_same = h_num b1 + 1.
Proof.
  eexists; eexists; eexists; eexists; eexists; eexists.
  split; [vm_compute; reflexivity|]. split; [vm_compute; reflexivity|].
  split; [vm_compute; reflexivity|]. split; [vm_compute; reflexivity|].
  split; [vm_compute; reflexivity|]. split; [vm_compute; reflexivity|]. vm_compute. reflexivity.
Qed.

(** Same property, old pruning: seven validators (limit 4, window = last three
    blocks), trusting period 12 s.  A sealed the creation block 1000; the
    update to 1002 finds the consensus state of 1000 expired and deletes it
    together with the recent-signer entry (1000, A); A then seals 1003 although
    1000 is one of the last three blocks. *)
Theorem C09_old_prune_refuted :
  exists st0 st1 cs1 st2 cs2 st3 cs3 signer,
    create_client toy_er cs7 c7 = (st0, ROk tt) /\ limit_of_vals (c_vals cs7) = 4 /\
    update_client_old 1010 cs7 st0 p1 = (st1, ROk cs1) /\
    update_client_old 1014 cs1 st1 p2 = (st2, ROk cs2) /\
    update_client_old 1014 cs2 st2 p3_recent = (st3, ROk cs3) /\
    sealer toy_er 56 g7 = Some signer /\ sealer toy_er 56 p3_recent = Some signer /\
    h_num p3_recent = h_num g7 + 3.
Proof.
  eexists; eexists; eexists; eexists; eexists; eexists; eexists; eexists.
  split; [vm_compute; reflexivity|]. split; [vm_compute; reflexivity|].
  split; [vm_compute; reflexivity|]. split; [vm_compute; reflexivity|].
  split; [vm_compute; reflexivity|]. split; [vm_compute; reflexivity|].
  split; [vm_compute; reflexivity|]. vm_compute. reflexivity.
Qed.

(** Before the repair ff33d14 the gas-limit test of verifyCascadingFields computed |parent - limit| through
    int64 casts; for a parent limit of 2^64-1 (a creation-time header nobody validated) a child limit of 5000
    passed although the true distance is far beyond parent/256. *)
Theorem C09_old_gas_bound_cast_refuted :
  exists parent_limit limit,
    gas_bound_bad_old parent_limit limit = false /\ limit <= 9223372036854775807 /\
    parent_limit / 256 <= parent_limit - limit /\ gas_bound_bad parent_limit limit = true.
Proof.
  exists 18446744073709551615, 5000. split; [vm_compute; reflexivity|].
  split; [vm_compute; discriminate|]. split; [vm_compute; discriminate | vm_compute; reflexivity].
Qed.
