(** C10, eth-reorg-to-expired-branch: "an accepted update leaves an active client active" is FALSE of the code
    as it is -- every accepted header becomes the head, also one whose timestamp is older than the trusting
    period, and the client's status is computed from the head's consensus state.
    Witness (trusting period 1000 s): G; E1 .. E4 one second apart (timestamps 5001 .. 5004); at block time
    6004 the client is active (5004 + 1000 >= 6004) and the sibling F3 of E3 (child of the stored E2,
    timestamp 5003) is a rule-abiding child of a stored header meeting every hypothesis of [C10_no_wedge]; it is
    accepted and becomes the head; 5003 + 1000 < 6004: the client is expired at the very block time of the update
    and refuses every later update, e.g. the rule-abiding child E5 of the stored E4.
    Stated for [unrepaired] = the code without the candidate repair eth-reorg-to-expired-branch.diff (which is
    [cur], the code of /repo, as long as [fix_exp = false] in Model/Eth.v); the repair refuses F3 -- hypothesis
    [exp_ok] of [C10_no_wedge] -- and the client stays active.  The same history is the scenario
    "witness:eth-reorg-to-expired-branch" of the harness. *)
From Teleport Require Import Base.Bytes Base.Outcome Model.Eth Model.EthCheck Model.EthToy Proofs.EthChain Proofs.Eth Proofs.EthTop.
Local Open Scope N_scope.

Definition univ5 : list header := [G5; E1; E2; E3; E4; F3; E5].
Definition e4 := st_of (run toy_hash toy_seal unrepaired s0e hist_exp).
Definition e5 := st_of (upd_un bt5 e4 F3).

Theorem C10_reorg_to_expired_branch_refuted :
  run toy_hash toy_seal unrepaired s0e hist_exp = Ok e4 /\ head e4 = E4 /\
  (* F3 meets every hypothesis of no_wedge (other than the candidate repair's [exp_ok]) *)
  active bt5 e4 = true /\ valid_child_b toy_hash toy_seal bt5 e4 F3 = true /\ h_rev F3 = h_rev (head e4) /\
  fresh_root_b toy_hash e4 F3 = true /\ noalias_b toy_hash e4 F3 = true /\ meets e4 F3 (base e4) = true /\
  (* it is accepted, becomes the head, and the client is expired at the same block time *)
  upd_un bt5 e4 F3 = Ok e5 /\ head e5 = F3 /\ active bt5 e5 = false /\
  (* the rule-abiding child E5 of the stored E4 -- and everything else -- is refused from now on *)
  valid_child_b toy_hash toy_seal bt5 e5 E5 = true /\
  (forall v bt h, bt5 <= bt -> update_client_gen toy_hash toy_seal v bt e5 h = Err).
Proof.
  split; [vm_compute; reflexivity|]. split; [vm_compute; reflexivity|]. split; [vm_compute; reflexivity|].
  split; [vm_compute; reflexivity|]. split; [vm_compute; reflexivity|]. split; [vm_compute; reflexivity|].
  split; [vm_compute; reflexivity|]. split; [vm_compute; reflexivity|]. split; [vm_compute; reflexivity|].
  split; [vm_compute; reflexivity|]. split; [vm_compute; reflexivity|]. split; [vm_compute; reflexivity|].
  intros v bt h Hbt. unfold update_client_gen.
  assert (A : active bt e5 = false); [|rewrite A; reflexivity].
  unfold active.
  assert (C : cget (h_rev (head e5), h_num (head e5)) (cons e5) = Some (cstate_of F3)) by (vm_compute; reflexivity).
  rewrite C. cbn [c_time cstate_of].
  assert (T : add64 (h_time F3) (trusting e5) = 6003) by (vm_compute; reflexivity). rewrite T.
  apply negb_false_iff. apply N.ltb_lt. unfold bt5 in Hbt. apply N.lt_le_trans with (m := 6004); [reflexivity | exact Hbt].
Qed.

(** the state before the fatal update is reachable in the sense of Props/C10.v *)
Theorem C10_reorg_to_expired_branch_state_reachable :
  hash_ok_b toy_hash univ5 = true /\ Reach toy_hash toy_seal (fun a => In a univ5) 0 500 [E4; E3; E2; E1; G5] e4.
Proof.
  split; [vm_compute; reflexivity|].
  destruct (run_checked toy_hash toy_seal univ5 0 [G5] s0e hist_exp) as [[hs s]|] eqn:E; [|vm_compute in E; discriminate].
  assert (Q : hs = [E4; E3; E2; E1; G5] /\ s = e4) by (vm_compute in E; inversion E; split; vm_compute; reflexivity).
  destruct Q as [<- <-].
  eapply (run_checked_init toy_hash toy_seal univ5 0 500 4 1000 G5); [..|exact E]; vm_compute; reflexivity.
Qed.
