(** Necessity of the wiring obligations of Props/C17_wiring.v: with another wiring the property is FALSE of
    the model (each witness is a wiring a small edit of app.go produces). *)
From Teleport Require Import Base.Bytes Base.Outcome Base.AdapterWiringTypes Model.Adapter Model.AdapterNative
  Model.AdapterWiring Proofs.Adapter Proofs.AdapterNative Proofs.AdapterWiring.
Local Open Scope Z_scope.

Definition wr_rec (m : msg) (s : list msg) : outcome (list msg) := Ok (s ++ [m]).
Definition wr_d : bytes := repeat x11 20.
Definition wr_v : bytes := B "val".
Definition wr_gov : bytes := repeat x67 20.
Definition wr_fee : bytes := repeat xfe 20.

(** "once per emitted event" fails when an adapter is registered twice: ONE Delegated event, TWO delegations *)
Theorem C17_hook_registered_twice_refuted :
  exists l, adapters_of l = [HStaking; HGov; HStaking] /\
  multi_hook_list wr_rec (adapters_of l) [log_of_event staking_addr (EDelegated wr_d wr_v (Some 7%N))] []
  = (Ok tt, [MDelegate wr_d wr_v 7; MDelegate wr_d wr_v 7]).
Proof. exists [WStaking; WGov; WStaking; WOther]. split; vm_compute; reflexivity. Qed.

(** ... and no native action at all happens when an adapter is not registered *)
Theorem C17_hook_not_registered_refuted :
  exists l, adapters_of l = [HGov] /\
  multi_hook_list wr_rec (adapters_of l) [log_of_event staking_addr (EDelegated wr_d wr_v (Some 7%N))] [] = (Ok tt, []).
Proof. exists [WGov; WOther]. split; vm_compute; reflexivity. Qed.

Definition wr_state : nstate :=
  {| n_bal := [(wr_gov, 100)]; n_supply := 100; n_vtok := []; n_dels := []; n_ubds := []; n_reds := []; n_votes := [];
     n_props := []; n_rew := [] |}.

(** "supply unchanged" fails when the gov keeper is built with the SDK bank keeper (staking still overridden):
    one burned deposit shrinks the supply *)
Theorem C17_gov_base_keeper_shrinks_supply_refuted :
  exists acts s,
    n_supply (run_wactions (fun _ => None) [] [] [] wr_fee 7 BKOverride BKBase acts s) < n_supply s /\
    bal (run_wactions (fun _ => None) [] [] [] wr_fee 7 BKOverride BKBase acts s) wr_fee = bal s wr_fee.
Proof. exists [WBurn BGov wr_gov 40], wr_state. split; vm_compute; reflexivity. Qed.

(** the same for the staking keeper (slashes) *)
Theorem C17_staking_base_keeper_shrinks_supply_refuted :
  exists acts s, n_supply (run_wactions (fun _ => None) [] [] [] wr_fee 7 BKBase BKOverride acts s) < n_supply s.
Proof. exists [WBurn BStaking wr_gov 40], wr_state. vm_compute. reflexivity. Qed.

(** with the wiring of app.go the same burn moves the coins to the fee collector *)
Example C17_override_burn_example :
  let s' := run_wactions (fun _ => None) [] [] [] wr_fee 7 BKOverride BKOverride [WBurn BGov wr_gov 40] wr_state in
  n_supply s' = 100 /\ bal s' wr_fee = 40 /\ bal s' wr_gov = 60.
Proof. cbv zeta. repeat split; vm_compute; reflexivity. Qed.
