(** C07 — statements that are (or were) FALSE of the faithful model, each with a
    concrete witness evaluated by [vm_compute]. *)
From Teleport Require Import Base.Bytes Base.Outcome Model.Tendermint Model.TendermintCheck
  Proofs.TendermintStore Proofs.TendermintVerify Proofs.Tendermint Proofs.TendermintExample.
Local Open Scope Z_scope.

(** D12 / tm-delay-overflow (repaired by /repo commit ea14df6): the delay gate as
    it was — [processedTime + delayPeriod] computed in uint64 — let a proof through
    although processed time + delay lies (far) in the future.  Witness: processed
    at 2022-01-01T00:00:10Z, delay = 2^64 - processedTime + 1s, clock 5 s later.
    The harness corpus replays this on the real code on every run (refused since
    the fix; reverting the fix makes the monitor fail with kind 23). *)
Theorem C07_delay_overflow_refuted :
  exists s now h delay pt,
    (delay < two64N)%N /\
    verify_delay_period_passed_old s now h delay = Ok tt /\
    get_processed_time s h = Some (Ok pt) /\
    (u64 now < pt + delay)%N.
Proof.
  exists [(pt_key (mkH 0 5), VBytes (be64 1640995210000000000))], 1640995215000000000, (mkH 0 5),
         (18446744073709551616 - 1640995210000000000 + 1000000000)%N, 1640995210000000000%N.
  vm_compute. repeat split; reflexivity.
Qed.
Print Assumptions C07_delay_overflow_refuted.

(** ... and the repaired gate refuses exactly that witness *)
Theorem C07_delay_overflow_witness_refused_now :
  verify_delay_period_passed [(pt_key (mkH 0 5), VBytes (be64 1640995210000000000))] 1640995215000000000 (mkH 0 5)
                             (18446744073709551616 - 1640995210000000000 + 1000000000)%N = Err.
Proof. vm_compute. reflexivity. Qed.
Print Assumptions C07_delay_overflow_witness_refused_now.

(** O1: "validators holding more than the trust level of the trusted set signed"
    is false for ADJACENT headers when the configured level exceeds 2/3.  Trust
    level 3/4; the stored next set {A,B,C,D} (power 1 each) is also the header's
    own set; A, B, C sign: 3/4 is more than 2/3 of the own set, the header for
    height 6 = trusted height 5 + 1 is accepted, and NOT more than 3/4 of the
    trusted set signed.  Inherent to tendermint's light.Verify (VerifyAdjacent does
    not use the trust level); the real code accepts such headers too (generated
    cases with levels 3/4 and 5/6 in the correspondence run). *)
Definition o1_set : list pvalidator := [nv_val x01 1; nv_val x02 1; nv_val x03 1; nv_val x04 1].
Definition o1_store : store :=
  create_client [] (nv_client 3 4) {| c_time := 100; c_root := [x09]; c_nvh := nv_valset_hash (nv_inp o1_set) |} 100.
Definition o1_header : header :=
  nv_mk_header 6 150 o1_set o1_set o1_set (mkH 2 5) [nv_sig x01 150; nv_sig x02 150; nv_sig x03 150; nv_absent].

Theorem C07_adjacent_level_above_two_thirds_refuted :
  exists cs s hdr now r sh h c tvals ttot,
    check_header_and_update_state nv_valset_hash nv_header_hash nv_verify_sig cs s hdr now = Ok r /\
    h_signed hdr = Some sh /\ sh_header sh = Some h /\ sh_commit sh = Some c /\
    hd_height h = Z.of_N (h_hgt (h_trusted_height hdr)) + 1 /\
    h_valset hdr = h_trusted_vals hdr /\
    valset_from_proto (h_trusted_vals hdr) = Ok (tvals, ttot) /\
    (cs_tl_num cs < cs_tl_den cs)%N /\
    Z.of_N (cs_tl_den cs) * signed_trusted nv_verify_sig (hd_chain_id h) c (hash_input tvals)
    <= Z.of_N (cs_tl_num cs) * total_of (hash_input tvals).
Proof.
  exists (nv_client 3 4), o1_store, o1_header, 160.
  eexists. eexists. eexists. eexists. eexists. eexists.
  split; [vm_compute; reflexivity|].
  split; [reflexivity|]. split; [reflexivity|]. split; [reflexivity|].
  split; [vm_compute; reflexivity|]. split; [reflexivity|].
  split; [vm_compute; reflexivity|]. split; [vm_compute; reflexivity|].
  vm_compute. discriminate.
Qed.
Print Assumptions C07_adjacent_level_above_two_thirds_refuted.

(** tm-trust-level-int64 (repaired by /repo commit d656e11): ClientState.Validate
    as it was admitted every trust level tendermint's ValidateTrustLevel admits;
    tendermint converts numerator and denominator to int64.  Level
    0x5555555555555555 / 0xFFFFFFFFFFFFFFFF (exactly 1/3) gives int64(den) = -1,
    hence a NEGATIVE threshold: for a trusted set of total power 1 a non-adjacent
    header is accepted on the signature of a zero-power trusted validator alone.
    The real code accepted this witness (corpus history 100005); since the fix
    Validate refuses the configuration.  The explicit "fields below 2^63"
    hypothesis of C07_tm_accept_sound is therefore necessary for configurations
    that bypass Validate. *)
Definition tl_trusted : list pvalidator := [nv_val x01 1; nv_val x05 0].
Definition tl_own : list pvalidator := [nv_val x05 0; nv_val x03 1].
Definition tl_client : client_state := nv_client 6148914691236517205 18446744073709551615.
Definition tl_store : store :=
  create_client [] tl_client {| c_time := 100; c_root := [x09]; c_nvh := nv_valset_hash (nv_inp tl_trusted) |} 100.
Definition tl_header : header := nv_mk_header 9 150 tl_own tl_own tl_trusted (mkH 2 5) [nv_sig x05 150; nv_sig x03 150].

Theorem C07_trust_level_int64_refuted :
  exists cs s hdr now r sh h c tvals ttot,
    check_header_and_update_state nv_valset_hash nv_header_hash nv_verify_sig cs s hdr now = Ok r /\
    h_signed hdr = Some sh /\ sh_header sh = Some h /\ sh_commit sh = Some c /\
    hd_height h <> Z.of_N (h_hgt (h_trusted_height hdr)) + 1 /\
    valset_from_proto (h_trusted_vals hdr) = Ok (tvals, ttot) /\
    (* admitted by Validate before the fix, refused now *)
    client_validate_old cs = true /\ client_validate cs = false /\
    signed_trusted nv_verify_sig (hd_chain_id h) c (hash_input tvals) = 0 /\ total_of (hash_input tvals) = 1.
Proof.
  exists tl_client, tl_store, tl_header, 160.
  eexists. eexists. eexists. eexists. eexists. eexists.
  split; [vm_compute; reflexivity|].
  split; [reflexivity|]. split; [reflexivity|]. split; [reflexivity|].
  split; [vm_compute; discriminate|].
  split; [vm_compute; reflexivity|].
  split; [vm_compute; reflexivity|]. split; [vm_compute; reflexivity|].
  split; vm_compute; reflexivity.
Qed.
Print Assumptions C07_trust_level_int64_refuted.
