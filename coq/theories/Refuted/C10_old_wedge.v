(** C10, defect D2 (repaired in /repo by commit db7007a "RestrictChain re-points the new branch from the
    fork height"): the statement [no_wedge] was FALSE of the faithful model of the code before the repair
    ([update_client_old] = Model/Eth.v, variant [pre_d2]: the header of the new branch at the fork height
    is not collected, so the re-pointing loop looks the first collected hash up one height too low).
    Witness (replayed on the real code by the C10 check: corpus case "d2-minimal"; it fails again when the
    repair is reverted): G; A1; sibling B1 (head B1); then the valid child A2 of the stored A1. *)
From Teleport Require Import Base.Bytes Base.Outcome Model.Eth Model.EthCheck Model.EthToy Proofs.EthChain Proofs.Eth Proofs.EthTop.
Local Open Scope N_scope.

Theorem C10_old_wedge_refuted :
  exists s, run toy_hash toy_seal pre_d2 s0 [(bt1, A1); (bt1, B1)] = Ok s /\
            run toy_hash toy_seal cur s0 [(bt1, A1); (bt1, B1)] = Ok s /\
            head s = B1 /\
            iget (toy_hash A1, h_num A1) (idx s) = Some A1 /\            (* A1 is stored *)
            should_accept toy_hash toy_seal bt1 s A2 = true /\           (* every hypothesis of no_wedge *)
            upd_old bt1 s A2 = Err /\                                    (* refused before the repair *)
            (exists s', upd bt1 s A2 = Ok s' /\ head s' = A2 /\ main_chain_ok [] s' = true).   (* accepted after it *)
Proof.
  destruct (run toy_hash toy_seal pre_d2 s0 [(bt1, A1); (bt1, B1)]) as [s| |] eqn:E; try (vm_compute in E; discriminate).
  exists s. vm_compute in E. inversion E; subst s. clear E.
  split; [reflexivity|]. split; [vm_compute; reflexivity|]. split; [vm_compute; reflexivity|].
  split; [vm_compute; reflexivity|]. split; [vm_compute; reflexivity|]. split; [vm_compute; reflexivity|].
  eexists. split; [vm_compute; reflexivity|]. split; vm_compute; reflexivity.
Qed.

(** the state of the witness is reachable in the sense of Props/C10.v (the first two updates do not reach the
    changed line) *)
Theorem C10_old_wedge_state_reachable :
  hash_ok_b toy_hash univ1 = true /\
  exists s, run toy_hash toy_seal pre_d2 s0 [(bt1, A1); (bt1, B1)] = Ok s /\
            Reach toy_hash toy_seal (fun a => In a univ1) 0 100 [B1; A1; G] s.
Proof.
  split; [vm_compute; reflexivity|].
  destruct (run_checked toy_hash toy_seal univ1 0 [G] s0 [(bt1, A1); (bt1, B1)]) as [[hs s]|] eqn:E; [|vm_compute in E; discriminate].
  exists s. split.
  - vm_compute in E. inversion E. vm_compute. reflexivity.
  - assert (Q : hs = [B1; A1; G]) by (vm_compute in E; inversion E; reflexivity). rewrite <- Q.
    eapply (run_checked_init toy_hash toy_seal univ1 0 100 4 1000000000 G); [..|exact E]; vm_compute; reflexivity.
Qed.
