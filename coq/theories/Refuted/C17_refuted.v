(** Statements about the adapters that are FALSE of the faithful model — stronger readings of C17
    that the code does not satisfy.  None of them breaks the property for USER transactions
    (ethermint discards the temporary context and BaseApp recovers panics: [deliver]); they are the
    reasons why the caller's discard is necessary (defect D1 is about a caller — x/xibc's
    module-originated EVM call — that did not discard). *)
From Teleport Require Import Base.Bytes Base.Outcome Model.Adapter Model.AdapterEvm Proofs.Adapter Proofs.AdapterEvm.
Local Open Scope N_scope.

Definition rx_rec (m : msg) (s : list msg) : outcome (list msg) := Ok (s ++ [m]).
Definition rx_d : bytes := repeat x11 20.
Definition rx_v : bytes := B "val".

(** "A failing hook leaves the context untouched" is false: the messages of the earlier logs have
    been executed when a later one fails; atomicity comes from the caller only. *)
Theorem C17_hook_alone_not_atomic_refuted :
  exists logs s r s', post_tx rx_rec HStaking logs s = (r, s') /\ r <> Ok tt /\ s' <> s.
Proof.
  exists [log_of_event staking_addr (EDelegated rx_d rx_v (Some 7));
          log_of_event staking_addr (EDelegated rx_d rx_v (Some 0))], [].
  eexists. eexists. split; [vm_compute; reflexivity|]. split; discriminate.
Qed.

(** "Native messages execute in receipt order" is false across the two contracts: the staking hook
    runs over the whole receipt before the gov hook (app.go: NewMultiEvmHooks(stakingHook, govHook, ...)). *)
Theorem C17_global_log_order_refuted :
  exists logs ms,
    multi_hook rx_rec logs [] = (Ok tt, ms) /\
    map (fun l => l_addr l) logs = [gov_addr; staking_addr] /\
    ms = [MDelegate rx_d rx_v 7; MVote rx_d 1 1].
Proof.
  exists [log_of_event gov_addr (EVoted rx_d 1 1); log_of_event staking_addr (EDelegated rx_d rx_v (Some 7))].
  eexists. split; [vm_compute; reflexivity|]. split; reflexivity.
Qed.

(** "The hook never panics" is false on log lists the real byte code cannot produce: a log of the
    system address without topics ([log.Topics[0]]) or with a staking event id and empty data
    (nil amount dereferenced by [sdk.NewCoin]).  Recovered by BaseApp.runTx for user transactions. *)
Theorem C17_hook_total_refuted :
  exists l1 l2 s,
    fst (post_tx rx_rec HStaking [l1] s) = Panic /\ fst (post_tx rx_rec HStaking [l2] s) = Panic /\
    l_topics l1 = [] /\ l_data l2 = [].
Proof.
  exists {| l_addr := staking_addr; l_topics := []; l_data := [] |},
         {| l_addr := staking_addr; l_topics := [topic_of KDelegated]; l_data := [] |}, [].
  repeat split; vm_compute; reflexivity.
Qed.

(** The hypothesis [wf_tx] of C17_attribution_end_to_end (only the system contract's own code runs at a
    system address — established by the adapters' InitGenesis, which the harness runs) is necessary: were
    other code deployed there, its events would be executed for whatever account they name.  Here the
    "emitter" code sits at the staking address: no invocation of the Staking contract happened, yet a
    delegation is made for the victim. *)
Theorem C17_wf_tx_necessary_refuted :
  exists t, wf_tx t = false /\ fr_inv (run_tx t) = [] /\
            multi_hook rx_rec (fr_logs (run_tx t)) [] = (Ok tt, [MDelegate rx_d rx_v 7]).
Proof.
  exists {| tx_sender := repeat x22 20; tx_to := staking_addr;
            tx_code := CEmit [topic_of KDelegated] (encode_event (EDelegated rx_d rx_v (Some 7))) |}.
  repeat split; vm_compute; reflexivity.
Qed.
