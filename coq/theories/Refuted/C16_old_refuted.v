(** C16 was FALSE of the code before 6fec139 (defect D3): Keeper.OnRecvPacket returned nil on every path, ibc-go
    core treats nil as "asynchronous acknowledgement" and writes nothing — while it DOES write the application
    state (`if ack == nil || ack.Success() { writeFn() }`).  [hook_old] is that code. *)
From Coq Require Import List ZArith Bool.
From Teleport Require Import Base.Bytes Base.Outcome Model.Ics20 Proofs.Ics20 Proofs.Ics20Toy.
Import ListNotations.
Local Open Scope Z_scope.

(** For ALL packets and states: a transfer the wrapped application acknowledged with success is left
    unacknowledged by core (no acknowledgement commitment is stored) and the middleware handed nil to core. *)
Theorem C16_old_refuted :
  forall state sha256 decode parse_int from_bech32 is_registered convert transfer_recv st pkt st1 a st' oc,
  transfer_recv st pkt = Ok (st1, a) -> ack_success a = true ->
  core_recv state sha256
    (middleware_old state sha256 decode parse_int from_bech32 is_registered convert transfer_recv) st pkt = Ok (st', oc) ->
  oc = None /\
  exists hp, middleware_old state sha256 decode parse_int from_bech32 is_registered convert transfer_recv st pkt
             = Ok (st', None, hp).
Proof. exact old_never_acknowledges. Qed.
Print Assumptions C16_old_refuted.

(** Witness: core around the bare transfer module commits the success acknowledgement; around the old middleware it
    commits nothing although the 100 vouchers were minted and converted (state written): the sender's escrow on the
    other chain can never be released or confirmed. *)
Theorem C16_old_refuted_witness : exists st pkt,
  (exists sb, core_recv cstate toy_sha (toy_bare data_mint (Some RCV)) st pkt = Ok (sb, Some (toy_sha (ack_bytes ok_ack)))) /\
  (exists so, core_recv cstate toy_sha (toy_mw_old data_mint (Some RCV)) st pkt = Ok (so, None) /\
              get1 (c_supply so) VOUCHER = get1 (c_supply st) VOUCHER + 100 /\ tok so CTR RCV = 100).
Proof.
  exists (world 1 VOUCHER RCV 0 true), pkt0. split.
  - eexists. vm_compute. reflexivity.
  - eexists. vm_compute. repeat split; reflexivity.
Qed.
Print Assumptions C16_old_refuted_witness.
