(** C16 was FALSE of the code between 6fec139 and e0a53b0 (finding key receiver-not-20-bytes): the hook converted for
    every bech32 receiver and credited common.BytesToAddress(receiver) — for a receiver whose address is not 20 bytes
    (a 32-byte interchain account) an address that is not the receiver's.  [hook_v1] is that code. *)
From Coq Require Import List ZArith Bool.
From Teleport Require Import Base.Bytes Base.Outcome Model.Ics20 Proofs.Ics20 Proofs.Ics20Convert Proofs.Ics20Toy.
Import ListNotations.
Local Open Scope Z_scope.

(** "full conversion FOR THE RECEIVER or vouchers untouched" fails: the 100 received vouchers leave the 32-byte
    receiver's account (escrowed in the module), the receiver holds no tokens, a different address does. *)
Theorem C16_receiver_refuted : exists st pkt r st1 st2,
  length r = 32%nat /\
  toy_transfer data_mint 100 (Some r) st pkt = Ok (st1, ok_ack) /\
  toy_mw_v1 data_mint (Some r) st pkt = Ok (st2, Some ok_ack, Some HConverted) /\
  bal st1 r VOUCHER = bal st r VOUCHER + 100 /\       (* the transfer application credited the receiver *)
  bal st2 r VOUCHER = bal st r VOUCHER /\             (* ... the hook took the vouchers away again *)
  bal st2 MOD VOUCHER = bal st MOD VOUCHER + 100 /\   (* ... into the module's escrow *)
  tok st2 CTR r = 0 /\                                (* the receiver holds no tokens *)
  evm_addr r <> r /\ tok st2 CTR (evm_addr r) = 100.  (* its truncation does *)
Proof.
  exists (world 1 VOUCHER RCV32 0 true), pkt0, RCV32. do 2 eexists.
  split; [reflexivity|]. split; [vm_compute; reflexivity|]. split; [vm_compute; reflexivity|].
  vm_compute. repeat split; try reflexivity. discriminate.
Qed.
Print Assumptions C16_receiver_refuted.

(** in general (any oracles): that code credited [evm_addr r], which is [r] only for 20-byte addresses *)
Theorem C16_receiver_refuted_general :
  forall sha256 from_bech32 pkt d amt r,
  from_bech32 (fd_receiver d) = Some r -> length r <> 20%nat ->
  cm_sender (hook_msg sha256 from_bech32 pkt d amt) = r /\
  cm_receiver (hook_msg sha256 from_bech32 pkt d amt) <> r.
Proof.
  intros sha256 from_bech32 pkt d amt r E Hl.
  destruct (credited_address sha256 from_bech32 pkt d amt r E) as (H1 & _ & _ & H4). auto.
Qed.
Print Assumptions C16_receiver_refuted_general.
