(** Hypotheses of the C18 theorems that are NECESSARY: for each one a concrete history of the model of /repo HEAD
    ([head_cfg]) in which the hypothesis fails and so does the conclusion.  The histories marked "replayed" are
    directed cases of the harness corpus (harness/cmd/c18/gen.go), i.e. they run on the real code on every check
    and the model is compared with it step by step. *)
From Teleport Require Import Base.Bytes Base.Outcome Base.AList Model.Lifecycle Proofs.Lifecycle Proofs.LifecycleExt.
Local Open Scope N_scope.

Definition name : bytes := B "chain-a".
Definition rel : bytes := B "relayer".
Definition t0 : N := 1000 * ns_per_s.
Definition ehd (n : N) (hash parent : bytes) (tm : N) : evm_hdr :=
  {| eh_height := (0, n); eh_hash := hash; eh_parent := parent; eh_root := B "root"; eh_time := tm; eh_dg := hash;
     eh_coinbase := B "val1"; eh_signer := Some (B "val1"); eh_vals := Some [B "val1"]; eh_cons_dg := hash |}.
Definition ethc : client_state := ClEth (ehd 100 (B "e100") (B "e99") 900) 0 100000 (B "rest").
Definition ethk (root : bytes) : cons_state := {| cs_type := ETH; cs_ts := 900; cs_root := root; cs_dg := B "k" |}.
Definition prop (c : client_state) (k : cons_state) : proposal := {| p_name := name; p_client := c; p_cons := k; p_validate := true |}.

(** [fresh] in C18_installed_active: content whose consensus state is older than the trusting period is
    installed (the code has no such check) but the client is Expired at once. *)
Definition tm_old : cons_state := {| cs_type := TM; cs_ts := t0 - 600 * ns_per_s; cs_root := B "root"; cs_dg := B "k" |}.
Definition tmc (delay : N) : client_state := ClTm (0, 5) (500 * ns_per_s) (10 * ns_per_s) delay (B "rest").
Theorem C18_expired_content_not_active :
  exists st', step head_cfg (empty_state t0) (Create (prop (tmc 0) tm_old)) = (0%nat, st') /\
    status (now st') (tmc 0) (store_of st' name) = 1%nat.
Proof. eexists. split; [vm_compute; reflexivity|]. vm_compute. reflexivity. Qed.

(** [tnow + delay < 2^64] in C18_tm_proof_verifies_after_delay (replayed: corpus "tm-delay-overflow"): a
    Tendermint client with TimeDelay = 2^64-1 is created and Active, and the honest proof at the installed
    height is refused at EVERY block time. *)
Definition tm_new : cons_state := {| cs_type := TM; cs_ts := t0 - 60 * ns_per_s; cs_root := B "root"; cs_dg := B "k" |}.
Theorem C18_tm_delay_overflow_refuted :
  exists st', step head_cfg (empty_state t0) (Create (prop (tmc (two64 - 1)) tm_new)) = (0%nat, st') /\
    status (now st') (tmc (two64 - 1)) (store_of st' name) = 0%nat /\
    forall t, gate t (B "root") [] (tmc (two64 - 1)) (store_of st' name) (0, 5) = 5%nat.
Proof.
  eexists. split; [vm_compute; reflexivity|]. split; [vm_compute; reflexivity|]. intro t.
  apply (tm_gate_overflow t (B "root") [] (0, 5) (500 * ns_per_s) (10 * ns_per_s) (two64 - 1) (B "rest") _ (0, 5) tm_new t0);
    try (vm_compute; reflexivity); vm_compute; discriminate.
Qed.

(** The ETH root check (aa5560b, repaired).  [pre_root_cfg] is the code of HEAD without that repair.  There, an ETH
    proposal whose consensus state carries another root than the proposed header was accepted (nothing tied the two
    together) and the HEADER's root was indexed.  When that consensus state had outlived the trusting period while the
    client was still Active, the pruning step of the next update looked the header up by the CONSENSUS STATE's root,
    did not find it and failed: a valid header from the authorised relayer was refused, and so was every later one.
    On HEAD the proposal is refused and nothing changes (replayed: corpus "eth-foreign-root-prune"; seeded
    C18-revert-fix-eth-root); with the header's own root the same history succeeds on both variants. *)
Definition pre_root_cfg : cfg :=
  {| f_toggle_new := true; f_tss_height := true; f_upgrade_tss_nocons := true; f_tm_upgrade_meta := true;
     f_toggle_clear := true; f_cons_type_check := true;
     f_eth_root_check := false; f_eth_rev_check := true; f_eth_old_header := true |}.

Definition eth_history (root : bytes) : list op :=
  [ Register rel [name] true;
    Create (prop ethc (ethk root));
    Update name (HEvm ETH (ehd 101 (B "e101") (B "e100") 913) true) rel true;
    Tick (99905 * ns_per_s) ].
Definition eth_update102 : op := Update name (HEvm ETH (ehd 102 (B "e102") (B "e101") 926) true) rel true.

Theorem C18_eth_foreign_root_refuted :
  let st := run pre_root_cfg (empty_state t0) (eth_history (B "other")) in
  (exists c, sget KClient (store_of st name) = Some (VClient c) /\ status (now st) c (store_of st name) = 0%nat) /\
  step pre_root_cfg st eth_update102 = (1%nat, st) /\
  fst (step pre_root_cfg (run pre_root_cfg (empty_state t0) (eth_history (B "root"))) eth_update102) = 0%nat.
Proof.
  cbv zeta. split.
  - eexists. split; [vm_compute; reflexivity|]. vm_compute. reflexivity.
  - split; vm_compute; reflexivity.
Qed.

(** HEAD: the inconsistent proposal is refused, nothing changes; the consistent history still succeeds. *)
Theorem C18_eth_foreign_root_refused_on_head :
  let st := run head_cfg (empty_state t0) [Register rel [name] true] in
  step head_cfg st (Create (prop ethc (ethk (B "other")))) = (1%nat, st) /\
  fst (step head_cfg (run head_cfg (empty_state t0) (eth_history (B "root"))) eth_update102) = 0%nat.
Proof. cbv zeta. split; vm_compute; reflexivity. Qed.

(** [op_eth_ok] (ETH proposals use revision 0) in C18_valid_update_succeeds_reachable — still true of HEAD.  The ETH root-main keys are
    (state root, revision HEIGHT): they ignore the revision number.  An upgrade that re-installs the same block under
    another revision number (consistent content: the consensus state carries its header's root) makes two consensus
    states share one root-main entry; pruning the first deletes the entry (and the header index of the OTHER
    header), and when the second is pruned the lookup fails: a valid header is refused while the client is Active. *)
Definition ehd1 (n : N) (hash parent : bytes) (tm : N) : evm_hdr :=
  {| eh_height := (1, n); eh_hash := hash; eh_parent := parent; eh_root := B "root"; eh_time := tm; eh_dg := hash;
     eh_coinbase := B "val1"; eh_signer := Some (B "val1"); eh_vals := Some [B "val1"]; eh_cons_dg := hash |}.
Definition ethc1 : client_state := ClEth (ehd1 100 (B "f100") (B "f99") 950) 0 100000 (B "rest").
Definition ethk1 : cons_state := {| cs_type := ETH; cs_ts := 950; cs_root := B "root"; cs_dg := B "k1" |}.
Definition upd1 (n : N) (hash parent : bytes) (tm : N) : op := Update name (HEvm ETH (ehd1 n hash parent tm) true) rel true.

Definition rev_history : list op :=
  [ Register rel [name] true;
    Create (prop ethc (ethk (B "root")));
    Update name (HEvm ETH (ehd 101 (B "e101") (B "e100") 913) true) rel true;
    Upgrade (prop ethc1 ethk1);                 (* the same block 100 again, revision 1 *)
    upd1 101 (B "f101") (B "f100") 960;
    Tick (99905 * ns_per_s);                    (* 0-100 (ts 900) has expired *)
    upd1 102 (B "f102") (B "f101") 970;         (* prunes 0-100: deletes root-main (root,100) and the index of f100 *)
    Tick (10 * ns_per_s);                       (* 0-101 (ts 913) has expired *)
    upd1 103 (B "f103") (B "f102") 980;         (* prunes 0-101 *)
    Tick (40 * ns_per_s) ].                     (* 1-100 (ts 950) has expired; the latest (ts 980) has not *)

Theorem C18_eth_revision_collision_refuted :
  let st := run head_cfg (empty_state t0) rev_history in
  (exists c, sget KClient (store_of st name) = Some (VClient c) /\ status (now st) c (store_of st name) = 0%nat) /\
  step head_cfg st (upd1 104 (B "f104") (B "f103") 990) = (1%nat, st).
Proof.
  cbv zeta. split.
  - eexists. split; [vm_compute; reflexivity|]. vm_compute. reflexivity.
  - vm_compute. reflexivity.
Qed.
