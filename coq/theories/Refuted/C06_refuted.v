(** C06 — statements one might expect but which are FALSE of the faithful model (and of the code:
    each witness is replayed on the real chain by the corpus histories 9003/9004 of tools/py/props/c06.py).
    Neither is a conjunct of property C06 (its text restricts acknowledgements only for TSS
    counterparties), so they are recorded as behaviour, not as violations. *)
From Teleport Require Import Base.Bytes Base.Outcome Model.Auth Proofs.Auth Props.C06.

Definition ackm (signer src relayer : bytes) : op unit unit unit unit :=
  OAck unit unit unit unit
    {| am_signer := signer; am_src := src; am_dst := B "eth-chain"; am_seq := 1;
       am_ack := Some {| ack_code := 0; ack_result := []; ack_message := []; ack_relayer := relayer; ack_fee := 0 |};
       am_rest := tt |}.

(** "An accepted MsgAcknowledgement comes from a registered relayer of the destination chain" — false:
    for a proof-verifying client the signer is never looked up. *)
Theorem C06_ack_signer_registered_refuted :
  exists (s : state unit) signer,
    reg_get (reg unit s) signer = None /\
    snd (ex_step s (ackm signer (B "teleport") (B "0xa1"))) = true.
Proof.
  exists (ex_run [ORegGov unit unit unit unit (B "alice") [B "eth-chain"] [B "0xA1"]] ex_s0), (B "mallory").
  vm_compute. split; reflexivity.
Qed.

(** "Every fully verified acknowledgement of a packet this chain sent is accepted" — false: it is
    rejected (and stays unprocessable) when ack.Relayer does not reverse-resolve in the CURRENT
    registry, e.g. after the relayer was re-registered with another counterparty address. *)
Theorem C06_verified_ack_accepted_refuted :
  exists (s : state unit),
    lo_ack unit unit unit unit ex_lower (low unit s) {| am_signer := B "alice"; am_src := B "teleport"; am_dst := B "eth-chain";
        am_seq := 1; am_ack := None; am_rest := tt |} = Ok tt /\
    snd (ex_step s (ackm (B "alice") (B "teleport") (B "0xA1"))) = false.
Proof.
  exists (ex_run [ORegGov unit unit unit unit (B "alice") [B "eth-chain"] [B "0xA1"];
                  ORegGov unit unit unit unit (B "alice") [B "eth-chain"] [B "0xB2"]] ex_s0).
  vm_compute. split; reflexivity.
Qed.

(** The hypothesis [gov_only] of C06_gov_registry_no_panic is NECESSARY: a record imported by
    InitGenesis from a genesis file that was not validated (ORegRaw) with fewer addresses than chains
    makes the relayer look-up of RecvPacket index out of range (`ir.Addresses[i]`, a panic which
    BaseApp recovers into a rejected message; replayed on the real chain by corpus history 9005). *)
Theorem C06_unvalidated_genesis_record_panics_refuted :
  exists (ops : list (op unit unit unit unit)) c signer,
    Forall (rec_wf (fun _ => true)) (reg unit ex_s0) /\
    other_chain_addr (reg unit (ex_run ops ex_s0)) c signer = Panic.
Proof.
  exists [ORegRaw unit unit unit unit (B "alice") [B "ghost-net"; B "eth-chain"] [B "0xA"]], (B "eth-chain"), (B "alice").
  split; [constructor | vm_compute; reflexivity].
Qed.

(** "The Relayer recorded in an acknowledgement is the submitting relayer's own address (msg.Signer)"
    — false, and it must be: the field is the COUNTERPARTY address governance registered for
    (signer, source chain).  Recorded because a change of the code that writes msg.Signer instead is
    invisible to every test that registers identical strings on both sides. *)
Theorem C06_ack_relayer_is_signer_refuted :
  exists (s : state unit) m,
    snd (ex_step s (ORecv unit unit unit unit m)) = true /\
    map (fun w => ack_relayer (w_ack w)) (wlog unit (fst (ex_step s (ORecv unit unit unit unit m)))) <> [rm_signer unit m].
Proof.
  exists (ex_run [ORegGov unit unit unit unit (B "alice") [B "eth-chain"] [B "0xA1"]] ex_s0),
         {| rm_signer := B "alice"; rm_src := B "eth-chain"; rm_dst := B "teleport"; rm_seq := 1; rm_fee := 0; rm_rest := tt |}.
  vm_compute. split; [reflexivity | discriminate].
Qed.
