(** C06 — statements one might expect but which are FALSE of the faithful model (and of the code:
    each witness is replayed on the real chain by the corpus histories 9003/9004 of tools/py/props/c06.py).
    Neither is a conjunct of property C06 (its text restricts acknowledgements only for TSS
    counterparties), so they are recorded as behaviour, not as violations. *)
From Teleport Require Import Base.Bytes Base.Outcome Model.Auth Props.C06.

Definition ackm (signer src relayer : bytes) : op unit unit unit unit :=
  OAck unit unit unit unit
    {| am_signer := signer; am_src := src; am_dst := B "eth-chain"; am_seq := 1;
       am_ack := Some {| ack_code := 0; ack_result := []; ack_message := []; ack_relayer := relayer; ack_fee := 0 |};
       am_rest := tt |}.

(** "An accepted MsgAcknowledgement comes from a registered relayer of the destination chain" — false:
    for a proof-verifying client the signer is never looked up. *)
Theorem C06_ack_signer_registered_refuted :
  exists (s : state unit) signer,
    reg_get (reg unit s) signer = None /\
    snd (ex_step s (ackm signer (B "teleport") (B "0xa1"))) = true.
Proof.
  exists (ex_run [ORegGov unit unit unit unit (B "alice") [B "eth-chain"] [B "0xA1"]] ex_s0), (B "mallory").
  vm_compute. split; reflexivity.
Qed.

(** "Every fully verified acknowledgement of a packet this chain sent is accepted" — false: it is
    rejected (and stays unprocessable) when ack.Relayer does not reverse-resolve in the CURRENT
    registry, e.g. after the relayer was re-registered with another counterparty address. *)
Theorem C06_verified_ack_accepted_refuted :
  exists (s : state unit),
    lo_ack unit unit unit unit ex_lower (low unit s) {| am_signer := B "alice"; am_src := B "teleport"; am_dst := B "eth-chain";
        am_seq := 1; am_ack := None; am_rest := tt |} = Ok tt /\
    snd (ex_step s (ackm (B "alice") (B "teleport") (B "0xA1"))) = false.
Proof.
  exists (ex_run [ORegGov unit unit unit unit (B "alice") [B "eth-chain"] [B "0xA1"];
                  ORegGov unit unit unit unit (B "alice") [B "eth-chain"] [B "0xB2"]] ex_s0).
  vm_compute. split; reflexivity.
Qed.
