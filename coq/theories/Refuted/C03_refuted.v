(** C03 was FALSE of the faithful model of the pinned code (before /repo commit 0a3e419, defect D1):
    msg_server.RecvPacket ran the destination callback on the parent context, so the token part of a
    callback that then reported a non-zero result code (or whose post-transaction hook failed) was kept
    while an error acknowledgement was written -- and the source refunded the sender.
    [step_old] / [run_old] = Model/Bridge.v with [recv_chain_old].  Both witnesses were replayed on two
    real chains (DESIGN.md 9.4, /var/tmp/fixes/d1) and are the first histories of the harness corpus; the
    seeded mutation seeded/C03-revert-fix-d1 re-introduces the defect and must be caught by the monitor. *)
From Coq Require Import List Arith PeanoNat NArith Bool Lia.
From Teleport Require Import Base.Outcome Model.Bridge Model.BridgeCheck Proofs.Bridge Proofs.BridgeOutcome.
Import ListNotations.
Local Open Scope N_scope.

(** Two chains; token 1 of chain 1 represents token 1 of chain 0 (scale 0). *)
Definition cfg0 : config := cfg_of 2 [(1%nat, 1%nat, 0%nat, 1%nat, 1)].

Definition cs_empty : cstate :=
  {| bal := fun _ _ => 0; supply := fun _ => 0; out_tokens := fun _ _ => 0; bind_amt := fun _ _ => 0;
     next_seq := fun _ => 1; ack_status := fun _ _ => 0; fees := fun _ _ => (0%nat, 0); effects := fun _ => 0 |}.

(** user 0 holds 10000 of token 1 on chain 0 *)
Definition s0 : state :=
  {| chains := fun c => if Nat.eqb c 0
                        then set_supply (set_bal cs_empty (fun t h => if Nat.eqb t 1 && holder_eqb h (User 0) then 10000 else 0))
                                        (fun t => if Nat.eqb t 1 then 10000 else 0)
                        else cs_empty;
     packets := [] |}.

Lemma cfg0_consistent : cfg_consistent cfg0.
Proof. apply cfg_of_consistent. reflexivity. Qed.

Lemma s0_init : init_ok s0.
Proof. split; [reflexivity|]. intros A B t. unfold s0; cbn. destruct (Nat.eqb A 0); split; reflexivity. Qed.

(** A user ends up holding both the delivered and the refunded tokens. *)
Definition user_holds_delivered_and_refunded (s : state) : Prop :=
  exists p, In p (packets s) /\ p_status p = Refunded /\ 0 < p_delivered p /\ 0 < p_refunded p.

Definition reachable_old (cfg : config) (s : state) : Prop :=
  exists s_init h, cfg_consistent cfg /\ init_ok s_init /\ s = run_old cfg s_init h.

(** transfer 1000 with call data [cd]; receive on chain 1; acknowledge on chain 0 *)
Definition witness (cd : calldata) : list op :=
  [Transfer 0 0 1 1000 1 (Some (User 1)) cd false 1 0; Recv 0 1 1; Ack 0 1 1].

Lemma witness_breaks cd :
  cd = CdRevert \/ cd = CdHookFail ->
  let s := run_old cfg0 s0 (witness cd) in
  reachable_old cfg0 s /\ user_holds_delivered_and_refunded s /\
  bal (chains s 0) 1 (User 0) = 10000 /\ bal (chains s 1) 1 (User 1) = 1000 /\
  out_tokens (chains s 0) 1 1 = 0 /\ bind_amt (chains s 1) 1 0 = 1000 /\ supply (chains s 1) 1 = 1000 /\
  ~ conserved cfg0 s.
Proof.
  intros Hcd s. split.
  { exists s0, (witness cd). split; [exact cfg0_consistent|]. split; [exact s0_init|reflexivity]. }
  destruct Hcd as [-> | ->].
  - split.
    { eexists. split; [vm_compute; left; reflexivity|]. vm_compute. repeat split; reflexivity. }
    repeat split; try (vm_compute; reflexivity).
    intro Hc. specialize (Hc 0%nat 1%nat 1%nat ltac:(discriminate)). vm_compute in Hc. discriminate.
  - split.
    { eexists. split; [vm_compute; left; reflexivity|]. vm_compute. repeat split; reflexivity. }
    repeat split; try (vm_compute; reflexivity).
    intro Hc. specialize (Hc 0%nat 1%nat 1%nat ltac:(discriminate)). vm_compute in Hc. discriminate.
Qed.

(** Witness 1: call data whose inner call reverts (result code 3). *)
Theorem C03_old_refuted :
  exists s, reachable_old cfg0 s /\ user_holds_delivered_and_refunded s /\ ~ conserved cfg0 s.
Proof.
  exists (run_old cfg0 s0 (witness CdRevert)).
  destruct (witness_breaks CdRevert (or_introl eq_refl)) as (H1 & H2 & _ & _ & _ & _ & _ & H3). auto.
Qed.

(** Witness 2: EVM execution succeeds, the staking post-transaction hook fails (code 1). *)
Theorem C03_old_refuted_hook :
  exists s, reachable_old cfg0 s /\ user_holds_delivered_and_refunded s /\ ~ conserved cfg0 s.
Proof.
  exists (run_old cfg0 s0 (witness CdHookFail)).
  destruct (witness_breaks CdHookFail (or_intror eq_refl)) as (H1 & H2 & _ & _ & _ & _ & _ & H3). auto.
Qed.

(** The user's holdings in the refuted run: 10000 again on chain 0 AND 1000 on chain 1. *)
Theorem C03_old_refuted_balances :
  let s := run_old cfg0 s0 (witness CdRevert) in
  bal (chains s 0) 1 (User 0) = bal (chains s0 0) 1 (User 0) /\ bal (chains s 1) 1 (User 1) = 1000 /\
  out_tokens (chains s 0) 1 1 = 0 /\ bind_amt (chains s 1) 1 0 = 1000.
Proof. vm_compute. repeat split; reflexivity. Qed.
