(** C05 "an acknowledgement is processed at most once" is FALSE without the hypothesis "no client is registered
    under the chain's own name" (observation O7): witness on the faithful model; the same history is replayed on
    the real code by the harness (fixed case 1 of `-focus c05`, Spec.o7: the replayed acknowledgement is ACCEPTED by
    the real chain, setAckStatus / sendPacketFeeToRelayer / OnAcknowledgePacket run twice and the relayer fee is
    paid twice out of another packet's fee — the packet contract has no replay protection of its own).
    History on chain A (self-named TSS client): send p = (A,B,1); acknowledge p (commitment deleted);
    MsgRecvPacket carrying p's own bytes, "verified" by the self-named client: the relay branch of
    Keeper.RecvPacket re-creates commitment (A,B,1) with the same hash; the same acknowledgement is accepted again. *)
From Teleport Require Import Base.Bytes Base.Outcome Base.AList Model.Packet Model.PacketKeys
     Proofs.Packet Proofs.PacketC01 Proofs.PacketC04 Proofs.PacketKeys Proofs.PacketExamples Refuted.C04_selfclient.
Local Open Scope N_scope.

Definition p1 : packet := fst (ex_decode (pkt x61 x62 1)).
Definition replay_ops : list op :=
  [ (1, ASend (mkCb false [(p1, true)] None));
    (2, AAck (ack_of (pkt x61 x62 1)) cb_plain cb_plain cb_plain);
    (3, ARecv (recv_of (pkt x61 x62 1)) cb_ok);
    (4, AAck (ack_of (pkt x61 x62 1)) cb_plain cb_plain cb_plain) ].

Theorem C05_selfclient_refuted :
  exists (s : cstate) (ops : list op),
    valid_name exP (st_name s) = true /\
    (forall n c, aget n (st_clients s) = Some c -> valid_name exP n = true) /\
    (forall d k, valid_name exP d = true -> sget (ckey exP (own s d k)) s <> None -> below exP s d k) /\
    (forall d, valid_name exP d = true -> next_seq exP s (st_name s) d = Ok (cseq_view s d)) /\
    acklog_ok exP s /\ ~ noself s /\ ops_noself (st_name s) ops /\
    (* the fourth operation — a second acknowledgement of the same packet — is ACCEPTED *)
    snd (step exP (run exP s (firstn 3 ops)) (4, AAck (ack_of (pkt x61 x62 1)) cb_plain cb_plain cb_plain)) = true /\
    (* and each acknowledgement effect ran twice for packet (this chain, chain-b, 1) *)
    cnt (ackev 0 chB 1) (log (st_app (run exP s ops))) = 2%nat /\
    cnt (ackev 1 chB 1) (log (st_app (run exP s ops))) = 2%nat /\
    cnt (ackev 2 chB 1) (log (st_app (run exP s ops))) = 2%nat.
Proof.
  exists selfA, replay_ops.
  split; [reflexivity|]. split; [exact selfA_clients_valid|]. split.
  { intros d k _ H. exfalso. apply H. reflexivity. }
  split; [intros d _; reflexivity|].
  split; [exact (acklog_ok_empty exP selfA eq_refl)|].
  split; [intro H; discriminate H|].
  split; [unfold ops_noself, replay_ops; repeat (constructor; try exact I)|].
  vm_compute. repeat split; reflexivity.
Qed.

(** The PRE-fix chain ([run_prefix]) reaches the double acknowledgement from a FRESH chain: the governance proposal
    creating a client under the own name is accepted first (fix a9e74e1 removed exactly this). *)
Definition replay_ops_from_fresh : list op := (0, ARegisterClient chA 0 true) :: replay_ops.

Theorem C05_selfclient_reachable_before_fix :
  inv4 exP exA /\ noself exA /\ acklog_ok exP exA /\
  let s := run_prefix exP exA replay_ops_from_fresh in
  cnt (ackev 0 chB 1) (log (st_app s)) = 2%nat /\ cnt (ackev 1 chB 1) (log (st_app s)) = 2%nat /\
  cnt (ackev 2 chB 1) (log (st_app s)) = 2%nat.
Proof.
  split; [exact exA_inv4|]. split; [reflexivity|]. split; [exact (acklog_ok_empty exP exA eq_refl)|].
  vm_compute. repeat split; reflexivity.
Qed.
Print Assumptions C05_selfclient_reachable_before_fix.

(** On HEAD the proposal is refused, the forged receive is rejected (no client for its claimed source), the second
    acknowledgement is rejected with the state unchanged and every effect ran once. *)
Theorem C05_selfclient_refused_on_head :
  step exP exA (0, ARegisterClient chA 0 true) = (exA, false) /\
  let s3 := run exP exA (firstn 4 replay_ops_from_fresh) in
  step exP s3 (4, AAck (ack_of (pkt x61 x62 1)) cb_plain cb_plain cb_plain) = (s3, false) /\
  let s := run exP exA replay_ops_from_fresh in
  noself s /\ cnt (ackev 0 chB 1) (log (st_app s)) = 1%nat /\ cnt (ackev 1 chB 1) (log (st_app s)) = 1%nat /\
  cnt (ackev 2 chB 1) (log (st_app s)) = 1%nat.
Proof. vm_compute. repeat split; reflexivity. Qed.
Print Assumptions C05_selfclient_refused_on_head.
