(** * C14 — statements that were FALSE of the faithful model (the two findings of the replay engine)

    Both defects are repaired in /repo (fix b24f7c9, fix b88fea5; KNOWN_FINDINGS.txt "fixed:").  The transcriptions of
    the code BEFORE the repairs ([verify_cascading], [typed_event_attrs]) are kept in [Model/MapLoops.v] next to the
    transcriptions of the repaired code, whose independence is proved in [Props/C14.v]
    ([eth_seal_in_memory_env_independent], [typed_event_attrs_sorted_order_independent]).  The witness history of the
    first one (real main-net proof-of-work headers) is case 2 of every run of the replay engine; the seeded reverses
    C14-revert-fix-tmpdir / C14-revert-fix-eventorder re-exhibit both. *)
From Coq Require Import List String NArith Bool Permutation.
From Teleport Require Import Base.Bytes Base.Outcome Model.MapLoops.
Import ListNotations.

(** finding [eth-ethash-tmpdir]: the verdict of VerifyCascadingFields on a correctly sealed header depends on the
    node (its temporary directory), not only on the header *)
Theorem C14_eth_seal_depends_on_tmpdir_refuted :
  exists seal_ok env1 env2, verify_cascading env1 seal_ok <> verify_cascading env2 seal_ok.
Proof. exists true, true, false. vm_compute. discriminate. Qed.

(** finding [typed-event-attr-order]: two enumerations of the same attribute map (distinct keys) give different
    attribute lists *)
Theorem C14_typed_event_attrs_order_refuted :
  exists l l' : list (bytes * bytes),
    Permutation l l' /\ NoDup (map fst l) /\ typed_event_attrs l <> typed_event_attrs l'.
Proof.
  exists [(B "ack", B "1"); (B "packet", B "2")], [(B "packet", B "2"); (B "ack", B "1")].
  split; [apply perm_swap|]. split.
  - cbn. constructor; [intros [H|[]]; discriminate|]. constructor; [intros []|constructor].
  - vm_compute. discriminate.
Qed.
