(** D14 (repaired in /repo by e31d73b): before the repair the acknowledgement
    tuple named its last component "feeOption" while the struct's json tag is
    "fee_option"; [json.Unmarshal] matches names case-insensitively but does not
    drop underscores, so FeeOption was silently decoded as 0.  The pinned schema
    is kept here literally; the statement is about the same model functions
    ([encode], [decode], [schema_ok]) that serve the regenerated schemas. *)
From Teleport Require Import Base.Bytes Base.Outcome Base.Fmt Base.AbiSchema Model.Abi.
Local Open Scope N_scope.

Definition tuple_TupleAckData_old : list tfield :=
  [{| tf_name := B "code"; tf_ty := TU64 |};
   {| tf_name := B "result"; tf_ty := TBytes |};
   {| tf_name := B "message"; tf_ty := TStr |};
   {| tf_name := B "relayer"; tf_ty := TStr |};
   {| tf_name := B "feeOption"; tf_ty := TU64 |}].

Definition ack_schema_old : schema :=
  {| sc_struct :=
       [{| sf_go := B "Code"; sf_tag := Some (B "code,omitempty"); sf_ty := TU64 |};
        {| sf_go := B "Result"; sf_tag := Some (B "result,omitempty"); sf_ty := TBytes |};
        {| sf_go := B "Message"; sf_tag := Some (B "message,omitempty"); sf_ty := TStr |};
        {| sf_go := B "Relayer"; sf_tag := Some (B "relayer,omitempty"); sf_ty := TStr |};
        {| sf_go := B "FeeOption"; sf_tag := Some (B "fee_option,omitempty"); sf_ty := TU64 |}];
     sc_pack := tuple_TupleAckData_old; sc_unpack := tuple_TupleAckData_old |}.

Theorem ack_schema_old_not_ok : schema_ok ack_schema_old = false.
Proof. vm_compute. reflexivity. Qed.

(** fee option 7 is encoded, and decoded as 0 *)
Theorem ack_roundtrip_refuted :
  exists v bz, struct_val_ok ack_schema_old v = true /\ strings_valid v = true /\
    encode ack_schema_old v = Ok bz /\
    decode ack_schema_old bz = Ok [FU 1; FB [x01]; FS (B "m"); FS (B "r"); FU 0] /\
    v = [FU 1; FB [x01]; FS (B "m"); FS (B "r"); FU 7].
Proof.
  eexists [FU 1; FB [x01]; FS (B "m"); FS (B "r"); FU 7], _.
  split; [vm_compute; reflexivity|]. split; [vm_compute; reflexivity|].
  split; [vm_compute; reflexivity|]. split; [vm_compute; reflexivity | reflexivity].
Qed.
