(** Further statements that were FALSE of the faithful model of earlier code (each repaired by a [fix:] commit
    in /repo; each witness is a targeted sequence of the C12 check and was replayed on the real code before the
    repair; the reverse of each repair is a seeded mutation), and hypotheses of the C12 theorems shown to be
    NECESSARY. *)
From Teleport Require Import Base.Bytes Base.Outcome Base.AList Model.Registry Model.RegistryCheck
  Proofs.RegistryMap Proofs.Registry Proofs.RegistryInst Proofs.RegistrySource.

Definition with_flags (reindex guard direct gall hex base gaddr : bool) : variant :=
  {| v_reindex_all := reindex; v_update_guard := guard; v_mint_direct := direct; v_genesis_all := gall;
     v_reject_hex := hex; v_test_base := base; v_genesis_addr := gaddr |}.

Definition X : bytes := repeat x11 20.
Definition Y : bytes := repeat x22 20.
(* an address whose lower-case hex rendering starts with a letter: a valid bank denomination *)
Definition A : bytes := repeat xab 20.
Definition hexA : bytes := B "abababababababababababababababababababab".
Definition q : option erc20q := Some {| q_name := B "coin"; q_symbol := B "CN"; q_decimals := 18; q_sname := B "coin" |}.
Definition coin_md (base name : bytes) : metadata :=
  {| md_desc := B "a coin"; md_units := [(base, 0%N)]; md_base := base; md_display := base; md_name := name; md_symbol := B "CN" |}.

Notation runv v := (run hid0 canon0 (B "atele") v).
Notation stepv v := (step hid0 canon0 (B "atele") v).

Lemma not_consistent s : consistent_b hid0 s = false -> ~ Consistent hid0 s.
Proof. intros H C. apply consistent_b_complete in C. congruence. Qed.

(** AGG1 (before d79db8d): UpdateTokenPairERC20 X -> Y with Y registered: afterwards two pairs sit on contract
    Y and the address index knows only one of them. *)
Definition agg1_variant := with_flags true false true true true true true.
Theorem C12_update_to_registered_address_refuted :
  exists s o, Good hid0 s /\ admissible agg1_variant s o /\ ~ Consistent hid0 (fst (stepv agg1_variant s o)).
Proof.
  exists (runv agg1_variant empty_state [ORegisterERC20 (canon0 X) q; ORegisterERC20 (canon0 Y) q]), (OUpdate (canon0 X) (canon0 Y) q).
  split; [apply monitor_decides; vm_compute; split; reflexivity|]. split; [exact I|].
  apply not_consistent. vm_compute. reflexivity.
Qed.

(** AGG2 (before add27e7): MintingEnabled resolved the DENOMINATION through GetTokenPairID: the hex rendering of
    the contract's own address was accepted as a denomination the pair does not list (no governance needed). *)
Definition agg2_variant := with_flags true true false true true true true.
Theorem C12_minting_enabled_unlisted_denom_refuted :
  exists s p, Good hid0 s /\ minting_enabled agg2_variant s (canon0 A) hexA = Ok p /\ ~ In hexA (p_denoms p).
Proof.
  exists (runv agg2_variant empty_state [ORegisterERC20 (canon0 A) q]),
         {| p_text := canon0 A; p_denoms := [create_denom (canon0 A)]; p_enabled := true; p_owner := OWNER_EXTERNAL |}.
  split; [apply monitor_decides; vm_compute; split; reflexivity|]. split; [vm_compute; reflexivity|].
  intros [H|[]]. vm_compute in H. discriminate.
Qed.

(** C12a / observation O5 (before 0ed416e): a 40-hex-digit base passes ValidateBasic and is registered, but
    GetTokenPairID resolves it through the ADDRESS index: the coin's pair is not found by its denomination and
    ToggleTokenRelay(base) acts on the pair of the contract the string spells.  So "no registered denomination
    reads as a hex address" is NECESSARY for [C12_resolvable], and the code has to enforce it. *)
Definition c12a_variant := with_flags true true true true false true true.
Definition hex_ops : list op := [ORegisterERC20 (canon0 A) q; ORegisterCoin (coin_md hexA (B "hexcoin")) X true].
Theorem C12_hex_denom_refuted :
  admissible_run hid0 canon0 (B "atele") c12a_variant empty_state hex_ops /\
  let s := runv c12a_variant empty_state hex_ops in
  Consistent hid0 s /\                                   (* the raw maps are consistent ... *)
  (exists id p, aget id (st_pairs s) = Some p /\ In hexA (p_denoms p) /\ get_token_pair_id s hexA <> id) /\
  minting_enabled c12a_variant s hexA hexA = Err /\       (* ... but the coin can never be converted ... *)
  (exists id p, aget id (st_pairs s) = Some p /\ ~ In hexA (p_denoms p) /\          (* ... and a toggle of the *)
     aget id (st_pairs (fst (stepv c12a_variant s (OToggle hexA)))) <> Some p).     (* denomination hits ANOTHER pair *)
Proof.
  split; [vm_compute; repeat split|]. cbv zeta. split; [apply consistent_b_sound; vm_compute; reflexivity|]. split; [|split].
  - exists (hid0 (canon0 X) hexA), {| p_text := canon0 X; p_denoms := [hexA]; p_enabled := true; p_owner := OWNER_MODULE |}.
    split; [vm_compute; reflexivity|]. split; [left; reflexivity|]. vm_compute. discriminate.
  - vm_compute. reflexivity.
  - exists (hid0 (canon0 A) (create_denom (canon0 A))),
           {| p_text := canon0 A; p_denoms := [create_denom (canon0 A)]; p_enabled := true; p_owner := OWNER_EXTERNAL |}.
    split; [vm_compute; reflexivity|]. split; [intros [H|[]]; vm_compute in H; discriminate | vm_compute; discriminate].
Qed.

(** C12b (before 9872f3c): RegisterCoin tested IsDenomRegistered(Name).  Without "a registered denomination has
    bank metadata" ([MetaInv], e.g. a validated genesis whose pair has no bank metadata) the same base is
    registered twice: [MetaInv] is NECESSARY for [C12_registry_consistent_masked]. *)
Definition c12b_variant := with_flags true true true true true false true.
Theorem C12_name_test_refuted :
  exists s o, Consistent hid0 s /\ ~ MetaInv s /\ admissible c12b_variant s o /\ ~ Consistent hid0 (fst (stepv c12b_variant s o)).
Proof.
  exists (runv head empty_state [OGenesis [{| p_text := canon0 X; p_denoms := [B "dcoin"]; p_enabled := true; p_owner := OWNER_MODULE |}] []]),
         (ORegisterCoin (coin_md (B "dcoin") (B "Other name")) Y true).
  split; [apply consistent_b_sound; vm_compute; reflexivity|]. split; [|split].
  - intro M. apply (M (B "dcoin") (hid0 (canon0 X) (B "dcoin"))); vm_compute; reflexivity.
  - vm_compute. split; reflexivity.
  - apply not_consistent. vm_compute. reflexivity.
Qed.

(** AGG3 (before b7fa650): genesis Validate compared only Denoms[0]: a denomination in two pairs validated;
    a pair without denominations made Validate itself panic. *)
Definition agg3_variant := with_flags true true true false true true true.
Definition gp (a : bytes) (ds : list bytes) : pair := {| p_text := canon0 a; p_denoms := ds; p_enabled := true; p_owner := OWNER_MODULE |}.
Theorem C12_genesis_validate_refuted :
  (exists ps s', validate_genesis agg3_variant [] [] ps = Ok tt /\ init_genesis hid0 empty_state ps = Ok s' /\ ~ Consistent hid0 s') /\
  validate_genesis agg3_variant [] [] [gp X []] = Panic.
Proof.
  split; [|reflexivity].
  exists [gp X [B "acoin"; B "ccoin"]; gp Y [B "bcoin"; B "ccoin"]]. eexists.
  split; [vm_compute; reflexivity|]. split; [vm_compute; reflexivity|]. apply not_consistent. vm_compute. reflexivity.
Qed.

(** C12c (before d4e0f3e): genesis Validate de-duplicated contracts by their SPELLING: one contract in two
    pairs validated. *)
Definition c12c_variant := with_flags true true true true true true false.
Theorem C12_genesis_address_spelling_refuted :
  exists ps s', validate_genesis c12c_variant [] [] ps = Ok tt /\ init_genesis hid0 empty_state ps = Ok s' /\ ~ Consistent hid0 s'.
Proof.
  exists [gp X [B "dcoin"]; {| p_text := skipn 2 (canon0 X); p_denoms := [B "ecoin"]; p_enabled := true; p_owner := OWNER_MODULE |}]. eexists.
  split; [vm_compute; reflexivity|]. split; [vm_compute; reflexivity|]. apply not_consistent. vm_compute. reflexivity.
Qed.

(** The environment hypothesis of RegisterCoin is NECESSARY: if the address the module deploys to were already
    in the ERC20 index (a keccak collision), even the code at HEAD would leave two pairs on one contract. *)
Theorem C12_deploy_address_must_be_fresh :
  exists s o, Good hid0 s /\ ~ admissible head s o /\ ~ Consistent hid0 (fst (stepv head s o)).
Proof.
  exists (runv head empty_state [ORegisterERC20 (canon0 X) q]), (ORegisterCoin (coin_md (B "dcoin") (B "dcoin")) X true).
  split; [apply monitor_decides; vm_compute; split; reflexivity|]. split.
  - intros [_ H]. vm_compute in H. discriminate.
  - apply not_consistent. vm_compute. reflexivity.
Qed.

(** The other environment hypothesis is NECESSARY too: InitGenesis is only sound on an EMPTY registry (it runs
    once, at chain start).  Imported into a registry that already holds a pair on contract X, a perfectly valid
    genesis file with another pair on X overwrites X's address-index entry: two pairs on one contract. *)
Theorem C12_genesis_needs_empty_registry :
  exists s o, Good hid0 s /\ ~ admissible head s o /\ validate_basic o = true /\ snd (stepv head s o) = 0%nat /\
              ~ Consistent hid0 (fst (stepv head s o)).
Proof.
  exists (runv head empty_state [ORegisterERC20 (canon0 X) q]), (OGenesis [gp X [B "dcoin"]] []).
  split; [apply monitor_decides; vm_compute; split; reflexivity|]. split; [|split; [reflexivity|split; [vm_compute; reflexivity|]]].
  - intros [H _]. vm_compute in H. discriminate.
  - apply not_consistent. vm_compute. reflexivity.
Qed.

(** [Good] alone does not make the export validate: a registry that is self-consistent but lists a string that
    is no bank denomination (it can only come from an unvalidated import) exports a genesis that
    GenesisState.Validate refuses.  So "registered denominations are valid" ([ValidDenoms]) is a NECESSARY
    part of the invariant behind [C12_export_validates] - and it is an invariant of the code (same theorem). *)
Theorem C12_export_needs_valid_denoms :
  exists s s', init_genesis hid0 empty_state [gp X [B "1bad"]] = Ok s' /\ s = s' /\ Good hid0 s /\
               Model.RegistryExport.export_validates head s = false.
Proof.
  eexists. eexists. split; [vm_compute; reflexivity|]. split; [reflexivity|].
  split; [apply monitor_decides; vm_compute; split; reflexivity | vm_compute; reflexivity].
Qed.

(** Why the oracle hypothesis is restricted to hex-address texts: on ARBITRARY texts EVERY function of GetID's shape
    (hash of text ++ separator ++ denomination, whatever the hash and the separator) collides, because the separator may
    occur inside the text.  The unrestricted injectivity the first version of the C12 theorems assumed is therefore
    false of the real function; the restricted one is all the proofs need. *)
Theorem C12_getid_not_injective_on_arbitrary_texts : forall (H : bytes -> bytes) ps,
  getid_shape_ok ps = true ->
  exists t d t' d', t <> t' /\ hid_of_source H ps t d = hid_of_source H ps t' d'.
Proof. exact source_getid_collides. Qed.
