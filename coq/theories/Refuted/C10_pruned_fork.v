(** C10, finding eth-fork-below-pruned-prefix (O3): the meeting hypothesis of [C10_no_wedge] ("no header of
    the two branches above the fork point was pruned") is NECESSARY for the code as it is.
    Witness (trusting period 100 s, a block every 20 s, each header submitted 5 s after its timestamp):
    G; the sibling S1; M1 .. M10.  The updates M5 .. M10 prune the consensus states and headers of heights
    500 .. 505 (G, M1 .. M5) -- only main-chain entries are pruned, the stale sibling S1 (height 501) stays
    stored for ever.  Its rule-abiding child S2 meets every other hypothesis and is refused: RestrictChain
    looks for the consensus state of height 502.  The same history is the scenario
    "witness:eth-fork-below-pruned-prefix" of the harness and fails on the real code (KNOWN_FINDINGS.txt). *)
From Teleport Require Import Base.Bytes Base.Outcome Model.Eth Model.EthCheck Model.EthToy Proofs.EthChain Proofs.Eth Proofs.EthTop.
Local Open Scope N_scope.

Theorem C10_fork_below_pruned_prefix_refuted :
  hash_ok_b toy_hash univ2 = true /\
  exists hist s,
    Reach toy_hash toy_seal (fun a => In a univ2) 0 500 hist s /\ head s = M10 /\ base s = 506 /\
    iget (toy_hash S1, h_num S1) (idx s) = Some S1 /\                          (* S1 is stored *)
    active bt2 s = true /\ valid_child_b toy_hash toy_seal bt2 s S2 = true /\  (* S2 is its rule-abiding child *)
    h_rev S2 = h_rev (head s) /\ fresh_root_b toy_hash s S2 = true /\ noalias_b toy_hash s S2 = true /\
    upd bt2 s S2 = Err /\                                                      (* ... and is refused *)
    (* while a fork above the pruned prefix is accepted *)
    should_accept toy_hash toy_seal bt2 s T9 = true /\ exists s', upd bt2 s T9 = Ok s' /\ head s' = T9.
Proof.
  split; [vm_compute; reflexivity|].
  destruct (run_checked toy_hash toy_seal univ2 0 [G2] s0' hist_prune) as [[hs s]|] eqn:E; [|vm_compute in E; discriminate].
  exists hs, s. split.
  - eapply (run_checked_init toy_hash toy_seal univ2 0 500 4 100 G2); [..|exact E]; vm_compute; reflexivity.
  - vm_compute in E. inversion E; subst hs s. clear E.
    repeat (split; [vm_compute; reflexivity|]).
    eexists. split; vm_compute; reflexivity.
Qed.
