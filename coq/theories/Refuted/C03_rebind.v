(** The proviso [no_rebind] of the theorems over Model/BridgeGov.v is NECESSARY: registering a token binding a second
    time for the same (chain, local token, origin chain) — what [RegisterERC20Trace] -> [Endpoint.bindToken] accepts
    without any check (x/aggregate/keeper/proposals.go, token_trace.go; observed on two real chains with
    `harness/bin/c03 -probe-bind`, section 2) — resets [bindings.amount] to 0 while the vouchers minted so far still
    exist: the conservation equation breaks, the vouchers can no longer be sent back (the burn path is limited by
    [bindings.amount]) and the escrow on the origin chain stays locked.  This is a governance action, outside the
    histories the property quantifies over; it is reported in notes/C03.md. *)
From Coq Require Import List Arith PeanoNat NArith Bool Lia.
From Teleport Require Import Base.Outcome Model.Bridge Model.BridgeCheck Model.BridgeGov
  Proofs.Bridge Proofs.BridgeOutcome Proofs.BridgeBacking Proofs.BridgeGov.
Import ListNotations.
Local Open Scope N_scope.

Definition rb_cs : cstate :=
  {| bal := fun _ _ => 0; supply := fun _ => 0; out_tokens := fun _ _ => 0; bind_amt := fun _ _ => 0;
     next_seq := fun _ => 1; ack_status := fun _ _ => 0; fees := fun _ _ => (0%nat, 0); effects := fun _ => 0 |}.

(** user 0 holds 10000 of token 1 on chain 0 *)
Definition rb_s0 : state :=
  {| chains := fun c => if Nat.eqb c 0
                        then set_supply (set_bal rb_cs (fun t h => if Nat.eqb t 1 && holder_eqb h (User 0) then 10000 else 0))
                                        (fun t => if Nat.eqb t 1 then 10000 else 0)
                        else rb_cs;
     packets := [] |}.

(** token 1 of chain 1 represents token 1 of chain 0, scale 0 *)
Definition rb_binds : list bentry := [(1%nat, 1%nat, 0%nat, 1%nat, 1)].

(** 1000 transferred and delivered; then the same pair is registered again with scale 1 *)
Definition rb_history : list gop :=
  [ GOp (Transfer 0 0 1 1000 1 (Some (User 1)) CdNone false 1 0); GOp (Recv 0 1 1); GOp (Ack 0 1 1);
    GBind (1%nat, 1%nat, 0%nat, 1%nat, 10) ].

Lemma rb_init : init_ok rb_s0.
Proof. split; [reflexivity|]. intros A B t. unfold rb_s0; cbn. destruct (Nat.eqb A 0); split; reflexivity. Qed.

Theorem C03_rebind_refuted :
  let g := grun (ginit 2 rb_binds rb_s0) rb_history in
  binds_ok rb_binds = true /\ init_ok rb_s0 /\
  ~ no_rebind (ginit 2 rb_binds rb_s0) rb_history /\
  (* the state just before the second registration satisfies everything *)
  conserved (g_cfg (grun (ginit 2 rb_binds rb_s0) (firstn 3 rb_history))) (g_st (grun (ginit 2 rb_binds rb_s0) (firstn 3 rb_history))) /\
  (* afterwards: 1000 escrowed on chain 0, 1000 vouchers held by user 1 on chain 1, minted amount recorded: 0 *)
  out_tokens (chains (g_st g) 0) 1 1 = 1000 /\ bal (chains (g_st g) 0) 1 Endpoint = 1000 /\
  bal (chains (g_st g) 1) 1 (User 1) = 1000 /\ supply (chains (g_st g) 1) 1 = 1000 /\
  bind_amt (chains (g_st g) 1) 1 0 = 0 /\
  ~ conserved (g_cfg g) (g_st g) /\
  (* and not one unit of the vouchers can be sent back: the escrow is locked for good *)
  (forall amt, amt <> 0 -> step (g_cfg g) (g_st g) (Transfer 1 1 1 amt 0 (Some (User 0)) CdNone false 1 0) = Err).
Proof.
  intro g. split; [reflexivity|]. split; [exact rb_init|]. split.
  { intro H. cbn in H. destruct H as (_ & _ & _ & H & _). vm_compute in H. discriminate. }
  split.
  { apply (grun_conserved 2 rb_binds rb_s0 (firstn 3 rb_history)); [reflexivity|exact rb_init|].
    cbn. repeat split. }
  repeat split; try (vm_compute; reflexivity).
  - intro Hc. specialize (Hc 0%nat 1%nat 1%nat ltac:(discriminate)). vm_compute in Hc. discriminate.
  - intros amt Ha. unfold step, step_gen, transfer_chain.
    replace (dst_ok (g_cfg g) 1 0) with true by (vm_compute; reflexivity).
    unfold transfer_evm. destruct (amt =? 0) eqn:E; [apply N.eqb_eq in E; contradiction|]. cbn [andb].
    unfold take_tokens. rewrite E.
    replace (bound (g_cfg g) 1 1 0) with (Some (1%nat, 10)) by (vm_compute; reflexivity).
    replace (bind_amt (chains (g_st g) 1) 1 0) with 0 by (vm_compute; reflexivity).
    assert (amt * 10 <=? 0 = false) as -> by (apply N.leb_gt; lia).
    rewrite andb_false_r. reflexivity.
Qed.
