(** (Since fix a9e74e1 — HandleCreateClient refuses the chain's own name — the witnesses below are statements about
    (i) an INITIAL state that already contains a self-named client (still possible through an imported genesis) and
    (ii) the PRE-fix code, [exec_prefix] / [run_prefix], where a governance proposal creates it on a fresh chain;
    [C04_selfclient_refused_on_head] shows that the same history is harmless on HEAD.)

    C04 is FALSE without the hypothesis "no client is registered under the chain's own name" (observation O7):
    witness on the faithful model, replayed on the real code by the harness (fixed case 1 of `-focus c04`, Spec.o7).
    With a (TSS) client stored under chain A's own name, a MsgRecvPacket on A whose packet claims
    SrcChain = A, DstChain = B passes ValidatePacket (src = this chain), is "verified" by that client, and the relay
    branch of Keeper.RecvPacket writes a commitment under (A, B, seq) — here seq = 7 while nextSequenceSend(A,B) = 1:
    a stored commitment that no send produced, beyond the counter.  (HandleCreateClient does not forbid the name.) *)
From Teleport Require Import Base.Bytes Base.Outcome Base.AList Model.Packet Model.PacketKeys
     Proofs.Packet Proofs.PacketC01 Proofs.PacketC04 Proofs.PacketKeys Proofs.PacketExamples.
Local Open Scope N_scope.

Definition selfA : cstate := mkState [] [(chA, 0); (chB, 1)] chA ex_relayers (mkApp [] []).

Lemma selfA_clients_valid : forall n c, aget n (st_clients selfA) = Some c -> valid_name exP n = true.
Proof.
  intros n c H. unfold selfA in H. cbn [st_clients aget] in H.
  destruct (bytes_eqb_spec n chA) as [->|_]; [reflexivity|].
  destruct (bytes_eqb_spec n chB) as [->|_]; [reflexivity | discriminate].
Qed.

Theorem C04_selfclient_refuted :
  exists (s : cstate) (o : op),
    (* every conjunct of the C04 invariant except "no client under the own name" holds, and the operation is not a
       client registration *)
    valid_name exP (st_name s) = true /\
    (forall n c, aget n (st_clients s) = Some c -> valid_name exP n = true) /\
    (forall d k, valid_name exP d = true -> sget (ckey exP (own s d k)) s <> None -> below exP s d k) /\
    (forall d, valid_name exP d = true -> next_seq exP s (st_name s) d = Ok (cseq_view s d)) /\
    ~ noself s /\ act_noself (st_name s) (snd o) /\
    (* one accepted message later a commitment exists under (this chain, chain-b, 7) although the next sequence is 1 *)
    snd (step exP s o) = true /\
    next_seq exP (fst (step exP s o)) (st_name s) chB = Ok 1 /\
    sget (ckey exP (st_name s, chB, 7)) (fst (step exP s o)) <> None /\
    ~ (7 < 1 \/ 1 = 0).
Proof.
  exists selfA, (1, ARecv (recv_of (pkt x61 x62 7)) cb_ok).
  split; [reflexivity|]. split; [exact selfA_clients_valid|]. split.
  { intros d k _ H. exfalso. apply H. reflexivity. }
  split; [intros d _; reflexivity|].
  split; [intro H; discriminate H|]. split; [exact I|].
  split; [vm_compute; reflexivity|]. split; [vm_compute; reflexivity|].
  split; [vm_compute; discriminate | lia].
Qed.

(** The PRE-fix chain reaches that state from a FRESH chain satisfying every invariant: the governance proposal creating
    a (TSS) client under the own name is accepted by [register_client_prefix], then the forged receive goes through. *)
Definition o7_ops4 : list op :=
  [ (1, ARegisterClient chA 0 true); (2, ARecv (recv_of (pkt x61 x62 7)) cb_ok) ].

Theorem C04_selfclient_reachable_before_fix :
  inv4 exP exA /\ noself exA /\
  let s := run_prefix exP exA o7_ops4 in
  ~ noself s /\ next_seq exP s chA chB = Ok 1 /\ sget (ckey exP (chA, chB, 7)) s <> None /\ ~ (7 < 1 \/ 1 = 0).
Proof.
  split; [exact exA_inv4|]. split; [reflexivity|]. cbv zeta.
  split; [vm_compute; discriminate|]. split; [vm_compute; reflexivity|]. split; [vm_compute; discriminate | lia].
Qed.
Print Assumptions C04_selfclient_reachable_before_fix.

(** On HEAD the proposal is refused with the state unchanged, the forged receive finds no client for its claimed
    source, and the whole history changes nothing. *)
Theorem C04_selfclient_refused_on_head :
  step exP exA (1, ARegisterClient chA 0 true) = (exA, false) /\
  run exP exA o7_ops4 = exA /\ noself (run exP exA o7_ops4) /\
  sget (ckey exP (chA, chB, 7)) (run exP exA o7_ops4) = None.
Proof. vm_compute. repeat split; reflexivity. Qed.
Print Assumptions C04_selfclient_refused_on_head.
