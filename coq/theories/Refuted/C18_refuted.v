(** Statements of C18 that were FALSE of the faithful model of the code before the repairs; every witness
    was replayed on the real code (harness/cmd/c18 corpus; KNOWN_FINDINGS.txt "fixed:" entries).  Each
    code variant differs from [head_cfg] in exactly the repair under discussion, except the first three,
    which use the pinned commit's behaviour. *)
From Teleport Require Import Base.Bytes Base.Outcome Base.AList Model.Lifecycle.
Local Open Scope N_scope.

Definition name : bytes := B "chain-a".
Definition rel : bytes := B "relayer".
Definition t0 : N := 1000 * ns_per_s.
Definition tmk : cons_state := {| cs_type := TM; cs_ts := t0 - 60 * ns_per_s; cs_root := B "root"; cs_dg := B "k" |}.
Definition tmc (h : height) : client_state := ClTm h (500 * ns_per_s) (10 * ns_per_s) 0 (B "rest").
Definition ehd (n : N) (hash parent : bytes) (tm : N) : evm_hdr :=
  {| eh_height := (0, n); eh_hash := hash; eh_parent := parent; eh_root := B "root"; eh_time := tm; eh_dg := hash;
     eh_coinbase := B "val1"; eh_signer := Some (B "val1"); eh_vals := Some [B "val1"]; eh_cons_dg := hash |}.
Definition ethk : cons_state := {| cs_type := ETH; cs_ts := 900; cs_root := B "root"; cs_dg := B "k" |}.
Definition ethc : client_state := ClEth (ehd 100 (B "e100") (B "e99") 900) 0 100000 (B "rest").
Definition tssc : client_state := ClTss rel (B "keys0").
Definition tssk : cons_state := {| cs_type := TSS; cs_ts := 0; cs_root := []; cs_dg := B "k" |}.
Definition prop (c : client_state) (k : cons_state) : proposal := {| p_name := name; p_client := c; p_cons := k; p_validate := true |}.

Definition with_flags (a b c d e f : bool) : cfg :=
  {| f_toggle_new := a; f_tss_height := b; f_upgrade_tss_nocons := c; f_tm_upgrade_meta := d; f_toggle_clear := e; f_cons_type_check := f;
     f_eth_root_check := true; f_eth_rev_check := true; f_eth_old_header := true |}.

(** D11 (pinned ToggleClient ran the OLD client state's Initialize).
    TSS -> Tendermint "succeeds", but no processed time is recorded: an honest proof at the installed height
    is refused for ever (gate class 4 at EVERY block time). *)
Theorem C18_toggle_old_refuted :
  exists st', step pinned_cfg (run pinned_cfg (empty_state t0) [Create (prop tssc tssk)]) (Toggle (prop (tmc (1, 42)) tmk)) = (0%nat, st') /\
    sget (KPTime (1, 42)) (store_of st' name) = None /\
    forall t, gate t (B "root") [] (tmc (1, 42)) (store_of st' name) (1, 42) = 4%nat.
Proof. eexists. split; [vm_compute; reflexivity|]. split; [vm_compute; reflexivity|]. intro t. reflexivity. Qed.

(** ... and Tendermint -> TSS always fails (Tendermint's Initialize rejects the TSS consensus state). *)
Theorem C18_toggle_old_tm_to_tss_refuted :
  let st := run pinned_cfg (empty_state t0) [Create (prop (tmc (1, 42)) tmk)] in
  step pinned_cfg st (Toggle (prop tssc tssk)) = (1%nat, st).
Proof. vm_compute. reflexivity. Qed.

(** D13 (pinned TSS header returned a nil height): a valid TSS update from the TSS account panics. *)
Theorem C18_tss_update_old_refuted :
  let st := run pinned_cfg (empty_state t0) [Register rel [name] true; Create (prop tssc tssk)] in
  step pinned_cfg st (Update name (HTss (B "relayer2") (B "keys1")) rel true) = (2%nat, st).
Proof. vm_compute. reflexivity. Qed.

(** G1 (UpgradeClient stored a consensus state for a TSS client, at the zero height). *)
Theorem C18_upgrade_tss_old_refuted :
  let cf := with_flags true true false true true true in
  let st := run cf (empty_state t0) [Create (prop tssc tssk); Upgrade (prop tssc tssk)] in
  sget (KCons (0, 0)) (store_of st name) = Some (VCons tssk).
Proof. vm_compute. reflexivity. Qed.

(** (i) Tendermint UpgradeState was a no-op: after a successful upgrade to 0-10 an honest proof at the
    upgraded height is refused at every block time (processed time missing). *)
Theorem C18_upgrade_old_refuted :
  let cf := with_flags true true true false true true in
  exists st', step cf (run cf (empty_state t0) [Create (prop (tmc (0, 5)) tmk)]) (Upgrade (prop (tmc (0, 10)) tmk)) = (0%nat, st') /\
    status (now st') (tmc (0, 10)) (store_of st' name) = 0%nat /\
    forall t, gate t (B "root") [] (tmc (0, 10)) (store_of st' name) (0, 10) = 4%nat.
Proof. eexists. split; [vm_compute; reflexivity|]. split; [vm_compute; reflexivity|]. intro t. reflexivity. Qed.

(** (ii) ToggleClient kept the old type's entries: Tendermint at 0-5, toggled to ETH at 0-100; the client is
    Active, the child header is valid, the relayer is authorised — and the update fails (the pruning step
    meets the Tendermint consensus state).  With the store cleared the same update succeeds. *)
Definition o6_history : list op :=
  [Register rel [name] true; Create (prop (tmc (0, 5)) tmk); Toggle (prop ethc ethk)].
Definition o6_update : op := Update name (HEvm ETH (ehd 101 (B "e101") (B "e100") 913) true) rel true.

Theorem C18_toggle_leftover_refuted :
  let cf := with_flags true true true true false true in
  let st := run cf (empty_state t0) o6_history in
  status (now st) ethc (store_of st name) = 0%nat /\
  step cf st o6_update = (1%nat, st) /\
  fst (step head_cfg (run head_cfg (empty_state t0) o6_history) o6_update) = 0%nat.
Proof. vm_compute. repeat split; reflexivity. Qed.

(** (iii) A consensus state of another client type was accepted: an ETH client with a Tendermint consensus
    state is installed with status Unknown; a TSS client state with one gets a consensus state at 0-0. *)
Theorem C18_cons_type_refuted :
  let cf := with_flags true true true true true false in
  (exists st', step cf (empty_state t0) (Create (prop ethc tmk)) = (0%nat, st') /\
               status (now st') ethc (store_of st' name) = 2%nat) /\
  (exists st', step cf (empty_state t0) (Create (prop tssc tmk)) = (0%nat, st') /\
               sget (KCons (0, 0)) (store_of st' name) = Some (VCons tmk)).
Proof. split; eexists; split; vm_compute; reflexivity. Qed.
