(** D7 (repaired in /repo by f424384): before the repair the iterators parsed
    keys containing BINARY big-endian heights with [strings.Split(key, "/")].
    A revision number or height with a byte 0x2F was cut into extra fields and
    the entry silently skipped.  The old parsers are kept in Model/Keys.v
    ([*_old]); here the statement "every stored key is read back" is refuted for
    them with height 47 (= 0x2F), and a consensus state key is shown to be taken
    for a client state. *)
From Teleport Require Import Base.Bytes Base.Outcome Base.Fmt Gen.KeysGen Model.Keys.
Local Open Scope N_scope.

Definition h47 : height := {| rev_number := 0; rev_height := 47 |}.

(** client keeper IterateConsensusStates (genesis export) *)
Theorem split_consensus_key_refuted :
  exists name h, valid_chain_name name = true /\ valid_height h = true /\
    iter_consensus_states_old (full_consensus_state_key name h) = Ok Skip.
Proof. exists (B "chain-a"), h47. repeat split; vm_compute; reflexivity. Qed.

(** the same key IS read back by the repaired parser *)
Theorem fixed_consensus_key_47 :
  iter_consensus_states (full_consensus_state_key (B "chain-a") h47) = Got (B "chain-a", h47).
Proof. vm_compute. reflexivity. Qed.

(** tendermint IterateProcessedTime (metadata export) *)
Theorem split_processed_time_refuted :
  exists h, valid_height h = true /\ iter_processed_time_old (tm_processed_time_key h) = Skip.
Proof. exists h47. split; vm_compute; reflexivity. Qed.

(** BSC / ETH IterateConsensusStateAscending (pruning) *)
Theorem split_evm_consensus_refuted :
  exists h, valid_height h = true /\ iter_evm_consensus_old (consensus_state_key h) = Ok Skip.
Proof. exists h47. split; vm_compute; reflexivity. Qed.

(** IterateClients: the consensus state at revision 0x2F636C69, height
    0x656E745374617465 ("/cli" ++ "entState") was taken for a client state *)
Theorem split_clients_refuted :
  exists name h, valid_chain_name name = true /\ valid_height h = true /\
    iter_clients_old (full_consensus_state_key name h) = Ok (Got name).
Proof.
  exists (B "chain-a"), {| rev_number := 795044969; rev_height := 7308907147052545125 |}.
  repeat split; vm_compute; reflexivity.
Qed.
