(** Observation about returning tokens (NOT a finding, see notes/C16.md): the statement "the middleware only ever
    converts coins that the packet delivered" is false of the faithful model.  For a packet that returns native
    coins the hook computes hash(destPort/destChannel/sourcePort/sourceChannel/base), not the released denomination;
    in a registry state where THAT denomination is registered and the receiver happens to hold coins of it, the hook
    converts those prior holdings.  Such a state cannot arise through ICS-20 over the channel
    (Props/C16.v: C16_returning_preimage_never_minted) — it needs coins of that "ibc/.." denomination created by
    genesis or another module — and the property as stated still holds in it: the acknowledgement is the transfer
    application's, the RECEIVED coins are untouched (C16_other_denominations_untouched), the conversion that does
    happen is a full one (C16_conversion_atomic). *)
From Coq Require Import List ZArith Bool.
From Teleport Require Import Base.Bytes Base.Outcome Model.Ics20 Proofs.Ics20 Proofs.Ics20Toy.
Import ListNotations.
Local Open Scope Z_scope.

Theorem C16_returning_refuted : exists st pkt st1 st2,
  receiver_chain_is_source (pk_sport pkt) (pk_schan pkt) (fd_denom data_return) = true /\
  toy_transfer data_return 100 (Some RCV) st pkt = Ok (st1, ok_ack) /\
  toy_mw data_return (Some RCV) st pkt = Ok (st2, Some ok_ack, Some HConverted) /\
  received_denom toy_sha pkt data_return = B "atele" /\ RVOUCHER <> B "atele" /\
  bal st1 RCV (B "atele") = bal st RCV (B "atele") + 100 /\    (* 100 atele released to the receiver *)
  bal st2 RCV (B "atele") = bal st1 RCV (B "atele") /\         (* ... and left alone by the hook *)
  bal st1 RCV RVOUCHER = bal st RCV RVOUCHER /\                 (* no coin of the hook's denomination was delivered *)
  bal st2 RCV RVOUCHER = bal st RCV RVOUCHER - 100 /\           (* yet 100 of the receiver's prior holdings are converted *)
  tok st2 CTR RCV = 100.
Proof.
  exists (world_h 250 1 RVOUCHER RCV 0 true), pkt0. do 2 eexists.
  split; [vm_compute; reflexivity|]. split; [vm_compute; reflexivity|]. split; [vm_compute; reflexivity|].
  vm_compute. repeat split; try reflexivity. discriminate.
Qed.
Print Assumptions C16_returning_refuted.
