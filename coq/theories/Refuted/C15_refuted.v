(** The statement "whatever the stateless validation accepts is executed without a panic" was FALSE
    for the code of the pinned commit ([*_old] model functions) and is still false, without the stated
    hypotheses, for two genesis paths at /repo HEAD.  Each witness below was replayed on the real code
    by the C15 harness (corpus cases of harness/cmd/c15/corpus.go; KNOWN_FINDINGS.txt). *)
From Teleport Require Import Base.Bytes Base.Outcome Model.Rvesting Model.Halt Model.HaltAgg.
From Coq Require Import ZArith Lia.
Local Open Scope N_scope.

Definition w_header (h extra bloom nonce : N) : header :=
  {| hd_height := mkH 0 h; hd_extra_len := extra; hd_mix := []; hd_uncle := uncle_hash; hd_root := []; hd_diff := [x02];
     hd_bloom_len := bloom; hd_nonce_len := nonce; hd_gas_limit := 30000000; hd_gas_used := 1 |}.

Definition w_create (cs : client_state) (k : cons_state) : xprop := PCreate (B "t") 1 (B "chain-a") (AnyVal cs) (AnyVal k).

(** D4a - BSC client state with Epoch = 0: Validate looked only at the header, Initialize computes
    height % Epoch.  (Fixed by 73e1317.) *)
Theorem C15_bsc_epoch_zero_refuted :
  exists p, xprop_validate_old p = Ok tt /\ forall now native, handle_xprop_old now false native [] p = Panic.
Proof. exists (w_create (CsBSC (w_header 200 137 256 8) 56 0 1000 true) (ConsBSC 5)). split; [reflexivity | intros; reflexivity]. Qed.

(** ... and through UpgradeClient on an existing BSC client. *)
Theorem C15_bsc_epoch_zero_upgrade_refuted :
  exists s p, xprop_validate_old p = Ok tt /\ forall now native, handle_xprop_old now false native s p = Panic.
Proof.
  exists [(B "chain-a", {| c_client := Some (CsBSC (w_header 200 137 256 8) 56 200 1000 true); c_cons := []; c_signers := [] |})],
         (PUpgrade (B "t") 1 (B "chain-a") (AnyVal (CsBSC (w_header 400 137 256 8) 56 0 1000 true)) (AnyVal (ConsBSC 5))).
  split; [reflexivity | intros; reflexivity].
Qed.

(** D4b - ETH client state whose height-0 header has a 257-byte bloom: ValidateBasic converted the header
    only for heights above 0, Initialize always does (BytesToBloom panics).  (Fixed by 4b52eb5.) *)
Theorem C15_eth_bloom_refuted :
  exists p, xprop_validate_old p = Ok tt /\ forall now native, handle_xprop_old now false native [] p = Panic.
Proof. exists (w_create (CsETH (w_header 0 10 257 0) 1000) (ConsETH 5 [])). split; [reflexivity | intros; reflexivity]. Qed.

(** D4d - BSC chain id >= 2^63: big.NewInt(int64(ChainId)) is negative, rlp refuses it and
    encodeSigHeader panics.  (Fixed by d773954.) *)
Theorem C15_bsc_chain_id_refuted :
  exists p, xprop_validate_old p = Ok tt /\ forall now native, handle_xprop_old now false native [] p = Panic.
Proof. exists (w_create (CsBSC (w_header 200 137 256 8) 9223372036854775808 200 1000 true) (ConsBSC 5)). split; [reflexivity | intros; reflexivity]. Qed.

(** D4c - BSC header with an over-long bloom / nonce above height 0: the VALIDATION itself panicked
    (ToBscHeader) instead of returning an error.  (Fixed by 3eea1ca; at height 0 such a header was
    accepted and poisoned every later update.) *)
Theorem C15_bsc_validate_panics_refuted :
  exists p, xprop_validate_old p = Panic /\ xprop_validate p = Err.
Proof. exists (w_create (CsBSC (w_header 200 137 257 8) 56 200 1000 true) (ConsBSC 5)). split; reflexivity. Qed.

(** The repaired validation rejects every one of these witnesses. *)
Theorem C15_witnesses_now_rejected :
  xprop_validate (w_create (CsBSC (w_header 200 137 256 8) 56 0 1000 true) (ConsBSC 5)) = Err /\
  xprop_validate (w_create (CsETH (w_header 0 10 257 0) 1000) (ConsETH 5 [])) = Err /\
  (forall now native, handle_xprop now false native [] (w_create (CsBSC (w_header 200 137 256 8) 9223372036854775808 200 1000 true) (ConsBSC 5)) <> Panic).
Proof.
  repeat split; try reflexivity. intros now native. unfold w_create, handle_xprop, handle_xprop_gen. cbn [negb andb].
  destruct (bytes_eqb (B "chain-a") native); [discriminate|]. vm_compute. discriminate.
Qed.

(** D5 - rvesting reward parameters (duplicate / bank-invalid denominations) accepted by the pinned
    validatePerBlockReward made BeginBlocker panic: the witnesses of Refuted/C20_refuted.v, proved here directly (this file does not depend on C20's development
    beyond Model/Rvesting.v). *)
Theorem C15_rvesting_params_dup_refuted :
  exists r s, validate_rewards_old r = true /\ (forall d, (0 <= get (pool s) d)%Z) /\
    begin_block {| enable := true; rewards := r |} s = Panic.
Proof.
  exists [(B "atele", 5%Z); (B "atele", 7%Z)], {| pool := [(B "atele", 8%Z)]; fee := []; others := []; supply := [] |}.
  split; [reflexivity|]. split; [|reflexivity].
  intro d; cbn [get pool]. destruct (bytes_eqb (B "atele") d); lia.
Qed.

Theorem C15_rvesting_params_denom_refuted :
  exists r s, validate_rewards_old r = true /\ begin_block {| enable := true; rewards := r |} s = Panic.
Proof.
  exists [(B "1", 5%Z)], {| pool := []; fee := []; others := []; supply := [] |}. split; reflexivity.
Qed.

(** aggregate genesis at the pinned commit: Validate indexed Denoms[0] before any length check, i.e. the
    validation itself panicked on a pair without denominations.  (Fixed by b7fa650.) *)
Theorem C15_aggregate_genesis_validate_old_refuted :
  exists l, ga_validate_old l = Panic /\ ga_validate l = Err.
Proof. exists [{| gp_erc20 := B "0x5dCA2483280D9727c80b5518faC4556617fb194F"; gp_denoms := [] |}]. split; reflexivity. Qed.

(** Finding xibc-genesis-relayer-empty-address (found by this check; fixed by d9df21a): the client genesis
    validation did not look at the relayers; an empty relayer address is an empty store key in InitGenesis.
    The hypothesis [relayers_nonempty] of validated_never_panics_xibc_genesis_old is necessary. *)
Definition w_gx : gx_genesis :=
  {| gx_clients := []; gx_consensus := []; gx_metadata := [];
     gx_relayers := [{| rl_addr_len := 0; rl_bech32 := false; rl_chains := [B "chain-a"]; rl_n_addresses := 1 |}];
     gx_native := B "teleport"; gx_acks := []; gx_commitments := []; gx_receipts := []; gx_seqs := [] |}.

Theorem C15_xibc_genesis_relayer_refuted : exists g, gx_validate_old g = Ok tt /\ gx_init g = Panic.
Proof. exists w_gx. split; reflexivity. Qed.

(** ... the repaired validation rejects the witness. *)
Theorem C15_xibc_genesis_relayer_now_rejected : gx_validate w_gx = Err.
Proof. reflexivity. Qed.

(** Finding bsc-upgrade-malformed-signer-key (found by this check; fixed by 0d61436): genesis metadata is validated only
    for a non-empty key and value; the key "recentSingers" (prefix without "/<height>") under a BSC client is
    imported, and the next validated UpgradeClient proposal for that client indexes
    strings.Split(key, "/")[1] in DeleteAllSigner: a panic inside the governance handler.  The state
    invariant [xstate_wf] of validated_never_panics_xibc_proposal_old_parser is necessary, and InitGenesis
    of a VALIDATED genesis can break it. *)
Definition w_bsc : client_state := CsBSC (w_header 200 137 256 8) 56 200 1000 true.
Definition w_gx_signer : gx_genesis :=
  {| gx_clients := [(B "bsc-chain", AnyVal w_bsc)]; gx_consensus := [];
     gx_metadata := [(B "bsc-chain", [(B "recentSingers", 1)])]; gx_relayers := []; gx_native := B "teleport";
     gx_acks := []; gx_commitments := []; gx_receipts := []; gx_seqs := [] |}.

Theorem C15_bsc_signer_key_refuted :
  exists g p, gx_validate g = Ok tt /\ gx_init g = Ok tt /\ xprop_validate p = Ok tt /\
    forall now native, handle_xprop now false native (gx_state g) p = Panic.
Proof.
  exists w_gx_signer, (PUpgrade (B "t") 1 (B "bsc-chain") (AnyVal w_bsc) (AnyVal (ConsBSC 5))).
  repeat split; try reflexivity.
Qed.

(** ... and with the repaired parser the same proposal fails with an ordinary error. *)
Theorem C15_bsc_signer_key_patched :
  forall now native, handle_xprop now true native (gx_state w_gx_signer) (PUpgrade (B "t") 1 (B "bsc-chain") (AnyVal w_bsc) (AnyVal (ConsBSC 5))) = Err.
Proof. intro; reflexivity. Qed.

(** OPEN by design (finding rvesting-genesis-unfunded-from): ValidateGenesis cannot see the bank genesis;
    InitGenesis panics when the funding account does not hold the initial reward.  The hypothesis [covers]
    of validated_never_panics_rvesting_genesis is necessary. *)
Theorem C15_rvesting_genesis_unfunded_refuted : exists g, gr_validate g = Ok tt /\ gr_init_genesis g = Panic.
Proof.
  exists {| gr_rewards := [(B "atele", 5%Z)]; gr_from_empty := false; gr_from_ok := true;
            gr_init := [(B "atele", 100%Z)]; gr_from_bal := [(B "atele", 99%Z)] |}.
  split; reflexivity.
Qed.

(** The state invariant [aenv_wf] of validated_never_panics_aggregate_proposal is necessary: in a module state
    with a stored token pair WITHOUT denominations (which no validated genesis and no handler produces -
    validated_aggregate_genesis_establishes_invariant, validated_aggregate_history_never_halts) a validated
    ToggleTokenRelay proposal panics in TokenPair.GetID (Denoms[0]). *)
Definition w_aenv : aenv :=
  {| e_enabled := true; e_evm_denom := B "atele"; e_denom_registered := fun _ => false; e_erc20_registered := fun _ => false;
     e_has_supply := fun _ => true; e_bank_meta := fun _ => None; e_meta_equal := true;
     e_pair_id := fun _ => Some (B "id"); e_pair := fun _ => Some {| p_erc20 := B "0x5dCA2483280D9727c80b5518faC4556617fb194F"; p_denoms := [] |};
     e_id_same := true; e_abi_pack_ok := true; e_evm_ok := true; e_query_erc20 := fun _ => None; e_created_meta_ok := true;
     e_update_matches := true |}.

Theorem C15_aggregate_invariant_needed :
  exists e p, aprop_validate p = Ok tt /\ handle_aprop e p = Panic.
Proof. exists w_aenv, (AToggle (B "t") 1 (B "ucoin")). split; reflexivity. Qed.
