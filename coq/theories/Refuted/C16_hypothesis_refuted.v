(** The hypothesis "the aggregate module account is a blocked address" of [C16_conversion_atomic] / [C16_end_to_end] is
    NECESSARY (it is a fact of app.go: BlockedAddrs covers every module account except distribution; monitor kind 53 checks
    it on the real app in every run).  In a state where the module account is NOT blocked, a packet whose receiver IS the
    module account makes the hook "convert" the module's own coins: the escrow is a transfer of the account to itself, so
    the vouchers are not debited while 100 tokens are minted — neither the untouched state nor a full conversion.  No
    violation of C16 on the real chain (the transfer application refuses a blocked receiver with an error acknowledgement,
    after which the hook is not called: directed case `receiver-blocked-aggregate-module`). *)
From Coq Require Import List ZArith Bool.
From Teleport Require Import Base.Bytes Base.Outcome Model.Ics20 Proofs.Ics20 Proofs.Ics20Convert Proofs.Ics20Toy.
Import ListNotations.
Local Open Scope Z_scope.

(** [world] with an empty list of blocked addresses; the module account is the receiver and holds 5 vouchers *)
Definition unblocked_world : cstate :=
  {| c_enabled := true;
     c_denom_idx := [(VOUCHER, [x01])]; c_erc20_idx := [(CTR, [x01])]; c_pairs := [([x01], the_pair 1 VOUCHER)];
     c_bank := [((MOD, VOUCHER), 5)]; c_supply := [(VOUCHER, 5)];
     c_tokens := []; c_tok_total := []; c_code := [CTR]; c_blocked := []; c_send_disabled := [] |}.

Theorem C16_hypothesis_refuted : exists st pkt st1 a st2 hp,
  length MOD = 20%nat /\ mem1 MOD (c_blocked st) = false /\
  toy_transfer data_mint 100 (Some MOD) st pkt = Ok (st1, a) /\
  toy_mw data_mint (Some MOD) st pkt = Ok (st2, Some a, hp) /\ hp = Some HConverted /\
  bal st1 MOD VOUCHER = 105 /\ bal st2 MOD VOUCHER = 105 /\      (* the 100 received vouchers were NOT debited ... *)
  tok st1 CTR MOD = 0 /\ tok st2 CTR MOD = 100 /\                (* ... yet 100 tokens were minted *)
  ~ after_middleware MOD toy_sha (fun _ => Some data_mint) (fun _ => Some 100) (fun _ => Some MOD) pkt st1 st2 hp.
Proof.
  exists unblocked_world, pkt0. do 4 eexists.
  split; [reflexivity|]. split; [reflexivity|]. split; [vm_compute; reflexivity|]. split; [vm_compute; reflexivity|].
  split; [reflexivity|]. split; [vm_compute; reflexivity|]. split; [vm_compute; reflexivity|].
  split; [vm_compute; reflexivity|]. split; [vm_compute; reflexivity|].
  intros H. destruct H as [E _|d amt id p _ _ _ _ _ _ (_ & _ & Ht & _) _|d amt id p _ Ed Ea _ _ _ Hfull].
  - apply (f_equal (fun s => tok s CTR MOD)) in E. vm_compute in E. discriminate E.
  - apply (f_equal (fun t => get2 t (CTR, MOD))) in Ht. vm_compute in Ht. discriminate Ht.
  - inversion Ed; subst d. inversion Ea; subst amt. destruct Hfull as [_ _ Hdeb _ _ _ _ _ _ _].
    vm_compute in Hdeb. discriminate Hdeb.
Qed.
Print Assumptions C16_hypothesis_refuted.
