(** Defect D6 (pinned behaviour): [UpdateTokenPairERC20] deleted the denom-index entries of ALL denominations of
    the pair and re-created only [Denoms[0]].  The statements "Consistent is preserved by every operation" and
    "convert back is possible" were FALSE of the faithful model of that code ([update_pair_old]).
    Witness (replayed on the real code by the C12 check, targeted sequence -1; repaired by /repo 7121e2c, the
    reverse of which is seeded mutation C12-revert-fix-d6):
      RegisterERC20 X; AddCoin dcoin X; UpdateTokenPairERC20 X -> Y. *)
From Teleport Require Import Base.Bytes Base.Outcome Base.AList Model.Registry Model.RegistryCheck
  Proofs.RegistryMap Proofs.Registry Proofs.RegistryInst.

(** the code as it was before 7121e2c (everything else as at HEAD) *)
Definition d6_variant : variant :=
  {| v_reindex_all := false; v_update_guard := true; v_mint_direct := true; v_genesis_all := true;
     v_reject_hex := true; v_test_base := true; v_genesis_addr := true |}.

Definition update_pair_old hid canon := update_pair hid canon d6_variant.

Definition X : bytes := repeat x11 20.
Definition Y : bytes := repeat x22 20.
Definition q : option erc20q := Some {| q_name := B "coin"; q_symbol := B "CN"; q_decimals := 18; q_sname := B "coin" |}.
Definition md : metadata :=
  {| md_desc := B "the dcoin coin"; md_units := [(B "dcoin", 0%N)]; md_base := B "dcoin"; md_display := B "dcoin";
     md_name := B "dcoin"; md_symbol := B "DCOIN" |}.
Definition before_ops : list op := [ORegisterERC20 (canon0 X) q; OAddCoin md (canon0 X) true].
Definition the_update : op := OUpdate (canon0 X) (canon0 Y) q.

Notation run0 := (run hid0 canon0 (B "atele") d6_variant).
Notation step0 := (step hid0 canon0 (B "atele") d6_variant).

(** the update step itself is the old function *)
Lemma the_update_is_old s : fst (step0 s the_update) = fst (commit s (update_pair_old hid0 canon0 s (canon0 X) (canon0 Y) q)).
Proof. unfold step. replace (validate_basic the_update) with true by (vm_compute; reflexivity). reflexivity. Qed.

(** From a good registry, an admissible update leads to a registry that is NOT consistent: the pair lists
    [dcoin] but the denom index has no entry for it. *)
Theorem C12_update_refuted :
  exists s, Good hid0 s /\ admissible d6_variant s the_update /\
    let s' := fst (step0 s the_update) in
    ~ Consistent hid0 s' /\
    (exists id p, aget id (st_pairs s') = Some p /\ In (B "dcoin") (p_denoms p) /\ aget (B "dcoin") (st_denom s') = None).
Proof.
  exists (run0 empty_state before_ops). split; [|split; [exact I|]].
  - apply monitor_decides. vm_compute. split; reflexivity.
  - cbv zeta. split.
    + intro C. apply consistent_b_complete in C. vm_compute in C. discriminate.
    + exists (hid0 (canon0 Y) (create_denom (canon0 X))),
             {| p_text := canon0 Y; p_denoms := [create_denom (canon0 X); B "dcoin"]; p_enabled := true; p_owner := OWNER_EXTERNAL |}.
      split; [vm_compute; reflexivity|]. split; [right; left; reflexivity | vm_compute; reflexivity].
Qed.

(** ... and the coin can no longer be converted back although the operation did not explicitly remove or
    disable its pair. *)
Theorem C12_update_convert_back_refuted :
  exists s p id, Good hid0 s /\ admissible d6_variant s the_update /\
    minting_enabled d6_variant s (B "dcoin") (B "dcoin") = Ok p /\ pair_id hid0 p = Ok id /\
    ~ explicit hid0 d6_variant s the_update id /\
    minting_enabled d6_variant (fst (step0 s the_update)) (B "dcoin") (B "dcoin") = Err.
Proof.
  exists (run0 empty_state before_ops),
         {| p_text := canon0 X; p_denoms := [create_denom (canon0 X); B "dcoin"]; p_enabled := true; p_owner := OWNER_EXTERNAL |},
         (hid0 (canon0 X) (create_denom (canon0 X))).
  split; [apply monitor_decides; vm_compute; split; reflexivity|].
  split; [exact I|]. split; [vm_compute; reflexivity|]. split; [vm_compute; reflexivity|].
  split; [intros []|]. vm_compute. reflexivity.
Qed.
