(** The hypotheses of the C19 theorems are NECESSARY: each statement below is the
    positive theorem with one hypothesis dropped, refuted on the same model
    functions by a concrete witness.

    - strings must be well-formed UTF-8 ([strings_valid]): the JSON step of
      ABIDecode replaces every ill-formed byte by U+FFFD;
    - chain names must not contain the separator ([valid_chain_name]): "a/b","c"
      and "a","b/c" give the same packet key;
    - equal commitments mean equal packets only up to a collision of the hash;
    - IterateProcessedTime must skip the fixed-width consensus-state keys before
      the suffix test: the 16 binary height bytes can END in "/processedTime";
    - the text parser of the bsc recent-signer keys accepts keys no builder
      writes (leading zeros): parse-then-render is not the identity outside the
      written keys. *)
From Teleport Require Import Base.Bytes Base.Outcome Base.Fmt Base.AbiSchema Gen.KeysGen Gen.AbiSchemaGen
  Model.Keys Model.Abi Proofs.AbiRoundtrip.
Local Open Scope N_scope.

(** a lone continuation byte 0x80 in the contract address of a call-data value *)
Theorem invalid_utf8_not_roundtrip :
  exists v bz v', struct_val_ok call_data_schema v = true /\ strings_valid v = false /\
    encode call_data_schema v = Ok bz /\ decode call_data_schema bz = Ok v' /\ v' <> v.
Proof.
  exists [FS [x80]; FB [x01]].
  eexists. exists [FS [xef; xbf; xbd]; FB [x01]].
  split; [vm_compute; reflexivity|]. split; [vm_compute; reflexivity|].
  split; [vm_compute; reflexivity|]. split; [vm_compute; reflexivity | discriminate].
Qed.

Theorem separator_in_chain_name_collides :
  exists t1 t2, t1 <> t2 /\ t_seq t1 < two64 /\ t_seq t2 < two64 /\
    packet_commitment_key t1 = packet_commitment_key t2 /\
    packet_receipt_key t1 = packet_receipt_key t2 /\ packet_ack_key t1 = packet_ack_key t2 /\
    valid_chain_name (t_src t1) = false /\ valid_chain_name (t_dst t2) = false.
Proof.
  exists {| t_src := B "abc/def"; t_dst := B "ghi"; t_seq := 1 |}, {| t_src := B "abc"; t_dst := B "def/ghi"; t_seq := 1 |}.
  split; [discriminate|]. repeat split; vm_compute; reflexivity.
Qed.

(** with a hash that collides, two different packets have the same commitment *)
Theorem commit_needs_collision_freedom :
  exists (h : bytes -> bytes) v w c,
    struct_val_ok packet_schema v = true /\ strings_valid v = true /\
    struct_val_ok packet_schema w = true /\ strings_valid w = true /\
    commit h packet_schema v = Ok c /\ commit h packet_schema w = Ok c /\ v <> w.
Proof.
  exists (fun _ => [x00]),
    [FS (B "abc"); FS (B "def"); FU 1; FS []; FB [x01]; FB []; FS []; FU 0],
    [FS (B "abc"); FS (B "def"); FU 2; FS []; FB [x01]; FB []; FS []; FU 0], [x00].
  repeat split; try (vm_compute; reflexivity). discriminate.
Qed.

(** the filter of IterateProcessedTime WITHOUT the skip of consensus-state keys
    (suffix test only) hands out a consensus-state key *)
Definition iter_processed_time_suffix_only (k : bytes) : seen bytes :=
  if has_suffix tm_KeyProcessedTime k then Got k else Skip.

Theorem suffix_only_processed_time_refuted :
  exists h, valid_height h = true /\
    iter_processed_time_suffix_only (consensus_state_key h) = Got (consensus_state_key h) /\
    iter_processed_time (consensus_state_key h) = Skip.
Proof.
  exists {| rev_number := 52160002745189; rev_height := 8319104418270768485 |}.
  repeat split; vm_compute; reflexivity.
Qed.

(** "recentSingers/007-1" is read as height 7-1, whose key is "recentSingers/7-1" *)
Theorem signer_parser_accepts_unwritten_keys :
  exists k h, bsc_signer_height_parse k = Ok h /\ valid_height h = true /\ bsc_recent_signer_key h <> k.
Proof.
  exists (B "recentSingers/007-1"), {| rev_number := 7; rev_height := 1 |}.
  split; [vm_compute; reflexivity|]. split; [vm_compute; reflexivity|]. vm_compute. discriminate.
Qed.
