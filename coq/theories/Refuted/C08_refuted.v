(** C08 -- statements that WERE false of the faithful model of the code before fix commit 0ebe7e9
    ("ETH and BSC proof verification rejects proof heights of another revision"), with witnesses.
    [verify_old] is that code ([Model/EvmProof.v], [revgate = false]); the positive theorems of
    Props/C08.v are about the repaired code ([verify]).

    The property says an accepted proof has a height "not above the client's head" with "the required
    number of confirmation blocks passed".  The old code checked [!head.LT(height)] -- [Height.Compare]
    orders by REVISION NUMBER first -- and [head.RevisionHeight - height.RevisionHeight >= delay] in uint64
    on the revision heights only.  Nothing in the ETH / BSC header validation constrains the revision
    number of a submitted header (it is not part of the block hash), so a client can hold consensus states
    of revision 0 and a head of revision 1.  Then a consensus state whose revision height is ABOVE the head
    passed the head gate (0 < 1) and the delay gate (the subtraction wraps to almost 2^64). *)
From Teleport Require Import Base.Bytes Base.Outcome Model.EvmProof Model.EvmProofCheck Model.EvmProofWitness
     Model.EvmProofMpt Proofs.EvmProofRlp Proofs.EvmProof Proofs.EvmProofDelay Proofs.EvmProofMpt.
Local Open Scope N_scope.

(** For ALL oracles: any proof the old code accepted at height [h] stayed accepted under ANY head of a
    higher revision number whose (wrapped) distance passes the delay gate -- in particular heads far
    below [h]. *)
Theorem C08_gate_bypass_refuted : forall keccak256 mpt_verify json_proof cs cstore h p ack src dst seq c head',
  verify_old keccak256 mpt_verify json_proof cs cstore (Some h) (Some p) ack src dst seq c = Ok tt ->
  rn h < rn head' ->
  delay_block cs <= sub64 (rh head') (rh h) ->
  verify_old keccak256 mpt_verify json_proof
         {| cs_kind := cs_kind cs; cs_head := head'; cs_contract := cs_contract cs;
            cs_block_delay := cs_block_delay cs; cs_nvalidators := cs_nvalidators cs |}
         cstore (Some h) (Some p) ack src dst seq c = Ok tt.
Proof. exact gate_bypass_old. Qed.
Print Assumptions C08_gate_bypass_refuted.

(** Concrete witness, replayed on the real code by every check (harness/cmd/c08/corpus.jsonl, case 900002;
    tables = real Keccak256 / trie.VerifyProof / encoding/json results): head 1-96135, proof height 0-96141,
    delay 8.  The old code accepted it (both Go copies returned nil before 0ebe7e9; [verify_old] = Ok); the
    repaired code rejects it (observed classes 1 / 1, [verify] = Err) and the property monitor is silent. *)
Theorem C08_height_above_head_refuted :
  exists c h,
    c_height c = Some h /\ h64 h /\ h64 (c_head c) /\
    rh (c_head c) < rh h /\                                   (* proof height 6 blocks ABOVE the head *)
    0 < delay_block (cs_of c ETH) /\ 0 < delay_block (cs_of c BSC) /\
    verify_old (keccak_of c) (mpt_of c) (json_of c) (cs_of c ETH) (cstore_of c) (c_height c) (c_proof c)
               (c_ack c) (c_src c) (c_dst c) (c_seq c) (c_commitment c) = Ok tt /\
    verify_old (keccak_of c) (mpt_of c) (json_of c) (cs_of c BSC) (cstore_of c) (c_height c) (c_proof c)
               (c_ack c) (c_src c) (c_dst c) (c_seq c) (c_commitment c) = Ok tt /\
    (* the repaired code: model and observation *)
    verify (keccak_of c) (mpt_of c) (json_of c) (cs_of c ETH) (cstore_of c) (c_height c) (c_proof c)
           (c_ack c) (c_src c) (c_dst c) (c_seq c) (c_commitment c) = Err /\
    verify (keccak_of c) (mpt_of c) (json_of c) (cs_of c BSC) (cstore_of c) (c_height c) (c_proof c)
           (c_ack c) (c_src c) (c_dst c) (c_seq c) (c_commitment c) = Err /\
    c_eth_class c = 1%nat /\ c_bsc_class c = 1%nat /\
    mismatches [c] = [] /\ monitor_failures [c] = [].
Proof.
  exists witness_above_head, {| rn := 0; rh := 96141 |}. vm_compute.
  repeat split; try reflexivity; try discriminate.
Qed.
Print Assumptions C08_height_above_head_refuted.

(** Hence the numeric reading of the old gates was false. *)
Theorem C08_numeric_gate_refuted :
  ~ (forall keccak256 mpt_verify json_proof cs cstore h p ack src dst seq c,
       h64 h -> h64 (cs_head cs) ->
       verify_old keccak256 mpt_verify json_proof cs cstore (Some h) (Some p) ack src dst seq c = Ok tt ->
       rh h <= rh (cs_head cs)).
Proof.
  intro H.
  destruct C08_height_above_head_refuted as (c & h & EH & Hh & HH & LT & _ & _ & V & _).
  destruct (c_proof c) as [p|] eqn:EP.
  - rewrite EH in V.
    assert (HH' : h64 (cs_head (cs_of c ETH))) by exact HH.
    specialize (H _ _ _ _ _ _ _ _ _ _ _ _ Hh HH' V). cbn [cs_of cs_head] in H. lia.
  - rewrite EH in V. apply verify_gen_ok_iff in V. destruct V as (? & ? & _ & E & _). discriminate.
Qed.
Print Assumptions C08_numeric_gate_refuted.

(** [GetDelayTime] of the BSC client is a uint64 product that can wrap: with 2 validators (depth 2) and a block
    interval of 2^63 the delay time is 0.  (Not used by the proof verification of these clients -- it is the
    Tendermint client that checks a time delay -- so this is an observation, not a finding of C08.) *)
Theorem C08_bsc_delay_time_wraps_refuted :
  ~ (forall n iv, n < 2 ^ 63 -> iv < two64 -> iv <= delay_time BSC n iv 0).
Proof.
  intro H. destruct Proofs.EvmProofDelay.bsc_delay_time_wraps as (n & iv & L & B & W).
  specialize (H n iv L B). lia.
Qed.
Print Assumptions C08_bsc_delay_time_wraps_refuted.

(** "A ... padded ... proof is rejected" (property text), read literally -- every proof with surplus nodes is
    rejected -- is FALSE of the code: go-ethereum turns the node list into a hash-keyed set, so for ALL Keccak
    functions, client states, stores and paths, appending ANY nodes to the account-proof list and to the
    storage-proof list of an accepted proof gives an accepted proof.  Observed on the real code on every run
    (generator families acct-nodes-padded / storage-nodes-padded).  This is malleability of the encoding of a TRUE
    claim, not a soundness hole: what is proved instead is that no proof -- padded, truncated or otherwise
    mutated -- of a FALSE claim is accepted (Props/C08.v: C08_false_claim_rejected_mpt,
    C08_accepted_value_unique_mpt). *)
Theorem C08_padded_proof_rejected_refuted :
  forall keccak256 json_proof cs cstore h p p' r extra_acct extra_st ack src dst seq c,
  verify keccak256 (mpt_verify_g keccak256) json_proof cs cstore (Some h) (Some p) ack src dst seq c = Ok tt ->
  json_proof p = Some r -> json_proof p' = Some (pad_record r extra_acct extra_st) ->
  verify keccak256 (mpt_verify_g keccak256) json_proof cs cstore (Some h) (Some p') ack src dst seq c = Ok tt.
Proof. exact padded_still_accepted. Qed.
Print Assumptions C08_padded_proof_rejected_refuted.
