(** C10, eth-revision-number (O2): the hypothesis that every accepted header carries the client's revision
    number is NECESSARY for the code as it is.  Height.RevisionNumber of a header is supplied by the relayer
    and is not covered by the block hash; nothing compares it with the client's; the keeper files the
    consensus state under the header's full height and RestrictChain reads / writes consensus states under
    the NEW header's revision number.
    Witness: G (revision 0); A1 submitted with revision number 1 (accepted: it extends the head); its sibling
    B1 with revision 0 (accepted; RestrictChain re-points (0, 101), the state (1, 101) of A1 stays); the child
    C2 of B1 submitted with revision 1 (accepted: extends the head).  Now the head is C2 at height (1, 102),
    its ancestor at height 101 is B1, and the consensus state kept under (1, 101) -- a height of the head's
    revision, below the head, accepted by the proof-height gates -- is A1's.
    Stated for [unrepaired] = the code without the candidate repair eth-revision-number.diff (which is [cur], the
    code of /repo, as long as [fix_rev = false] in Model/Eth.v); the repair refuses A1@rev1.  The harness runs the
    scenarios "witness:eth-revision-prune-wedge / -prune / -reorg" on the real code. *)
From Teleport Require Import Base.Bytes Base.Outcome Model.Eth Model.EthCheck Model.EthToy Proofs.EthChain Proofs.Eth Proofs.EthTop.
Local Open Scope N_scope.

Definition r1 := st_of (upd_un bt1 s0 A1r).
Definition r2 := st_of (upd_un bt1 r1 B1).
Definition r3 := st_of (upd_un bt1 r2 C2r).

Theorem C10_revision_number_refuted :
  (* each submission was a rule-abiding child of a stored header when it was submitted, and was accepted *)
  valid_child_b toy_hash toy_seal bt1 s0 A1r = true /\ upd_un bt1 s0 A1r = Ok r1 /\
  valid_child_b toy_hash toy_seal bt1 r1 B1 = true /\ upd_un bt1 r1 B1 = Ok r2 /\
  valid_child_b toy_hash toy_seal bt1 r2 C2r = true /\ upd_un bt1 r2 C2r = Ok r3 /\
  run toy_hash toy_seal unrepaired s0 hist_rev = Ok r3 /\
  head r3 = C2r /\ h_rev (head r3) = 1 /\ h_num (head r3) = 102 /\
  nth_anc (idx r3) (head r3) 1 = Some B1 /\
  cget (1, 101) (cons r3) = Some (cstate_of A1r) /\ c_root (cstate_of A1r) <> c_root (cstate_of B1) /\
  main_chain_ok [] r3 = false.
Proof.
  split; [vm_compute; reflexivity|]. split; [vm_compute; reflexivity|].
  split; [vm_compute; reflexivity|]. split; [vm_compute; reflexivity|].
  split; [vm_compute; reflexivity|]. split; [vm_compute; reflexivity|].
  split; [vm_compute; reflexivity|].
  split; [vm_compute; reflexivity|]. split; [vm_compute; reflexivity|]. split; [vm_compute; reflexivity|].
  split; [vm_compute; reflexivity|]. split; [vm_compute; reflexivity|].
  split; [vm_compute; discriminate|]. vm_compute. reflexivity.
Qed.

(** A stored header re-submitted with another revision number is accepted as well and leaves a second
    consensus state for its height (the hypothesis [noalias_b] excludes it): G; A1; A1 again with revision 1. *)
Definition q2 := st_of (upd_un bt1 (st_of (upd_un bt1 s0 A1)) A1r).
Theorem C10_revision_resubmission_refuted :
  run toy_hash toy_seal unrepaired s0 [(bt1, A1); (bt1, A1r)] = Ok q2 /\ head q2 = A1r /\
  cget (0, 101) (cons q2) = Some (cstate_of A1) /\ cget (1, 101) (cons q2) = Some (cstate_of A1r) /\
  length (idx q2) = 2%nat.
Proof.
  split; [vm_compute; reflexivity|]. split; [vm_compute; reflexivity|]. split; [vm_compute; reflexivity|].
  split; [vm_compute; reflexivity|]. vm_compute. reflexivity.
Qed.
