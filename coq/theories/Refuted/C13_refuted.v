(** Statements of C13 that are FALSE of a faithful model.

    (a) of the code BEFORE the repairs (each witness was replayed on the real code by the C13 check before the
        fix commit; KNOWN_FINDINGS.txt "fixed:" entries f424384, 35da315, 503423e): the Split-based key
        parsing, the Tendermint export without iteration keys, the ToggleClient that kept the old entries;
    (b) of the CURRENT code when the hypothesis of the positive theorems is dropped: a state outside
        [wf_xibc] is not reproduced; states that violate [valid_xibc] export a genesis the validation
        rejects — so the hypotheses are necessary. *)
From Teleport Require Import Base.Bytes Base.Outcome Base.AList Base.Fmt Gen.KeysGen Model.Keys Model.Genesis Model.GenesisCheck.
From Teleport Require Import Proofs.GenesisExample.
Local Open Scope N_scope.

Definition xexport (ec : store -> outcome (client_genesis bytes bytes)) (s : store) :=
  export_xibc_with bytes bytes ec s.
Definition ec_split := export_client_split bytes bytes (o_cs_unmarshal T0) (o_cs_type T0) (o_cons_unmarshal T0) (o_rel_unmarshal T0).
Definition ec_old := export_client_old bytes bytes (o_cs_unmarshal T0) (o_cs_type T0) (o_cons_unmarshal T0) (o_rel_unmarshal T0).
Definition ec_noiter := export_client_noiter bytes bytes (o_cs_unmarshal T0) (o_cs_type T0) (o_cons_unmarshal T0) (o_rel_unmarshal T0).
Definition ec_head := export_client bytes bytes (o_cs_unmarshal T0) (o_cs_type T0) (o_cons_unmarshal T0) (o_rel_unmarshal T0).
Definition ximport := import_xibc bytes bytes (fun v => v) (fun v => v) (o_rel_marshal T0).

(** D7: with Split-based parsing the consensus state at height 0-47 (key bytes contain 0x2F) is not exported;
    after the import the store lacks it (and its processed time). *)
Theorem C13_split_refuted :
  exists s g s', m_wf_xibc T0 s = true /\ xexport ec_split s = Ok g /\ ximport g = Ok s' /\
    aget (full_consensus_state_key (B "abc") (hh 0 47)) s <> None /\
    aget (full_consensus_state_key (B "abc") (hh 0 47)) s' = None /\
    aget (client_store_prefix (B "abc") ++ tm_processed_time_key (hh 0 47)) s' = None /\
    aget (full_consensus_state_key (B "abc") (hh 0 303)) s' = None /\
    aget (full_consensus_state_key (B "abc") (hh 47 9)) s' = None.
Proof.
  exists s0. eexists. eexists. split; [vm_compute; reflexivity|]. split; [vm_compute; reflexivity|].
  split; [vm_compute; reflexivity|]. repeat split; vm_compute; congruence.
Qed.

(** D8: without the iteration keys in the Tendermint export, every Tendermint client loses them. *)
Theorem C13_tm_iteration_refuted :
  exists s g s', m_wf_xibc T0 s = true /\ xexport ec_noiter s = Ok g /\ ximport g = Ok s' /\
    aget (client_store_prefix (B "abc") ++ tm_iteration_key (hh 0 303)) s <> None /\
    aget (client_store_prefix (B "abc") ++ tm_iteration_key (hh 0 303)) s' = None.
Proof.
  exists s0. eexists. eexists. split; [vm_compute; reflexivity|]. split; [vm_compute; reflexivity|].
  split; [vm_compute; reflexivity|]. split; vm_compute; congruence.
Qed.

(** the complete pre-repair export (D7 + D8) on the same state: the store is not reproduced *)
Theorem C13_old_export_refuted :
  exists s g s', m_wf_xibc T0 s = true /\ xexport ec_old s = Ok g /\ ximport g = Ok s' /\ store_eqb s s' = false.
Proof.
  exists s0. eexists. eexists. split; [vm_compute; reflexivity|]. split; [vm_compute; reflexivity|].
  split; vm_compute; reflexivity.
Qed.

(** [wf_xibc] is necessary (O6): an entry of another client type under "clients/<name>/" — as the pre-repair
    ToggleClient left behind — is exported by nobody; the CURRENT export/import does not reproduce the store. *)
Theorem C13_foreign_metadata_refuted :
  exists s g s', m_wf_xibc T0 s = false /\ xexport ec_head s = Ok g /\ ximport g = Ok s' /\ store_eqb s s' = false.
Proof.
  exists s_foreign. eexists. eexists. split; [vm_compute; reflexivity|]. split; [vm_compute; reflexivity|].
  split; vm_compute; reflexivity.
Qed.

(** The conditions of [valid_xibc] are necessary for the export to validate (current Validate):
    a consensus state of another client type than the client state (O6), *)
Theorem C13_mixed_types_refuted :
  exists s g, m_wf_xibc T0 s = true /\ m_valid_xibc T0 s = false /\ xexport ec_head s = Ok g /\
    validate_xibc bytes bytes (o_cs_type T0) (o_cs_valid T0) (o_cons_type T0) (o_cons_valid T0) (o_acc_ok T0) g = false.
Proof. exists s_mixed. eexists. repeat split; vm_compute; reflexivity. Qed.

(** a zero-height consensus state of a client type without height zero (G1: TSS; here Tendermint), *)
Theorem C13_zero_height_refuted :
  exists s g, m_wf_xibc T0 s = true /\ m_valid_xibc T0 s = false /\ xexport ec_head s = Ok g /\
    validate_xibc bytes bytes (o_cs_type T0) (o_cs_valid T0) (o_cons_type T0) (o_cons_valid T0) (o_acc_ok T0) g = false.
Proof. exists s_zero. eexists. repeat split; vm_compute; reflexivity. Qed.

(** a metadata entry with an empty value (OBS-2: the empty pending-validators entry of the BSC client). *)
Theorem C13_empty_metadata_refuted :
  exists s g, m_wf_xibc T0 s = true /\ m_valid_xibc T0 s = false /\ xexport ec_head s = Ok g /\
    validate_xibc bytes bytes (o_cs_type T0) (o_cs_valid T0) (o_cons_type T0) (o_cons_valid T0) (o_acc_ok T0) g = false.
Proof. exists s_empty_md. eexists. repeat split; vm_compute; reflexivity. Qed.

(** a relayer the stateless relayer checks refuse (d9df21a: validation now looks at the relayers). *)
Theorem C13_bad_relayer_refuted :
  exists s g, m_wf_xibc T0 s = true /\ m_valid_xibc T0 s = false /\ xexport ec_head s = Ok g /\
    validate_xibc bytes bytes (o_cs_type T0) (o_cs_valid T0) (o_cons_type T0) (o_cons_valid T0) (o_acc_ok T0) g = false.
Proof. exists s_bad_relayer. eexists. repeat split; vm_compute; reflexivity. Qed.

(** ... whereas the zero-height consensus state of the ETH client "abc-1" in [s0] is accepted (OBS-1 repaired) *)
Theorem C13_evm_zero_height_accepted :
  exists g, aget (full_consensus_state_key (B "abc-1") (hh 0 0)) s0 <> None /\ xexport ec_head s0 = Ok g /\
    validate_xibc bytes bytes (o_cs_type T0) (o_cs_valid T0) (o_cons_type T0) (o_cons_valid T0) (o_acc_ok T0) g = true.
Proof. eexists. split; [vm_compute; congruence|]. split; vm_compute; reflexivity. Qed.

(** D9: were the ETH consensus state to report the BSC client type, the export of any ETH client would be rejected *)
Theorem C13_eth_type_refuted :
  exists g, xexport ec_head s0 = Ok g /\
    validate_xibc bytes bytes (o_cs_type T0) (o_cs_valid T0)
      (fun v => match o_cons_type T0 v with ETH => BSC | t => t end) (o_cons_valid T0) (o_acc_ok T0) g = false.
Proof. eexists. split; vm_compute; reflexivity. Qed.
