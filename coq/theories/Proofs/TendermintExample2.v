(** Concrete history for C07 (non-vacuity of the history-level theorems): a client
    with a delay period, a skipping update, an adjacent update that prunes the
    initial (expired) consensus state, a header replacing a stored height, proofs
    honoured / refused around the delay, and an expired client. *)
From Teleport Require Import Base.Bytes Base.Outcome Model.Tendermint Model.TendermintCheck
  Proofs.TendermintStore Proofs.TendermintVerify Proofs.Tendermint Proofs.TendermintMonitor
  Proofs.TendermintExample Proofs.TendermintHistory.
Local Open Scope Z_scope.

Definition h2_client : client_state :=
  {| cs_chain_id := nv_chain; cs_tl_num := 1; cs_tl_den := 3; cs_trusting := 1000; cs_unbonding := 2000;
     cs_drift := 10; cs_latest := mkH 2 5; cs_delay := 30; cs_rest := [] |}.
Definition h2_cons0 : cons_state := {| c_time := 100; c_root := [x09]; c_nvh := nv_valset_hash (nv_inp nv_trusted) |}.
Definition h2_store0 : store := create_client [] h2_client h2_cons0 100.

(** skip 5 -> 9 at clock 160; adjacent 9 -> 10 at clock 1110 (the state of height 5,
    time 100, trusting period 1000, is expired and pruned); a second, different
    header for height 10 (trusted at 9 again) at clock 1115 *)
Definition h2_hdr9 : header := nv_header.
Definition h2_hdr10 : header := nv_mk_header 10 1100 nv_own nv_own nv_own (mkH 2 9) [nv_sig x01 1100; nv_sig x03 1100].
Definition h2_hdr10b : header := nv_mk_header 10 1101 nv_own nv_own nv_own (mkH 2 9) [nv_sig x01 1101; nv_sig x03 1101].
Definition h2_ops : list (header * Z) := [(h2_hdr9, 160); (h2_hdr10, 1110); (h2_hdr10b, 1115)].

Definition h2_result : store * list event :=
  Eval vm_compute in run_log nv_valset_hash nv_header_hash nv_verify_sig h2_store0 [init_event h2_client h2_cons0 100] h2_ops.

(** toy proof oracle: the "proof" is the root itself *)
Definition h2_member (_ : client_state) (root pf : bytes) (_ : bool) (_ : bytes * bytes * N) (_ : bytes) : bool := bytes_eqb root pf.
Definition h2_verify (now : Z) (h : height) : outcome unit :=
  match client_of (fst h2_result) with
  | Some cs => verify_packet (fun _ => true) h2_member cs (fst h2_result) now h (Some [x01; x02]) false ([], [], 1%N) []
  | None => Panic
  end.

Lemma history_nonvacuous :
  (* all three headers were accepted: the log has the initial event and three more *)
  length (snd h2_result) = 4%nat /\
  (* the latest height is 2-10, height 5 is pruned, heights 9 and 10 are stored *)
  (match client_of (fst h2_result) with Some cs => cs_latest cs = mkH 2 10 | None => False end) /\
  get_cons (fst h2_result) (mkH 2 5) = Err /\
  get_cons (fst h2_result) (mkH 2 9) <> Err /\
  (* height 10 holds the time of the SECOND header accepted for it and was processed at 1115 *)
  get_cons (fst h2_result) (mkH 2 10) = Ok {| c_time := 1101; c_root := [x01; x02]; c_nvh := nv_valset_hash (nv_inp nv_own) |} /\
  get_processed_time (fst h2_result) (mkH 2 10) = Some (Ok 1115%N) /\
  (* delay 30: proofs against height 10 are refused at 1144 and honoured at 1145; height 9 (processed at 160) is honoured *)
  h2_verify 1144 (mkH 2 10) = Err /\ h2_verify 1145 (mkH 2 10) = Ok tt /\ h2_verify 1144 (mkH 2 9) = Ok tt /\
  (* nothing above the latest height, nothing at the pruned height *)
  h2_verify 5000 (mkH 2 11) = Err /\ h2_verify 5000 (mkH 2 5) = Err /\
  (* at clock 2101 the latest state (time 1101) is expired: every header is refused, e.g. an otherwise fine adjacent one *)
  update_client nv_valset_hash nv_header_hash nv_verify_sig (fst h2_result)
    (nv_mk_header 11 2100 nv_own nv_own nv_own (mkH 2 10) [nv_sig x01 2100; nv_sig x03 2100]) 2101 = Err /\
  (match update_client nv_valset_hash nv_header_hash nv_verify_sig (fst h2_result)
    (nv_mk_header 11 2099 nv_own nv_own nv_own (mkH 2 10) [nv_sig x01 2099; nv_sig x03 2099]) 2100 with Ok _ => True | _ => False end).
Proof. vm_compute. repeat split; discriminate. Qed.
