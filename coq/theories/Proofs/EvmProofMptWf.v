(** The run-time panic of go-ethereum's [get] ([key[0]] on an exhausted key, Model/EvmProofMpt.v: [GPanic] /
    [WPanic]) cannot happen in [trie.VerifyProof]: the key handed to the walk is [keybytesToHex(k)] -- nibbles
    below 16 followed by the terminator 16 -- and every node [decodeNode] returns consumes the terminator only
    through a value (a short node whose compact key carries the terminator flag holds a value node; slot 16 of a
    full node is a value node or nil).  So the [option] result type of the [mpt_verify] oracle of
    Model/EvmProof.v loses nothing. *)
From Teleport Require Import Base.Bytes Base.Outcome Model.EvmProof Model.EvmProofMpt Proofs.EvmProofRlp.
From Coq Require Import ZifyN ZifyNat.
Local Open Scope N_scope.
Ltac Zify.zify_post_hook ::= Z.div_mod_to_equations.

Definition lt16 (b : byte) : Prop := nb b < 16.

(** a key as the walk sees it: nibbles, then the terminator *)
Definition good_key (k : bytes) : Prop := exists s, k = s ++ [x10] /\ Forall lt16 s.

Lemma nb_x10 : nb x10 = 16.
Proof. reflexivity. Qed.

Lemma has_term_snoc k : has_term (k ++ [x10]) = true.
Proof. unfold has_term. rewrite rev_app_distr. reflexivity. Qed.

Lemma has_term_lt16 k : Forall lt16 k -> has_term k = false.
Proof.
  intro F. unfold has_term. destruct (rev k) as [|x r] eqn:E; [reflexivity|].
  assert (I : In x k) by (apply in_rev; rewrite E; left; reflexivity).
  rewrite Forall_forall in F. specialize (F x I). unfold lt16 in F.
  destruct (Byte.eqb x x10) eqn:Q; [|reflexivity].
  apply byte_dec_bl in Q. subst x. rewrite nb_x10 in F. lia.
Qed.

Lemma nibbles_lt16 c : Forall lt16 (nibbles c).
Proof.
  induction c as [|b c IH]; cbn [nibbles]; [constructor|].
  pose proof (nb_lt b).
  constructor; [unfold lt16; rewrite nb_byte_of_N; lia|].
  constructor; [unfold lt16; rewrite nb_byte_of_N; lia | exact IH].
Qed.

Lemma keybytes_to_hex_good k : good_key (keybytes_to_hex k).
Proof. exists (nibbles k). split; [reflexivity | apply nibbles_lt16]. Qed.

Lemma Forall_skipn {A} (P : A -> Prop) n l : Forall P l -> Forall P (skipn n l).
Proof.
  revert l; induction n as [|n IH]; intros l F; [exact F|].
  destruct l as [|x l]; [constructor|]. inversion F; subst. cbn [skipn]. apply IH. assumption.
Qed.

(** [compactToHex]: either no terminator and only nibbles, or nibbles followed by the terminator *)
Lemma compact_to_hex_shape c :
  Forall lt16 (compact_to_hex c) \/
  exists k', compact_to_hex c = k' ++ [x10] /\ Forall lt16 k'.
Proof.
  destruct c as [|b c]; [left; constructor|].
  unfold compact_to_hex, keybytes_to_hex. cbn [nibbles app].
  set (n0 := byte_of_N (nb b / 16)). set (n1 := byte_of_N (nb b mod 16)).
  pose proof (nibbles_lt16 (b :: c)) as F. cbn [nibbles] in F. fold n0 n1 in F.
  inversion F as [|? ? F0 F']; subst. inversion F' as [|? ? F1 F2]; subst.
  assert (CH : N.to_nat (2 - nb n0 mod 2) = 1%nat \/ N.to_nat (2 - nb n0 mod 2) = 2%nat) by lia.
  destruct (nb n0 <? 2) eqn:T.
  - (* terminator flag clear: the terminator is removed *)
    left.
    replace (removelast (n0 :: n1 :: nibbles c ++ [x10])) with (n0 :: n1 :: nibbles c).
    2:{ change (n0 :: n1 :: nibbles c ++ [x10]) with ((n0 :: n1 :: nibbles c) ++ [x10]).
        rewrite removelast_last. reflexivity. }
    apply Forall_skipn. assumption.
  - right. destruct CH as [-> | ->]; cbn [skipn].
    + exists (n1 :: nibbles c). split; [reflexivity | assumption].
    + exists (nibbles c). split; [reflexivity | assumption].
Qed.

(** ** well-formed nodes *)
Fixpoint wf_node (n : node) : Prop :=
  match n with
  | NNil | NHash _ | NValue _ => True
  | NShort k v =>
      ((Forall lt16 k /\ wf_node v) \/ (exists k' val, k = k' ++ [x10] /\ Forall lt16 k' /\ v = NValue val))
  | NFull cs =>
      length cs = 17%nat /\
      (exists val, nth_error cs 16 = Some (NValue val) \/ nth_error cs 16 = Some NNil) /\
      (fix all (l : list node) : Prop := match l with [] => True | c :: l' => wf_node c /\ all l' end) cs
  end.

Fixpoint wf_all (l : list node) : Prop := match l with [] => True | c :: l' => wf_node c /\ wf_all l' end.

Lemma wf_full cs : wf_node (NFull cs) <->
  length cs = 17%nat /\ (exists val, nth_error cs 16 = Some (NValue val) \/ nth_error cs 16 = Some NNil) /\ wf_all cs.
Proof.
  cbn [wf_node]. assert (E : forall l, (fix all (l : list node) : Prop :=
     match l with [] => True | c :: l' => wf_node c /\ all l' end) l = wf_all l).
  { induction l as [|c l IH]; [reflexivity|]. cbn [wf_all]. rewrite <- IH. reflexivity. }
  rewrite E. reflexivity.
Qed.

Lemma wf_all_nth cs i c : wf_all cs -> nth_error cs i = Some c -> wf_node c.
Proof.
  revert i; induction cs as [|x cs IH]; intros i W E; [destruct i; discriminate|].
  destruct W as [W1 W2]. destruct i as [|i]; cbn in E; [inversion E; subst; exact W1 | exact (IH i W2 E)].
Qed.

Lemma wf_all_app a b : wf_all a -> wf_all b -> wf_all (a ++ b).
Proof. induction a as [|x a IH]; intros Wa Wb; [exact Wb|]. destruct Wa. split; [assumption | apply IH; assumption]. Qed.

(** ** [get] on a full node, by index *)
Lemma get_full cs k0 kr :
  get (NFull cs) (k0 :: kr) = match nth_error cs (N.to_nat (nb k0)) with Some c => get c kr | None => GNil end.
Proof.
  cbn [get]. generalize (N.to_nat (nb k0)) as i. induction cs as [|c cs IH]; intro i.
  - destruct i; reflexivity.
  - destruct i as [|i]; [reflexivity|]. cbn [nth_error]. apply IH.
Qed.

Lemma is_prefix_split p s : is_prefix p s = true -> s = p ++ skipn (length p) s.
Proof.
  intro H. apply is_prefix_spec in H. destruct H as [t ->]. rewrite skipn_app, Nat.sub_diag, skipn_all. reflexivity.
Qed.

Lemma app_snoc_lt16 (p s : bytes) (t : bytes) :
  Forall lt16 p -> Forall lt16 s -> s ++ [x10] = p ++ t -> exists s', t = s' ++ [x10] /\ Forall lt16 s'.
Proof.
  revert s; induction p as [|a p IH]; intros s Fp Fs E.
  - exists s. split; [symmetry; exact E | exact Fs].
  - destruct s as [|b s].
    + cbn in E. inversion E; subst. inversion Fp as [|? ? Fa _]; subst. unfold lt16 in Fa. rewrite nb_x10 in Fa. lia.
    + cbn in E. inversion E; subst. inversion Fp; subst. inversion Fs; subst. eapply IH; eassumption.
Qed.

(** the terminator can only be matched at the end of the key *)
Lemma snoc_term_prefix (k' s t : bytes) :
  Forall lt16 k' -> Forall lt16 s -> s ++ [x10] = (k' ++ [x10]) ++ t -> t = [].
Proof.
  revert s; induction k' as [|a k' IH]; intros s Fk Fs E.
  - destruct s as [|b s]; cbn in E.
    + inversion E; reflexivity.
    + inversion E; subst. inversion Fs as [|? ? Fb _]; subst. unfold lt16 in Fb. rewrite nb_x10 in Fb. lia.
  - destruct s as [|b s]; cbn in E.
    + inversion E; subst. inversion Fk as [|? ? Fa _]; subst. unfold lt16 in Fa. rewrite nb_x10 in Fa. lia.
    + inversion E; subst. inversion Fk; subst. inversion Fs; subst. eapply IH; eassumption.
Qed.

(** ** no panic *)
Definition get_ok (r : gres) : Prop :=
  match r with GPanic => False | GHash rest _ => good_key rest | _ => True end.

Section NodeInd.
  Variable P : node -> Prop.
  Hypothesis Hnil : P NNil.
  Hypothesis Hhash : forall h, P (NHash h).
  Hypothesis Hval : forall v, P (NValue v).
  Hypothesis Hshort : forall k v, P v -> P (NShort k v).
  Hypothesis Hfull : forall cs, Forall P cs -> P (NFull cs).

  Fixpoint node_ind' (n : node) : P n :=
    match n with
    | NNil => Hnil
    | NHash h => Hhash h
    | NValue v => Hval v
    | NShort k v => Hshort k v (node_ind' v)
    | NFull cs =>
        Hfull cs ((fix go (l : list node) : Forall P l :=
                     match l with [] => Forall_nil P | c :: l' => Forall_cons c (node_ind' c) (go l') end) cs)
    end.
End NodeInd.

Lemma get_no_panic n : forall key, wf_node n -> good_key key -> get_ok (get n key).
Proof.
  induction n as [| h | v | k v IH | cs IH] using node_ind'; intros key W G.
  - exact I.
  - (* hash *) exact G.
  - exact I.
  - (* short *)
    cbn [get]. destruct (is_prefix k key) eqn:PF; [|exact I].
    destruct G as (s & -> & Fs). apply is_prefix_split in PF.
    destruct W as [[Fk Wv] | (k' & val & -> & Fk & ->)].
    + destruct (app_snoc_lt16 k s _ Fk Fs PF) as (s' & E & Fs').
      apply IH; [exact Wv|]. exists s'. split; assumption.
    + exact I.
  - (* full *)
    destruct G as (s & -> & Fs). apply wf_full in W. destruct W as (L & (val & T) & WA).
    destruct s as [|b s]; cbn [app].
    + (* the terminator: slot 16 *)
      rewrite get_full. change (N.to_nat (nb x10)) with 16%nat.
      destruct T as [-> | ->]; exact I.
    + rewrite get_full. inversion Fs as [|? ? Fb Fs']; subst.
      destruct (nth_error cs (N.to_nat (nb b))) as [c|] eqn:E; [|exact I].
      rewrite Forall_forall in IH. apply IH.
      * eapply nth_error_In; exact E.
      * eapply wf_all_nth; eassumption.
      * exists s. split; [reflexivity | assumption].
Qed.

(** ** [decodeNode] returns well-formed nodes *)
Section DecodeWf.
  Variable dn : bytes -> option node.
  Hypothesis dn_wf : forall buf n, dn buf = Some n -> wf_node n.

  Lemma decode_ref_wf buf n rest : decode_ref dn buf = Some (n, rest) -> wf_node n.
  Proof.
    unfold decode_ref. destruct (rlp_split buf) as [[[k val] r]|]; [|discriminate].
    destruct k.
    - discriminate.
    - destruct (length val) as [|l] eqn:L.
      + intro H; inversion H; subst; exact I.
      + do 31 (destruct l as [|l]; [discriminate|]). destruct l as [|l]; [|discriminate].
        intro H; inversion H; subst; exact I.
    - destruct (32 <? length buf - length r)%nat; [discriminate|].
      destruct (dn buf) as [m|] eqn:D; [|discriminate].
      intro H; inversion H; subst. eapply dn_wf; exact D.
  Qed.

  Lemma decode_refs_wf k : forall elems cs rest,
    decode_refs dn k elems = Some (cs, rest) -> wf_all cs /\ length cs = k.
  Proof.
    induction k as [|k IH]; intros elems cs rest; cbn [decode_refs].
    - intro H; inversion H; subst. split; [exact I | reflexivity].
    - destruct (decode_ref dn elems) as [[c r]|] eqn:R; [|discriminate].
      destruct (decode_refs dn k r) as [[cs' r']|] eqn:RS; [|discriminate].
      intro H; inversion H; subst. destruct (IH _ _ _ RS) as [W L].
      split; [split; [eapply decode_ref_wf; exact R | exact W] | cbn; rewrite L; reflexivity].
  Qed.

  Lemma decode_short_wf elems n : decode_short dn elems = Some n -> wf_node n.
  Proof.
    unfold decode_short. destruct (split_string elems) as [[kbuf rest]|]; [|discriminate].
    destruct (compact_to_hex_shape kbuf) as [F | (k' & E & F)].
    - rewrite (has_term_lt16 _ F).
      destruct (decode_ref dn rest) as [[r r']|] eqn:R; [|discriminate].
      intro H; inversion H; subst. cbn [wf_node]. left. split; [exact F | eapply decode_ref_wf; exact R].
    - rewrite E, has_term_snoc.
      destruct (split_string rest) as [[val r']|]; [|discriminate].
      intro H; inversion H; subst. cbn [wf_node]. right. exists k', val. split; [reflexivity|]. split; [exact F | reflexivity].
  Qed.

  Lemma decode_full_wf elems n : decode_full dn elems = Some n -> wf_node n.
  Proof.
    unfold decode_full. destruct (decode_refs dn 16 elems) as [[cs rest]|] eqn:R; [|discriminate].
    destruct (split_string rest) as [[val r']|]; [|discriminate].
    intro H; inversion H; subst. destruct (decode_refs_wf _ _ _ _ R) as [W L].
    apply wf_full. split; [rewrite app_length, L; reflexivity|]. split.
    - exists val. rewrite nth_error_app2 by lia. rewrite L, Nat.sub_diag. cbn [nth_error].
      destruct val; [right | left]; reflexivity.
    - apply wf_all_app; [exact W|]. cbn [wf_all]. split; [destruct val; exact I | exact I].
  Qed.

  Lemma decode_node_step_wf buf n : decode_node_step dn buf = Some n -> wf_node n.
  Proof.
    unfold decode_node_step. destruct buf as [|b0 buf]; [discriminate|].
    destruct (split_list (b0 :: buf)) as [[elems r]|]; [|discriminate].
    destruct (count_values elems) as [c|]; [|discriminate].
    do 2 (destruct c as [|c]; [discriminate|]).
    destruct c as [|c]; [apply decode_short_wf|].
    do 14 (destruct c as [|c]; [discriminate|]).
    destruct c as [|c]; [apply decode_full_wf | discriminate].
  Qed.
End DecodeWf.

Lemma decode_node_fuel_wf fuel : forall buf n, decode_node_fuel fuel buf = Some n -> wf_node n.
Proof.
  induction fuel as [|f IH]; intros buf n; cbn [decode_node_fuel]; [discriminate|].
  apply decode_node_step_wf. exact IH.
Qed.

Lemma decode_node_wf buf n : decode_node buf = Some n -> wf_node n.
Proof. apply decode_node_fuel_wf. Qed.

(** ** the walk never panics on a key produced by [keybytesToHex] *)
Section Walk.
  Variable keccak256 : bytes -> bytes.

  Lemma walk_no_panic nodes : forall fuel want key,
    good_key key -> EvmProofMpt.walk keccak256 nodes fuel want key <> WPanic.
  Proof.
    induction fuel as [|fuel IH]; intros want key G; cbn [EvmProofMpt.walk]; [discriminate|].
    destruct (find_node keccak256 nodes want) as [buf|]; [|discriminate].
    destruct (decode_node buf) as [n|] eqn:D; [|discriminate].
    pose proof (get_no_panic n key (decode_node_wf _ _ D) G) as OK.
    destruct (get n key) as [|rest h|v|]; try discriminate.
    - apply IH. exact OK.
    - contradiction.
  Qed.

  Theorem verify_proof_no_panic root key nodes :
    EvmProofMpt.walk keccak256 nodes (walk_fuel nodes key) root (keybytes_to_hex key) <> WPanic.
  Proof. apply walk_no_panic, keybytes_to_hex_good. Qed.
End Walk.
