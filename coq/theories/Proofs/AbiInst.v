(** The five regenerated schemas (Gen/AbiSchemaGen.v).  For each tuple the
    statement is selected BY COMPUTATION on the regenerated schema: when
    [schema_ok] holds, the round trip for all values; otherwise a concrete value
    that the decoder does not give back (the state of the acknowledgement tuple
    before the repair of defect D14).  The proof script handles both states, so
    regeneration alone moves a tuple from one to the other. *)
From Teleport Require Import Base.Bytes Base.Outcome Base.Fmt Base.AbiSchema Gen.AbiSchemaGen Model.Abi
  Proofs.Abi Proofs.AbiRoundtrip.
Local Open Scope N_scope.

Definition roundtrip_statement (sc : schema) : Prop :=
  forall v, struct_val_ok sc v = true -> strings_valid v = true ->
    exists bz, encode sc v = Ok bz /\ (lenN bz < two63 -> decode sc bz = Ok v).

(** a struct value with a distinctive non-zero content in every field *)
Definition witness_val (sc : schema) : list fval :=
  map (fun f => match sf_ty f with TU64 => FU 7 | TStr => FS [x61] | TBytes => FB [x01] end) (sc_struct sc).

Definition lost (sc : schema) (v : list fval) : Prop :=
  match encode sc v with
  | Ok bz => decode sc bz <> Ok v
  | _ => True
  end.

Definition refuted_statement (sc : schema) : Prop :=
  struct_val_ok sc (witness_val sc) = true /\ strings_valid (witness_val sc) = true /\ lost sc (witness_val sc).

Definition tuple_statement (sc : schema) : Prop :=
  if schema_ok sc then roundtrip_statement sc else refuted_statement sc.

Lemma roundtrip_generic sc : schema_ok sc = true -> roundtrip_statement sc.
Proof. intros OK v V SV. apply schema_roundtrip; assumption. Qed.

Ltac tuple_dichotomy sc :=
  unfold tuple_statement; destruct (schema_ok sc) eqn:E;
  [ first [ exfalso; vm_compute in E; discriminate E | apply roundtrip_generic; exact E ]
  | first [ exfalso; vm_compute in E; discriminate E
          | unfold refuted_statement, lost; split; [vm_compute; reflexivity | split; [vm_compute; reflexivity | vm_compute; try exact I; discriminate]] ] ].

Lemma packet_tuple : tuple_statement packet_schema.
Proof. tuple_dichotomy packet_schema. Qed.

Lemma ack_tuple : tuple_statement ack_schema.
Proof. tuple_dichotomy ack_schema. Qed.

Lemma transfer_data_tuple : tuple_statement transfer_data_schema.
Proof. tuple_dichotomy transfer_data_schema. Qed.

Lemma call_data_tuple : tuple_statement call_data_schema.
Proof. tuple_dichotomy call_data_schema. Qed.

Lemma result_tuple : tuple_statement result_schema.
Proof. tuple_dichotomy result_schema. Qed.

Definition all_schemas : list schema :=
  [packet_schema; ack_schema; transfer_data_schema; call_data_schema; result_schema].
