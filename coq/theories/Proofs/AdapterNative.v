(** Proofs about the native side model (Model/AdapterNative.v): every message acts on its signer's
    entries only; supply and the sum of balances are invariant, also under the overridden BurnCoins. *)
From Teleport Require Import Base.Bytes Base.Outcome Model.Adapter Model.AdapterNative.
Local Open Scope Z_scope.

Lemma ok_inj {A} (x y : A) : @Ok A x = Ok y -> x = y.
Proof. congruence. Qed.

(** ** association lists *)
Section AssocFacts.
  Context {K V : Type}.
  Variable keqb : K -> K -> bool.
  Hypothesis keqb_spec : forall a b, keqb a b = true <-> a = b.

  Lemma keqb_neq a b : a <> b -> keqb a b = false.
  Proof. intro N. destruct (keqb a b) eqn:E; [apply keqb_spec in E; contradiction|reflexivity]. Qed.

  Lemma aget_aset_other (m : list (K * V)) k k' v : k' <> k -> aget keqb (aset keqb m k v) k' = aget keqb m k'.
  Proof.
    intro N. induction m as [|[k0 v0] m IH]; cbn.
    - rewrite (keqb_neq _ _ N). reflexivity.
    - destruct (keqb k k0) eqn:E; cbn.
      + apply keqb_spec in E; subst k0. rewrite (keqb_neq _ _ N). reflexivity.
      + destruct (keqb k' k0); [reflexivity|exact IH].
  Qed.

  Lemma aget_adel_other (m : list (K * V)) k k' : k' <> k -> aget keqb (adel keqb m k) k' = aget keqb m k'.
  Proof.
    intro N. induction m as [|[k0 v0] m IH]; cbn; [reflexivity|].
    destruct (keqb k k0) eqn:E; cbn.
    - apply keqb_spec in E; subst k0. rewrite (keqb_neq _ _ N). exact IH.
    - destruct (keqb k' k0); [reflexivity|exact IH].
  Qed.
End AssocFacts.

Lemma dkey_eqb_spec a b : dkey_eqb a b = true <-> a = b.
Proof.
  destruct a as [a1 a2], b as [b1 b2]. unfold dkey_eqb. cbn. rewrite andb_true_iff, bytes_eqb_eq, Nat.eqb_eq.
  split; [intros [-> ->]; reflexivity | intro H; inversion H; auto].
Qed.

Lemma rkey_eqb_spec a b : rkey_eqb a b = true <-> a = b.
Proof.
  destruct a as [[a1 a2] a3], b as [[b1 b2] b3]. unfold rkey_eqb. cbn. rewrite !andb_true_iff, bytes_eqb_eq, !Nat.eqb_eq.
  split; [intros [[-> ->] ->]; reflexivity | intro H; inversion H; auto].
Qed.

Lemma vkey_eqb_spec a b : vkey_eqb a b = true <-> a = b.
Proof.
  destruct a as [a1 a2], b as [b1 b2]. unfold vkey_eqb. cbn. rewrite andb_true_iff, bytes_eqb_eq, N.eqb_eq.
  split; [intros [-> ->]; reflexivity | intro H; inversion H; auto].
Qed.

(** ** balances *)
Fixpoint tot (m : list (bytes * Z)) : Z := match m with [] => 0 | kv :: r => snd kv + tot r end.

Lemma tot_fold m : fold_right (fun (kv : bytes * Z) acc => snd kv + acc) 0 m = tot m.
Proof. induction m as [|kv m IH]; cbn; [reflexivity|]. rewrite IH. reflexivity. Qed.

Lemma total_bal_tot s : total_bal s = tot (n_bal s).
Proof. unfold total_bal. apply tot_fold. Qed.

Lemma tot_aset m k v :
  tot (aset bytes_eqb m k v) = tot m - (match aget bytes_eqb m k with Some x => x | None => 0 end) + v.
Proof.
  induction m as [|[k0 v0] m IH]; cbn [aset aget tot snd]; [lia|].
  destruct (bytes_eqb k k0); cbn [tot snd]; [lia|]. rewrite IH. lia.
Qed.

Lemma total_bal_with_bal s b : total_bal (with_bal s b) = tot b.
Proof. rewrite total_bal_tot. reflexivity. Qed.

Lemma bal_with_bal s b a : bal (with_bal s b) a = match aget bytes_eqb b a with Some v => v | None => 0 end.
Proof. reflexivity. Qed.

Lemma move_total s f t a : total_bal (move s f t a) = total_bal s.
Proof.
  unfold move. rewrite total_bal_with_bal, tot_aset, tot_aset.
  rewrite bal_with_bal, total_bal_tot. unfold bal. lia.
Qed.

Lemma move_bal_other s f t a x : x <> f -> x <> t -> bal (move s f t a) x = bal s x.
Proof.
  intros Nf Nt. unfold move. rewrite bal_with_bal.
  rewrite (aget_aset_other bytes_eqb bytes_eqb_eq) by exact Nt.
  rewrite (aget_aset_other bytes_eqb bytes_eqb_eq) by exact Nf. reflexivity.
Qed.

Lemma total_bal_ext s1 s2 : n_bal s1 = n_bal s2 -> total_bal s1 = total_bal s2.
Proof. unfold total_bal. intros ->. reflexivity. Qed.

Lemma bal_ext s1 s2 x : n_bal s1 = n_bal s2 -> bal s1 x = bal s2 x.
Proof. unfold bal. intros ->. reflexivity. Qed.

(** fields untouched by the helpers *)
Lemma move_fields s f t a :
  n_supply (move s f t a) = n_supply s /\ n_vtok (move s f t a) = n_vtok s /\ n_dels (move s f t a) = n_dels s /\
  n_ubds (move s f t a) = n_ubds s /\ n_reds (move s f t a) = n_reds s /\ n_votes (move s f t a) = n_votes s /\
  n_props (move s f t a) = n_props s /\ n_rew (move s f t a) = n_rew s.
Proof. repeat split. Qed.

Section NativeFacts.
  Variable resolve : bytes -> option nat.
  Variable bonded_pool notbonded_pool distr_mod : bytes.
  Variable max_entries : nat.

  Notation exec := (exec_native resolve bonded_pool notbonded_pool distr_mod max_entries).
  Notation wr := (withdraw_rewards distr_mod).
  Notation tch := (touch distr_mod).

  Lemma wr_total s d i : total_bal (wr s d i) = total_bal s.
  Proof. unfold withdraw_rewards. destruct (aget dkey_eqb (n_rew s) (d, i)); [|reflexivity]. apply move_total. Qed.

  Lemma wr_fields s d i :
    n_supply (wr s d i) = n_supply s /\ n_vtok (wr s d i) = n_vtok s /\ n_dels (wr s d i) = n_dels s /\
    n_ubds (wr s d i) = n_ubds s /\ n_reds (wr s d i) = n_reds s /\ n_votes (wr s d i) = n_votes s /\
    n_props (wr s d i) = n_props s.
  Proof. unfold withdraw_rewards. destruct (aget dkey_eqb (n_rew s) (d, i)); repeat split. Qed.

  Lemma wr_bal_other s d i x : x <> d -> x <> distr_mod -> bal (wr s d i) x = bal s x.
  Proof.
    intros Nd Nm. unfold withdraw_rewards. destruct (aget dkey_eqb (n_rew s) (d, i)); [|reflexivity].
    change (bal (move s distr_mod d z) x = bal s x). apply move_bal_other; assumption.
  Qed.

  Lemma tch_total s d i : total_bal (tch s d i) = total_bal s.
  Proof. unfold touch. destruct (has_del s d i); [apply wr_total|reflexivity]. Qed.

  Lemma tch_fields s d i :
    n_supply (tch s d i) = n_supply s /\ n_vtok (tch s d i) = n_vtok s /\ n_dels (tch s d i) = n_dels s /\
    n_ubds (tch s d i) = n_ubds s /\ n_reds (tch s d i) = n_reds s /\ n_votes (tch s d i) = n_votes s /\
    n_props (tch s d i) = n_props s.
  Proof. unfold touch. destruct (has_del s d i); [apply wr_fields|repeat split]. Qed.

  Lemma tch_bal_other s d i x : x <> d -> x <> distr_mod -> bal (tch s d i) x = bal s x.
  Proof. intros. unfold touch. destruct (has_del s d i); [apply wr_bal_other; assumption|reflexivity]. Qed.

  Lemma add_shares_fields s d i a :
    n_bal (add_shares s d i a) = n_bal s /\ n_supply (add_shares s d i a) = n_supply s /\
    n_ubds (add_shares s d i a) = n_ubds s /\ n_reds (add_shares s d i a) = n_reds s /\
    n_votes (add_shares s d i a) = n_votes s /\ n_props (add_shares s d i a) = n_props s.
  Proof. repeat split. Qed.

  Lemma add_shares_dels_other s d i a d' i' :
    d' <> d -> aget dkey_eqb (n_dels (add_shares s d i a)) (d', i') = aget dkey_eqb (n_dels s) (d', i').
  Proof.
    intro N. unfold add_shares. cbn [n_dels].
    assert (NK : (d', i') <> (d, i)) by (intro E; inversion E; contradiction).
    destruct (_ =? 0).
    - apply (aget_adel_other dkey_eqb dkey_eqb_spec); exact NK.
    - apply (aget_aset_other dkey_eqb dkey_eqb_spec); exact NK.
  Qed.

  Definition signer (m : msg) : bytes :=
    match m with
    | MDelegate d _ _ | MUndelegate d _ _ | MRedelegate d _ _ _ | MWithdraw d _ | MVote d _ _ | MVoteW d _ _ => d
    end.

  Ltac bal_total := unfold total_bal; cbn [n_bal]; fold total_bal.

  (** ** conservation: no message changes the supply or the sum of all balances *)
  Theorem exec_native_conserves m s s' :
    exec m s = Ok s' -> n_supply s' = n_supply s /\ total_bal s' = total_bal s.
  Proof.
    destruct m as [d v a | d v a | d sv tv a | d v | d pid o | d pid os]; cbn [exec_native].
    - destruct (resolve v) as [i|]; [|discriminate].
      destruct (bal (tch s d i) d <? a); [discriminate|]. intro H; apply ok_inj in H; subst s'.
      destruct (tch_fields s d i) as [Hs _].
      split; [cbn; exact Hs|].
      rewrite (total_bal_ext _ (move (tch s d i) d bonded_pool a)) by reflexivity.
      rewrite move_total. apply tch_total.
    - destruct (resolve v) as [i|]; [|discriminate].
      destruct (validate_unbond s d i a); cbn [obind]; try discriminate.
      destruct (_ <=? _)%nat; [discriminate|]. intro H; apply ok_inj in H; subst s'.
      destruct (tch_fields s d i) as [Hs _].
      split; [cbn; exact Hs|].
      rewrite (total_bal_ext _ (move (tch s d i) bonded_pool notbonded_pool a)) by reflexivity.
      rewrite move_total. apply tch_total.
    - destruct (resolve sv) as [i|]; [|discriminate].
      destruct (validate_unbond s d i a); cbn [obind]; try discriminate.
      destruct (resolve tv) as [j|]; [|discriminate].
      destruct (Nat.eqb i j); [discriminate|]. destruct (existsb _ _); [discriminate|].
      destruct (_ <=? _)%nat; [discriminate|]. intro H; apply ok_inj in H; subst s'.
      set (s1 := tch s d i). set (s2 := add_shares s1 d i (- a)). set (s3 := tch s2 d j).
      destruct (tch_fields s d i) as [Hs1 _]. destruct (tch_fields s2 d j) as [Hs3 _].
      split.
      + cbn [n_supply add_shares]. fold s1 s2 s3 in Hs1, Hs3 |- *. rewrite Hs3. unfold s2. cbn [n_supply add_shares]. exact Hs1.
      + rewrite (total_bal_ext _ s3) by reflexivity. unfold s3. rewrite tch_total.
        rewrite (total_bal_ext s2 s1) by reflexivity. apply tch_total.
    - destruct (resolve v) as [i|]; [|discriminate]. destruct (has_del s d i); [|discriminate].
      intro H; apply ok_inj in H; subst s'. destruct (wr_fields s d i) as [Hs _]. split; [exact Hs | apply wr_total].
    - destruct (aget N.eqb (n_props s) pid) as [[|]|]; try discriminate. intro H; inversion H; subst. split; reflexivity.
    - destruct (aget N.eqb (n_props s) pid) as [[|]|]; try discriminate. intro H; inversion H; subst. split; reflexivity.
  Qed.

  (** ** attribution at the native level: a message touches only its signer's entries (and the
      module pools its coins move through) *)
  Theorem exec_native_only_signer m s s' :
    exec m s = Ok s' ->
    forall d', d' <> signer m ->
      (forall i, aget dkey_eqb (n_dels s') (d', i) = aget dkey_eqb (n_dels s) (d', i)) /\
      (forall i, aget dkey_eqb (n_ubds s') (d', i) = aget dkey_eqb (n_ubds s) (d', i)) /\
      (forall i j, aget rkey_eqb (n_reds s') (d', i, j) = aget rkey_eqb (n_reds s) (d', i, j)) /\
      (forall p, aget vkey_eqb (n_votes s') (p, d') = aget vkey_eqb (n_votes s) (p, d')) /\
      (d' <> bonded_pool -> d' <> notbonded_pool -> d' <> distr_mod -> bal s' d' = bal s d').
  Proof.
    destruct m as [d v a | d v a | d sv tv a | d v | d pid o | d pid os]; cbn [exec_native signer].
    - destruct (resolve v) as [i|]; [|discriminate].
      destruct (bal (tch s d i) d <? a); [discriminate|]. intro H; apply ok_inj in H; subst s'. intros d' N.
      destruct (tch_fields s d i) as [_ [_ [Hd [Hu [Hr [Hv _]]]]]].
      repeat split; intros.
      + rewrite add_shares_dels_other by exact N. cbn. rewrite Hd. reflexivity.
      + cbn. rewrite Hu. reflexivity.
      + cbn. rewrite Hr. reflexivity.
      + cbn. rewrite Hv. reflexivity.
      + rewrite (bal_ext _ (move (tch s d i) d bonded_pool a)) by reflexivity.
        rewrite move_bal_other by assumption. apply tch_bal_other; assumption.
    - destruct (resolve v) as [i|]; [|discriminate].
      destruct (validate_unbond s d i a); cbn [obind]; try discriminate.
      destruct (_ <=? _)%nat; [discriminate|]. intro H; apply ok_inj in H; subst s'. intros d' N.
      destruct (tch_fields s d i) as [_ [_ [Hd [Hu [Hr [Hv _]]]]]].
      repeat split; intros.
      + cbn [n_dels]. rewrite add_shares_dels_other by exact N. cbn. rewrite Hd. reflexivity.
      + cbn [n_ubds]. rewrite (aget_aset_other dkey_eqb dkey_eqb_spec) by (intro E; inversion E; contradiction).
        cbn. rewrite Hu. reflexivity.
      + cbn. rewrite Hr. reflexivity.
      + cbn. rewrite Hv. reflexivity.
      + rewrite (bal_ext _ (move (tch s d i) bonded_pool notbonded_pool a)) by reflexivity.
        rewrite move_bal_other by assumption. apply tch_bal_other; assumption.
    - destruct (resolve sv) as [i|]; [|discriminate].
      destruct (validate_unbond s d i a); cbn [obind]; try discriminate.
      destruct (resolve tv) as [j|]; [|discriminate].
      destruct (Nat.eqb i j); [discriminate|]. destruct (existsb _ _); [discriminate|].
      destruct (_ <=? _)%nat; [discriminate|]. intro H; apply ok_inj in H; subst s'. intros d' N.
      set (s1 := tch s d i). set (s2 := add_shares s1 d i (- a)). set (s3 := tch s2 d j).
      destruct (tch_fields s d i) as [_ [_ [Hd1 [Hu1 [Hr1 [Hv1 _]]]]]].
      destruct (tch_fields s2 d j) as [_ [_ [Hd3 [Hu3 [Hr3 [Hv3 _]]]]]].
      fold s1 in Hd1, Hu1, Hr1, Hv1. fold s3 in Hd3, Hu3, Hr3, Hv3.
      repeat split; intros.
      + cbn [n_dels]. rewrite add_shares_dels_other by exact N. rewrite Hd3. unfold s2.
        rewrite add_shares_dels_other by exact N. rewrite Hd1. reflexivity.
      + cbn [n_ubds add_shares]. rewrite Hu3. unfold s2. cbn [n_ubds add_shares]. rewrite Hu1. reflexivity.
      + cbn [n_reds]. rewrite (aget_aset_other rkey_eqb rkey_eqb_spec) by (intro E; inversion E; contradiction).
        cbn [n_reds add_shares]. rewrite Hr3. unfold s2. cbn [n_reds add_shares]. rewrite Hr1. reflexivity.
      + cbn [n_votes add_shares]. rewrite Hv3. unfold s2. cbn [n_votes add_shares]. rewrite Hv1. reflexivity.
      + rewrite (bal_ext _ s3) by reflexivity. unfold s3. rewrite tch_bal_other by assumption.
        rewrite (bal_ext s2 s1) by reflexivity. apply tch_bal_other; assumption.
    - destruct (resolve v) as [i|]; [|discriminate]. destruct (has_del s d i); [|discriminate].
      intro H; apply ok_inj in H; subst s'. intros d' N.
      destruct (wr_fields s d i) as [_ [_ [Hd [Hu [Hr [Hv _]]]]]].
      repeat split; intros; try (rewrite ?Hd, ?Hu, ?Hr, ?Hv; reflexivity). apply wr_bal_other; assumption.
    - destruct (aget N.eqb (n_props s) pid) as [[|]|]; try discriminate. intro H; apply ok_inj in H; subst s'. intros d' N.
      repeat split; intros; try reflexivity.
      cbn [n_votes]. apply (aget_aset_other vkey_eqb vkey_eqb_spec). intro E; inversion E; contradiction.
    - destruct (aget N.eqb (n_props s) pid) as [[|]|]; try discriminate. intro H; apply ok_inj in H; subst s'. intros d' N.
      repeat split; intros; try reflexivity.
      cbn [n_votes]. apply (aget_aset_other vkey_eqb vkey_eqb_spec). intro E; inversion E; contradiction.
  Qed.
End NativeFacts.

(** ** the overridden BurnCoins *)
Lemma burn_coins_conserves fee module a s s' :
  burn_coins fee module a s = Ok s' -> n_supply s' = n_supply s /\ total_bal s' = total_bal s /\
                                        (module <> fee -> bal s' fee = bal s fee + a).
Proof.
  unfold burn_coins. destruct (_ || _); [discriminate|]. intro H; apply ok_inj in H; subst s'.
  split; [reflexivity|]. split; [apply move_total|].
  intro N. unfold move. rewrite bal_with_bal.
  assert (G : forall (m : list (bytes * Z)) k v, aget bytes_eqb (aset bytes_eqb m k v) k = Some v).
  { intros m k v. induction m as [|[k0 v0] m IH]; cbn; [rewrite bytes_eqb_refl; reflexivity|].
    destruct (bytes_eqb k k0) eqn:E; cbn; [rewrite bytes_eqb_refl; reflexivity|]. rewrite E. exact IH. }
  rewrite G. rewrite bal_with_bal. rewrite (aget_aset_other bytes_eqb bytes_eqb_eq) by congruence. reflexivity.
Qed.

(** what staking and gov would do with the SDK's own BurnCoins: the supply shrinks *)
Lemma burn_coins_base_shrinks module a s s' :
  burn_coins_base module a s = Ok s' -> n_supply s' = n_supply s - a /\ total_bal s' = total_bal s - a.
Proof.
  unfold burn_coins_base. destruct (_ || _); [discriminate|]. intro H; apply ok_inj in H; subst s'.
  split; [reflexivity|]. rewrite !total_bal_tot. cbn [n_bal with_bal].
  rewrite tot_aset. unfold bal. lia.
Qed.

(** ** all action sequences *)
Inductive action :=
| AMsg (m : msg)                               (* a native message executed by a hook *)
| ABurn (module : bytes) (a : Z)               (* staking slash / gov deposit burn: [bankKeeper.BurnCoins] *)
| ASend (from to : bytes) (a : Z).             (* any other bank send (fees, rewards, unbonding completion, ...) *)

Section Actions.
  Variable resolve : bytes -> option nat.
  Variable bonded_pool notbonded_pool distr_mod fee_collector : bytes.
  Variable max_entries : nat.

  Definition step_action (x : action) (s : nstate) : outcome nstate :=
    match x with
    | AMsg m => exec_native resolve bonded_pool notbonded_pool distr_mod max_entries m s
    | ABurn module a => burn_coins fee_collector module a s
    | ASend f t a => if (a <? 0) || (bal s f <? a) then Err else Ok (move s f t a)
    end.

  (** a failing action is discarded by its caller *)
  Fixpoint run_actions (l : list action) (s : nstate) : nstate :=
    match l with
    | [] => s
    | x :: r => match step_action x s with Ok s' => run_actions r s' | _ => run_actions r s end
    end.

  Lemma step_action_conserves x s s' :
    step_action x s = Ok s' -> n_supply s' = n_supply s /\ total_bal s' = total_bal s.
  Proof.
    destruct x as [m | module a | f t a]; cbn [step_action]; intro H.
    - eapply exec_native_conserves; eauto.
    - apply burn_coins_conserves in H. tauto.
    - destruct (_ || _); [discriminate|]. inversion H; subst. split; [reflexivity|apply move_total].
  Qed.

  Theorem supply_unchanged_all : forall l s,
    n_supply (run_actions l s) = n_supply s /\ total_bal (run_actions l s) = total_bal s.
  Proof.
    induction l as [|x l IH]; intro s; [split; reflexivity|]. cbn [run_actions].
    destruct (step_action x s) as [s'| |] eqn:E; try apply IH.
    destruct (step_action_conserves _ _ _ E) as [H1 H2]. destruct (IH s') as [H3 H4]. split; congruence.
  Qed.
End Actions.
