(** C11 — backing of the token contracts deployed by the module: over every history of conversions (all four
    flows, several pairs, several denominations per pair, arbitrary external contracts) interleaved with what
    users and governance can do, totalSupply of each such contract never exceeds the coins of the pair's
    denominations escrowed in the module account. *)
From Teleport Require Import Base.Bytes Base.Outcome Model.Convert Proofs.ConvertBase Proofs.ConvertExact
  Proofs.ConvertTokensLemmas.
Local Open Scope Z_scope.

(** * Sums over the denominations of the pairs *)
Fixpoint sum_over (f : bytes -> Z) (ds : list bytes) : Z :=
  match ds with [] => 0 | d :: t => f d + sum_over f t end.

(** what pair [p] contributes to the backing of contract [c]: the escrow [f] of its denominations, if the
    module owns the pair's contract and that contract is [c] *)
Definition pair_backing (f : bytes -> Z) (c : Z) (p : pair) : Z :=
  if (p_owner p =? 1) && (p_erc20 p =? c) then sum_over f (p_denoms p) else 0.

Fixpoint backing_of (f : bytes -> Z) (c : Z) (l : list (bytes * pair)) : Z :=
  match l with [] => 0 | kp :: t => pair_backing f c (snd kp) + backing_of f c t end.

Lemma sum_over_ext f g ds : (forall d, In d ds -> g d = f d) -> sum_over g ds = sum_over f ds.
Proof.
  induction ds as [|d ds IH]; cbn; [reflexivity|]. intro H.
  rewrite (H d) by (left; reflexivity). rewrite IH; [reflexivity|]. intros; apply H; right; assumption.
Qed.

Lemma sum_over_mono f g ds : (forall d, f d <= g d) -> sum_over f ds <= sum_over g ds.
Proof. intro H. induction ds as [|d ds IH]; cbn; [lia|]. specialize (H d). lia. Qed.

Lemma sum_over_bump_ge f g ds d0 delta :
  In d0 ds -> g d0 = f d0 + delta -> 0 <= delta -> (forall d, f d <= g d) -> sum_over f ds + delta <= sum_over g ds.
Proof.
  intros I G P M. induction ds as [|d ds IH]; [destruct I|]. cbn. destruct I as [->|I].
  - pose proof (sum_over_mono f g ds M). lia.
  - specialize (IH I). specialize (M d). lia.
Qed.

Lemma sum_over_drop f g ds d0 delta :
  NoDup ds -> In d0 ds -> g d0 = f d0 - delta -> (forall d, d <> d0 -> g d = f d) ->
  sum_over g ds = sum_over f ds - delta.
Proof.
  intros ND I G O. induction ds as [|d ds IH]; [destruct I|]. cbn.
  inversion ND as [|? ? NI ND']; subst. destruct I as [->|I].
  - rewrite G. rewrite (sum_over_ext f g ds); [ring|]. intros d Hd. apply O. intro; subst; contradiction.
  - rewrite (IH ND' I). rewrite (O d); [ring|]. intro; subst; contradiction.
Qed.

Lemma backing_of_mono f g c l : (forall d, f d <= g d) -> backing_of f c l <= backing_of g c l.
Proof.
  intro M. induction l as [|[k p] l IH]; cbn; [lia|]. unfold pair_backing.
  destruct ((p_owner p =? 1) && (p_erc20 p =? c)); [|lia]. pose proof (sum_over_mono f g (p_denoms p) M). lia.
Qed.

Lemma backing_of_bump_ge f g c l id p d0 delta :
  In (id, p) l -> p_owner p = 1 -> p_erc20 p = c -> In d0 (p_denoms p) ->
  g d0 = f d0 + delta -> 0 <= delta -> (forall d, f d <= g d) ->
  backing_of f c l + delta <= backing_of g c l.
Proof.
  intros I O E D G P M. induction l as [|[k q] l IH]; [destruct I|]. cbn [backing_of snd].
  destruct I as [I|I].
  - inversion I; subst k q. unfold pair_backing. rewrite O, E, !Z.eqb_refl. cbn [andb].
    pose proof (sum_over_bump_ge f g (p_denoms p) d0 delta D G P M). pose proof (backing_of_mono f g (p_erc20 p) l M).
    subst c. lia.
  - specialize (IH I). assert (pair_backing f c q <= pair_backing g c q).
    { unfold pair_backing. destruct ((p_owner q =? 1) && (p_erc20 q =? c)); [apply sum_over_mono; exact M | lia]. }
    lia.
Qed.

(** the escrow of one denomination changes; pairs that list it do not back [c]: nothing changes for [c] *)
Lemma backing_of_other f g c l d0 :
  (forall id p, In (id, p) l -> In d0 (p_denoms p) -> (p_owner p =? 1) && (p_erc20 p =? c) = false) ->
  (forall d, d <> d0 -> g d = f d) -> backing_of g c l = backing_of f c l.
Proof.
  intros U O. induction l as [|[k q] l IH]; cbn [backing_of snd]; [reflexivity|].
  rewrite IH by (intros; eapply U; [right; eassumption | assumption]).
  f_equal. unfold pair_backing. destruct ((p_owner q =? 1) && (p_erc20 q =? c)) eqn:E; [|reflexivity].
  apply sum_over_ext. intros d Hd. apply O. intro; subst d.
  rewrite (U k q) in E; [discriminate | left; reflexivity | exact Hd].
Qed.

(** the escrow of one denomination, listed by exactly one pair (key [id0]), drops by [delta] *)
Lemma backing_of_drop f g c l d0 id0 delta :
  NoDup (map fst l) ->
  (forall id p, In (id, p) l -> NoDup (p_denoms p) /\ (In d0 (p_denoms p) -> id = id0)) ->
  g d0 = f d0 - delta -> 0 <= delta -> (forall d, d <> d0 -> g d = f d) ->
  backing_of f c l - delta <= backing_of g c l.
Proof.
  intros ND U G P O. induction l as [|[k q] l IH]; cbn [backing_of snd]; [lia|].
  inversion ND as [|? ? NI ND']; subst.
  destruct (in_dec bytes_eq_dec d0 (p_denoms q)) as [D|D].
  - destruct (U k q (or_introl eq_refl)) as [NDq Hk]. specialize (Hk D). subst k.
    (* no other entry lists d0 *)
    rewrite (backing_of_other f g c l d0).
    + unfold pair_backing. destruct ((p_owner q =? 1) && (p_erc20 q =? c)); [|lia].
      rewrite (sum_over_drop f g (p_denoms q) d0 delta NDq D G O). lia.
    + intros id p I Dp. exfalso. destruct (U id p (or_intror I)) as [_ Hid]. specialize (Hid Dp). subst id.
      apply NI. cbn. change id0 with (fst (id0, p)). apply in_map. exact I.
    + exact O.
  - assert (pair_backing g c q = pair_backing f c q) as ->.
    { unfold pair_backing. destruct ((p_owner q =? 1) && (p_erc20 q =? c)); [|reflexivity].
      apply sum_over_ext. intros d Hd. apply O. intro; subst; contradiction. }
    specialize (IH ND'). cbn in IH. assert (backing_of f c l - delta <= backing_of g c l).
    { apply IH. intros id p I. apply U. right; exact I. }
    lia.
Qed.

Lemma backing_of_adel f c l k :
  (forall p, In (k, p) l -> pair_backing f c p = 0) -> backing_of f c (adel bytes_eqb l k) = backing_of f c l.
Proof.
  intro Z0. induction l as [|[k' q] l IH]; cbn [adel backing_of snd]; [reflexivity|].
  destruct (bytes_eqb k' k) eqn:E.
  - apply bytes_eqb_eq in E; subst k'. rewrite (Z0 q) by (left; reflexivity).
    rewrite IH; [ring|]. intros; apply Z0; right; assumption.
  - cbn [backing_of snd]. rewrite IH; [reflexivity|]. intros; apply Z0; right; assumption.
Qed.

Lemma backing_of_toggle f c l k : backing_of f c (aupd bytes_eqb l k toggle_pair) = backing_of f c l.
Proof.
  induction l as [|[k' q] l IH]; cbn [aupd backing_of snd]; [reflexivity|].
  destruct (bytes_eqb k' k); cbn [backing_of snd]; [reflexivity | rewrite IH; reflexivity].
Qed.

Section Backing.
  Variable X : Type.
  Variable xcall : X -> Z -> Z -> call -> X * cres.
  Variable xcontract : X -> Z -> bool.
  Variable MODULE : Z.
  Notation state := (state X).
  Implicit Types s : state.
  Notation step := (step xcall xcontract MODULE).
  Notation run := (run xcall xcontract MODULE).

  (** coins of denomination [d] escrowed in the module account *)
  Definition escrow s (d : bytes) : Z := bget (s_bank s) MODULE d.

  (** Σ over the pairs (owner = module, contract = c) of Σ over the pair's denominations of the escrow *)
  Definition backing s (c : Z) : Z := backing_of (escrow s) c (s_pairs s).

  (** every contract deployed by the module is fully backed *)
  Definition Backed s : Prop := forall c t, find_mtok s c = Some t -> st_total t <= backing s c.

  (** the registry is well formed (property C12): pair keys are unique and equal the pairs' ids, a pair lists a
      denomination once, the denomination index points to the pair listing the denomination and to nothing else *)
  Definition WFreg (pairs : list (bytes * pair)) (denom : list (bytes * bytes)) : Prop :=
    NoDup (map fst pairs) /\
    (forall id p, In (id, p) pairs ->
       p_id p = id /\ NoDup (p_denoms p) /\ forall d, In d (p_denoms p) -> aget bytes_eqb [] denom d = id) /\
    (forall d p, afind bytes_eqb pairs (aget bytes_eqb [] denom d) = Some p -> In d (p_denoms p)) /\
    (forall p, ~ In ([], p) pairs).
  Definition WF s : Prop := WFreg (s_pairs s) (s_denom s).

  Definition Inv s : Prop := WF s /\ Backed s.

  (** ** Generic preservation argument *)
  Lemma backed_step s s' :
    s_pairs s' = s_pairs s ->
    (forall c t', find_mtok s' c = Some t' ->
       exists t dt, find_mtok s c = Some t /\ st_total t' = st_total t + dt /\ backing s c + dt <= backing_of (escrow s') c (s_pairs s)) ->
    Backed s -> Backed s'.
  Proof.
    intros P H B c t' F'. destruct (H c t' F') as (t & dt & F & T & L). specialize (B c t F).
    unfold backing at 1. rewrite P. lia.
  Qed.

  Lemma find_mtok_tokens s c : find_mtok s c = mfind X (s_tokens s) c.
  Proof. reflexivity. Qed.

  Lemma get_pair_In s id p : get_pair s id = Some p -> In (id, p) (s_pairs s).
  Proof. apply (afind_In bytes_eqb bytes_eqb_eq). Qed.

  (** under WF, the pairs listing [d] are the one the denom index points to *)
  Lemma WF_unique s d p id q :
    WF s -> get_pair s (get_denom_map s d) = Some p -> In (id, q) (s_pairs s) -> In d (p_denoms q) ->
    id = get_denom_map s d /\ q = p.
  Proof.
    intros (ND & W2 & W3 & _) G I D. destruct (W2 id q I) as (_ & _ & Hd). specialize (Hd d D).
    unfold get_denom_map. split; [symmetry; exact Hd|].
    pose proof (In_afind bytes_eqb bytes_eqb_eq _ _ _ ND I) as A. unfold get_pair, get_denom_map in G.
    rewrite Hd in G. congruence.
  Qed.

  Lemma aget_fold_adel_in (m : list (bytes * bytes)) ds d :
    In d ds -> aget bytes_eqb [] (fold_left (fun m d => adel bytes_eqb m d) ds m) d = [].
  Proof.
    revert m. induction ds as [|d0 ds IH]; intros m I; [destruct I|]. cbn [fold_left].
    destruct (in_dec bytes_eq_dec d ds) as [I'|NI]; [apply IH; exact I'|].
    destruct I as [->|I]; [|contradiction].
    clear IH. revert m. induction ds as [|d1 ds IH]; intro m; cbn [fold_left].
    - apply (aget_adel_same bytes_eqb [] ).
    - assert (d <> d1) by (intro; subst; apply NI; left; reflexivity).
      assert (~ In d ds) by (intro; apply NI; right; assumption).
      replace (adel bytes_eqb (adel bytes_eqb m d) d1) with (adel bytes_eqb (adel bytes_eqb m d1) d).
      + apply IH; assumption.
      + clear. induction m as [|[k v] m IHm]; cbn; [reflexivity|].
        destruct (bytes_eqb k d1) eqn:E1, (bytes_eqb k d) eqn:E2; cbn; rewrite ?E1, ?E2, ?IHm; reflexivity.
  Qed.

  Lemma aget_fold_adel_notin (m : list (bytes * bytes)) ds d :
    ~ In d ds -> aget bytes_eqb [] (fold_left (fun m d => adel bytes_eqb m d) ds m) d = aget bytes_eqb [] m d.
  Proof.
    revert m. induction ds as [|d0 ds IH]; intros m NI; [reflexivity|]. cbn [fold_left].
    rewrite IH by (intro; apply NI; right; assumption).
    apply (aget_adel_other bytes_eqb [] bytes_eqb_eq). intro; subst; apply NI; left; reflexivity.
  Qed.

  (** ** Clean-up of a self-destructed contract *)
  Lemma wf_delete_pair s d p :
    WF s -> get_pair s (get_denom_map s d) = Some p -> WF (delete_pair s p).
  Proof.
    intros W GP. pose proof W as (ND & W2 & W3 & W4).
    pose proof (get_pair_In _ _ _ GP) as IP. destruct (W2 _ _ IP) as (PID & NDp & Hd).
    set (id := get_denom_map s d) in *.
    unfold WF, delete_pair. cbn [s_pairs s_denom set_registry]. rewrite PID. split; [|split; [|split]].
    - apply (adel_NoDup bytes_eqb bytes_eqb_eq); exact ND.
    - intros id' q H. apply (adel_In bytes_eqb bytes_eqb_eq) in H as [I NE].
      destruct (W2 _ _ I) as (A1 & A2 & Hd'). split; [exact A1|]. split; [exact A2|].
      intros d' D'. rewrite aget_fold_adel_notin; [apply Hd'; exact D'|].
      intro D''. apply NE. rewrite <- (Hd' d' D'). apply Hd. exact D''.
    - intros d' q A. destruct (in_dec bytes_eq_dec d' (p_denoms p)) as [D'|D'].
      + rewrite aget_fold_adel_in in A by exact D'. apply (afind_In bytes_eqb bytes_eqb_eq) in A.
        apply (adel_In bytes_eqb bytes_eqb_eq) in A as [I _]. exfalso. exact (W4 q I).
      + rewrite aget_fold_adel_notin in A by exact D'. apply W3.
        destruct (bytes_eq_dec id (aget bytes_eqb [] (s_denom s) d')) as [E|NE].
        * rewrite <- E in A. rewrite (afind_adel_same bytes_eqb) in A. discriminate.
        * rewrite (afind_adel_other bytes_eqb bytes_eqb_eq) in A by exact NE. exact A.
    - intros q I. apply (adel_In bytes_eqb bytes_eqb_eq) in I as [I _]. exact (W4 q I).
  Qed.

  Lemma inv_delete_pair s d p :
    Inv s -> get_pair s (get_denom_map s d) = Some p -> is_contract xcontract s (p_erc20 p) = false ->
    Inv (delete_pair s p).
  Proof.
    intros [W B] GP C. split; [eapply wf_delete_pair; eassumption|].
    pose proof W as (ND & W2 & W3 & W4).
    pose proof (get_pair_In _ _ _ GP) as IP. destruct (W2 _ _ IP) as (PID & NDp & Hd).
    set (id := get_denom_map s d) in *.
    assert (UNIQ : forall q, In (id, q) (s_pairs s) -> q = p).
    { intros q I. pose proof (In_afind bytes_eqb bytes_eqb_eq _ _ _ ND I) as A. unfold get_pair in GP. congruence. }
    intros c t F. unfold delete_pair in F. cbn in F. specialize (B c t F).
    unfold backing, delete_pair. cbn [s_pairs s_bank set_registry]. rewrite PID.
    unfold escrow at 1. cbn [s_bank set_registry]. fold (escrow s).
    rewrite backing_of_adel; [exact B|].
    intros q I. rewrite (UNIQ q I). unfold pair_backing.
    destruct (Z.eqb_spec (p_erc20 p) c) as [E|_]; [|rewrite andb_false_r; reflexivity].
    exfalso. unfold is_contract in C. subst c. unfold find_mtok in F, C. rewrite F in C. discriminate.
  Qed.

  (** the escrow of [d] drops by [a]; [d] is listed by pair [p] owned by the module *)
  Lemma backing_drop_case s d p (f g : bytes -> Z) a c :
    WF s -> get_pair s (get_denom_map s d) = Some p ->
    g d = f d - a -> 0 <= a -> (forall d', d' <> d -> g d' = f d') ->
    backing_of f c (s_pairs s) - (if c =? p_erc20 p then a else 0) <= backing_of g c (s_pairs s).
  Proof.
    intros W GP G P O. pose proof W as (ND & W2 & W3 & W4).
    destruct (Z.eqb_spec c (p_erc20 p)) as [->|NC].
    - apply (backing_of_drop f g _ _ d (get_denom_map s d) a ND); try assumption.
      intros id q I. destruct (W2 id q I) as (_ & NDq & Hd). split; [exact NDq|].
      intro D. symmetry. apply Hd. exact D.
    - rewrite (backing_of_other f g c (s_pairs s) d); [lia| |exact O].
      intros id q I D. destruct (WF_unique s d p id q W GP I D) as [_ ->].
      destruct (Z.eqb_spec (p_erc20 p) c) as [E|_]; [congruence | apply andb_false_r].
  Qed.

  (** ** Messages *)
  Lemma inv_handle s m s' :
    handle xcall xcontract MODULE s m = Ok s' -> signer (OMsg m) <> Some MODULE -> Inv s -> Inv s'.
  Proof.
    intros H NS [W B].
    pose proof (handle_ok_gates _ _ _ _ _ _ _ H) as (_ & p & PR & _ & _ & _ & GP).
    destruct m as [m|m]; cbn [handle] in H.
    - (* MsgConvertCoin *)
      pose proof (convert_coin_ok_exact _ _ _ _ _ _ _ _ H PR) as E. cbv zeta in E. cbn [signer] in NS.
      assert (NM : cc_sender m <> MODULE) by congruence.
      destruct (is_contract xcontract s (p_erc20 p)) eqn:C.
      + destruct E as (OW & P & L & BS & SS & (G1 & G2 & G3 & G4 & G5 & G6 & G7 & G8) & A & res & TE & _).
        split; [unfold WF; rewrite G3, G5; exact W|].
        apply (backed_step s s' G3); [|exact B].
        intros c t' F'. rewrite find_mtok_tokens in F'.
        assert (ESC : forall d, escrow s' d = escrow s d + ind ((p_owner p =? 1) && bytes_eqb d (cc_denom m)) (cc_amount m)).
        { intro d. unfold escrow. rewrite BS. destruct (Z.eqb_spec MODULE (cc_sender m)) as [EQ|_]; [congruence|].
          cbn [andb]. unfold ind at 1. rewrite Z.eqb_refl, andb_true_r. ring. }
        destruct OW as [O|O]; rewrite O in *; cbn [Z.eqb Pos.eqb andb] in *.
        * (* flow 1.1 *)
          destruct (token_effect_totals _ _ _ _ _ _ _ _ _ _ _ TE c t' F') as (t & F & T).
          exists t. eexists. split; [exact F|]. split; [exact T|].
          destruct (Z.eqb_spec c (p_erc20 p)) as [->|NC].
          -- unfold dtotal. destruct TE as (_ & _ & _ & _ & _ & _ & OK & _). rewrite OK.
             apply (backing_of_bump_ge _ _ _ _ (get_denom_map s (cc_denom m)) p (cc_denom m)).
             ++ apply get_pair_In; exact GP.
             ++ exact O.
             ++ reflexivity.
             ++ destruct W as (_ & _ & W3 & _). apply W3. exact GP.
             ++ rewrite ESC, bytes_eqb_refl. reflexivity.
             ++ lia.
             ++ intro d. rewrite ESC. unfold ind. destruct (bytes_eqb d (cc_denom m)); lia.
          -- rewrite Z.add_0_r. apply backing_of_mono. intro d. rewrite ESC. unfold ind.
             destruct (bytes_eqb d (cc_denom m)); lia.
        * (* flow 2.2: the module's balance is unchanged, totalSupply of module contracts too *)
          destruct (token_effect2_totals _ _ _ _ _ _ _ _ _ _ _ _ _ TE c t' F') as (t & F & T).
          exists t. eexists. split; [exact F|]. split; [exact T|].
          assert (dtotal (CTransfer (hex_to_addr (cc_receiver m)) (cc_amount m)) res = 0) as ->
            by (unfold dtotal; destruct (cr_ok res); reflexivity).
          replace (if c =? p_erc20 p then 0 else 0) with 0 by (destruct (c =? p_erc20 p); reflexivity).
          rewrite Z.add_0_r. apply backing_of_mono. intro d. rewrite ESC. unfold ind. lia.
      + (* self-destructed contract: the pair is deleted *)
        subst s'. apply (inv_delete_pair s (cc_denom m)); [split; assumption | exact GP | exact C].
    - (* MsgConvertERC20 *)
      pose proof (convert_erc20_ok_exact _ _ _ _ _ _ _ _ H PR) as E. cbv zeta in E.
      destruct (is_contract xcontract s (p_erc20 p)) eqn:C.
      + destruct E as (OW & P & BL & BS & SS & (G1 & G2 & G3 & G4 & G5 & G6 & G7 & G8) & A & res & TE & _).
        split; [unfold WF; rewrite G3, G5; exact W|].
        apply (backed_step s s' G3); [|exact B].
        intros c t' F'. rewrite find_mtok_tokens in F'.
        set (d0 := ce_denom m) in *. set (a := ce_amount m) in *. set (r := ce_receiver m) in *.
        (* escrow: first the drop (flow 1.2 only), then a possible gain when the receiver is the module itself *)
        set (g1 := fun d => escrow s d + ind ((p_owner p =? 1) && bytes_eqb d d0) (- a)).
        assert (ESC : forall d, g1 d <= escrow s' d).
        { intro d. unfold g1, escrow. rewrite BS. rewrite Z.eqb_refl. cbn [andb]. rewrite andb_true_r.
          unfold ind. destruct ((MODULE =? r) && bytes_eqb d d0); destruct ((p_owner p =? 1) && bytes_eqb d d0); lia. }
        destruct OW as [O|O]; rewrite O in *; cbn [Z.eqb Pos.eqb andb] in *.
        * (* flow 1.2 *)
          destruct (token_effect_totals _ _ _ _ _ _ _ _ _ _ _ TE c t' F') as (t & F & T).
          exists t. eexists. split; [exact F|]. split; [exact T|].
          assert (dtotal (CBurnCoins (hex_to_addr (ce_sender m)) a) res = - a) as ->.
          { unfold dtotal. destruct TE as (_ & _ & _ & _ & _ & _ & OK & _). rewrite OK. reflexivity. }
          apply Z.le_trans with (backing_of g1 c (s_pairs s)); [|apply backing_of_mono; exact ESC].
          pose proof (backing_drop_case s d0 p (escrow s) g1 a c W GP) as DC.
          replace (if c =? p_erc20 p then - a else 0) with (- (if c =? p_erc20 p then a else 0))
            by (destruct (c =? p_erc20 p); ring).
          unfold backing. apply Z.le_trans with (backing_of (escrow s) c (s_pairs s) - (if c =? p_erc20 p then a else 0)); [lia|].
          apply DC.
          -- unfold g1. rewrite O, bytes_eqb_refl. cbn [Z.eqb Pos.eqb andb]. unfold ind. ring.
          -- lia.
          -- intros d' ND'. unfold g1. apply bytes_eqb_neq in ND'. rewrite ND', andb_false_r. unfold ind. ring.
        * (* flow 2.1 *)
          destruct (token_effect_totals _ _ _ _ _ _ _ _ _ _ _ TE c t' F') as (t & F & T).
          exists t. eexists. split; [exact F|]. split; [exact T|].
          assert (dtotal (CTransfer MODULE a) res = 0) as -> by (unfold dtotal; destruct (cr_ok res); reflexivity).
          replace (if c =? p_erc20 p then 0 else 0) with 0 by (destruct (c =? p_erc20 p); reflexivity).
          rewrite Z.add_0_r. apply backing_of_mono. intro d. specialize (ESC d). unfold g1 in ESC. rewrite O in ESC.
          cbn [Z.eqb Pos.eqb andb] in ESC. unfold ind in ESC. lia.
      + subst s'. apply (inv_delete_pair s (ce_denom m)); [split; assumption | exact GP | exact C].
  Qed.

  Lemma inv_msg s m s' c :
    deliver xcall xcontract MODULE s m = (s', c) -> signer (OMsg m) <> Some MODULE -> Inv s -> Inv s'.
  Proof.
    intros H NS I. apply deliver_inv in H as [(_ & _ & H)|(_ & ->)]; [|exact I].
    eapply inv_handle; eassumption.
  Qed.

  (** the ICS-20 hook: ConvertCoin for the receiver, or nothing *)
  Lemma hook_recv_inv s r d a s' c :
    hook_recv xcall xcontract MODULE s r d a = (s', c) ->
    (c = 0%nat /\ denom_registered s d = true /\ valid_denom d = true /\ 0 <= a /\
     convert_coin xcall xcontract MODULE s (hook_msg r d a) = Ok s') \/ (c <> 0%nat /\ s' = s).
  Proof.
    unfold hook_recv. destruct (denom_registered s d); cbn [negb].
    2:{ intro H; inversion H; right; split; [discriminate | reflexivity]. }
    destruct (valid_denom d); cbn [negb orb].
    2:{ intro H; inversion H; right; split; [discriminate | reflexivity]. }
    destruct (Z.ltb_spec a 0) as [NEG|POS].
    { intro H; inversion H; right; split; [discriminate | reflexivity]. }
    destruct (convert_coin xcall xcontract MODULE s (hook_msg r d a)) as [s1| |]; intro H; inversion H; subst.
    - left. repeat split; try reflexivity. assumption.
    - right; split; [discriminate | reflexivity].
    - right; split; [discriminate | reflexivity].
  Qed.

  Lemma inv_hook s r d a s' c :
    hook_recv xcall xcontract MODULE s r d a = (s', c) -> r <> MODULE -> Inv s -> Inv s'.
  Proof.
    intros H NM I. apply hook_recv_inv in H as [(_ & _ & _ & _ & H)|(_ & ->)]; [|exact I].
    apply (inv_handle s (MCC (hook_msg r d a)) s'); [exact H | | exact I].
    cbn [signer hook_msg cc_sender]. congruence.
  Qed.

  (** ** What everybody else can do *)
  Lemma env_mint_inv s t d a s' k :
    env_mint s t d a = (s', k) ->
    (k = 0%nat /\ zmem t (s_blocked s) = false /\ 0 < a /\
     s' = ensure_acct (set_supply (set_bank s (bset (s_bank s) t d (bget (s_bank s) t d + a)))
                                  (sset (s_supply s) d (sget (s_supply s) d + a))) t)
    \/ (k <> 0%nat /\ s' = s).
  Proof.
    unfold env_mint. destruct (zmem t (s_blocked s)).
    { intro H; inversion H; right; split; [discriminate | reflexivity]. }
    unfold add_coins. destruct (coin_valid d a) eqn:V; cbn [negb obind].
    2:{ intro H; inversion H; right; split; [discriminate | reflexivity]. }
    destruct (INTMAX <=? bget (s_bank s) t d + a); cbn [obind].
    { intro H; inversion H; right; split; [discriminate | reflexivity]. }
    cbn [s_supply set_bank].
    destruct (INTMAX <=? sget (s_supply s) d + a); intro H; inversion H; subst.
    { right; split; [discriminate | reflexivity]. }
    left. unfold coin_valid in V. apply andb_prop in V as [_ V]. apply Z.ltb_lt in V.
    repeat split; try reflexivity. exact V.
  Qed.

  Lemma inv_env_mint s t d a s' k : env_mint s t d a = (s', k) -> Inv s -> Inv s'.
  Proof.
    intros H [W B]. apply env_mint_inv in H as [(_ & _ & P & ->)|(_ & ->)]; [|split; assumption].
    assert (Q : forall s0 : state, s_pairs (ensure_acct s0 t) = s_pairs s0 /\ s_denom (ensure_acct s0 t) = s_denom s0 /\
                                   s_bank (ensure_acct s0 t) = s_bank s0 /\ s_mtok (ensure_acct s0 t) = s_mtok s0).
    { intro s0. unfold ensure_acct. destruct (zmem t (s_accts s0)); repeat split; reflexivity. }
    match goal with |- Inv (ensure_acct ?s0 t) => destruct (Q s0) as (Q1 & Q2 & Q3 & Q4) end.
    cbn [s_pairs s_denom s_bank s_mtok set_supply set_bank] in Q1, Q2, Q3, Q4.
    split; [unfold WF; rewrite Q1, Q2; exact W|].
    apply (backed_step s _ Q1); [|exact B].
    intros c t' F'. unfold find_mtok in F'. rewrite Q4 in F'.
    exists t', 0. split; [exact F'|]. split; [ring|]. rewrite Z.add_0_r. apply backing_of_mono.
    intro d'. unfold escrow. rewrite Q3. rewrite bget_bset.
    destruct (Z.eqb_spec t MODULE) as [->|_]; cbn [andb]; [|lia].
    destruct (bytes_eqb_spec d d') as [->|_]; lia.
  Qed.

  Lemma inv_token_call s c caller cl s' k :
    token_call xcall MODULE s c caller cl = (s', k) -> caller <> MODULE -> Inv s -> Inv s'.
  Proof.
    unfold token_call. destruct (evm_call xcall MODULE s c caller cl) as [s1 r] eqn:E.
    destruct (cr_ok r) eqn:O; intros H NM [W B]; inversion H; subst; [|split; assumption].
    apply evm_call_inv in E as [(_ & _ & _ & tk' & T & ->)|[-> _]]; [|cbn in O; discriminate].
    split; [exact W|].
    apply (backed_step s (set_tokens s tk') eq_refl); [|exact B].
    intros c' t' F'. rewrite find_mtok_tokens, s_tokens_set in F'.
    destruct (tok_exec_total_le _ _ _ _ _ _ _ _ _ T NM c' t' F') as (t & F & L).
    exists t, (st_total t' - st_total t). split; [exact F|]. split; [ring|].
    unfold backing. unfold escrow at 2. cbn [s_bank set_tokens]. fold (escrow s). lia.
  Qed.

  Lemma inv_bank_send s f t d a s' k :
    bank_send s f t d a = (s', k) -> f <> MODULE -> Inv s -> Inv s'.
  Proof.
    unfold bank_send. destruct (zmem t (s_blocked s)); [intros H _ I; inversion H; subst; exact I|].
    destruct (send_coins s f t d a) as [s1| |] eqn:S; intros H NM [W B]; inversion H; subst;
      try (split; assumption).
    apply send_coins_inv in S as (VD & P & L & ->).
    destruct (sent_proj X s f t d a) as (_ & _ & Q3 & _ & Q5 & _ & _ & _ & _ & Q10 & _).
    split; [unfold WF; rewrite Q3, Q5; exact W|].
    apply (backed_step s _ Q3); [|exact B].
    intros c t' F'. unfold find_mtok in F'. rewrite Q10 in F'.
    exists t', 0. split; [exact F'|]. split; [ring|]. rewrite Z.add_0_r. apply backing_of_mono.
    intro d'. unfold escrow. rewrite sent_bank. destruct (Z.eqb_spec MODULE f) as [E|_]; [congruence|].
    cbn [andb]. unfold ind. destruct ((MODULE =? t) && bytes_eqb d' d); lia.
  Qed.

  Lemma wf_toggle s id : WF s -> WF (step s (OToggle id)).
  Proof.
    intros W. cbn [Convert.step]. destruct (get_pair s id) as [p0|] eqn:G; [|exact W].
    pose proof W as (ND & W2 & W3 & W4).
    unfold WF. cbn [s_pairs s_denom set_registry]. split; [|split; [|split]].
    - rewrite aupd_keys. exact ND.
    - intros id' q H. apply (aupd_In bytes_eqb bytes_eqb_eq) in H as (v & I & [->|[-> ->]]); apply (W2 _ _ I).
    - intros d q A. destruct (bytes_eq_dec id (aget bytes_eqb [] (s_denom s) d)) as [E|NE].
      + rewrite <- E, afind_aupd_same in A. destruct (afind bytes_eqb (s_pairs s) id) as [v|] eqn:AV; [|discriminate].
        cbn in A. inversion A; subst q. cbn [p_denoms toggle_pair]. apply W3. rewrite <- E. exact AV.
      + rewrite (afind_aupd_other bytes_eqb bytes_eqb_eq) in A by exact NE. apply W3. exact A.
    - intros q I. apply (aupd_In bytes_eqb bytes_eqb_eq) in I as (v & I & [->|[E ->]]); [exact (W4 v I)|].
      subst id. exact (W4 v I).
  Qed.

  Lemma inv_toggle s id : Inv s -> Inv (step s (OToggle id)).
  Proof.
    intros [W B]. split; [apply wf_toggle; exact W|].
    cbn [Convert.step]. destruct (get_pair s id) as [p0|] eqn:G; [|exact B].
    intros c t F. cbn in F. specialize (B c t F). unfold backing. cbn [s_pairs set_registry].
    rewrite backing_of_toggle. exact B.
  Qed.

  (** ** The invariant over all histories *)
  Theorem inv_step s o : not_module_signed MODULE o -> Inv s -> Inv (step s o).
  Proof.
    intros NS I. destruct o as [m|c caller cl|f t d a|id|p e sd sl|r d a|t d a].
    - cbn [Convert.step]. destruct (deliver xcall xcontract MODULE s m) as [s' k] eqn:D. cbn [fst].
      eapply inv_msg; eassumption.
    - cbn [Convert.step]. destruct (token_call xcall MODULE s c caller cl) as [s' k] eqn:D. cbn [fst].
      eapply inv_token_call; [exact D| |exact I]. intro; subst. apply NS. reflexivity.
    - cbn [Convert.step]. destruct (bank_send s f t d a) as [s' k] eqn:D. cbn [fst].
      eapply inv_bank_send; [exact D| |exact I]. intro; subst. apply NS. reflexivity.
    - apply inv_toggle; exact I.
    - destruct I as [W B]. split; [exact W|]. intros c t F. exact (B c t F).
    - cbn [Convert.step]. destruct (hook_recv xcall xcontract MODULE s r d a) as [s' k] eqn:D. cbn [fst].
      eapply inv_hook; [exact D| |exact I]. intro; subst. apply NS. reflexivity.
    - cbn [Convert.step]. destruct (env_mint s t d a) as [s' k] eqn:D. cbn [fst].
      eapply inv_env_mint; eassumption.
  Qed.

  Theorem inv_run l : forall s, Forall (not_module_signed MODULE) l -> Inv s -> Inv (run s l).
  Proof.
    induction l as [|o l IH]; intros s F I; [exact I|]. cbn [Convert.run fold_left].
    inversion F; subst. apply IH; [assumption|]. apply inv_step; assumption.
  Qed.
End Backing.

Arguments escrow {X}. Arguments backing {X}. Arguments Backed {X}. Arguments WF {X}. Arguments Inv {X}.
