(** C11 — backing of the token contracts deployed by the module: over every history of conversions (all four
    flows, several pairs, several denominations per pair, arbitrary external contracts) interleaved with what
    users and governance can do, totalSupply of each such contract never exceeds the coins of the pair's
    denominations escrowed in the module account. *)
From Teleport Require Import Base.Bytes Base.Outcome Model.Convert Proofs.ConvertBase Proofs.ConvertExact
  Proofs.ConvertTokensLemmas.
Local Open Scope Z_scope.

(** * Sums over the denominations of the pairs *)
Fixpoint sum_over (f : bytes -> Z) (ds : list bytes) : Z :=
  match ds with [] => 0 | d :: t => f d + sum_over f t end.

(** what pair [p] contributes to the backing of contract [c]: the escrow [f] of its denominations, if the
    module owns the pair's contract and that contract is [c] *)
Definition pair_backing (f : bytes -> Z) (c : Z) (p : pair) : Z :=
  if (p_owner p =? 1) && (p_erc20 p =? c) then sum_over f (p_denoms p) else 0.

Fixpoint backing_of (f : bytes -> Z) (c : Z) (l : list (bytes * pair)) : Z :=
  match l with [] => 0 | kp :: t => pair_backing f c (snd kp) + backing_of f c t end.

Lemma sum_over_ext f g ds : (forall d, In d ds -> g d = f d) -> sum_over g ds = sum_over f ds.
Proof.
  induction ds as [|d ds IH]; cbn; [reflexivity|]. intro H.
  rewrite (H d) by (left; reflexivity). rewrite IH; [reflexivity|]. intros; apply H; right; assumption.
Qed.

Lemma sum_over_mono f g ds : (forall d, f d <= g d) -> sum_over f ds <= sum_over g ds.
Proof. intro H. induction ds as [|d ds IH]; cbn; [lia|]. specialize (H d). lia. Qed.

Lemma sum_over_bump_ge f g ds d0 delta :
  In d0 ds -> g d0 = f d0 + delta -> 0 <= delta -> (forall d, f d <= g d) -> sum_over f ds + delta <= sum_over g ds.
Proof.
  intros I G P M. induction ds as [|d ds IH]; [destruct I|]. cbn. destruct I as [->|I].
  - pose proof (sum_over_mono f g ds M). lia.
  - specialize (IH I). specialize (M d). lia.
Qed.

Lemma sum_over_drop f g ds d0 delta :
  NoDup ds -> In d0 ds -> g d0 = f d0 - delta -> (forall d, d <> d0 -> g d = f d) ->
  sum_over g ds = sum_over f ds - delta.
Proof.
  intros ND I G O. induction ds as [|d ds IH]; [destruct I|]. cbn.
  inversion ND as [|? ? NI ND']; subst. destruct I as [->|I].
  - rewrite G. rewrite (sum_over_ext f g ds); [ring|]. intros d Hd. apply O. intro; subst; contradiction.
  - rewrite (IH ND' I). rewrite (O d); [ring|]. intro; subst; contradiction.
Qed.

Lemma backing_of_mono f g c l : (forall d, f d <= g d) -> backing_of f c l <= backing_of g c l.
Proof.
  intro M. induction l as [|[k p] l IH]; cbn; [lia|]. unfold pair_backing.
  destruct ((p_owner p =? 1) && (p_erc20 p =? c)); [|lia]. pose proof (sum_over_mono f g (p_denoms p) M). lia.
Qed.

Lemma backing_of_bump_ge f g c l id p d0 delta :
  In (id, p) l -> p_owner p = 1 -> p_erc20 p = c -> In d0 (p_denoms p) ->
  g d0 = f d0 + delta -> 0 <= delta -> (forall d, f d <= g d) ->
  backing_of f c l + delta <= backing_of g c l.
Proof.
  intros I O E D G P M. induction l as [|[k q] l IH]; [destruct I|]. cbn [backing_of snd].
  destruct I as [I|I].
  - inversion I; subst k q. unfold pair_backing. rewrite O, E, !Z.eqb_refl. cbn [andb].
    pose proof (sum_over_bump_ge f g (p_denoms p) d0 delta D G P M). pose proof (backing_of_mono f g (p_erc20 p) l M).
    subst c. lia.
  - specialize (IH I). assert (pair_backing f c q <= pair_backing g c q).
    { unfold pair_backing. destruct ((p_owner q =? 1) && (p_erc20 q =? c)); [apply sum_over_mono; exact M | lia]. }
    lia.
Qed.

(** the escrow of one denomination changes; pairs that list it do not back [c]: nothing changes for [c] *)
Lemma backing_of_other f g c l d0 :
  (forall id p, In (id, p) l -> In d0 (p_denoms p) -> (p_owner p =? 1) && (p_erc20 p =? c) = false) ->
  (forall d, d <> d0 -> g d = f d) -> backing_of g c l = backing_of f c l.
Proof.
  intros U O. induction l as [|[k q] l IH]; cbn [backing_of snd]; [reflexivity|].
  rewrite IH by (intros; eapply U; [right; eassumption | assumption]).
  f_equal. unfold pair_backing. destruct ((p_owner q =? 1) && (p_erc20 q =? c)) eqn:E; [|reflexivity].
  apply sum_over_ext. intros d Hd. apply O. intro; subst d.
  rewrite (U k q) in E; [discriminate | left; reflexivity | exact Hd].
Qed.

(** the escrow of one denomination, listed by exactly one pair (key [id0]), drops by [delta] *)
Lemma backing_of_drop f g c l d0 id0 delta :
  NoDup (map fst l) ->
  (forall id p, In (id, p) l -> NoDup (p_denoms p) /\ (In d0 (p_denoms p) -> id = id0)) ->
  g d0 = f d0 - delta -> 0 <= delta -> (forall d, d <> d0 -> g d = f d) ->
  backing_of f c l - delta <= backing_of g c l.
Proof.
  intros ND U G P O. induction l as [|[k q] l IH]; cbn [backing_of snd]; [lia|].
  inversion ND as [|? ? NI ND']; subst.
  destruct (in_dec bytes_eq_dec d0 (p_denoms q)) as [D|D].
  - destruct (U k q (or_introl eq_refl)) as [NDq Hk]. specialize (Hk D). subst k.
    (* no other entry lists d0 *)
    rewrite (backing_of_other f g c l d0).
    + unfold pair_backing. destruct ((p_owner q =? 1) && (p_erc20 q =? c)); [|lia].
      rewrite (sum_over_drop f g (p_denoms q) d0 delta NDq D G O). lia.
    + intros id p I Dp. exfalso. destruct (U id p (or_intror I)) as [_ Hid]. specialize (Hid Dp). subst id.
      apply NI. cbn. change id0 with (fst (id0, p)). apply in_map. exact I.
    + exact O.
  - assert (pair_backing g c q = pair_backing f c q) as ->.
    { unfold pair_backing. destruct ((p_owner q =? 1) && (p_erc20 q =? c)); [|reflexivity].
      apply sum_over_ext. intros d Hd. apply O. intro; subst; contradiction. }
    specialize (IH ND'). cbn in IH. assert (backing_of f c l - delta <= backing_of g c l).
    { apply IH. intros id p I. apply U. right; exact I. }
    lia.
Qed.

Lemma backing_of_adel f c l k :
  (forall p, In (k, p) l -> pair_backing f c p = 0) -> backing_of f c (adel bytes_eqb l k) = backing_of f c l.
Proof.
  intro Z0. induction l as [|[k' q] l IH]; cbn [adel backing_of snd]; [reflexivity|].
  destruct (bytes_eqb k' k) eqn:E.
  - apply bytes_eqb_eq in E; subst k'. rewrite (Z0 q) by (left; reflexivity).
    rewrite IH; [ring|]. intros; apply Z0; right; assumption.
  - cbn [backing_of snd]. rewrite IH; [reflexivity|]. intros; apply Z0; right; assumption.
Qed.

Lemma backing_of_toggle f c l k : backing_of f c (aupd bytes_eqb l k toggle_pair) = backing_of f c l.
Proof.
  induction l as [|[k' q] l IH]; cbn [aupd backing_of snd]; [reflexivity|].
  destruct (bytes_eqb k' k); cbn [backing_of snd]; [reflexivity | rewrite IH; reflexivity].
Qed.

Section Backing.
  Variable X : Type.
  Variable xcall : X -> Z -> Z -> call -> X * cres.
  Variable xcontract : X -> Z -> bool.
  Variable MODULE : Z.
  Notation state := (state X).
  Implicit Types s : state.
  Notation step := (step xcall xcontract MODULE).
  Notation run := (run xcall xcontract MODULE).

  (** coins of denomination [d] escrowed in the module account *)
  Definition escrow s (d : bytes) : Z := bget (s_bank s) MODULE d.

  (** Σ over the pairs (owner = module, contract = c) of Σ over the pair's denominations of the escrow *)
  Definition backing s (c : Z) : Z := backing_of (escrow s) c (s_pairs s).

  (** every contract deployed by the module is fully backed *)
  Definition Backed s : Prop := forall c t, find_mtok s c = Some t -> st_total t <= backing s c.

  (** the registry is well formed (property C12): pair keys are unique and equal the pairs' ids, a pair lists a
      denomination once, the denomination index points to the pair listing the denomination and to nothing else *)
  Definition WFreg (pairs : list (bytes * pair)) (denom : list (bytes * bytes)) : Prop :=
    NoDup (map fst pairs) /\
    (forall id p, In (id, p) pairs ->
       p_id p = id /\ NoDup (p_denoms p) /\ forall d, In d (p_denoms p) -> aget bytes_eqb [] denom d = id) /\
    (forall d p, afind bytes_eqb pairs (aget bytes_eqb [] denom d) = Some p -> In d (p_denoms p)).
  Definition WF s : Prop := WFreg (s_pairs s) (s_denom s).

  Definition Inv s : Prop := WF s /\ Backed s.

  (** ** Generic preservation argument *)
  Lemma backed_step s s' :
    s_pairs s' = s_pairs s ->
    (forall c t', find_mtok s' c = Some t' ->
       exists t dt, find_mtok s c = Some t /\ st_total t' = st_total t + dt /\ backing s c + dt <= backing_of (escrow s') c (s_pairs s)) ->
    Backed s -> Backed s'.
  Proof.
    intros P H B c t' F'. destruct (H c t' F') as (t & dt & F & T & L). specialize (B c t F).
    unfold backing at 1. rewrite P. lia.
  Qed.

  Lemma find_mtok_tokens s c : find_mtok s c = mfind X (s_tokens s) c.
  Proof. reflexivity. Qed.

  Lemma get_pair_In s id p : get_pair s id = Some p -> In (id, p) (s_pairs s).
  Proof. apply (afind_In bytes_eqb bytes_eqb_eq). Qed.

  (** under WF, the pairs listing [d] are the one the denom index points to *)
  Lemma WF_unique s d p id q :
    WF s -> get_pair s (get_denom_map s d) = Some p -> In (id, q) (s_pairs s) -> In d (p_denoms q) ->
    id = get_denom_map s d /\ q = p.
  Proof.
    intros (ND & W2 & W3) G I D. destruct (W2 id q I) as (_ & _ & Hd). specialize (Hd d D).
    unfold get_denom_map. split; [symmetry; exact Hd|].
    pose proof (In_afind bytes_eqb bytes_eqb_eq _ _ _ ND I) as A. unfold get_pair, get_denom_map in G.
    rewrite Hd in G. congruence.
  Qed.

  (** ** Messages *)
  Lemma inv_msg s m s' c :
    deliver xcall xcontract MODULE s m = (s', c) -> signer (OMsg m) <> Some MODULE -> Inv s -> Inv s'.
  Proof.
    intros H NS [W B]. destruct c as [|c'].
    2:{ apply deliver_failure_changes_nothing in H; [subst; split; assumption | discriminate]. }
    pose proof (deliver_ok_gates _ _ _ _ _ _ _ H) as (_ & _ & p & PR & _ & _ & _ & GP).
    destruct m as [m|m].
    - (* MsgConvertCoin *)
      pose proof (convert_coin_exact _ _ _ _ _ _ _ _ H PR) as E. cbv zeta in E. cbn [signer] in NS.
      assert (NM : cc_sender m <> MODULE) by congruence.
      destruct (is_contract xcontract s (p_erc20 p)) eqn:C.
      + destruct E as (OW & P & L & BS & SS & (G1 & G2 & G3 & G4 & G5 & G6 & G7 & G8) & A & res & TE & _).
        split; [unfold WF; rewrite G3, G5; exact W|].
        apply (backed_step s s' G3); [|exact B].
        intros c t' F'. rewrite find_mtok_tokens in F'.
        destruct (token_effect_totals _ _ _ _ _ _ _ _ _ _ _ TE c t' F') as (t & F & T).
        exists t. eexists. split; [exact F|]. split; [exact T|].
        assert (ESC : forall d, escrow s' d = escrow s d + ind ((p_owner p =? 1) && bytes_eqb d (cc_denom m)) (cc_amount m)).
        { intro d. unfold escrow. rewrite BS. destruct (Z.eqb_spec MODULE (cc_sender m)) as [EQ|_]; [congruence|].
          cbn [andb]. unfold ind at 1. rewrite Z.eqb_refl, andb_true_r. ring. }
        destruct OW as [O|O]; rewrite O in *; cbn [Z.eqb Pos.eqb andb] in *.
        * (* flow 1.1 *)
          destruct (Z.eqb_spec c (p_erc20 p)) as [->|NC].
          -- unfold dtotal. destruct TE as (_ & _ & _ & _ & _ & _ & OK & _). rewrite OK.
             apply (backing_of_bump_ge _ _ _ _ (get_denom_map s (cc_denom m)) p (cc_denom m)).
             ++ apply get_pair_In; exact GP.
             ++ exact O.
             ++ reflexivity.
             ++ destruct W as (_ & _ & W3). apply W3. exact GP.
             ++ rewrite ESC, bytes_eqb_refl. reflexivity.
             ++ lia.
             ++ intro d. rewrite ESC. unfold ind. destruct (bytes_eqb d (cc_denom m)); lia.
          -- rewrite Z.add_0_r. apply backing_of_mono. intro d. rewrite ESC. unfold ind.
             destruct (bytes_eqb d (cc_denom m)); lia.
        * (* flow 2.2: the module's balance is unchanged, totalSupply of module contracts too *)
          assert (dtotal (CTransfer (hex_to_addr (cc_receiver m)) (cc_amount m)) res = 0) as -> by (unfold dtotal; destruct (cr_ok res); reflexivity).
          replace (if c =? p_erc20 p then 0 else 0) with 0 by (destruct (c =? p_erc20 p); reflexivity).
          rewrite Z.add_0_r. apply backing_of_mono. intro d. rewrite ESC. unfold ind. lia.
      + (* self-destructed contract: the pair is deleted *)
        subst s'. destruct W as (ND & W2 & W3).
        pose proof (get_pair_In _ _ _ GP) as IP. destruct (W2 _ _ IP) as (PID & NDp & Hd).
        split.
        * unfold WF, delete_pair. cbn [s_pairs s_denom set_registry]. rewrite PID.
          admit.
        * admit.
    - admit.
  Admitted.
End Backing.
