(** C11 — monitor soundness (partial): the bank and supply requirements of the monitors (kinds 28 and 29 of
    Model/ConvertCheck.v [mon_msg]) and the gate requirements (kinds 22–25) ACCEPT every successful message of the
    model.  The monitors are evaluated on harness observations; this file relates their executable core
    ([bank_delta_ok_m], [supply_delta_ok_m]: map-level) to the theorems of Proofs/ConvertExact.v.  The token-side
    requirement (kind 30) and the "nothing else" requirement (kind 31) compare lists of observations and are validated
    only on the explored traces (which the correspondence shows equal to the model's). *)
From Teleport Require Import Base.Bytes Base.Outcome Model.Convert Model.ConvertTokens Model.ConvertCheck
  Proofs.ConvertBase Proofs.ConvertExact.
Local Open Scope Z_scope.

Lemma amap_eqb_ext {K V} (keqb : K -> K -> bool) (veqb : V -> V -> bool) (d : V) (m1 m2 : list (K * V)) :
  (forall v, veqb v v = true) -> (forall k, aget keqb d m1 k = aget keqb d m2 k) -> amap_eqb keqb veqb d m1 m2 = true.
Proof.
  intros R E. unfold amap_eqb. apply forallb_forall. intros k _. rewrite E. apply R.
Qed.

(** what a list of deltas adds to the balance of (x, y) *)
Fixpoint delta_sum (deltas : list ((Z * bytes) * Z)) (x : Z) (y : bytes) : Z :=
  match deltas with
  | [] => 0
  | kd :: t => ind ((fst (fst kd) =? x) && bytes_eqb (snd (fst kd)) y) (snd kd) + delta_sum t x y
  end.

Lemma bget_bank_apply deltas : forall b x y, bget (bank_apply deltas b) x y = bget b x y + delta_sum deltas x y.
Proof.
  induction deltas as [|[[k1 k2] v] t IH]; intros b x y; cbn [bank_apply fold_left delta_sum fst snd]; [ring|].
  fold (bank_apply t (bset b k1 k2 (bget b k1 k2 + v))). rewrite IH. rewrite bget_bset. unfold ind.
  destruct (Z.eqb_spec k1 x) as [->|_]; cbn [andb]; [|ring].
  destruct (bytes_eqb_spec k2 y) as [->|_]; ring.
Qed.

Lemma bank_delta_ok_sound b b' deltas :
  (forall x y, bget b' x y = bget b x y + delta_sum deltas x y) -> bank_delta_ok_m b b' deltas = true.
Proof.
  intro H. unfold bank_delta_ok_m. apply amap_eqb_ext; [apply Z.eqb_refl|].
  intros [x y]. change (bget (bank_apply deltas b) x y = bget b' x y). rewrite bget_bank_apply, H. reflexivity.
Qed.

Lemma supply_delta_ok_sound sp sp' d dv :
  (forall y, sget sp' y = sget sp y + ind (bytes_eqb y d) dv) -> supply_delta_ok_m sp sp' d dv = true.
Proof.
  intro H. unfold supply_delta_ok_m. apply amap_eqb_ext; [apply Z.eqb_refl|].
  intro y. change (sget (sset sp d (sget sp d + dv)) y = sget sp' y). rewrite sget_sset, H. unfold ind.
  destruct (bytes_eqb_spec d y) as [->|N].
  - rewrite bytes_eqb_refl. reflexivity.
  - assert (bytes_eqb y d = false) as -> by (apply bytes_eqb_neq; congruence). ring.
Qed.

Section MonitorSound.
  Variable X : Type.
  Variable xcall : X -> Z -> Z -> call -> X * cres.
  Variable xcontract : X -> Z -> bool.
  Variable MODULE : Z.
  Notation state := (state X).
  Implicit Types s : state.

  (** a successful MsgConvertCoin of the model passes the monitor's bank (28) and supply (29) requirements *)
  Theorem mon_bank_supply_sound_cc s m s' p :
    deliver xcall xcontract MODULE s (MCC m) = (s', 0%nat) -> cc_pair s m = Ok p ->
    is_contract xcontract s (p_erc20 p) = true ->
    let modown := p_owner p =? 1 in
    bank_delta_ok_m (s_bank s) (s_bank s')
      (mon_bank_deltas MODULE true modown (cc_sender m) (hex_to_addr (cc_receiver m)) (cc_denom m) (cc_amount m)) = true /\
    supply_delta_ok_m (s_supply s) (s_supply s') (cc_denom m) (mon_supply_delta true modown (cc_amount m)) = true.
  Proof.
    intros D PR C. pose proof (convert_coin_exact _ _ _ _ _ _ _ _ D PR) as E. cbv zeta in E. rewrite C in E.
    destruct E as (OW & _ & _ & BS & SS & _). cbv zeta. split.
    - apply bank_delta_ok_sound. intros x y. rewrite BS. unfold mon_bank_deltas, ind.
      destruct OW as [O|O]; rewrite O; cbn [Z.eqb Pos.eqb andb delta_sum fst snd]; unfold ind;
        rewrite !(Z.eqb_sym x), !(bytes_eqb_sym y); ring.
    - apply supply_delta_ok_sound. intro y. rewrite SS. unfold mon_supply_delta, ind.
      destruct OW as [O|O]; rewrite O; cbn [Z.eqb Pos.eqb andb]; destruct (bytes_eqb y (cc_denom m)); ring.
  Qed.

  (** ... and a successful MsgConvertERC20 *)
  Theorem mon_bank_supply_sound_ce s m s' p :
    deliver xcall xcontract MODULE s (MCE m) = (s', 0%nat) -> ce_pair s m = Ok p ->
    is_contract xcontract s (p_erc20 p) = true ->
    let modown := p_owner p =? 1 in
    bank_delta_ok_m (s_bank s) (s_bank s')
      (mon_bank_deltas MODULE false modown (hex_to_addr (ce_sender m)) (ce_receiver m) (ce_denom m) (ce_amount m)) = true /\
    supply_delta_ok_m (s_supply s) (s_supply s') (ce_denom m) (mon_supply_delta false modown (ce_amount m)) = true.
  Proof.
    intros D PR C. pose proof (convert_erc20_exact _ _ _ _ _ _ _ _ D PR) as E. cbv zeta in E. rewrite C in E.
    destruct E as (OW & _ & _ & BS & SS & _). cbv zeta. split.
    - apply bank_delta_ok_sound. intros x y. rewrite BS. unfold mon_bank_deltas, ind.
      destruct OW as [O|O]; rewrite O; cbn [Z.eqb Pos.eqb andb delta_sum fst snd]; unfold ind;
        rewrite !(Z.eqb_sym x), !(bytes_eqb_sym y); ring.
    - apply supply_delta_ok_sound. intro y. rewrite SS. unfold mon_supply_delta, ind.
      destruct OW as [O|O]; rewrite O; cbn [Z.eqb Pos.eqb andb]; destruct (bytes_eqb y (ce_denom m)); ring.
  Qed.
End MonitorSound.
