(** Proofs about the concrete conversion of the C16 model ([convert_coin] over [cstate]) and the atomicity theorem
    of the middleware instantiated with it. *)
From Coq Require Import List ZArith Bool Lia.
From Teleport Require Import Base.Bytes Base.Outcome Model.Ics20 Proofs.Ics20.
Import ListNotations.
Local Open Scope Z_scope.

(** * Association lists *)
Lemma key2_eqb_eq : forall a b, key2_eqb a b = true <-> a = b.
Proof.
  intros [a1 a2] [b1 b2]. unfold key2_eqb. cbn [fst snd]. rewrite andb_true_iff, !bytes_eqb_eq.
  split; [intros [-> ->]; reflexivity|intros H; inversion H; auto].
Qed.

Lemma get2_same : forall m k v, get2 ((k, v) :: m) k = v.
Proof. intros m k v. cbn [get2]. rewrite (proj2 (key2_eqb_eq k k) eq_refl). reflexivity. Qed.

Lemma get2_other : forall m k k' v, k' <> k -> get2 ((k', v) :: m) k = get2 m k.
Proof.
  intros m k k' v H. cbn [get2]. destruct (key2_eqb k' k) eqn:E; [|reflexivity].
  apply key2_eqb_eq in E. contradiction.
Qed.

Lemma get1_same : forall m k v, get1 ((k, v) :: m) k = v.
Proof. intros m k v. cbn [get1]. rewrite bytes_eqb_refl. reflexivity. Qed.

Lemma get1_other : forall m k k' v, k' <> k -> get1 ((k', v) :: m) k = get1 m k.
Proof.
  intros m k k' v H. cbn [get1]. destruct (bytes_eqb k' k) eqn:E; [|reflexivity].
  apply bytes_eqb_eq in E. contradiction.
Qed.

Lemma mem1_in : forall k l, mem1 k l = true <-> In k l.
Proof.
  induction l as [|x l IH]; cbn [mem1 In]; [split; [discriminate|tauto]|].
  rewrite orb_true_iff, bytes_eqb_eq, IH. tauto.
Qed.

Lemma get2_cons : forall m k k' v, get2 ((k', v) :: m) k = if key2_eqb k' k then v else get2 m k.
Proof. reflexivity. Qed.
Lemma get1_cons : forall m k k' v, get1 ((k', v) :: m) k = if bytes_eqb k' k then v else get1 m k.
Proof. reflexivity. Qed.
Lemma key2_eqb_false : forall a b, key2_eqb a b = false -> a <> b.
Proof. intros a b H E. apply key2_eqb_eq in E. congruence. Qed.

(** decide every key comparison in the goal *)
Ltac keys :=
  rewrite ?get2_cons, ?get1_cons;
  repeat match goal with
         | |- context [key2_eqb ?x ?y] =>
             let E := fresh "E" in destruct (key2_eqb x y) eqn:E; [apply key2_eqb_eq in E | apply key2_eqb_false in E]
         | |- context [bytes_eqb ?x ?y] =>
             let E := fresh "E" in destruct (bytes_eqb x y) eqn:E; [apply bytes_eqb_eq in E | apply bytes_eqb_neq in E]
         end;
  try congruence; try lia.

(** * What "nothing but the conversion changed" means *)
Definition same_funds (s s' : cstate) : Prop :=
  c_bank s' = c_bank s /\ c_supply s' = c_supply s /\ c_tokens s' = c_tokens s /\ c_tok_total s' = c_tok_total s.

Definition same_config (s s' : cstate) : Prop :=
  c_enabled s' = c_enabled s /\ c_code s' = c_code s /\ c_blocked s' = c_blocked s /\
  c_send_disabled s' = c_send_disabled s.

Definition same_registry (s s' : cstate) : Prop :=
  c_denom_idx s' = c_denom_idx s /\ c_erc20_idx s' = c_erc20_idx s /\ c_pairs s' = c_pairs s.

Section Concrete.
  Variable MODULE : bytes.
  Notation bal := (bal).
  Notation tok := (tok).
  Notation convert_coin := (convert_coin MODULE).

  (** Full conversion of [cm_amount m] coins of [cm_denom m] held by [cm_sender m] into tokens of contract
      [cp_erc20 p] credited to [cm_receiver m], stated against the WHOLE state:
      - module-owned contract (owner 1): the coins are escrowed in the module account, the tokens are minted;
      - external contract (owner 2): the tokens are released from the module's holdings, the coins are burned;
      every other balance, supply entry, token balance, total supply, the registry and the parameters are unchanged. *)
  Record full_conversion (s : cstate) (m : conv_msg) (p : cpair) (s' : cstate) : Prop := {
    fc_positive : 0 < cm_amount m;
    fc_held : cm_amount m <= bal s (cm_sender m) (cm_denom m);
    fc_debit : bal s' (cm_sender m) (cm_denom m) = bal s (cm_sender m) (cm_denom m) - cm_amount m;
    fc_credit : tok s' (cp_erc20 p) (cm_receiver m) = tok s (cp_erc20 p) (cm_receiver m) + cm_amount m;
    fc_owner :
      (cp_owner p = 1%nat /\
       bal s' MODULE (cm_denom m) = bal s MODULE (cm_denom m) + cm_amount m /\
       c_supply s' = c_supply s /\
       get1 (c_tok_total s') (cp_erc20 p) = get1 (c_tok_total s) (cp_erc20 p) + cm_amount m /\
       tok s' (cp_erc20 p) MODULE = tok s (cp_erc20 p) MODULE) \/
      (cp_owner p = 2%nat /\
       bal s' MODULE (cm_denom m) = bal s MODULE (cm_denom m) /\
       get1 (c_supply s') (cm_denom m) = get1 (c_supply s) (cm_denom m) - cm_amount m /\
       (forall d', d' <> cm_denom m -> get1 (c_supply s') d' = get1 (c_supply s) d') /\
       c_tok_total s' = c_tok_total s /\
       tok s' (cp_erc20 p) MODULE = tok s (cp_erc20 p) MODULE - cm_amount m);
    fc_bank_rest : forall a d, (a, d) <> (cm_sender m, cm_denom m) -> (a, d) <> (MODULE, cm_denom m) ->
                               bal s' a d = bal s a d;
    fc_tokens_rest : forall c h, (c, h) <> (cp_erc20 p, cm_receiver m) -> (c, h) <> (cp_erc20 p, MODULE) ->
                                 tok s' c h = tok s c h;
    fc_total_rest : forall c, c <> cp_erc20 p -> get1 (c_tok_total s') c = get1 (c_tok_total s) c;
    fc_registry : same_registry s s';
    fc_config : same_config s s' }.

  Lemma escrow_spec : forall s m s1,
    cm_sender m <> MODULE ->
    escrow MODULE s m = Ok s1 ->
    0 < cm_amount m /\ cm_amount m <= bal s (cm_sender m) (cm_denom m) /\
    bal s1 (cm_sender m) (cm_denom m) = bal s (cm_sender m) (cm_denom m) - cm_amount m /\
    bal s1 MODULE (cm_denom m) = bal s MODULE (cm_denom m) + cm_amount m /\
    (forall a d, (a, d) <> (cm_sender m, cm_denom m) -> (a, d) <> (MODULE, cm_denom m) -> bal s1 a d = bal s a d) /\
    c_supply s1 = c_supply s /\ c_tokens s1 = c_tokens s /\ c_tok_total s1 = c_tok_total s /\
    same_registry s s1 /\ same_config s s1.
  Proof.
    intros s m s1 Hsm H. unfold escrow in H.
    destruct (negb (valid_denom (cm_denom m)) || (cm_amount m <=? 0)) eqn:E1; [discriminate|].
    apply orb_false_iff in E1. destruct E1 as [_ E1]. apply Z.leb_gt in E1.
    destruct (Ics20.bal s (cm_sender m) (cm_denom m) <? cm_amount m) eqn:E2; [discriminate|]. apply Z.ltb_ge in E2.
    match type of H with (if ?c then _ else _) = _ => destruct c eqn:E3; [discriminate|] end.
    inversion H; subst s1; clear H E3.
    unfold Ics20.bal in *. cbn [c_bank with_funds c_supply c_tokens c_tok_total].
    repeat split; try assumption; try reflexivity.
    - keys.
    - keys.
    - intros a d H1 H2. keys.
  Qed.

  Lemma minting_enabled_spec : forall s m id p,
    minting_enabled s m = Some (id, p) ->
    c_enabled s = true /\ find1 (c_denom_idx s) (cm_denom m) = Some id /\ find1 (c_pairs s) id = Some p /\
    cp_enabled p = true /\ mem1 (cm_receiver m) (c_blocked s) = false.
  Proof.
    intros s m id p H. unfold minting_enabled in H.
    destruct (c_enabled s); cbn [negb] in H; [|discriminate].
    destruct (find1 (c_denom_idx s) (cm_denom m)) as [id'|]; [|discriminate].
    destruct id' as [|i0 i1]; [discriminate|].
    destruct (find1 (c_pairs s) (i0 :: i1)) as [p'|] eqn:Ep; [|discriminate].
    destruct (cp_enabled p') eqn:Een; cbn [negb] in H; [|discriminate].
    destruct (mem1 (cm_receiver m) (c_blocked s)) eqn:Eb; [discriminate|].
    destruct (negb _ && _); [discriminate|]. inversion H; subst. repeat split; auto.
  Qed.

  (** ConvertCoin returning nil error: the full conversion, or (self-destructed contract) only the registry entry
      of the pair is removed. *)
  Lemma convert_coin_spec : forall s m s',
    cm_sender m <> MODULE -> cm_receiver m <> MODULE ->
    convert_coin s m = Ok s' ->
    exists id p, minting_enabled s m = Some (id, p) /\
      ((mem1 (cp_erc20 p) (c_code s) = false /\ s' = delete_pair s id p) \/
       (mem1 (cp_erc20 p) (c_code s) = true /\ full_conversion s m p s')).
  Proof.
    intros s m s' Hsm Hrm H. unfold Ics20.convert_coin in H.
    destruct (minting_enabled s m) as [[id p]|] eqn:Em; [|discriminate].
    exists id, p. split; [reflexivity|].
    destruct (mem1 (cp_erc20 p) (c_code s)) eqn:Ec; cbn [negb] in H.
    2:{ left. inversion H. auto. }
    right. split; [reflexivity|].
    destruct (cp_owner p) as [|[|[|o]]] eqn:Eo; try discriminate.
    - (* module-owned contract *)
      unfold convert_native_coin in H. cbn [obind] in H.
      destruct (escrow MODULE s m) as [s1| |] eqn:Ee; cbn [obind] in H; try discriminate.
      destruct (escrow_spec _ _ _ Hsm Ee) as (Hp & Hh & Hd & Hmod & Hrest & Hsup & Htok & Htot & Hreg & Hcfg).
      match type of H with (if ?c then _ else _) = _ => destruct c eqn:E3; [discriminate|] end.
      inversion H; subst s'; clear H E3.
      unfold Ics20.bal, Ics20.tok in *.
      constructor; unfold Ics20.bal, Ics20.tok; cbn [c_bank c_supply c_tokens c_tok_total with_funds];
        rewrite ?Htok, ?Htot, ?Hsup.
      + exact Hp.
      + exact Hh.
      + exact Hd.
      + keys.
      + left. split; [exact Eo|]. cbn [c_bank c_supply c_tokens c_tok_total with_funds].
        rewrite ?Htok, ?Htot, ?Hsup. repeat split.
        * exact Hmod.
        * keys.
        * keys.
      + exact Hrest.
      + intros c h H1 H2. keys.
      + intros c Hc. keys.
      + exact Hreg.
      + exact Hcfg.
    - (* external contract *)
      unfold convert_native_erc20 in H. cbn [obind] in H.
      destruct (escrow MODULE s m) as [s1| |] eqn:Ee; cbn [obind] in H; try discriminate.
      destruct (escrow_spec _ _ _ Hsm Ee) as (Hp & Hh & Hd & Hmod & Hrest & Hsup & Htok & Htot & Hreg & Hcfg).
      match type of H with (if ?c then _ else _) = _ => destruct c eqn:E3; [discriminate|] end.
      match type of H with (if ?c then _ else _) = _ => destruct c eqn:E4; [discriminate|] end.
      inversion H; subst s'; clear H E3 E4.
      unfold Ics20.bal, Ics20.tok in *.
      constructor; unfold Ics20.bal, Ics20.tok; cbn [c_bank c_supply c_tokens c_tok_total with_funds];
        rewrite ?Htok, ?Htot, ?Hsup.
      + exact Hp.
      + exact Hh.
      + keys.
      + keys.
      + right. split; [exact Eo|]. cbn [c_bank c_supply c_tokens c_tok_total with_funds].
        rewrite ?Htok, ?Htot, ?Hsup. repeat split.
        * keys.
        * keys.
        * intros d' Hd'. keys.
        * keys.
      + intros a d H1 H2. keys. apply Hrest; assumption.
      + intros c h H1 H2. keys.
      + intros c Hc. reflexivity.
      + exact Hreg.
      + exact Hcfg.
  Qed.

  Lemma delete_pair_funds : forall s id p, same_funds s (delete_pair s id p) /\ same_config s (delete_pair s id p).
  Proof. intros. unfold same_funds, same_config, delete_pair. cbn. tauto. Qed.

  (** ConvertCoin does not panic on a state whose balances respect the 256-bit bound of sdk.Int and whose supply
      covers the holdings (bank invariants). *)
  Lemma convert_coin_no_panic : forall s m,
    bal s MODULE (cm_denom m) + bal s (cm_sender m) (cm_denom m) < W256 ->
    bal s (cm_sender m) (cm_denom m) <= get1 (c_supply s) (cm_denom m) ->
    convert_coin s m <> Panic.
  Proof.
    intros s m Hb Hs H. unfold Ics20.convert_coin in H.
    destruct (minting_enabled s m) as [[id p]|]; [|discriminate].
    destruct (negb _); [discriminate|].
    assert (He : forall s1, escrow MODULE s m = Ok s1 ->
                  cm_amount m <= bal s (cm_sender m) (cm_denom m) /\ c_supply s1 = c_supply s).
    { intros s1 E. unfold escrow in E. destruct (_ || _); [discriminate|].
      destruct (Ics20.bal s (cm_sender m) (cm_denom m) <? cm_amount m) eqn:E2; [discriminate|]. apply Z.ltb_ge in E2.
      match type of E with (if ?c then _ else _) = _ => destruct c; [discriminate|] end.
      inversion E; subst. cbn. auto. }
    assert (Hne : escrow MODULE s m <> Panic).
    { unfold escrow. destruct (_ || _) eqn:E0; [discriminate|].
      apply orb_false_iff in E0. destruct E0 as [_ E0]. apply Z.leb_gt in E0.
      destruct (Ics20.bal s (cm_sender m) (cm_denom m) <? cm_amount m) eqn:E2; [discriminate|]. apply Z.ltb_ge in E2.
      match goal with |- (if ?c then _ else _) <> _ => destruct c eqn:E3; [|discriminate] end.
      exfalso. apply Z.leb_le in E3. unfold Ics20.bal in *.
      destruct (key2_eqb (cm_sender m, cm_denom m) (MODULE, cm_denom m)) eqn:Ek.
      - apply key2_eqb_eq in Ek. rewrite Ek in *. rewrite get2_same in E3. lia.
      - rewrite get2_other in E3 by (intros X; apply key2_eqb_eq in X; congruence). lia. }
    destruct (cp_owner p) as [|[|[|o]]]; try discriminate.
    - unfold convert_native_coin in H. destruct (escrow MODULE s m) as [s1| |] eqn:Ee; cbn [obind] in H; try discriminate.
      + destruct (_ || _); discriminate.
      + contradiction.
    - unfold convert_native_erc20 in H. destruct (escrow MODULE s m) as [s1| |] eqn:Ee; cbn [obind] in H; try discriminate.
      + destruct (He _ eq_refl) as [Ha Hsup].
        destruct (_ || _); [discriminate|].
        match type of H with (if ?c then _ else _) = _ => destruct c eqn:E4; [|discriminate] end.
        apply Z.ltb_lt in E4. rewrite Hsup in E4. lia.
      + contradiction.
  Qed.

  (** * The middleware over the concrete state *)
  Section Stack.
    Variable sha256 : bytes -> bytes.
    Variable decode : bytes -> option ftpd.
    Variable parse_int : bytes -> option Z.
    Variable from_bech32 : bytes -> option bytes.
    Variable transfer_recv : cstate -> packet -> outcome (cstate * ack).

    Notation mw := (middleware cstate sha256 decode parse_int from_bech32 c_is_registered convert_coin transfer_recv).
    Notation hmsg := (hook_msg sha256 from_bech32).

    (** the three possible results of the middleware, for every packet and every state *)
    Inductive after_middleware (pkt : packet) (st1 st2 : cstate) (hp : option hook_path) : Prop :=
    | AM_untouched :                         (* no conversion: the wrapped application's state, bit for bit *)
        st2 = st1 -> hp <> Some HConverted -> after_middleware pkt st1 st2 hp
    | AM_pair_removed : forall d amt id p,   (* self-destructed contract: funds untouched, the dead pair is unregistered *)
        hp = Some HConverted ->
        decode (pk_data pkt) = Some d -> parse_int (fd_amount d) = Some amt ->
        minting_enabled st1 (hmsg pkt d amt) = Some (id, p) ->
        mem1 (cp_erc20 p) (c_code st1) = false ->
        st2 = delete_pair st1 id p -> same_funds st1 st2 -> same_config st1 st2 ->
        after_middleware pkt st1 st2 hp
    | AM_converted : forall d amt id p,      (* full conversion of exactly the packet amount, credited to the receiver *)
        hp = Some HConverted ->
        decode (pk_data pkt) = Some d -> parse_int (fd_amount d) = Some amt ->
        cm_receiver (hmsg pkt d amt) = cm_sender (hmsg pkt d amt) ->   (* the receiver's own (20-byte) address *)
        minting_enabled st1 (hmsg pkt d amt) = Some (id, p) ->
        mem1 (cp_erc20 p) (c_code st1) = true ->
        full_conversion st1 (hmsg pkt d amt) p st2 ->
        after_middleware pkt st1 st2 hp.

    Lemma hook_msg_not_module : forall pkt d amt st1 id p,
      length MODULE = 20%nat -> mem1 MODULE (c_blocked st1) = true ->
      minting_enabled st1 (hmsg pkt d amt) = Some (id, p) ->
      cm_sender (hmsg pkt d amt) <> MODULE /\ cm_receiver (hmsg pkt d amt) <> MODULE.
    Proof.
      intros pkt d amt st1 id p Hlen Hblk Hm. apply minting_enabled_spec in Hm.
      destruct Hm as (_ & _ & _ & _ & Hnb).
      assert (Hr : cm_receiver (hmsg pkt d amt) <> MODULE) by (intros X; rewrite X in Hnb; congruence).
      split; [|exact Hr]. intros X. apply Hr. unfold hook_msg in *. cbn [cm_sender cm_receiver] in *.
      rewrite X. apply evm_addr_20. exact Hlen.
    Qed.

    Theorem conversion_atomic : forall st pkt st1 a st2 oa hp,
      length MODULE = 20%nat ->
      transfer_recv st pkt = Ok (st1, a) ->
      mem1 MODULE (c_blocked st1) = true ->          (* the module account is a blocked address (app.go BlockedAddrs) *)
      mw st pkt = Ok (st2, oa, hp) ->
      after_middleware pkt st1 st2 hp.
    Proof.
      intros st pkt st1 a st2 oa hp Hlen Et Hblk Hm.
      destruct (middleware_state _ _ _ _ _ _ _ _ _ _ _ _ _ _ _ Et Hm) as [[E Hp]|(Hp & Hs & d & amt & Ed & Ea & Hpos & Hl20 & Hreg & Hc)].
      - apply AM_untouched; assumption.
      - assert (Hc' := Hc). unfold Ics20.convert_coin in Hc'.
        destruct (minting_enabled st1 (hmsg pkt d amt)) as [[id p]|] eqn:Eme; [|discriminate]. clear Hc'.
        destruct (hook_msg_not_module _ _ _ _ _ _ Hlen Hblk Eme) as [Hsn Hrn].
        destruct (convert_coin_spec _ _ _ Hsn Hrn Hc) as (id' & p' & Eme' & Hcases).
        rewrite Eme in Eme'. inversion Eme'; subst id' p'.
        destruct Hcases as [[Hcode Hdel]|[Hcode Hfull]].
        + destruct (delete_pair_funds st1 id p) as [Hf Hcf]. rewrite <- Hdel in Hf, Hcf.
          eapply AM_pair_removed; eassumption.
        + eapply AM_converted; try eassumption.
          unfold hook_msg. cbn [cm_sender cm_receiver]. apply evm_addr_20. exact Hl20.
    Qed.

    (** corollary in the words of the property: the receiver's coins of ANY denomination other than the hook's are
        never touched by the middleware (in particular the native coins released by a returning packet) *)
    Corollary other_denominations_untouched : forall st pkt st1 a st2 oa hp acct g,
      length MODULE = 20%nat ->
      transfer_recv st pkt = Ok (st1, a) -> mem1 MODULE (c_blocked st1) = true ->
      mw st pkt = Ok (st2, oa, hp) ->
      (forall d amt, decode (pk_data pkt) = Some d -> parse_int (fd_amount d) = Some amt ->
                     g <> cm_denom (hmsg pkt d amt)) ->
      bal st2 acct g = bal st1 acct g.
    Proof.
      intros st pkt st1 a st2 oa hp acct g Hlen Et Hblk Hm Hg.
      destruct (conversion_atomic _ _ _ _ _ _ _ Hlen Et Hblk Hm) as [E _|d amt id p _ Ed Ea _ _ _ Hf _|d amt id p _ Ed Ea _ _ _ Hfull].
      - subst. reflexivity.
      - destruct Hf as [Hb _]. unfold Ics20.bal. rewrite Hb. reflexivity.
      - apply (fc_bank_rest _ _ _ _ Hfull); intros X; inversion X; subst; eapply Hg; eauto.
    Qed.

    (** The concrete stack adds no panic: with the concrete [convert_coin] (which CAN panic: 256-bit sdk.Int
        overflow in the escrow, supply underflow in BurnCoins) the middleware returns whenever the wrapped application
        does, on every state that respects the two bank invariants for the receiver and the hook's denomination:
        balances fit 256 bits together and the supply covers the receiver's holdings. *)
    Theorem concrete_no_new_panic : forall st pkt st1 a,
      transfer_sound cstate decode parse_int transfer_recv ->
      (forall x, length (sha256 x) = 32%nat) ->
      transfer_recv st pkt = Ok (st1, a) ->
      (forall d amt, decode (pk_data pkt) = Some d -> parse_int (fd_amount d) = Some amt ->
         let m := hmsg pkt d amt in
         bal st1 MODULE (cm_denom m) + bal st1 (cm_sender m) (cm_denom m) < W256 /\
         bal st1 (cm_sender m) (cm_denom m) <= get1 (c_supply st1) (cm_denom m)) ->
      exists st2 hp, mw st pkt = Ok (st2, Some a, hp).
    Proof.
      intros st pkt st1 a Hts Hsha Et Hinv. apply (middleware_no_new_panic_at _ _ _ _ _ _ _ _ _ _ _ _ Et). intros Es.
      destruct (Hts _ _ _ _ Et Es) as (d & amt & Ed & Ea & Hpos).
      exists d, amt. repeat split; auto.
      destruct (Hinv d amt Ed Ea) as [H1 H2]. apply convert_coin_no_panic; assumption.
    Qed.

    (** the code before e0a53b0 credited common.BytesToAddress(receiver): the receiver itself exactly when its
        address has 20 bytes *)
    Lemma credited_address : forall pkt d amt r,
      from_bech32 (fd_receiver d) = Some r ->
      cm_sender (hmsg pkt d amt) = r /\ cm_receiver (hmsg pkt d amt) = evm_addr r /\
      (length r = 20%nat -> cm_receiver (hmsg pkt d amt) = r) /\
      (length r <> 20%nat -> cm_receiver (hmsg pkt d amt) <> r).
    Proof.
      intros pkt d amt r E. unfold hook_msg, hook_receiver. rewrite E. cbn [cm_sender cm_receiver].
      repeat split; [apply evm_addr_20|apply evm_addr_other].
    Qed.
  End Stack.
End Concrete.

(** * Monitor soundness: the executable atomicity check of Model/Ics20Check.v (applied by every run to the
    IMPLEMENTATION's observed balances) accepts every step of the model. *)
From Teleport Require Import Model.Ics20Check.

Section Monitor.
  Variable MODULE : bytes.

  (** the projection the harness takes of a state: receiver [r], hook denomination [v], credited denomination [g],
      contract [c]; [rest] stands for the digest of everything else *)
  Definition proj (r v g c rest : bytes) (s : cstate) : snap :=
    {| sn_recv_voucher := bal s r v; sn_recv_got := bal s r g; sn_mod_voucher := bal s MODULE v;
       sn_supply := get1 (c_supply s) v; sn_tokens := tok s c r; sn_mod_tokens := tok s c MODULE;
       sn_tok_supply := get1 (c_tok_total s) c;
       sn_indexed := c_is_registered s v;
       sn_pair := match find1 (c_denom_idx s) v with
                  | Some id => match find1 (c_pairs s) id with Some _ => true | None => false end
                  | None => false end;
       sn_rest := rest |}.

  Lemma snap_funds_eqb_same : forall r v g c rest s s',
    same_funds s s' -> snap_funds_eqb (proj r v g c rest s) (proj r v g c rest s') = true.
  Proof.
    intros r v g c rest s s' (Hb & Hs & Ht & Htt). unfold snap_funds_eqb, proj, bal, tok. cbn.
    rewrite Hb, Hs, Ht, Htt, !Z.eqb_refl, bytes_eqb_refl. reflexivity.
  Qed.

  Theorem monitor_sound : forall sha256 decode parse_int from_bech32 pkt st1 st2 hp g rest,
    after_middleware MODULE sha256 decode parse_int from_bech32 pkt st1 st2 hp ->
    forall d amt, decode (pk_data pkt) = Some d -> parse_int (fd_amount d) = Some amt ->
    let m := hook_msg sha256 from_bech32 pkt d amt in
    cm_sender m <> MODULE ->
    forall owner c,
      (forall id p, minting_enabled st1 m = Some (id, p) -> cp_owner p = owner /\ cp_erc20 p = c) ->
      let b := proj (cm_sender m) (cm_denom m) g c rest st1 in
      let s := proj (cm_sender m) (cm_denom m) g c rest st2 in
      snap_funds_eqb b s || full_conversion_obs owner false amt b s = true.
  Proof.
    intros sha256 decode parse_int from_bech32 pkt st1 st2 hp g rest Ham d amt Ed Ea m Hsm owner c Hown b s.
    destruct Ham as [E _|d' amt' id p _ Ed' Ea' _ _ _ Hf _|d' amt' id p _ Ed' Ea' Hrs Hme _ Hfull].
    - subst st2. subst b s. rewrite snap_funds_eqb_same; [reflexivity|]. unfold same_funds. tauto.
    - subst b s. rewrite snap_funds_eqb_same; [reflexivity|]. destruct Hf as (A & B & C & D). unfold same_funds. auto.
    - rewrite Ed in Ed'. inversion Ed'; subst d'. rewrite Ea in Ea'. inversion Ea'; subst amt'.
      fold m in Hrs, Hme, Hfull. destruct (Hown _ _ Hme) as [Ho Hc]. subst owner c.
      apply orb_true_iff. right.
      destruct Hfull as [Hpos Hheld Hdeb Hcred Howner Hbrest Htrest Httrest (R1 & R2 & R3) Hcfg].
      unfold full_conversion_obs. subst b s. unfold proj. cbn [sn_rest sn_indexed sn_pair sn_recv_voucher sn_tokens
        sn_mod_voucher sn_supply sn_mod_tokens sn_tok_supply].
      unfold c_is_registered. rewrite R1, R3, bytes_eqb_refl, !Bool.eqb_reflx. cbn [andb].
      replace (0 <? amt) with true by (symmetry; apply Z.ltb_lt; exact Hpos).
      cbn [cm_amount m hook_msg] in *. rewrite Hrs in Hcred.
      rewrite Hdeb, Hcred, !Z.eqb_refl. cbn [andb].
      destruct Howner as [(Ho & H1 & H2 & H3 & H4)|(Ho & H1 & H2 & _ & H3 & H4)]; rewrite Ho.
      + rewrite H1, H2, H3, H4, !Z.eqb_refl. reflexivity.
      + rewrite H1, H2, H3, H4, !Z.eqb_refl. reflexivity.
  Qed.
  (** the stronger check used on the DIRECT call of the keeper hook (kind 72): funds untouched and then the registry
      untouched too unless the contract is dead, or a full conversion credited to a 20-byte receiver.  (The direct call
      is the middleware around a wrapped application that changes nothing and acknowledges success, so
      [after_middleware] describes it.) *)
  Theorem monitor_sound_strong : forall sha256 decode parse_int from_bech32 pkt st1 st2 hp g rest,
    after_middleware MODULE sha256 decode parse_int from_bech32 pkt st1 st2 hp ->
    forall d amt, decode (pk_data pkt) = Some d -> parse_int (fd_amount d) = Some amt ->
    let m := hook_msg sha256 from_bech32 pkt d amt in
    cm_sender m <> MODULE ->
    forall owner c,
      (forall id p, minting_enabled st1 m = Some (id, p) -> cp_owner p = owner /\ cp_erc20 p = c) ->
      let b := proj (cm_sender m) (cm_denom m) g c rest st1 in
      let s := proj (cm_sender m) (cm_denom m) g c rest st2 in
      (snap_funds_eqb b s &&
       (negb (mem1 c (c_code st1)) || (Bool.eqb (sn_indexed b) (sn_indexed s) && Bool.eqb (sn_pair b) (sn_pair s)))) ||
      (full_conversion_obs owner false amt b s && Nat.eqb (length (cm_sender m)) 20) = true.
  Proof.
    intros sha256 decode parse_int from_bech32 pkt st1 st2 hp g rest Ham d amt Ed Ea m Hsm owner c Hown b s.
    pose proof (monitor_sound sha256 decode parse_int from_bech32 pkt st1 st2 hp g rest Ham d amt Ed Ea Hsm owner c Hown) as Hm.
    cbv zeta in Hm. fold m in Hm. fold b s in Hm.
    destruct Ham as [E _|d' amt' id p _ Ed' Ea' Hme Hcode _ Hf _|d' amt' id p _ Ed' Ea' Hrs Hme _ Hfull].
    - subst st2. subst b s. rewrite snap_funds_eqb_same by (unfold same_funds; tauto).
      rewrite !Bool.eqb_reflx, orb_true_r. reflexivity.
    - rewrite Ed in Ed'. inversion Ed'; subst d'. rewrite Ea in Ea'. inversion Ea'; subst amt'.
      fold m in Hme. destruct (Hown _ _ Hme) as [_ Hc]. subst c. rewrite Hcode. cbn [negb orb].
      subst b s. rewrite snap_funds_eqb_same; [reflexivity|]. destruct Hf as (A & B & C & D). unfold same_funds. auto.
    - rewrite Ed in Ed'. inversion Ed'; subst d'. rewrite Ea in Ea'. inversion Ea'; subst amt'.
      fold m in Hrs.
      assert (Hl : Nat.eqb (length (cm_sender m)) 20 = true).
      { rewrite <- Hrs. unfold m, hook_msg. cbn [cm_receiver]. rewrite evm_addr_length. reflexivity. }
      rewrite Hl, andb_true_r.
      (* the funds-only monitor holds; if it holds through "untouched" the strong left disjunct needs the registry,
         which a full conversion leaves alone *)
      destruct (full_conversion_obs owner false amt b s) eqn:Ef; [apply orb_true_r|].
      rewrite orb_false_r in Hm. rewrite Hm. cbn [andb].
      destruct Hfull as [_ _ _ _ _ _ _ _ (R1 & R2 & R3) _].
      subst b s. unfold proj. cbn [sn_indexed sn_pair]. unfold c_is_registered. rewrite R1, R3, !Bool.eqb_reflx.
      rewrite orb_true_r. reflexivity.
  Qed.
End Monitor.
