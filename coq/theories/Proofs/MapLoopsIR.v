(** * C14 — soundness of the loop classifier of [Model/MapLoopsIR.v]

    For every evaluator (any interpretation of the opaque expressions that respects "the value depends only on the
    variables read") a loop whose tree [classify_tree] accepts gives the same result for every enumeration of the
    map's entries:
    - [ShStore]: the written maps are lookup-equivalent (or both executions panic) — under the semantic premise that
      entries writing the same key of the same map write the same value;
    - [ShSearch]: the same return (or both run to the end with the store untouched) — no premise;
    - [ShCollectSort]: the collected slices are permutations of each other, hence equal after any sorter whose
      result is a function of the multiset — no premise. *)
From Coq Require Import List String Bool Permutation Sorting.Sorted.
From Teleport Require Import Model.MapLoops Model.MapLoopsIR Proofs.MapLoops.
Import ListNotations.
Local Open Scope list_scope.

(** ** small facts *)

Lemma mem_In (x : string) (l : list string) : mem x l = true <-> In x l.
Proof.
  unfold mem. rewrite existsb_exists. split.
  - intros (y & I & E). apply String.eqb_eq in E. subst. exact I.
  - intro I. exists x. split; [exact I|apply String.eqb_refl].
Qed.

Lemma disjoint_spec (a b : list string) : disjoint a b = true -> forall x, In x a -> ~ In x b.
Proof.
  unfold disjoint. rewrite forallb_forall. intros H x Ia Ib.
  specialize (H x Ia). apply negb_true_iff in H. apply mem_In in Ib. congruence.
Qed.

Lemma lookup_cons_ne {A} (x y : string) (a : A) (l : list (string * A)) : x <> y -> lookup x ((y, a) :: l) = lookup x l.
Proof. intro N. cbn. destruct (String.eqb x y) eqn:E; [apply String.eqb_eq in E; contradiction|reflexivity]. Qed.

Lemma lookup_cons_eq {A} (x : string) (a : A) (l : list (string * A)) : lookup x ((x, a) :: l) = Some a.
Proof. cbn. rewrite String.eqb_refl. reflexivity. Qed.

(** fold of inserts: permutation invariance for an arbitrary starting map *)
Lemma insert_fold_perm_gen {K V K' V'} (tk : K -> V -> K') (tv : K -> V -> V')
    (keqb : K' -> K' -> bool) (keqb_spec : forall a b, keqb a b = true <-> a = b) (l l' : list (K * V)) (m0 : gomap K' V') :
  Permutation l l' ->
  (forall e1 e2, In e1 l -> In e2 l -> tk (fst e1) (snd e1) = tk (fst e2) (snd e2) -> tv (fst e1) (snd e1) = tv (fst e2) (snd e2)) ->
  mequiv keqb (fold_left (insert_step tk tv) l m0) (fold_left (insert_step tk tv) l' m0).
Proof.
  intros P C k. rewrite !(insert_fold_lookup tk tv keqb).
  destruct (find _ (rev l)) as [e|] eqn:F; destruct (find _ (rev l')) as [e'|] eqn:F'.
  - apply find_some in F as [I E]. apply find_some in F' as [I' E'].
    apply keqb_spec in E. apply keqb_spec in E'.
    rewrite <- in_rev in I, I'. f_equal. apply C; auto.
    + eapply Permutation_in; [apply Permutation_sym; exact P|exact I'].
    + congruence.
  - apply find_some in F as [I E]. rewrite <- in_rev in I.
    eapply find_none in F'; [|rewrite <- in_rev; eapply Permutation_in; eauto]. cbv beta in F'. congruence.
  - apply find_some in F' as [I' E']. rewrite <- in_rev in I'.
    eapply find_none in F; [|rewrite <- in_rev; eapply Permutation_in; [apply Permutation_sym; exact P|exact I']].
    cbv beta in F. congruence.
  - reflexivity.
Qed.

(** ** a sort by a total order on injective keys is a function of the multiset

    [le x y] = "y is not less than x" for the comparator's order on keys ([sort.Slice]'s contract: afterwards no later
    element is less than an earlier one); [le] antisymmetric (the order is total: two keys neither of which is less
    than the other are equal) and [key] injective make the sorted arrangement of a given multiset unique. *)
Theorem keyed_sort_is_canonical {A K : Type} (key : A -> K) (le : K -> K -> Prop)
    (le_antisym : forall x y, le x y -> le y x -> x = y)
    (key_inj : forall a b, key a = key b -> a = b)
    (sort : list A -> list A)
    (sort_ok : forall l, Permutation (sort l) l /\ Sorted.StronglySorted (fun a b => le (key a) (key b)) (sort l)) :
  forall a b, Permutation a b -> sort a = sort b.
Proof.
  intros a b P. destruct (sort_ok a) as [Pa Sa]. destruct (sort_ok b) as [Pb Sb].
  apply (sorted_perm_unique_gen (fun x y => le (key x) (key y))); [|exact Sa|exact Sb|].
  - intros x y _ _ H1 H2. apply key_inj, le_antisym; assumption.
  - eapply Permutation_trans; [exact Pa|]. eapply Permutation_trans; [exact P|]. apply Permutation_sym. exact Pb.
Qed.

Section Soundness.
  Context {val : Type} (ev : evaluator val).

  (** ** 1. the effect of an iteration does not depend on the objects the loop writes *)

  Definition agree_outside (ws : list string) (st st' : store val) : Prop := forall x, ~ In x ws -> same_at x st st'.

  Lemma agree_refl ws st : agree_outside ws st st.
  Proof. intros x _. split; reflexivity. Qed.

  Lemma eval_agree ws e en st st' :
    disjoint (e_reads e) ws = true -> agree_outside ws st st' -> ev_eval ev e en st = ev_eval ev e en st'.
  Proof.
    intros D A. apply ev_law. intros x I. split; [reflexivity|]. apply A. eapply disjoint_spec; eauto.
  Qed.

  Lemma run_tree_agree ws t :
    forallb (fun e => disjoint (e_reads e) ws) (tree_exprs t) = true ->
    forall en st st', agree_outside ws st st' -> run_tree ev t en st = run_tree ev t en st'.
  Proof.
    induction t as [|m k v|s v|vs|a|x e k IH|c a IHa b IHb]; cbn [tree_exprs forallb run_tree]; intros H en st st' A.
    - reflexivity.
    - apply andb_true_iff in H as [Hk H]. apply andb_true_iff in H as [Hv _].
      rewrite (eval_agree ws k en st st' Hk A), (eval_agree ws v en st st' Hv A). reflexivity.
    - apply andb_true_iff in H as [Hv _]. rewrite (eval_agree ws v en st st' Hv A). reflexivity.
    - f_equal. apply map_ext_in. intros e I. rewrite forallb_forall in H. apply (eval_agree ws); auto.
    - reflexivity.
    - apply andb_true_iff in H as [He H]. rewrite (eval_agree ws e en st st' He A). apply IH; auto.
    - apply andb_true_iff in H as [Hc H]. rewrite forallb_app in H. apply andb_true_iff in H as [Ha Hb].
      rewrite (eval_agree ws c en st st' Hc A). destruct (ev_truthy ev _); [apply IHa|apply IHb]; auto.
  Qed.

  (** an effect's target is one of the tree's written names *)
  Lemma store_target t en st m k v : run_tree ev t en st = FStore m k v -> In m (tree_writes t).
  Proof.
    revert en. induction t as [|m' k' v'|s' v'|vs|a|x e t IH|c a IHa b IHb]; cbn [run_tree tree_writes]; intros en H;
      try discriminate.
    - inversion H; subst. left; reflexivity.
    - eapply IH; eauto.
    - apply in_or_app. destruct (ev_truthy ev _); [left; eapply IHa|right; eapply IHb]; eauto.
  Qed.

  Lemma append_target t en st s v : run_tree ev t en st = FAppend s v -> In s (tree_writes t).
  Proof.
    revert en. induction t as [|m' k' v'|s' v'|vs|a|x e t IH|c a IHa b IHb]; cbn [run_tree tree_writes]; intros en H;
      try discriminate.
    - inversion H; subst. left; reflexivity.
    - eapply IH; eauto.
    - apply in_or_app. destruct (ev_truthy ev _); [left; eapply IHa|right; eapply IHb]; eauto.
  Qed.

  (** leaves that do not occur produce no effect of their kind *)
  Definition eff_is_store (f : effect val) := match f with FStore _ _ _ => true | _ => false end.
  Definition eff_is_append (f : effect val) := match f with FAppend _ _ => true | _ => false end.
  Definition eff_is_return (f : effect val) := match f with FReturn _ => true | _ => false end.
  Definition eff_is_panic (f : effect val) := match f with FPanic => true | _ => false end.

  Lemma no_leaf_no_effect (p : tree -> bool) (q : effect val -> bool) :
    (forall t en st, match t with TLet _ _ _ | TIf _ _ _ => True | _ => p t = false -> q (run_tree ev t en st) = false end) ->
    forall t en st, has_leaf p t = false -> q (run_tree ev t en st) = false.
  Proof.
    intros L t. induction t as [|m k v|s v|vs|a|x e t IH|c a IHa b IHb]; intros en st H;
      try (match goal with |- q (run_tree ev ?tt _ _) = false => exact (L tt en st H) end).
    - cbn [has_leaf] in H. cbn [run_tree]. apply IH; exact H.
    - cbn [has_leaf] in H. apply orb_false_iff in H as [Ha Hb]. cbn [run_tree].
      destruct (ev_truthy ev _); [apply IHa|apply IHb]; assumption.
  Qed.

  Lemma no_store_leaf t en st : has_leaf is_store t = false -> eff_is_store (run_tree ev t en st) = false.
  Proof. apply no_leaf_no_effect. intros [] ? ?; cbn; auto; discriminate. Qed.
  Lemma no_append_leaf t en st : has_leaf is_append t = false -> eff_is_append (run_tree ev t en st) = false.
  Proof. apply no_leaf_no_effect. intros [] ? ?; cbn; auto; discriminate. Qed.
  Lemma no_return_leaf t en st : has_leaf is_return t = false -> eff_is_return (run_tree ev t en st) = false.
  Proof. apply no_leaf_no_effect. intros [] ? ?; cbn; auto; discriminate. Qed.
  Lemma no_panic_leaf t en st : has_leaf is_panic_leaf t = false -> eff_is_panic (run_tree ev t en st) = false.
  Proof. apply no_leaf_no_effect. intros [] ? ?; cbn; auto; discriminate. Qed.

  (** ** 2. a loop is the sequence of its entries' effects, all computed in the INITIAL store *)

  Fixpoint apply_all (fs : list (effect val)) (st : store val) : result val :=
    match fs with
    | [] => RCont st
    | f :: r => match apply_effect st f with RCont st' => apply_all r st' | other => other end
    end.

  Definition effs (t : tree) (kvar vvar : string) (inv : env val) (st0 : store val) (l : list (val * val)) : list (effect val) :=
    map (fun e => run_tree ev t (entry_env kvar vvar inv e) st0) l.

  Lemma run_loop_effs t kvar vvar inv st0 :
    forallb (fun e => disjoint (e_reads e) (tree_writes t)) (tree_exprs t) = true ->
    forall l st, agree_outside (tree_writes t) st st0 ->
    run_loop ev t kvar vvar inv l st = apply_all (effs t kvar vvar inv st0 l) st.
  Proof.
    intro W. induction l as [|e l IH]; intros st A; [reflexivity|].
    cbn [run_loop effs map apply_all]. rewrite (run_tree_agree _ t W _ st st0 A).
    destruct (run_tree ev t (entry_env kvar vvar inv e) st0) as [|m k v|s v|vs|] eqn:F; cbn [apply_effect]; try reflexivity.
    - apply IH; exact A.
    - apply IH. intros x N. assert (x <> m) by (intro; subst; apply N; eapply store_target; eauto).
      destruct (A x N) as [A1 A2]. split; cbn [st_maps st_slices]; [rewrite lookup_cons_ne; auto|auto].
    - apply IH. intros x N. assert (x <> s) by (intro; subst; apply N; eapply append_target; eauto).
      destruct (A x N) as [A1 A2]. split; cbn [st_maps st_slices]; [auto|rewrite lookup_cons_ne; auto].
  Qed.

  (** ** 3. lists of effects *)

  Definition stores_of (m : string) (fs : list (effect val)) : list (val * val) :=
    flat_map (fun f => match f with FStore m' k v => if String.eqb m m' then [(k, v)] else [] | _ => [] end) fs.
  Definition appends_of (s : string) (fs : list (effect val)) : list val :=
    flat_map (fun f => match f with FAppend s' v => if String.eqb s s' then [v] else [] | _ => [] end) fs.
  Definition returns_of (fs : list (effect val)) : list (list val) :=
    flat_map (fun f => match f with FReturn vs => [vs] | _ => [] end) fs.

  Definition ins (g : gomap val val) (kv : val * val) : gomap val val := minsert (fst kv) (snd kv) g.

  Lemma get_map_store m m' k v (st : store val) :
    get_map m {| st_maps := (m', minsert k v (get_map m' st)) :: st_maps st; st_slices := st_slices st |} =
    if String.eqb m m' then minsert k v (get_map m st) else get_map m st.
  Proof.
    unfold get_map at 1. cbn [st_maps lookup]. destruct (String.eqb m m') eqn:E; [|reflexivity].
    apply String.eqb_eq in E. subst. reflexivity.
  Qed.

  Lemma get_slice_append s s' v (st : store val) :
    get_slice s {| st_maps := st_maps st; st_slices := (s', get_slice s' st ++ [v]) :: st_slices st |} =
    if String.eqb s s' then get_slice s st ++ [v] else get_slice s st.
  Proof.
    unfold get_slice at 1. cbn [st_slices lookup]. destruct (String.eqb s s') eqn:E; [|reflexivity].
    apply String.eqb_eq in E. subst. reflexivity.
  Qed.

  (** without returns and panics the loop runs to the end; every map is the fold of the stores into it, every slice
      grows by the appends to it *)
  Lemma apply_all_cont fs : (forall f, In f fs -> eff_is_return f = false /\ eff_is_panic f = false) ->
    forall st, exists st', apply_all fs st = RCont st' /\
      (forall m, get_map m st' = fold_left ins (stores_of m fs) (get_map m st)) /\
      (forall s, get_slice s st' = get_slice s st ++ appends_of s fs).
  Proof.
    induction fs as [|f fs IH]; intros H st.
    - exists st. cbn. repeat split; auto. intro s. rewrite app_nil_r. reflexivity.
    - assert (Hf := H f (or_introl eq_refl)). assert (H' : forall g, In g fs -> eff_is_return g = false /\ eff_is_panic g = false)
        by (intros g I; apply H; right; exact I).
      destruct f as [|m' k v|s' v|vs|]; cbn [apply_all apply_effect]; try (destruct Hf; discriminate).
      + destruct (IH H' st) as (st' & E & M & S). exists st'. cbn [stores_of appends_of flat_map app] in *. auto.
      + destruct (IH H' {| st_maps := (m', minsert k v (get_map m' st)) :: st_maps st; st_slices := st_slices st |})
          as (st' & E & M & S).
        exists st'. split; [exact E|]. split.
        * intro m. rewrite M, get_map_store. unfold stores_of. cbn [flat_map]. fold (stores_of m fs).
          destruct (String.eqb m m'); reflexivity.
        * intro s. rewrite S. unfold appends_of at 2. cbn [flat_map app]. reflexivity.
      + destruct (IH H' {| st_maps := st_maps st; st_slices := (s', get_slice s' st ++ [v]) :: st_slices st |})
          as (st' & E & M & S).
        exists st'. split; [exact E|]. split.
        * intro m. rewrite M. unfold stores_of at 2. cbn [flat_map app]. reflexivity.
        * intro s. rewrite S, get_slice_append. unfold appends_of. cbn [flat_map]. fold (appends_of s fs).
          destruct (String.eqb s s'); [rewrite <- app_assoc|]; reflexivity.
  Qed.

  (** without returns, a panicking entry makes the loop panic wherever it comes *)
  Lemma apply_all_panic fs : (forall f, In f fs -> eff_is_return f = false) -> existsb eff_is_panic fs = true ->
    forall st, apply_all fs st = RPanic.
  Proof.
    induction fs as [|f fs IH]; intros H P st; [discriminate|].
    assert (Hf := H f (or_introl eq_refl)).
    assert (H' : forall g, In g fs -> eff_is_return g = false) by (intros g I; apply H; right; exact I).
    cbn [existsb] in P. destruct f; cbn [apply_all apply_effect]; try discriminate; try reflexivity;
      cbn in P; apply IH; auto.
  Qed.

  (** equivalence of results: same kind of result; lookup-equivalent maps and equal slices *)
  Definition result_equiv (a b : result val) : Prop :=
    match a, b with
    | RCont x, RCont y => (forall m, mequiv (ev_eqb ev) (get_map m x) (get_map m y)) /\ (forall s, get_slice s x = get_slice s y)
    | RRet u, RRet v => u = v
    | RPanic, RPanic => True
    | _, _ => False
    end.

  (** entries that store under the same key of the same map store the same value *)
  Definition store_consistent (fs : list (effect val)) : Prop :=
    forall m k v v', In (FStore m k v) fs -> In (FStore m k v') fs -> v = v'.

  Lemma in_stores_of m k v fs : In (k, v) (stores_of m fs) -> In (FStore m k v) fs.
  Proof.
    unfold stores_of. rewrite in_flat_map. intros (f & I & J). destruct f as [|m' k' v'|? ?|?|]; try contradiction.
    destruct (String.eqb m m') eqn:E; [|contradiction]. apply String.eqb_eq in E. subst.
    destruct J as [J|[]]. inversion J; subst. exact I.
  Qed.

  Lemma appends_of_none s fs : (forall f, In f fs -> eff_is_append f = false) -> appends_of s fs = [].
  Proof.
    induction fs as [|f fs IH]; intro H; [reflexivity|]. unfold appends_of. cbn [flat_map]. fold (appends_of s fs).
    rewrite IH by (intros g I; apply H; right; exact I).
    assert (Hf := H f (or_introl eq_refl)). destruct f; try reflexivity. discriminate.
  Qed.

  Lemma stores_of_none m fs : (forall f, In f fs -> eff_is_store f = false) -> stores_of m fs = [].
  Proof.
    induction fs as [|f fs IH]; intro H; [reflexivity|]. unfold stores_of. cbn [flat_map]. fold (stores_of m fs).
    rewrite IH by (intros g I; apply H; right; exact I).
    assert (Hf := H f (or_introl eq_refl)). destruct f; try reflexivity. discriminate.
  Qed.

  Theorem store_effects_perm fs fs' st :
    Permutation fs fs' ->
    (forall f, In f fs -> eff_is_append f = false /\ eff_is_return f = false) ->
    store_consistent fs ->
    result_equiv (apply_all fs st) (apply_all fs' st).
  Proof.
    intros P H C.
    assert (H2 : forall f, In f fs' -> eff_is_append f = false /\ eff_is_return f = false)
      by (intros f I; apply H; eapply Permutation_in; [apply Permutation_sym; exact P|exact I]).
    destruct (existsb eff_is_panic fs) eqn:EP.
    - rewrite (apply_all_panic fs) by (auto; intros f I; apply H; auto).
      rewrite (apply_all_panic fs'); [exact I| intros f I; apply H2; auto|].
      rewrite <- (existsb_perm eff_is_panic fs fs' P). exact EP.
    - assert (EP' : existsb eff_is_panic fs' = false) by (rewrite <- (existsb_perm eff_is_panic fs fs' P); exact EP).
      assert (N : forall f, In f fs -> eff_is_return f = false /\ eff_is_panic f = false).
      { intros f I. split; [apply H; auto|]. destruct (eff_is_panic f) eqn:E; [|reflexivity].
        assert (existsb eff_is_panic fs = true) by (apply existsb_exists; exists f; auto). congruence. }
      assert (N' : forall f, In f fs' -> eff_is_return f = false /\ eff_is_panic f = false).
      { intros f I. split; [apply H2; auto|]. destruct (eff_is_panic f) eqn:E; [|reflexivity].
        assert (existsb eff_is_panic fs' = true) by (apply existsb_exists; exists f; auto). congruence. }
      destruct (apply_all_cont fs N st) as (x & -> & Mx & Sx).
      destruct (apply_all_cont fs' N' st) as (y & -> & My & Sy).
      cbn [result_equiv]. split.
      + intro m. rewrite Mx, My.
        change ins with (insert_step (fun (k v : val) => k) (fun (k v : val) => v)).
        apply insert_fold_perm_gen; [apply ev_eqb_spec| |].
        * unfold stores_of. apply Permutation_flat_map. exact P.
        * intros [k1 v1] [k2 v2] I1 I2 E. cbn in *. subst k2. eapply C; apply in_stores_of; eauto.
      + intro s. rewrite Sx, Sy, !appends_of_none; auto; intros f I; [apply H2|apply H]; auto.
  Qed.

  (** search loops: skip / return, all returns equal *)
  Lemma apply_all_search fs st :
    (forall f, In f fs -> f = FSkip \/ exists vs, f = FReturn vs) ->
    apply_all fs st = match returns_of fs with [] => RCont st | u :: _ => RRet u end.
  Proof.
    induction fs as [|f fs IH]; intro H; [reflexivity|].
    destruct (H f (or_introl eq_refl)) as [->|(vs & ->)]; cbn [apply_all apply_effect returns_of flat_map app].
    - apply IH. intros g I; apply H; right; exact I.
    - reflexivity.
  Qed.

  Lemma in_returns_of u fs : In u (returns_of fs) <-> In (FReturn u) fs.
  Proof.
    unfold returns_of. rewrite in_flat_map. split.
    - intros (f & I & J). destruct f; try contradiction. destruct J as [<-|[]]. exact I.
    - intro I. exists (FReturn u). split; [exact I|left; reflexivity].
  Qed.

  Theorem search_effects_perm fs fs' st :
    Permutation fs fs' ->
    (forall f, In f fs -> f = FSkip \/ exists vs, f = FReturn vs) ->
    (forall u v, In (FReturn u) fs -> In (FReturn v) fs -> u = v) ->
    apply_all fs st = apply_all fs' st.
  Proof.
    intros P H Eq.
    assert (H' : forall f, In f fs' -> f = FSkip \/ exists vs, f = FReturn vs)
      by (intros f I; apply H; eapply Permutation_in; [apply Permutation_sym; exact P|exact I]).
    rewrite (apply_all_search fs st H), (apply_all_search fs' st H').
    assert (PR : Permutation (returns_of fs) (returns_of fs')) by (apply Permutation_flat_map; exact P).
    destruct (returns_of fs) as [|u r] eqn:R; destruct (returns_of fs') as [|u' r'] eqn:R'.
    - reflexivity.
    - apply Permutation_nil in PR. discriminate.
    - apply Permutation_sym, Permutation_nil in PR. discriminate.
    - f_equal. apply Eq.
      + apply in_returns_of. rewrite R. left; reflexivity.
      + apply in_returns_of. rewrite R. eapply Permutation_in; [apply Permutation_sym; exact PR|left; reflexivity].
  Qed.

  (** collecting loops: skip / append *)
  Theorem collect_effects_perm fs fs' st :
    Permutation fs fs' ->
    (forall f, In f fs -> f = FSkip \/ exists s v, f = FAppend s v) ->
    exists x y, apply_all fs st = RCont x /\ apply_all fs' st = RCont y /\
      (forall m, get_map m x = get_map m st /\ get_map m y = get_map m st) /\
      (forall s, get_slice s x = get_slice s st ++ appends_of s fs /\ get_slice s y = get_slice s st ++ appends_of s fs' /\
                 Permutation (get_slice s x) (get_slice s y)).
  Proof.
    intros P H.
    assert (H' : forall f, In f fs' -> f = FSkip \/ exists s v, f = FAppend s v)
      by (intros f I; apply H; eapply Permutation_in; [apply Permutation_sym; exact P|exact I]).
    assert (K : forall gs, (forall f, In f gs -> f = FSkip \/ exists s v, f = FAppend s v) ->
                (forall f, In f gs -> eff_is_return f = false /\ eff_is_panic f = false) /\
                (forall f, In f gs -> eff_is_store f = false)).
    { intros gs G. split; intros f I; destruct (G f I) as [->|(s & v & ->)]; cbn; auto. }
    destruct (K fs H) as [N NS]. destruct (K fs' H') as [N' NS'].
    destruct (apply_all_cont fs N st) as (x & Ex & Mx & Sx).
    destruct (apply_all_cont fs' N' st) as (y & Ey & My & Sy).
    exists x, y. repeat split; auto.
    - rewrite Mx, stores_of_none; auto.
    - rewrite My, stores_of_none; auto.
    - rewrite Sx, Sy. apply Permutation_app_head. unfold appends_of. apply Permutation_flat_map. exact P.
  Qed.

  (** ** 4. the return leaves of a search tree (all returning the same expressions) return the same values for every entry *)

  Lemma strs_eqb_eq a b : strs_eqb a b = true -> a = b.
  Proof.
    revert b; induction a as [|x a IH]; intros [|y b] H; cbn in H; try discriminate; [reflexivity|].
    apply andb_true_iff in H as [H1 H2]. apply String.eqb_eq in H1. subst. f_equal. auto.
  Qed.

  Lemma expr_eqb_eq a b : expr_eqb a b = true -> a = b.
  Proof.
    destruct a as [t r c], b as [t' r' c']. unfold expr_eqb. cbn. intro H.
    apply andb_true_iff in H as [H H3]. apply andb_true_iff in H as [H1 H2].
    apply String.eqb_eq in H1. apply strs_eqb_eq in H2. apply strs_eqb_eq in H3. subst. reflexivity.
  Qed.

  Lemma exprs_eqb_eq a b : exprs_eqb a b = true -> a = b.
  Proof.
    revert b; induction a as [|x a IH]; intros [|y b] H; cbn in H; try discriminate; [reflexivity|].
    apply andb_true_iff in H as [H1 H2]. apply expr_eqb_eq in H1. subst. f_equal. auto.
  Qed.

  (** a returned value list is [rs] evaluated in an environment that differs from the iteration's only at let-bound names *)
  Lemma return_value t (K : list string) (rs : list expr) st :
    (forall vs, In vs (tree_returns t) -> vs = rs) -> incl (tree_lets t) K ->
    forall en vs, run_tree ev t en st = FReturn vs ->
    exists en2, (forall x, ~ In x K -> lookup x en2 = lookup x en) /\ vs = map (fun e => ev_eval ev e en2 st) rs.
  Proof.
    induction t as [|m k v|s v|us|a|x e t IH|c a IHa b IHb]; cbn [tree_returns tree_lets run_tree];
      intros R L en vs F; try discriminate.
    - inversion F. exists en. split; [reflexivity|]. rewrite (R us (or_introl eq_refl)). reflexivity.
    - destruct (IH R (fun y Iy => L y (or_intror Iy)) _ _ F) as (en2 & A & E). exists en2. split; [|exact E].
      intros y Ny. rewrite (A y Ny). apply lookup_cons_ne. intro; subst. apply Ny, L. left; reflexivity.
    - destruct (ev_truthy ev (ev_eval ev c en st)).
      + apply (IHa (fun vs I => R vs (in_or_app _ _ _ (or_introl I))) (fun y Iy => L y (in_or_app _ _ _ (or_introl Iy))) _ _ F).
      + apply (IHb (fun vs I => R vs (in_or_app _ _ _ (or_intror I))) (fun y Iy => L y (in_or_app _ _ _ (or_intror Iy))) _ _ F).
  Qed.

  (** ** 5. soundness of [classify_tree] *)

  Lemma wf_reads kvar vvar ranged t :
    tree_wf kvar vvar ranged t = true ->
    forallb (fun e => disjoint (e_reads e) (tree_writes t)) (tree_exprs t) = true.
  Proof.
    unfold tree_wf. intro H. do 3 (apply andb_true_iff in H as [H _]). cbn [forallb] in H.
    apply andb_true_iff in H as [_ H]. rewrite forallb_forall in *. intros e I. specialize (H e I).
    apply andb_true_iff in H as [H _]. exact H.
  Qed.

  Lemma classify_wf kvar vvar ranged after t sh :
    classify_tree kvar vvar ranged after t = Some sh -> tree_wf kvar vvar ranged t = true.
  Proof. unfold classify_tree. destruct (tree_wf kvar vvar ranged t); [reflexivity|discriminate]. Qed.

  Lemma effs_in t kvar vvar inv st l f :
    In f (effs t kvar vvar inv st l) -> exists e, In e l /\ f = run_tree ev t (entry_env kvar vvar inv e) st.
  Proof. unfold effs. rewrite in_map_iff. intros (e & <- & I). exists e. auto. Qed.

  Ltac classify_cases C :=
    try discriminate;
    try (repeat match type of C with context [match ?x with _ => _ end] => destruct x end; discriminate).

  Lemma classify_store_inv kvar vvar ranged after t :
    classify_tree kvar vvar ranged after t = Some ShStore ->
    has_leaf is_append t = false /\ has_leaf is_return t = false.
  Proof.
    unfold classify_tree. intro C. destruct (tree_wf kvar vvar ranged t); [|discriminate]. cbn [negb] in C.
    destruct (has_leaf is_store t) eqn:LS, (has_leaf is_append t) eqn:LA, (has_leaf is_return t) eqn:LR,
      (has_leaf is_panic_leaf t) eqn:LP; cbn in C; auto; classify_cases C.
  Qed.

  Lemma classify_search_inv kvar vvar ranged after t :
    classify_tree kvar vvar ranged after t = Some ShSearch ->
    has_leaf is_store t = false /\ has_leaf is_append t = false /\ has_leaf is_panic_leaf t = false /\
    exists rs, (forall vs, In vs (tree_returns t) -> vs = rs) /\
               forallb (fun e => disjoint (e_reads e) (kvar :: vvar :: tree_lets t)) rs = true.
  Proof.
    unfold classify_tree. intro C. destruct (tree_wf kvar vvar ranged t); [|discriminate]. cbn [negb] in C.
    destruct (has_leaf is_store t) eqn:LS, (has_leaf is_append t) eqn:LA, (has_leaf is_return t) eqn:LR,
      (has_leaf is_panic_leaf t) eqn:LP; cbn in C; classify_cases C.
    destruct (tree_returns t) as [|rs others] eqn:R; try discriminate.
    destruct (forallb (exprs_eqb rs) others) eqn:Q; [|discriminate]. cbn [andb] in C.
    destruct (forallb _ rs) eqn:D; [|discriminate]. repeat split; auto. exists rs. split; [|exact D].
    intros vs [<-|I]; [reflexivity|]. rewrite forallb_forall in Q. symmetry. apply exprs_eqb_eq, Q, I.
  Qed.

  Lemma classify_collect_inv kvar vvar ranged after t s cmp :
    classify_tree kvar vvar ranged after t = Some (ShCollectSort s cmp) ->
    has_leaf is_store t = false /\ has_leaf is_return t = false /\ has_leaf is_panic_leaf t = false /\
    (exists ws, tree_writes t = s :: ws /\ all_same (s :: ws) = true) /\
    comparator_ok cmp = true /\ exists rest, after = SSort s cmp :: rest.
  Proof.
    unfold classify_tree. intro C. destruct (tree_wf kvar vvar ranged t); [|discriminate]. cbn [negb] in C.
    destruct (has_leaf is_store t) eqn:LS, (has_leaf is_append t) eqn:LA, (has_leaf is_return t) eqn:LR,
      (has_leaf is_panic_leaf t) eqn:LP; cbn in C; classify_cases C.
    destruct (tree_writes t) as [|w ws] eqn:TW; [classify_cases C|].
    destruct (all_same (w :: ws)) eqn:AS; [|discriminate].
    destruct after as [|[| | | | | | |s' bt| |] rest]; try discriminate.
    destruct (String.eqb w s') eqn:E; [|discriminate]. cbn [andb] in C.
    destruct (comparator_ok bt) eqn:CO; [|discriminate]. apply String.eqb_eq in E. inversion C; subst.
    repeat split; auto; eexists; eauto.
  Qed.

  (** [ShStore] *)
  Theorem classified_store_sound kvar vvar ranged after t :
    classify_tree kvar vvar ranged after t = Some ShStore ->
    forall inv st l l', Permutation l l' ->
      store_consistent (effs t kvar vvar inv st l) ->
      result_equiv (run_loop ev t kvar vvar inv l st) (run_loop ev t kvar vvar inv l' st).
  Proof.
    intros C inv st l l' P SC.
    pose proof (wf_reads _ _ _ _ (classify_wf _ _ _ _ _ _ C)) as W.
    rewrite !(run_loop_effs t kvar vvar inv st W) by apply agree_refl.
    destruct (classify_store_inv _ _ _ _ _ C) as [LA LR].
    apply store_effects_perm; [apply Permutation_map; exact P| |exact SC].
    intros f I. apply effs_in in I as (e & _ & ->). split; [apply no_append_leaf|apply no_return_leaf]; assumption.
  Qed.

  (** [ShSearch] *)
  Theorem classified_search_sound kvar vvar ranged after t :
    classify_tree kvar vvar ranged after t = Some ShSearch ->
    forall inv st l l', Permutation l l' ->
      run_loop ev t kvar vvar inv l st = run_loop ev t kvar vvar inv l' st.
  Proof.
    intros C inv st l l' P.
    pose proof (wf_reads _ _ _ _ (classify_wf _ _ _ _ _ _ C)) as W.
    rewrite !(run_loop_effs t kvar vvar inv st W) by apply agree_refl.
    destruct (classify_search_inv _ _ _ _ _ C) as (LS & LA & LP & rs & R & D).
    apply search_effects_perm; [apply Permutation_map; exact P| |].
    - intros f I. apply effs_in in I as (e & _ & ->).
      pose proof (no_store_leaf t (entry_env kvar vvar inv e) st LS) as X1.
      pose proof (no_append_leaf t (entry_env kvar vvar inv e) st LA) as X2.
      pose proof (no_panic_leaf t (entry_env kvar vvar inv e) st LP) as X3.
      destruct (run_tree ev t (entry_env kvar vvar inv e) st); try discriminate; [left; reflexivity|right; eexists; reflexivity].
    - intros u v Iu Iv. apply effs_in in Iu as (e & _ & Fu). apply effs_in in Iv as (e' & _ & Fv).
      set (K := kvar :: vvar :: tree_lets t) in *.
      assert (LK : incl (tree_lets t) K) by (intros y Iy; right; right; exact Iy).
      destruct (return_value t K rs st R LK _ _ (eq_sym Fu)) as (e2 & A2 & ->).
      destruct (return_value t K rs st R LK _ _ (eq_sym Fv)) as (e2' & A2' & ->).
      apply map_ext_in. intros x Ix. apply ev_law. intros y Iy. split; [|split; reflexivity].
      assert (Ny : ~ In y K) by (rewrite forallb_forall in D; eapply disjoint_spec; [apply D; exact Ix|exact Iy]).
      rewrite (A2 y Ny), (A2' y Ny). unfold entry_env.
      assert (y <> kvar) by (intro; subst; apply Ny; left; reflexivity).
      assert (y <> vvar) by (intro; subst; apply Ny; right; left; reflexivity).
      rewrite !lookup_cons_ne by assumption. reflexivity.
  Qed.

  Lemma all_same_spec x l : all_same (x :: l) = true -> forall y, In y (x :: l) -> y = x.
  Proof.
    cbn. rewrite forallb_forall. intros H y [<-|I]; [reflexivity|]. specialize (H y I). apply String.eqb_eq in H. auto.
  Qed.

  (** [ShCollectSort]: the loop always runs to the end, no map changes, slices other than [s] do not change, the
      collected slice is the same up to permutation — hence equal after a sorter that is a function of the multiset *)
  Theorem classified_collect_sound kvar vvar ranged after t s cmp :
    classify_tree kvar vvar ranged after t = Some (ShCollectSort s cmp) ->
    forall inv st l l', Permutation l l' ->
    exists x y, run_loop ev t kvar vvar inv l st = RCont x /\ run_loop ev t kvar vvar inv l' st = RCont y /\
      (forall m, get_map m x = get_map m y) /\
      (forall s', s' <> s -> get_slice s' x = get_slice s' y) /\
      Permutation (get_slice s x) (get_slice s y) /\
      (forall sorter : list val -> list val, (forall a b, Permutation a b -> sorter a = sorter b) ->
         sorter (get_slice s x) = sorter (get_slice s y)) /\
      comparator_ok cmp = true /\ exists rest, after = SSort s cmp :: rest.
  Proof.
    intros C inv st l l' P.
    pose proof (wf_reads _ _ _ _ (classify_wf _ _ _ _ _ _ C)) as W.
    rewrite !(run_loop_effs t kvar vvar inv st W) by apply agree_refl.
    destruct (classify_collect_inv _ _ _ _ _ _ _ C) as (LS & LR & LP & (ws & TW & AS) & CO & AF).
    assert (H : forall f, In f (effs t kvar vvar inv st l) -> f = FSkip \/ exists s0 v, f = FAppend s0 v).
    { intros f I. apply effs_in in I as (e & _ & ->).
      pose proof (no_store_leaf t (entry_env kvar vvar inv e) st LS) as X1.
      pose proof (no_return_leaf t (entry_env kvar vvar inv e) st LR) as X2.
      pose proof (no_panic_leaf t (entry_env kvar vvar inv e) st LP) as X3.
      destruct (run_tree ev t (entry_env kvar vvar inv e) st); try discriminate; [left; reflexivity|right; eauto]. }
    destruct (collect_effects_perm _ _ st (Permutation_map _ P) H) as (x & y & Ex & Ey & M & S).
    exists x, y. split; [exact Ex|]. split; [exact Ey|]. split; [|split; [|split; [|split]]].
    - intro m. destruct (M m) as [-> ->]. reflexivity.
    - intros s0 N. destruct (S s0) as (-> & -> & _).
      assert (Z : forall gl, appends_of s0 (effs t kvar vvar inv st gl) = []).
      { intro gl. unfold appends_of. induction gl as [|e gl IH]; [reflexivity|]. cbn [effs map flat_map]. fold (effs t kvar vvar inv st gl).
        rewrite IH, app_nil_r. destruct (run_tree ev t (entry_env kvar vvar inv e) st) as [| | s1 v1| |] eqn:F; try reflexivity.
        apply append_target in F. rewrite TW in F. apply (all_same_spec _ _ AS) in F. subst s1.
        destruct (String.eqb s0 s) eqn:E0; [apply String.eqb_eq in E0; contradiction|reflexivity]. }
      unfold effs in Z. rewrite !Z. reflexivity.
    - apply (S s).
    - intros sorter HS. apply HS, (S s).
    - split; [exact CO|exact AF].
  Qed.
  (** ** 6. what a classified loop computes *)

  Lemma effs_of_in t kvar vvar inv st l e :
    In e l -> In (run_tree ev t (entry_env kvar vvar inv e) st) (effs t kvar vvar inv st l).
  Proof. intro I. unfold effs. apply (in_map (fun e0 => run_tree ev t (entry_env kvar vvar inv e0) st)). exact I. Qed.

  (** search: the loop returns iff some entry's iteration returns (with that entry's values), else the store is untouched *)
  Theorem classified_search_meaning kvar vvar ranged after t :
    classify_tree kvar vvar ranged after t = Some ShSearch ->
    forall inv st l,
      (exists vs e, run_loop ev t kvar vvar inv l st = RRet vs /\ In e l /\
                    run_tree ev t (entry_env kvar vvar inv e) st = FReturn vs) \/
      (run_loop ev t kvar vvar inv l st = RCont st /\
       forall e, In e l -> run_tree ev t (entry_env kvar vvar inv e) st = FSkip).
  Proof.
    intros C inv st l.
    pose proof (wf_reads _ _ _ _ (classify_wf _ _ _ _ _ _ C)) as W.
    rewrite !(run_loop_effs t kvar vvar inv st W) by apply agree_refl.
    destruct (classify_search_inv _ _ _ _ _ C) as (LS & LA & LP & rs & R & D).
    assert (H : forall f, In f (effs t kvar vvar inv st l) -> f = FSkip \/ exists vs, f = FReturn vs).
    { intros f I. apply effs_in in I as (e & _ & ->).
      pose proof (no_store_leaf t (entry_env kvar vvar inv e) st LS) as X1.
      pose proof (no_append_leaf t (entry_env kvar vvar inv e) st LA) as X2.
      pose proof (no_panic_leaf t (entry_env kvar vvar inv e) st LP) as X3.
      destruct (run_tree ev t (entry_env kvar vvar inv e) st); try discriminate; [left; reflexivity|right; eexists; reflexivity]. }
    rewrite (apply_all_search _ st H).
    destruct (returns_of (effs t kvar vvar inv st l)) as [|u r] eqn:RO.
    - right. split; [reflexivity|]. intros e I.
      assert (J : In (run_tree ev t (entry_env kvar vvar inv e) st) (effs t kvar vvar inv st l)) by (apply effs_of_in; exact I).
      destruct (H _ J) as [E|(vs & E)]; [exact E|].
      rewrite E in J. apply in_returns_of in J. rewrite RO in J. contradiction.
    - left. assert (J : In u (returns_of (effs t kvar vvar inv st l))) by (rewrite RO; left; reflexivity).
      apply in_returns_of, effs_in in J as (e & I & E). exists u, e. auto.
  Qed.

  (** store (when no entry panics): afterwards map [m] holds [v] under [k] iff some entry stored [v] there, or no entry
      stored under [k] in [m] and it was there before *)
  Theorem classified_store_meaning kvar vvar ranged after t :
    classify_tree kvar vvar ranged after t = Some ShStore ->
    forall inv st l, store_consistent (effs t kvar vvar inv st l) ->
      (run_loop ev t kvar vvar inv l st = RPanic /\ exists e, In e l /\ run_tree ev t (entry_env kvar vvar inv e) st = FPanic) \/
      (exists x, run_loop ev t kvar vvar inv l st = RCont x /\
         (forall s, get_slice s x = get_slice s st) /\
         forall m k v, mlookup (ev_eqb ev) k (get_map m x) = Some v <->
           (exists e, In e l /\ run_tree ev t (entry_env kvar vvar inv e) st = FStore m k v) \/
           ((forall e v', In e l -> run_tree ev t (entry_env kvar vvar inv e) st <> FStore m k v') /\
            mlookup (ev_eqb ev) k (get_map m st) = Some v)).
  Proof.
    intros C inv st l SC.
    pose proof (wf_reads _ _ _ _ (classify_wf _ _ _ _ _ _ C)) as W.
    rewrite !(run_loop_effs t kvar vvar inv st W) by apply agree_refl.
    destruct (classify_store_inv _ _ _ _ _ C) as [LA LR].
    set (fs := effs t kvar vvar inv st l) in *.
    assert (H : forall f, In f fs -> eff_is_append f = false /\ eff_is_return f = false).
    { intros f I. apply effs_in in I as (e & _ & ->). split; [apply no_append_leaf|apply no_return_leaf]; assumption. }
    destruct (existsb eff_is_panic fs) eqn:EP.
    - left. split; [apply apply_all_panic; auto; intros f I; apply H; auto|].
      apply existsb_exists in EP as (f & I & Pf). apply effs_in in I as (e & Ie & ->). exists e. split; [exact Ie|].
      destruct (run_tree ev t (entry_env kvar vvar inv e) st); try discriminate. reflexivity.
    - right.
      assert (N : forall f, In f fs -> eff_is_return f = false /\ eff_is_panic f = false).
      { intros f I. split; [apply H; auto|]. destruct (eff_is_panic f) eqn:E; [|reflexivity].
        assert (existsb eff_is_panic fs = true) by (apply existsb_exists; exists f; auto). congruence. }
      destruct (apply_all_cont fs N st) as (x & -> & Mx & Sx). exists x. split; [reflexivity|]. split.
      + intro s. rewrite Sx, appends_of_none; [apply app_nil_r|]. intros f I. apply H; auto.
      + intros m k v. rewrite Mx.
        change ins with (insert_step (fun (k v : val) => k) (fun (k v : val) => v)).
        rewrite (insert_fold_lookup (fun (k v : val) => k) (fun (k v : val) => v) (ev_eqb ev)).
        destruct (find _ (rev (stores_of m fs))) as [[k1 v1]|] eqn:F.
        * apply find_some in F as [I E]. cbn in E. apply ev_eqb_spec in E. subst k1. rewrite <- in_rev in I.
          cbn [fst snd]. split.
          -- intro Q. inversion Q; subst. left. apply in_stores_of, effs_in in I as (e & Ie & Fe). exists e. auto.
          -- intros [(e & Ie & Fe)|[Nn _]].
             ++ f_equal. eapply SC; [apply in_stores_of; exact I|]. unfold fs. rewrite <- Fe. apply effs_of_in. exact Ie.
             ++ exfalso. apply in_stores_of, effs_in in I as (e & Ie & Fe). eapply Nn; eauto.
        * split.
          -- intro Q. right. split; [|exact Q]. intros e v' Ie Fe.
             assert (J : In (k, v') (stores_of m fs)).
             { unfold stores_of. apply in_flat_map. exists (FStore m k v'). split.
               - unfold fs. rewrite <- Fe. apply effs_of_in. exact Ie.
               - rewrite String.eqb_refl. left. reflexivity. }
             rewrite in_rev in J. eapply find_none in F; [|exact J]. cbn in F.
             assert (ev_eqb ev k k = true) by (apply ev_eqb_spec; reflexivity). congruence.
          -- intros [(e & Ie & Fe)|[_ Q]]; [|exact Q]. exfalso.
             assert (J : In (k, v) (stores_of m fs)).
             { unfold stores_of. apply in_flat_map. exists (FStore m k v). split.
               - unfold fs. rewrite <- Fe. apply effs_of_in. exact Ie.
               - rewrite String.eqb_refl. left. reflexivity. }
             rewrite in_rev in J. eapply find_none in F; [|exact J]. cbn in F.
             assert (ev_eqb ev k k = true) by (apply ev_eqb_spec; reflexivity). congruence.
  Qed.

End Soundness.

(** ** a concrete evaluator (non-vacuity: the [evaluator] record is inhabited by an interpretation that really looks
    at the environment AND at the store): the value of an expression is the sum, over the variables it reads, of the
    variable's scalar value and the sizes of the map and the slice of that name *)
From Coq Require Import NArith.

Definition sum_eval (e : expr) (en : env N) (st : store N) : N :=
  fold_right (fun x acc =>
      (match lookup x en with Some v => v | None => 0 end +
       match lookup x (st_maps st) with Some g => N.of_nat (List.length g) | None => 0 end +
       match lookup x (st_slices st) with Some l => N.of_nat (List.length l) | None => 0 end + acc)%N) 0%N (e_reads e).

Lemma sum_eval_law e en en' st st' :
  (forall x, In x (e_reads e) -> lookup x en = lookup x en' /\ same_at x st st') -> sum_eval e en st = sum_eval e en' st'.
Proof.
  unfold sum_eval. induction (e_reads e) as [|x r IH]; intro H; cbn [fold_right]; [reflexivity|].
  destruct (H x (or_introl eq_refl)) as [E [M S]]. rewrite E, M, S, IH; [reflexivity|].
  intros y I. apply H. right. exact I.
Qed.

Definition sum_evaluator : evaluator N :=
  {| ev_eval := sum_eval; ev_truthy := fun v => negb (N.eqb v 0); ev_eqb := N.eqb; ev_eqb_spec := N.eqb_eq;
     ev_law := sum_eval_law |}.
