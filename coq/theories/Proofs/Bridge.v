(** C03 — proofs over Model/Bridge.v: the conservation invariant and its preservation by every
    operation of every chain, lifted to all histories (interleavings). *)
From Coq Require Import List Arith PeanoNat NArith Bool Lia.
From Teleport Require Import Base.Outcome Model.Bridge Model.BridgeCheck.
Import ListNotations.
Local Open Scope N_scope.

(** * Boolean equality helpers *)
Lemma holder_eqb_eq a b : holder_eqb a b = true <-> a = b.
Proof.
  destruct a, b; cbn; split; intro H; try discriminate; try reflexivity.
  - apply Nat.eqb_eq in H; congruence.
  - inversion H; apply Nat.eqb_refl.
Qed.

Lemma holder_eqb_refl a : holder_eqb a a = true.
Proof. apply holder_eqb_eq; reflexivity. Qed.

Lemma holder_eqb_neq a b : holder_eqb a b = false <-> a <> b.
Proof.
  split; intro H.
  - intro E; apply holder_eqb_eq in E; congruence.
  - destruct (holder_eqb a b) eqn:E; [apply holder_eqb_eq in E; contradiction|reflexivity].
Qed.

(** * Configuration *)
Definition cfg_consistent (cfg : config) : Prop :=
  forall c src ori loc k, trace cfg c src ori = Some (loc, k) <-> bound cfg c loc src = Some (ori, k).

Lemma trace_of_bound_none l c src ori loc k :
  trace_of l c src ori = Some (loc, k) -> binds_ok l = true -> bound_of l c loc src = Some (ori, k).
Proof.
  induction l as [|e l IH]; cbn; [discriminate|].
  intros H Hok. apply andb_true_iff in Hok as [Hok Hl]. apply andb_true_iff in Hok as [Ht Hb].
  destruct e as [[[[ec el] es] eo] ek]; cbn in *.
  destruct (Nat.eqb ec c && Nat.eqb es src && Nat.eqb eo ori) eqn:E.
  - inversion H; subst. apply andb_true_iff in E as [E E3]. apply andb_true_iff in E as [E1 E2].
    apply Nat.eqb_eq in E1, E2, E3. subst. rewrite !Nat.eqb_refl. reflexivity.
  - specialize (IH H Hl).
    destruct (Nat.eqb ec c && Nat.eqb el loc && Nat.eqb es src) eqn:E'; [|exact IH].
    apply andb_true_iff in E' as [E' E3]. apply andb_true_iff in E' as [E1 E2].
    apply Nat.eqb_eq in E1, E2, E3. subst. rewrite IH in Hb. discriminate.
Qed.

Lemma bound_of_trace_none l c src ori loc k :
  bound_of l c loc src = Some (ori, k) -> binds_ok l = true -> trace_of l c src ori = Some (loc, k).
Proof.
  induction l as [|e l IH]; cbn; [discriminate|].
  intros H Hok. apply andb_true_iff in Hok as [Hok Hl]. apply andb_true_iff in Hok as [Ht Hb].
  destruct e as [[[[ec el] es] eo] ek]; cbn in *.
  destruct (Nat.eqb ec c && Nat.eqb el loc && Nat.eqb es src) eqn:E.
  - inversion H; subst. apply andb_true_iff in E as [E E3]. apply andb_true_iff in E as [E1 E2].
    apply Nat.eqb_eq in E1, E2, E3. subst. rewrite !Nat.eqb_refl. reflexivity.
  - specialize (IH H Hl).
    destruct (Nat.eqb ec c && Nat.eqb es src && Nat.eqb eo ori) eqn:E'; [|exact IH].
    apply andb_true_iff in E' as [E' E3]. apply andb_true_iff in E' as [E1 E2].
    apply Nat.eqb_eq in E1, E2, E3. subst. rewrite IH in Ht. discriminate.
Qed.

(** The configurations built from the harness's binding lists satisfy the hypothesis of the theorems
    whenever the executable check [binds_ok] (evaluated on every case) says so. *)
Lemma cfg_of_consistent n l : binds_ok l = true -> cfg_consistent (cfg_of n l).
Proof.
  intros Hok c src ori loc k; cbn; split; intro H.
  - eapply trace_of_bound_none; eauto.
  - eapply bound_of_trace_none; eauto.
Qed.

(** * Packet table *)
Definition same_key (p q : packet) : Prop := p_src p = p_src q /\ p_dst p = p_dst q /\ p_seq p = p_seq q.

Lemma key_is_true src dst sq p : key_is src dst sq p = true <-> (p_src p = src /\ p_dst p = dst /\ p_seq p = sq).
Proof.
  unfold key_is. rewrite !andb_true_iff, !Nat.eqb_eq, N.eqb_eq. tauto.
Qed.

Fixpoint uniq (ps : list packet) : Prop :=
  match ps with
  | [] => True
  | p :: ps' => lookup (p_src p) (p_dst p) (p_seq p) ps' = None /\ uniq ps'
  end.

Lemma lookup_in src dst sq ps p : lookup src dst sq ps = Some p -> In p ps /\ key_is src dst sq p = true.
Proof.
  induction ps as [|q ps IH]; cbn; [discriminate|].
  destruct (key_is src dst sq q) eqn:E; intro H.
  - inversion H; subst. split; [left; reflexivity|exact E].
  - destruct (IH H) as [H1 H2]. split; [right; exact H1|exact H2].
Qed.

Lemma lookup_none_in src dst sq ps p : lookup src dst sq ps = None -> In p ps -> key_is src dst sq p = false.
Proof.
  induction ps as [|q ps IH]; cbn; [contradiction|].
  destruct (key_is src dst sq q) eqn:E; [discriminate|].
  intros H [->|Hin]; [exact E|apply IH; assumption].
Qed.

Lemma update_none src dst sq f ps : lookup src dst sq ps = None -> update src dst sq f ps = ps.
Proof.
  unfold update. induction ps as [|q ps IH]; cbn; [reflexivity|].
  destruct (key_is src dst sq q) eqn:E; [discriminate|]. intro H. rewrite (IH H). reflexivity.
Qed.

Lemma lookup_app src dst sq ps qs :
  lookup src dst sq (ps ++ qs) = match lookup src dst sq ps with Some p => Some p | None => lookup src dst sq qs end.
Proof.
  induction ps as [|q ps IH]; cbn; [reflexivity|]. destruct (key_is src dst sq q); [reflexivity|exact IH].
Qed.

Definition key_preserving (f : packet -> packet) : Prop :=
  forall p, p_src (f p) = p_src p /\ p_dst (f p) = p_dst p /\ p_seq (f p) = p_seq p.

Lemma key_is_pres f src dst sq p : key_preserving f -> key_is src dst sq (f p) = key_is src dst sq p.
Proof. intro H. destruct (H p) as (H1 & H2 & H3). unfold key_is. rewrite H1, H2, H3. reflexivity. Qed.

Lemma lookup_update src dst sq f ps s2 d2 q2 :
  key_preserving f ->
  lookup s2 d2 q2 (update src dst sq f ps) =
    match lookup s2 d2 q2 ps with
    | Some p => Some (if key_is src dst sq p then f p else p)
    | None => None
    end.
Proof.
  intro Hf. unfold update. induction ps as [|q ps IH]; cbn; [reflexivity|].
  destruct (key_is src dst sq q) eqn:E.
  - rewrite (key_is_pres f _ _ _ _ Hf). destruct (key_is s2 d2 q2 q); [rewrite E; reflexivity|exact IH].
  - destruct (key_is s2 d2 q2 q); [rewrite E; reflexivity|exact IH].
Qed.

Lemma uniq_update src dst sq f ps : key_preserving f -> uniq ps -> uniq (update src dst sq f ps).
Proof.
  intro Hf. induction ps as [|q ps IH]; [cbn; trivial|].
  change (update src dst sq f (q :: ps)) with ((if key_is src dst sq q then f q else q) :: update src dst sq f ps).
  cbn [uniq]. intros [H1 H2]. split; [|apply IH; exact H2].
  assert (K : forall x, lookup (p_src x) (p_dst x) (p_seq x) (update src dst sq f ps) = None <->
                        lookup (p_src x) (p_dst x) (p_seq x) ps = None).
  { intro x. rewrite (lookup_update _ _ _ _ _ _ _ _ Hf). destruct (lookup (p_src x) (p_dst x) (p_seq x) ps); split; congruence. }
  destruct (key_is src dst sq q).
  - destruct (Hf q) as (E1 & E2 & E3). rewrite E1, E2, E3. apply K. exact H1.
  - apply K. exact H1.
Qed.

Lemma on_recv_key code d : key_preserving (on_recv code d).
Proof. intro p; cbn; auto. Qed.
Lemma on_ack_key r : key_preserving (on_ack r).
Proof. intro p; cbn; auto. Qed.

(** * Sums of in-flight amounts *)
Lemma sum_contrib_app A B t ps qs : sum_contrib A B t (ps ++ qs) = sum_contrib A B t ps + sum_contrib A B t qs.
Proof. induction ps as [|p ps IH]; cbn; [reflexivity|]. rewrite IH. lia. Qed.

(** Updating the (unique) packet with a given key changes the sum by that packet's contributions. *)
Lemma sum_contrib_update A B t src dst sq f ps p :
  uniq ps -> lookup src dst sq ps = Some p ->
  sum_contrib A B t (update src dst sq f ps) + contrib A B t p = sum_contrib A B t ps + contrib A B t (f p).
Proof.
  induction ps as [|q ps IH]; [cbn; discriminate|].
  change (update src dst sq f (q :: ps)) with ((if key_is src dst sq q then f q else q) :: update src dst sq f ps).
  cbn [uniq lookup sum_contrib]. intros [Hq Hu]. destruct (key_is src dst sq q) eqn:E.
  - intro H; inversion H; subst q.
    apply key_is_true in E as (E1 & E2 & E3). subst. rewrite (update_none _ _ _ _ _ Hq). lia.
  - intro H. specialize (IH Hu H). lia.
Qed.

(** * What the chain-level functions do to [out_tokens], [bind_amt] and [next_seq] *)
Ltac inv H := inversion H; subst; clear H.

Section WithCfg.
Variable cfg : config.
Hypothesis Hcfg : cfg_consistent cfg.

Lemma take_tokens_cases c cs u tok amt dst cs' ori :
  take_tokens cfg c cs u tok amt dst = Some (cs', ori) ->
  next_seq cs' = next_seq cs /\ ack_status cs' = ack_status cs /\ fees cs' = fees cs /\ effects cs' = effects cs /\
  ((amt = 0 /\ ori = None /\ cs' = cs) \/
   (amt <> 0 /\ bound cfg c tok dst = None /\ ori = None /\ bind_amt cs' = bind_amt cs /\
      out_tokens cs' = upd_tc (out_tokens cs) tok dst (out_tokens cs tok dst + amt)) \/
   (amt <> 0 /\ exists o k, bound cfg c tok dst = Some (o, k) /\ ori = Some o /\ out_tokens cs' = out_tokens cs /\
      amt * k <= bind_amt cs tok dst /\
      bind_amt cs' = upd_tc (bind_amt cs) tok dst (bind_amt cs tok dst - amt * k))).
Proof.
  unfold take_tokens. destruct (amt =? 0) eqn:Ea.
  - intro H; inv H. apply N.eqb_eq in Ea. repeat split; auto.
  - apply N.eqb_neq in Ea. destruct (bound cfg c tok dst) as [[o k]|] eqn:Eb.
    + destruct ((amt * k <=? bal cs tok u) && (amt * k <=? bind_amt cs tok dst) && (amt * k <=? supply cs tok)) eqn:Eg; [|discriminate].
      intro H; inv H. apply andb_true_iff in Eg as [Eg _]. apply andb_true_iff in Eg as [_ Eg]. apply N.leb_le in Eg.
      cbn. repeat split; auto. right; right. split; [exact Ea|]. exists o, k. repeat split; auto.
    + destruct (amt <=? bal cs tok u); [|discriminate]. intro H; inv H. cbn. repeat split; auto.
      right; left. repeat split; auto.
Qed.

Lemma take_fee_same cs u ftok fee cs' :
  take_fee cs u ftok fee = Some cs' ->
  out_tokens cs' = out_tokens cs /\ bind_amt cs' = bind_amt cs /\ next_seq cs' = next_seq cs /\ supply cs' = supply cs /\
  ack_status cs' = ack_status cs /\ fees cs' = fees cs /\ effects cs' = effects cs.
Proof.
  unfold take_fee. destruct (fee <=? bal cs ftok u); [|discriminate]. intro H; inv H. cbn. repeat split; auto.
Qed.

Lemma give_tokens_cases cs p cs' d :
  give_tokens cfg cs p = Some (cs', d) ->
  next_seq cs' = next_seq cs /\ ack_status cs' = ack_status cs /\ fees cs' = fees cs /\ effects cs' = effects cs /\
  ((p_amount p = 0 /\ cs' = cs /\ d = 0) \/
   (p_amount p <> 0 /\ p_ori p = None /\ exists loc k r, p_recv p = Some r /\ trace cfg (p_dst p) (p_src p) (p_token p) = Some (loc, k) /\
      d = p_amount p * k /\ out_tokens cs' = out_tokens cs /\
      bind_amt cs' = upd_tc (bind_amt cs) loc (p_src p) (bind_amt cs loc (p_src p) + p_amount p * k)) \/
   (p_amount p <> 0 /\ exists t r, p_recv p = Some r /\ p_ori p = Some t /\ d = p_amount p /\ bind_amt cs' = bind_amt cs /\
      p_amount p <= out_tokens cs t (p_src p) /\
      out_tokens cs' = upd_tc (out_tokens cs) t (p_src p) (out_tokens cs t (p_src p) - p_amount p))).
Proof.
  unfold give_tokens. destruct (p_amount p =? 0) eqn:Ea.
  - intro H; inv H. apply N.eqb_eq in Ea. repeat split; auto.
  - apply N.eqb_neq in Ea. destruct (p_recv p) as [r|]; [|discriminate].
    destruct (p_ori p) as [t|] eqn:Eo.
    + destruct (Nat.eqb t 0 && is_contract r); [discriminate|].
      destruct ((p_amount p <=? out_tokens cs t (p_src p)) && (p_amount p <=? bal cs t Endpoint)) eqn:Eg; [|discriminate].
      intro H; inv H. apply andb_true_iff in Eg as [Eg _]. apply N.leb_le in Eg. cbn. repeat split; auto.
      right; right. split; [exact Ea|]. exists t, r. repeat split; auto.
    + destruct (trace cfg (p_dst p) (p_src p) (p_token p)) as [[loc k]|] eqn:Et; [|discriminate].
      intro H; inv H. cbn. repeat split; auto. right; left. split; [exact Ea|]. split; [reflexivity|].
      exists loc, k, r. repeat split; auto.
Qed.

(** * The invariant *)

(** Conservation (DESIGN.md 5.C03): for every origin chain [A], token [t] of [A] and other chain [B]:
    what [A] holds in escrow towards [B] equals what [B] has minted for it plus what is in flight in
    either direction (forward packets A->B sent or refused-and-not-yet-refunded, return packets B->A
    burned on [B] and not yet released on [A] or refused-and-not-yet-re-minted), in origin units;
    [k] = 10^scale local units of [B] per origin unit. *)
Definition conserved (s : state) : Prop :=
  forall A B t, A <> B ->
    match trace cfg B A t with
    | Some (loc, k) => out_tokens (chains s A) t B * k = bind_amt (chains s B) loc A + k * sum_contrib A B t (packets s)
    | None => out_tokens (chains s A) t B = sum_contrib A B t (packets s)
    end.

(** Ghost data of a packet is consistent with the configuration and with itself. *)
Definition pkt_ok (p : packet) : Prop :=
  p_src p <> p_dst p /\
  (forall t, p_ori p = Some t -> exists k, bound cfg (p_src p) (p_token p) (p_dst p) = Some (t, k)) /\
  (p_status p = Sent -> p_code p = 0) /\
  (p_status p = RecvOk -> p_code p = 0) /\ (p_status p = AckOk -> p_code p = 0) /\
  (p_status p = RecvErr -> p_code p <> 0) /\ (p_status p = Refunded -> p_code p <> 0) /\
  (p_src p < nchains cfg)%nat /\ (p_dst p < nchains cfg)%nat.

Definition wf (s : state) : Prop :=
  uniq (packets s) /\
  forall p, In p (packets s) -> pkt_ok p /\ p_seq p < next_seq (chains s (p_src p)) (p_dst p).

Definition Inv (s : state) : Prop := wf s /\ conserved s.

Lemma chains_set_chain s c cs ps c' : chains (set_chain s c cs ps) c' = if Nat.eqb c c' then cs else chains s c'.
Proof. reflexivity. Qed.

Lemma fresh_lookup_none s src dst :
  wf s -> lookup src dst (next_seq (chains s src) dst) (packets s) = None.
Proof.
  intros [_ Hw]. destruct (lookup src dst (next_seq (chains s src) dst) (packets s)) as [p|] eqn:E; [|reflexivity].
  apply lookup_in in E as [Hin Hk]. apply key_is_true in Hk as (E1 & E2 & E3).
  destruct (Hw p Hin) as [_ Hlt]. rewrite E1, E2, E3 in Hlt. lia.
Qed.

Lemma uniq_app_one ps p : uniq ps -> lookup (p_src p) (p_dst p) (p_seq p) ps = None -> uniq (ps ++ [p]).
Proof.
  induction ps as [|q ps IH]; cbn; [auto|].
  intros [H1 H2] H. destruct (key_is (p_src p) (p_dst p) (p_seq p) q) eqn:E; [discriminate|].
  split; [|apply IH; assumption].
  rewrite lookup_app, H1. cbn. destruct (key_is (p_src q) (p_dst q) (p_seq q) p) eqn:E'; [|reflexivity].
  apply key_is_true in E' as (E1 & E2 & E3). assert (key_is (p_src p) (p_dst p) (p_seq p) q = true) by (apply key_is_true; auto).
  congruence.
Qed.

Lemma transfer_evm_spec c cs0 h tok amt dst rcv cd cb ftok fee cs p :
  transfer_evm cfg c cs0 h tok amt dst rcv cd cb ftok fee = Some (cs, p) ->
  p = {| p_src := c; p_dst := dst; p_seq := next_seq cs0 dst; p_sender := h; p_recv := rcv; p_token := tok;
         p_ori := p_ori p; p_amount := amt; p_cd := cd; p_cb := cb;
         p_status := Sent; p_code := 0; p_delivered := 0; p_refunded := 0; p_feepaid := 0 |} /\
  next_seq cs = upd1 (next_seq cs0) dst (next_seq cs0 dst + 1) /\
  ((amt = 0 /\ p_ori p = None /\ out_tokens cs = out_tokens cs0 /\ bind_amt cs = bind_amt cs0) \/
   (amt <> 0 /\ bound cfg c tok dst = None /\ p_ori p = None /\ bind_amt cs = bind_amt cs0 /\
      out_tokens cs = upd_tc (out_tokens cs0) tok dst (out_tokens cs0 tok dst + amt)) \/
   (amt <> 0 /\ exists o k, bound cfg c tok dst = Some (o, k) /\ p_ori p = Some o /\ out_tokens cs = out_tokens cs0 /\
      amt * k <= bind_amt cs0 tok dst /\
      bind_amt cs = upd_tc (bind_amt cs0) tok dst (bind_amt cs0 tok dst - amt * k))).
Proof.
  unfold transfer_evm.
  destruct ((amt =? 0) && cd_is_none cd); [discriminate|].
  destruct (take_tokens cfg c cs0 h tok amt dst) as [[cs1 ori]|] eqn:E2; [|discriminate].
  destruct (take_fee cs1 h ftok fee) as [cs2|] eqn:E3; [|discriminate].
  intro H; inv H. cbn.
  apply take_tokens_cases in E2 as (N1 & _ & _ & _ & E2).
  apply take_fee_same in E3 as (F1 & F2 & F3 & _).
  split; [reflexivity|]. split; [rewrite F3, N1; reflexivity|].
  rewrite F1, F2.
  destruct E2 as [(A1 & A2 & A3)|[(A1 & A2 & A3 & A4 & A5)|(A1 & o & k & A2 & A3 & A4 & A5 & A6)]].
  - left. subst. auto.
  - right; left. auto.
  - right; right. split; [exact A1|]. exists o, k. auto.
Qed.

Lemma dst_ok_true c dst : dst_ok cfg c dst = true -> c <> dst /\ (c < nchains cfg)%nat /\ (dst < nchains cfg)%nat.
Proof.
  unfold dst_ok. intro H. apply andb_true_iff in H as [H H3]. apply andb_true_iff in H as [H1 H2].
  apply negb_true_iff, Nat.eqb_neq in H1. apply Nat.ltb_lt in H2, H3. auto.
Qed.

Lemma transfer_chain_spec c cs0 h tok amt dst rcv cd cb ftok fee cs p :
  transfer_chain cfg c cs0 h tok amt dst rcv cd cb ftok fee = Some (cs, p) ->
  c <> dst /\ (c < nchains cfg)%nat /\ (dst < nchains cfg)%nat /\
  p = {| p_src := c; p_dst := dst; p_seq := next_seq cs0 dst; p_sender := h; p_recv := rcv; p_token := tok;
         p_ori := p_ori p; p_amount := amt; p_cd := cd; p_cb := cb;
         p_status := Sent; p_code := 0; p_delivered := 0; p_refunded := 0; p_feepaid := 0 |} /\
  next_seq cs = upd1 (next_seq cs0) dst (next_seq cs0 dst + 1) /\
  ((amt = 0 /\ p_ori p = None /\ out_tokens cs = out_tokens cs0 /\ bind_amt cs = bind_amt cs0) \/
   (amt <> 0 /\ bound cfg c tok dst = None /\ p_ori p = None /\ bind_amt cs = bind_amt cs0 /\
      out_tokens cs = upd_tc (out_tokens cs0) tok dst (out_tokens cs0 tok dst + amt)) \/
   (amt <> 0 /\ exists o k, bound cfg c tok dst = Some (o, k) /\ p_ori p = Some o /\ out_tokens cs = out_tokens cs0 /\
      amt * k <= bind_amt cs0 tok dst /\
      bind_amt cs = upd_tc (bind_amt cs0) tok dst (bind_amt cs0 tok dst - amt * k))).
Proof.
  unfold transfer_chain. destruct (dst_ok cfg c dst) eqn:E; [|discriminate].
  apply dst_ok_true in E as (E1 & E2 & E3). intro H. apply transfer_evm_spec in H as (H1 & H2 & H3). auto 10.
Qed.

Ltac beq :=
  repeat match goal with
  | |- context [Nat.eqb ?a ?b] => destruct (Nat.eqb_spec a b); subst; cbn [andb orb negb]
  | H : context [Nat.eqb ?a ?b] |- _ => destruct (Nat.eqb_spec a b); subst; cbn [andb orb negb] in H
  end.

Lemma upd_tc_same f t c v : upd_tc f t c v t c = v.
Proof. unfold upd_tc. rewrite !Nat.eqb_refl. reflexivity. Qed.

Lemma upd_tc_other f t c v t' c' : (t, c) <> (t', c') -> upd_tc f t c v t' c' = f t' c'.
Proof.
  unfold upd_tc. intro H. destruct (Nat.eqb_spec t t'), (Nat.eqb_spec c c'); cbn; try reflexivity. subst. contradiction.
Qed.

(** a forward / return packet contributes to exactly one (origin chain, token, other chain) triple *)
Lemma contrib_fwd A B t p :
  inflight (p_status p) = true -> p_ori p = None ->
  contrib A B t p = if Nat.eqb (p_src p) A && Nat.eqb (p_dst p) B && Nat.eqb (p_token p) t then p_amount p else 0.
Proof. intros H1 H2. unfold contrib. rewrite H1, H2. reflexivity. Qed.

Lemma contrib_ret A B t p t0 :
  inflight (p_status p) = true -> p_ori p = Some t0 ->
  contrib A B t p = if Nat.eqb (p_src p) B && Nat.eqb (p_dst p) A && Nat.eqb t0 t then p_amount p else 0.
Proof. intros H1 H2. unfold contrib. rewrite H1, H2. reflexivity. Qed.

Lemma contrib_done A B t p : inflight (p_status p) = false -> contrib A B t p = 0.
Proof. intro H. unfold contrib. rewrite H. reflexivity. Qed.

Lemma transfer_inv s c h tok amt dst rcv cd cb ftok fee cs p :
  Inv s ->
  transfer_chain cfg c (chains s c) h tok amt dst rcv cd cb ftok fee = Some (cs, p) ->
  Inv (set_chain s c cs (packets s ++ [p])).
Proof.
  intros [Hw Hc] H. apply transfer_chain_spec in H as (Hne & Hcn & Hdn & Hp & Hn & Hcases).
  assert (Hsrc : p_src p = c) by (rewrite Hp; reflexivity).
  assert (Hdst : p_dst p = dst) by (rewrite Hp; reflexivity).
  assert (Hseq : p_seq p = next_seq (chains s c) dst) by (rewrite Hp; reflexivity).
  assert (Hst : p_status p = Sent) by (rewrite Hp; reflexivity).
  assert (Htok : p_token p = tok) by (rewrite Hp; reflexivity).
  assert (Hamt : p_amount p = amt) by (rewrite Hp; reflexivity).
  assert (Hcode : p_code p = 0) by (rewrite Hp; reflexivity).
  split.
  - (* wf *)
    destruct Hw as [Hu Hall]. split; cbn [packets set_chain].
    + apply uniq_app_one; [exact Hu|]. rewrite Hsrc, Hdst, Hseq. apply fresh_lookup_none. split; assumption.
    + intros q Hq. apply in_app_or in Hq as [Hq|[<-|[]]].
      * destruct (Hall q Hq) as [Hok Hlt]. split; [exact Hok|].
        rewrite chains_set_chain. destruct (Nat.eqb_spec c (p_src q)) as [->|]; [|exact Hlt].
        rewrite Hn. unfold upd1. destruct (Nat.eqb_spec dst (p_dst q)) as [->|]; [lia|exact Hlt].
      * split.
        -- unfold pkt_ok. rewrite Hsrc, Hdst, Htok, Hst, Hcode. repeat split; try congruence; try assumption.
           intros t Ht. destruct Hcases as [(_ & A & _)|[(_ & _ & A & _)|(_ & o & k & A1 & A2 & _)]]; try congruence.
           exists k. congruence.
        -- rewrite chains_set_chain, Hsrc, Nat.eqb_refl, Hn, Hdst, Hseq. unfold upd1. rewrite Nat.eqb_refl. lia.
  - (* conserved *)
    intros A B t HAB. specialize (Hc A B t HAB). cbn [packets set_chain].
    rewrite sum_contrib_app. cbn [sum_contrib]. rewrite N.add_0_r. rewrite !chains_set_chain.
    assert (Hinf : inflight (p_status p) = true) by (rewrite Hst; reflexivity).
    destruct Hcases as [(A1 & A2 & A3 & A4)|[(A1 & A2 & A3 & A4 & A5)|(A1 & o & k & A2 & A3 & A4 & A5 & A6)]].
    + (* pure call: nothing moves, the packet contributes 0 *)
      assert (contrib A B t p = 0) as ->.
      { rewrite (contrib_fwd _ _ _ _ Hinf A2), Hamt, A1. destruct (_ && _); reflexivity. }
      rewrite N.add_0_r.
      destruct (Nat.eqb_spec c A), (Nat.eqb_spec c B); subst; try rewrite A3; try rewrite A4; exact Hc.
    + (* escrow *)
      rewrite (contrib_fwd _ _ _ _ Hinf A3), Hsrc, Hdst, Htok, Hamt.
      destruct (Nat.eqb_spec c A) as [<-|NA].
      * destruct (Nat.eqb_spec c B) as [<-|NB]; [contradiction|]. rewrite A5.
        destruct (Nat.eqb_spec dst B) as [<-|ND]; cbn [andb].
        -- destruct (Nat.eqb_spec tok t) as [<-|NT].
           ++ rewrite upd_tc_same. destruct (trace cfg dst c tok) as [[loc k]|]; lia.
           ++ rewrite upd_tc_other by congruence. rewrite N.add_0_r. exact Hc.
        -- rewrite upd_tc_other by congruence. rewrite N.add_0_r. exact Hc.
      * cbn [andb]. rewrite N.add_0_r. destruct (Nat.eqb_spec c B) as [<-|NB]; [rewrite A4|]; exact Hc.
    + (* burn of a bound token: return packet *)
      rewrite (contrib_ret _ _ _ _ _ Hinf A3), Hsrc, Hdst, Hamt.
      apply Hcfg in A2 as Htr.
      destruct (Nat.eqb_spec c B) as [<-|NB].
      * destruct (Nat.eqb_spec c A) as [<-|NA]; [contradiction|]. rewrite A6. cbn [andb].
        destruct (Nat.eqb_spec dst A) as [<-|ND]; cbn [andb].
        -- destruct (Nat.eqb_spec o t) as [<-|NT].
           ++ rewrite Htr in *. rewrite upd_tc_same. nia.
           ++ rewrite N.add_0_r. destruct (trace cfg c dst t) as [[loc k']|] eqn:Et; [|exact Hc].
              rewrite upd_tc_other; [exact Hc|]. intro X; inv X. apply Hcfg in Et. congruence.
        -- rewrite N.add_0_r. destruct (trace cfg c A t) as [[loc k']|] eqn:Et; [|exact Hc].
           rewrite upd_tc_other; [exact Hc|]. congruence.
      * cbn [andb]. rewrite N.add_0_r. destruct (Nat.eqb_spec c A) as [<-|NA]; [rewrite A4|]; exact Hc.
Qed.

(** extensionality of the invariant in the (functional) chain map *)
Lemma Inv_ext s s' : (forall c, chains s c = chains s' c) -> packets s = packets s' -> Inv s -> Inv s'.
Proof.
  intros Hc Hp [[Hu Hall] Hcons]. split; [split|].
  - rewrite <- Hp. exact Hu.
  - intros p Hin. rewrite <- Hp in Hin. destruct (Hall p Hin) as [H1 H2]. split; [exact H1|]. rewrite <- Hc. exact H2.
  - intros A B t HAB. specialize (Hcons A B t HAB). rewrite <- !Hc, <- Hp. exact Hcons.
Qed.

Lemma agent_send_cases c cs1 p d ref rcv2 dst2 fee code cs2 onw :
  agent_send cfg c cs1 p d ref rcv2 dst2 fee = (code, cs2, onw) ->
  (code <> 0 /\ onw = None) \/
  (code = 0 /\ exists q T a2 feer, onw = Some q /\
     transfer_chain cfg c cs1 Agent T a2 dst2 rcv2 CdNone (CbAgent ref) T feer = Some (cs2, q)).
Proof.
  unfold agent_send. destruct (p_recv p) as [[]|]; try (intro H; inv H; left; split; [discriminate|reflexivity]).
  destruct (delivered_token cfg p) as [[T kin]|]; [|intro H; inv H; left; split; [discriminate|reflexivity]].
  destruct ((p_amount p =? 0) || (d <=? fee * kin) || Nat.eqb c dst2); [intro H; inv H; left; split; [discriminate|reflexivity]|].
  match goal with |- context [match ?x with Some a2 => _ | None => _ end] => destruct x as [a2|] end;
    [|intro H; inv H; left; split; [discriminate|reflexivity]].
  destruct (transfer_evm cfg c cs1 Agent T a2 dst2 rcv2 CdNone (CbAgent ref) T (fee * kin)) as [[cs3 q]|] eqn:E;
    [|intro H; inv H; left; split; [discriminate|reflexivity]].
  destruct (dst_ok cfg c dst2) eqn:Ed; intro H; inv H.
  - right. split; [reflexivity|]. exists q, T, a2, (fee * kin). split; [reflexivity|]. unfold transfer_chain. rewrite Ed. exact E.
  - left. split; [discriminate|reflexivity].
Qed.

Definition same_core (cs' cs1 : cstate) : Prop :=
  out_tokens cs' = out_tokens cs1 /\ bind_amt cs' = bind_amt cs1 /\ next_seq cs' = next_seq cs1 /\ bal cs' = bal cs1 /\
  supply cs' = supply cs1 /\ ack_status cs' = ack_status cs1 /\ fees cs' = fees cs1.

Lemma run_calldata_cases cs p d code cs2 onw :
  run_calldata cfg cs p d = (code, cs2, onw) ->
  (code <> 0 /\ onw = None) \/
  (code = 0 /\ onw = None /\ same_core cs2 cs) \/
  (code = 0 /\ exists q T a2 feer ref rcv2 dst2, onw = Some q /\
     transfer_chain cfg (p_dst p) cs Agent T a2 dst2 rcv2 CdNone (CbAgent ref) T feer = Some (cs2, q)).
Proof.
  unfold run_calldata. destruct (p_cd p) as [|e| | |ref rcv2 dst2 fee].
  - intro H; inv H. right; left. unfold same_core. repeat split; auto.
  - intro H; inv H. right; left. unfold same_core. cbn. repeat split; auto.
  - intro H; inv H. left. split; [discriminate|reflexivity].
  - intro H; inv H. left. split; [discriminate|reflexivity].
  - intro H. apply agent_send_cases in H as [H|(-> & q & T & a2 & feer & -> & H)]; [left; exact H|].
    right; right. split; [reflexivity|]. exists q, T, a2, feer, ref, rcv2, dst2. auto.
Qed.

Lemma recv_chain_cases cs p code cs' d onw :
  recv_chain cfg cs p = (code, cs', d, onw) ->
  (code <> 0 /\ cs' = cs /\ d = 0 /\ onw = None) \/
  (code = 0 /\ exists cs1, give_tokens cfg cs p = Some (cs1, d) /\
     ((onw = None /\ same_core cs' cs1) \/
      (exists q T a2 feer ref rcv2 dst2, onw = Some q /\
         transfer_chain cfg (p_dst p) cs1 Agent T a2 dst2 rcv2 CdNone (CbAgent ref) T feer = Some (cs', q)))).
Proof.
  unfold recv_chain. destruct (give_tokens cfg cs p) as [[cs1 d1]|] eqn:E.
  - destruct (run_calldata cfg cs1 p d1) as [[code1 cs2] onw1] eqn:E2.
    destruct (code1 =? 0) eqn:E3; intro H; inv H.
    + right. split; [reflexivity|]. exists cs1. split; [reflexivity|]. apply N.eqb_eq in E3. subst code1.
      apply run_calldata_cases in E2 as [[H _]|[(_ & -> & H)|(_ & H)]]; [congruence|left; auto|right; exact H].
    + left. apply N.eqb_neq in E3. auto.
  - intro H; inv H. left. repeat split; auto. discriminate.
Qed.

Lemma in_update src dst sq f ps q :
  In q (update src dst sq f ps) -> exists q0, In q0 ps /\ q = (if key_is src dst sq q0 then f q0 else q0).
Proof.
  unfold update. intro H. apply in_map_iff in H as (q0 & E & Hin). exists q0. split; [exact Hin|]. symmetry; exact E.
Qed.

Lemma contrib_amount0 A B t p : p_amount p = 0 -> contrib A B t p = 0.
Proof.
  intro H. unfold contrib. rewrite H. destruct (inflight _); [|reflexivity].
  destruct (p_ori p); destruct (_ && _); reflexivity.
Qed.

Lemma recv_core s src dst sq p code cs' d :
  Inv s ->
  lookup src dst sq (packets s) = Some p -> is_sent p = true ->
  ((code <> 0 /\ cs' = chains s dst) \/
   (code = 0 /\ exists cs1 d1, give_tokens cfg (chains s dst) p = Some (cs1, d1) /\
      out_tokens cs' = out_tokens cs1 /\ bind_amt cs' = bind_amt cs1 /\ next_seq cs' = next_seq cs1)) ->
  Inv (set_chain s dst cs' (update src dst sq (on_recv code d) (packets s))).
Proof.
  intros [Hw Hc] Hl Hs Hr. destruct Hw as [Hu Hall].
  destruct (lookup_in _ _ _ _ _ Hl) as [Hin Hk]. apply key_is_true in Hk as (K1 & K2 & K3).
  assert (Hst : p_status p = Sent) by (unfold is_sent in Hs; destruct (p_status p); congruence).
  destruct (Hall p Hin) as [Hpok _].
  assert (Hnext : next_seq cs' = next_seq (chains s dst)).
  { destruct Hr as [(_ & ->)|(_ & cs1 & d1 & G & _ & _ & N1)]; [reflexivity|].
    apply give_tokens_cases in G as (N2 & _). congruence. }
  split.
  - split; cbn [packets set_chain].
    + apply uniq_update; [apply on_recv_key|exact Hu].
    + intros q Hq. apply in_update in Hq as (q0 & Hq0 & ->). destruct (Hall q0 Hq0) as [Hok Hlt].
      assert (Hlt' : forall q1, p_src q1 = p_src q0 -> p_dst q1 = p_dst q0 -> p_seq q1 = p_seq q0 ->
                 p_seq q1 < next_seq (chains (set_chain s dst cs' (update src dst sq (on_recv code d) (packets s))) (p_src q1)) (p_dst q1)).
      { intros q1 E1 E2 E3. rewrite chains_set_chain, E1, E2, E3. destruct (Nat.eqb_spec dst (p_src q0)) as [->|]; [rewrite Hnext|]; exact Hlt. }
      destruct (key_is src dst sq q0); [|split; [exact Hok|apply Hlt'; reflexivity]].
      split; [|apply Hlt'; reflexivity].
      destruct Hok as (O1 & O2 & O3 & O4 & O5 & O6 & O7 & O8 & O9). unfold pkt_ok; cbn.
      destruct (code =? 0) eqn:Ec; [apply N.eqb_eq in Ec|apply N.eqb_neq in Ec]; repeat split; auto; try congruence.
  - intros A B t HAB. specialize (Hc A B t HAB). cbn [packets set_chain]. rewrite !chains_set_chain.
    pose proof (sum_contrib_update A B t src dst sq (on_recv code d) (packets s) p Hu Hl) as Hsum.
    assert (Hinf : inflight (p_status p) = true) by (rewrite Hst; reflexivity).
    destruct Hr as [(Hcode & ->)|(Hcode & cs1 & d1 & G & R1 & R2 & _)].
    + (* error acknowledgement: nothing changes, the packet stays in flight *)
      assert (contrib A B t (on_recv code d p) = contrib A B t p) as E.
      { unfold contrib. cbn. apply N.eqb_neq in Hcode. rewrite Hcode, Hst. reflexivity. }
      rewrite E in Hsum. apply N.add_cancel_r in Hsum. rewrite Hsum.
      destruct (Nat.eqb_spec dst A), (Nat.eqb_spec dst B); subst; exact Hc.
    + subst code. assert (contrib A B t (on_recv 0 d p) = 0) as E by (apply contrib_done; reflexivity).
      rewrite E, N.add_0_r in Hsum.
      apply give_tokens_cases in G as (_ & _ & _ & _ & [(A1 & -> & _)|[(A1 & A2 & loc & k & r & A3 & A4 & A5 & A6 & A7)|(A1 & t0 & r & A2 & A3 & A4 & A5 & A6 & A7)]]).
      * rewrite (contrib_amount0 _ _ _ _ A1), N.add_0_r in Hsum. rewrite Hsum.
        destruct (Nat.eqb_spec dst A), (Nat.eqb_spec dst B); subst; rewrite ?R1, ?R2; exact Hc.
      * (* mint on the destination *)
        rewrite A6 in R1. rewrite A7 in R2.
        rewrite (contrib_fwd _ _ _ _ Hinf A2), K1, K2 in Hsum. rewrite K1, K2 in *.
        destruct (Nat.eqb_spec dst B) as [<-|NB].
        -- destruct (Nat.eqb_spec dst A) as [<-|NA]; [contradiction|]. rewrite R2.
           destruct (Nat.eqb_spec src A) as [<-|NS]; cbn [andb] in Hsum.
           ++ destruct (Nat.eqb_spec (p_token p) t) as [<-|NT].
              ** rewrite A4 in *. rewrite upd_tc_same. nia.
              ** rewrite N.add_0_r in Hsum. rewrite Hsum. destruct (trace cfg dst src t) as [[loc' k']|] eqn:Et; [|exact Hc].
                 rewrite upd_tc_other; [exact Hc|]. intro X; inv X. apply Hcfg in Et, A4. congruence.
           ++ rewrite N.add_0_r in Hsum. rewrite Hsum. destruct (trace cfg dst A t) as [[loc' k']|] eqn:Et; [|exact Hc].
              rewrite upd_tc_other; [exact Hc|]. congruence.
        -- rewrite andb_false_r in Hsum. cbn [andb] in Hsum. rewrite N.add_0_r in Hsum. rewrite Hsum.
           destruct (Nat.eqb_spec dst A) as [<-|NA]; [rewrite R1|]; exact Hc.
      * (* release of the escrow on the origin chain *)
        rewrite A5 in R2. rewrite A7 in R1.
        rewrite (contrib_ret _ _ _ _ _ Hinf A3), K1, K2 in Hsum. rewrite K1 in *.
        destruct (Nat.eqb_spec dst A) as [<-|NA].
        -- destruct (Nat.eqb_spec dst B) as [<-|NB]; [contradiction|]. rewrite R1.
           destruct (Nat.eqb_spec src B) as [<-|NS]; cbn [andb] in Hsum.
           ++ destruct (Nat.eqb_spec t0 t) as [<-|NT].
              ** rewrite upd_tc_same. destruct (trace cfg src dst t0) as [[loc k]|]; nia.
              ** rewrite N.add_0_r in Hsum. rewrite Hsum. rewrite upd_tc_other by congruence. exact Hc.
           ++ rewrite N.add_0_r in Hsum. rewrite Hsum. rewrite upd_tc_other by congruence. exact Hc.
        -- rewrite andb_false_r in Hsum. cbn [andb] in Hsum. rewrite N.add_0_r in Hsum. rewrite Hsum.
           destruct (Nat.eqb_spec dst B) as [<-|NB]; [rewrite R2|]; exact Hc.
Qed.

Lemma recv_inv s src dst sq p code cs' d onw :
  Inv s ->
  lookup src dst sq (packets s) = Some p -> is_sent p = true ->
  recv_chain cfg (chains s dst) p = (code, cs', d, onw) ->
  Inv (set_chain s dst cs' (update src dst sq (on_recv code d) (packets s) ++ opt_list onw)).
Proof.
  intros HI Hl Hs Hr.
  destruct (lookup_in _ _ _ _ _ Hl) as [_ Hk]. apply key_is_true in Hk as (_ & K2 & _).
  apply recv_chain_cases in Hr as [(Hc & -> & _ & ->)|(-> & cs1 & G & [(-> & S1 & S2 & S3 & _)|(q & T & a2 & feer & ref & rcv2 & dst2 & -> & Ht)])].
  - cbn [opt_list]. rewrite app_nil_r. eapply recv_core; eauto.
  - cbn [opt_list]. rewrite app_nil_r. eapply recv_core; eauto. right. split; [reflexivity|]. exists cs1, d. auto.
  - (* the callback sent a packet on: receive, then a transfer by the agent on the resulting state *)
    cbn [opt_list]. rewrite K2 in Ht.
    pose (s1 := set_chain s dst cs1 (update src dst sq (on_recv 0 d) (packets s))).
    assert (H1 : Inv s1).
    { eapply recv_core; eauto. right. split; [reflexivity|]. exists cs1, d. auto. }
    assert (Hcs : chains s1 dst = cs1) by (unfold s1; rewrite chains_set_chain, Nat.eqb_refl; reflexivity).
    rewrite <- Hcs in Ht. apply (transfer_inv s1) in Ht; [|exact H1].
    refine (Inv_ext _ _ _ _ Ht); [|reflexivity].
    intro c. unfold s1. rewrite !chains_set_chain. destruct (Nat.eqb dst c); reflexivity.
Qed.

Lemma give_back_cases cs p cs' r :
  give_back cfg cs p = Some (cs', r) ->
  next_seq cs' = next_seq cs /\ ack_status cs' = ack_status cs /\ fees cs' = fees cs /\ effects cs' = effects cs /\
  ((p_code p = 0 /\ cs' = cs /\ r = 0) \/
   (p_code p <> 0 /\ p_amount p <> 0 /\ p_ori p = None /\ r = p_amount p /\ bind_amt cs' = bind_amt cs /\
      p_amount p <= out_tokens cs (p_token p) (p_dst p) /\
      out_tokens cs' = upd_tc (out_tokens cs) (p_token p) (p_dst p) (out_tokens cs (p_token p) (p_dst p) - p_amount p)) \/
   (p_code p <> 0 /\ p_amount p <> 0 /\ exists t o k, p_ori p = Some t /\ bound cfg (p_src p) (p_token p) (p_dst p) = Some (o, k) /\
      r = p_amount p * k /\ out_tokens cs' = out_tokens cs /\
      bind_amt cs' = upd_tc (bind_amt cs) (p_token p) (p_dst p) (bind_amt cs (p_token p) (p_dst p) + p_amount p * k))).
Proof.
  unfold give_back. destruct (p_code p =? 0) eqn:Ec.
  - intro H; inv H. apply N.eqb_eq in Ec. repeat split; auto.
  - apply N.eqb_neq in Ec. destruct (p_amount p =? 0) eqn:Ea; [discriminate|]. apply N.eqb_neq in Ea.
    destruct (p_ori p) as [t|] eqn:Eo.
    + destruct (bound cfg (p_src p) (p_token p) (p_dst p)) as [[o k]|] eqn:Eb; [|discriminate].
      intro H; inv H. cbn. repeat split; auto. right; right. repeat split; auto. exists t, o, k. repeat split; auto.
    + destruct ((p_amount p <=? out_tokens cs (p_token p) (p_dst p)) && (p_amount p <=? bal cs (p_token p) Endpoint)) eqn:Eg; [|discriminate].
      intro H; inv H. apply andb_true_iff in Eg as [Eg _]. apply N.leb_le in Eg. cbn. repeat split; auto.
      right; left. repeat split; auto.
Qed.

Lemma ack_chain_cases cs p cs' r :
  ack_chain cfg cs p = Some (cs', r) ->
  p_cb p <> CbBroken /\ next_seq cs' = next_seq cs /\
  ((p_code p = 0 /\ r = 0 /\ out_tokens cs' = out_tokens cs /\ bind_amt cs' = bind_amt cs) \/
   (p_code p <> 0 /\ p_amount p <> 0 /\ p_ori p = None /\ r = p_amount p /\ bind_amt cs' = bind_amt cs /\
      p_amount p <= out_tokens cs (p_token p) (p_dst p) /\
      out_tokens cs' = upd_tc (out_tokens cs) (p_token p) (p_dst p) (out_tokens cs (p_token p) (p_dst p) - p_amount p)) \/
   (p_code p <> 0 /\ p_amount p <> 0 /\ exists t o k, p_ori p = Some t /\ bound cfg (p_src p) (p_token p) (p_dst p) = Some (o, k) /\
      r = p_amount p * k /\ out_tokens cs' = out_tokens cs /\
      bind_amt cs' = upd_tc (bind_amt cs) (p_token p) (p_dst p) (bind_amt cs (p_token p) (p_dst p) + p_amount p * k))).
Proof.
  unfold ack_chain. intro H.
  assert (Hcb : p_cb p <> CbBroken) by (destruct (p_cb p); congruence).
  split; [exact Hcb|].
  assert (G : exists cs2 ft f,
             give_back cfg (move (set_ackst cs (upd_cs (ack_status cs) (p_dst p) (p_seq p) (if p_code p =? 0 then 1 else 2)))
                               ft PacketC Relayer f) p = Some (cs2, r) /\
             out_tokens cs' = out_tokens cs2 /\ bind_amt cs' = bind_amt cs2 /\ next_seq cs' = next_seq cs2).
  { destruct (fees cs (p_dst p) (p_seq p)) as [ft f].
    destruct (p_cb p) as [| |ref]; [|congruence|];
      (match type of H with (if ?c then _ else _) = _ => destruct c end; [|discriminate]);
      (match type of H with match ?g with Some _ => _ | None => _ end = _ => destruct g as [[cs2 r2]|] eqn:Eg end; [|discriminate]);
      injection H as <- <-; exists cs2, ft, f; (split; [exact Eg|]).
    - auto.
    - destruct (r2 =? 0); cbn; auto. }
  destruct G as (cs2 & ft & f & G & -> & -> & ->).
  apply give_back_cases in G as (N1 & _ & _ & _ & H'). cbn in *. split; [exact N1|].
  destruct H' as [(A1 & -> & A3)|[(A1 & A2 & A3 & A4 & A5 & A6 & A7)|(A1 & A2 & t & o & k & A3 & A4 & A5 & A6 & A7)]].
  - left. cbn. auto.
  - right; left. repeat split; auto.
  - right; right. repeat split; auto. exists t, o, k. repeat split; auto.
Qed.

Lemma ack_inv s src dst sq p cs' r :
  Inv s ->
  lookup src dst sq (packets s) = Some p -> is_received p = true ->
  ack_chain cfg (chains s src) p = Some (cs', r) ->
  Inv (set_chain s src cs' (update src dst sq (on_ack r) (packets s))).
Proof.
  intros [Hw Hc] Hl Hs Hr. destruct Hw as [Hu Hall].
  destruct (lookup_in _ _ _ _ _ Hl) as [Hin Hk]. apply key_is_true in Hk as (K1 & K2 & K3).
  destruct (Hall p Hin) as [Hpok _].
  apply ack_chain_cases in Hr as (_ & Hnext & Hcases).
  split.
  - split; cbn [packets set_chain].
    + apply uniq_update; [apply on_ack_key|exact Hu].
    + intros q Hq. apply in_update in Hq as (q0 & Hq0 & ->). destruct (Hall q0 Hq0) as [Hok Hlt].
      assert (Hlt' : forall q1, p_src q1 = p_src q0 -> p_dst q1 = p_dst q0 -> p_seq q1 = p_seq q0 ->
                 p_seq q1 < next_seq (chains (set_chain s src cs' (update src dst sq (on_ack r) (packets s))) (p_src q1)) (p_dst q1)).
      { intros q1 E1 E2 E3. rewrite chains_set_chain, E1, E2, E3. destruct (Nat.eqb_spec src (p_src q0)) as [->|]; [rewrite Hnext|]; exact Hlt. }
      destruct (key_is src dst sq q0); [|split; [exact Hok|apply Hlt'; reflexivity]].
      split; [|apply Hlt'; reflexivity].
      destruct Hok as (O1 & O2 & O3 & O4 & O5 & O6 & O7 & O8 & O9). unfold pkt_ok; cbn.
      destruct (p_code q0 =? 0) eqn:Ec; [apply N.eqb_eq in Ec|apply N.eqb_neq in Ec]; repeat split; auto; try congruence.
  - intros A B t HAB. specialize (Hc A B t HAB). cbn [packets set_chain]. rewrite !chains_set_chain.
    pose proof (sum_contrib_update A B t src dst sq (on_ack r) (packets s) p Hu Hl) as Hsum.
    assert (E : contrib A B t (on_ack r p) = 0).
    { apply contrib_done. cbn. destruct (p_code p =? 0); reflexivity. }
    rewrite E, N.add_0_r in Hsum.
    destruct Hpok as (O1 & O2 & O3 & O4 & O5 & O6 & O7 & O8 & O9).
    unfold is_received in Hs.
    destruct Hcases as [(A1 & _ & A3 & A4)|[(A1 & A2 & A3 & A4 & A5 & A6 & A7)|(A1 & A2 & t0 & o & k & A3 & A4 & A5 & A6 & A7)]].
    + (* success acknowledgement: the packet was delivered, nothing is given back *)
      assert (Hst : p_status p = RecvOk).
      { destruct (p_status p) eqn:Est; try discriminate; [reflexivity|]. exfalso; apply O6; auto. }
      rewrite (contrib_done A B t p) in Hsum by (rewrite Hst; reflexivity). rewrite N.add_0_r in Hsum. rewrite Hsum.
      destruct (Nat.eqb_spec src A), (Nat.eqb_spec src B); subst; rewrite ?A3, ?A4; exact Hc.
    + (* refund of an escrowed (forward) transfer *)
      assert (Hst : p_status p = RecvErr).
      { destruct (p_status p) eqn:Est; try discriminate; [|reflexivity]. exfalso; apply A1; auto. }
      assert (Hinf : inflight (p_status p) = true) by (rewrite Hst; reflexivity).
      rewrite (contrib_fwd _ _ _ _ Hinf A3), K1, K2 in Hsum. rewrite K2 in *.
      destruct (Nat.eqb_spec src A) as [<-|NA].
      * destruct (Nat.eqb_spec src B) as [<-|NB]; [contradiction|]. rewrite A7. cbn [andb] in Hsum.
        destruct (Nat.eqb_spec dst B) as [<-|ND]; cbn [andb] in Hsum.
        -- destruct (Nat.eqb_spec (p_token p) t) as [<-|NT].
           ++ rewrite upd_tc_same. destruct (trace cfg dst src (p_token p)) as [[loc k]|]; nia.
           ++ rewrite N.add_0_r in Hsum. rewrite Hsum. rewrite upd_tc_other by congruence. exact Hc.
        -- rewrite N.add_0_r in Hsum. rewrite Hsum. rewrite upd_tc_other by congruence. exact Hc.
      * cbn [andb] in Hsum. rewrite N.add_0_r in Hsum. rewrite Hsum.
        destruct (Nat.eqb_spec src B) as [<-|NB]; [rewrite A5|]; exact Hc.
    + (* re-mint of a burned (return) transfer *)
      assert (Hst : p_status p = RecvErr).
      { destruct (p_status p) eqn:Est; try discriminate; [|reflexivity]. exfalso; apply A1; auto. }
      assert (Hinf : inflight (p_status p) = true) by (rewrite Hst; reflexivity).
      rewrite (contrib_ret _ _ _ _ _ Hinf A3), K1, K2 in Hsum. rewrite K1, K2 in *.
      destruct (O2 t0 A3) as [k0 Hb]. rewrite Hb in A4. injection A4 as <- <-.
      apply Hcfg in Hb as Htr.
      destruct (Nat.eqb_spec src B) as [<-|NB].
      * destruct (Nat.eqb_spec src A) as [<-|NA]; [contradiction|]. rewrite A7. cbn [andb] in Hsum.
        destruct (Nat.eqb_spec dst A) as [<-|ND]; cbn [andb] in Hsum.
        -- destruct (Nat.eqb_spec t0 t) as [<-|NT].
           ++ rewrite Htr in *. rewrite upd_tc_same. nia.
           ++ rewrite N.add_0_r in Hsum. rewrite Hsum. destruct (trace cfg src dst t) as [[loc' k']|] eqn:Et; [|exact Hc].
              rewrite upd_tc_other; [exact Hc|]. intro X; inv X. apply Hcfg in Et. congruence.
        -- rewrite N.add_0_r in Hsum. rewrite Hsum. destruct (trace cfg src A t) as [[loc' k']|] eqn:Et; [|exact Hc].
           rewrite upd_tc_other; [exact Hc|]. congruence.
      * cbn [andb] in Hsum. rewrite N.add_0_r in Hsum. rewrite Hsum.
        destruct (Nat.eqb_spec src A) as [<-|NA]; [rewrite A6|]; exact Hc.
Qed.

Lemma addfee_inv s c u dst sq amt cs :
  Inv s -> addfee_chain (chains s c) u dst sq amt = Some cs -> Inv (set_chain s c cs (packets s)).
Proof.
  intros [[Hu Hall] Hc] H. unfold addfee_chain in H.
  destruct (fees (chains s c) dst sq) as [ft f].
  match type of H with (if ?g then _ else _) = _ => destruct g end; [|discriminate]. inv H.
  split; [split|]; cbn [packets set_chain].
  - exact Hu.
  - intros q Hq. destruct (Hall q Hq) as [Hok Hlt]. split; [exact Hok|].
    rewrite chains_set_chain. destruct (Nat.eqb_spec c (p_src q)) as [->|]; exact Hlt.
  - intros A B t HAB. specialize (Hc A B t HAB). rewrite !chains_set_chain.
    destruct (Nat.eqb_spec c A), (Nat.eqb_spec c B); subst; exact Hc.
Qed.

(** * Every operation preserves the invariant; so does every history *)
Theorem step_inv s o s' : Inv s -> step cfg s o = Ok s' -> Inv s'.
Proof.
  intros HI H. unfold step, step_gen in H. destruct o as [c u tok amt dst rcv cd cb ftok fee|src dst sq|src dst sq|c u dst sq amt|k src dst sq]; [| | | |discriminate].
  - destruct (transfer_chain cfg c (chains s c) (User u) tok amt dst rcv cd (if cb then CbBroken else CbNone) ftok fee) as [[cs p]|] eqn:E; [|discriminate].
    inv H. eapply transfer_inv; eauto.
  - destruct (lookup src dst sq (packets s)) as [p|] eqn:El; [|discriminate].
    destruct (is_sent p) eqn:Es; [|discriminate].
    destruct (recv_chain cfg (chains s dst) p) as [[[code cs] d] onw] eqn:Er. inv H. eapply recv_inv; eauto.
  - destruct (lookup src dst sq (packets s)) as [p|] eqn:El; [|discriminate].
    destruct (is_received p) eqn:Es; [|discriminate].
    destruct (ack_chain cfg (chains s src) p) as [[cs r]|] eqn:Er; [|discriminate]. inv H. eapply ack_inv; eauto.
  - destruct (addfee_chain (chains s c) u dst sq amt) as [cs|] eqn:E; [|discriminate]. inv H. eapply addfee_inv; eauto.
Qed.

Lemma apply_inv s o : Inv s -> Inv (apply_gen recv_chain cfg s o).
Proof.
  intro HI. unfold apply_gen. destruct (step_gen recv_chain cfg s o) as [s'| |] eqn:E; try exact HI.
  eapply step_inv; eauto.
Qed.

Theorem run_inv h : forall s, Inv s -> Inv (run cfg s h).
Proof.
  unfold run, run_gen. induction h as [|o h IH]; intros s HI; cbn; [exact HI|]. apply IH. apply apply_inv. exact HI.
Qed.

End WithCfg.
