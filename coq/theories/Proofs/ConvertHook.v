(** C11 — the ICS-20 hook (x/aggregate/keeper/ibc_hook.go OnRecvPacket): it converts the received vouchers for the
    receiver by calling ConvertCoin on a cache branch; all or nothing. *)
From Teleport Require Import Base.Bytes Base.Outcome Model.Convert Proofs.ConvertBase Proofs.ConvertExact
  Proofs.ConvertTokensLemmas Proofs.ConvertBacking.
Local Open Scope Z_scope.

(** * Address -> hex string -> address *)
Lemma hex_fold_app l : forall acc c, hex_fold acc (l ++ [c]) = hex_fold acc l * 16 + hex_val c.
Proof. induction l as [|x l IH]; intros acc c; cbn [hex_fold app]; [reflexivity | apply IH]. Qed.

Lemma hex_val_digit k : 0 <= k < 16 -> hex_val (hex_digit k) = k.
Proof.
  intro H.
  assert (E : k = 0 \/ k = 1 \/ k = 2 \/ k = 3 \/ k = 4 \/ k = 5 \/ k = 6 \/ k = 7 \/ k = 8 \/ k = 9 \/ k = 10 \/
              k = 11 \/ k = 12 \/ k = 13 \/ k = 14 \/ k = 15) by lia.
  repeat (destruct E as [->|E]; [vm_compute; reflexivity|]). subst k. vm_compute. reflexivity.
Qed.

Lemma hex_fold_digits n : forall v, 0 <= v -> hex_fold 0 (hex_digits n v) = v mod 16 ^ Z.of_nat n.
Proof.
  induction n as [|n IH]; intros v P.
  - cbn [hex_digits hex_fold]. change (16 ^ Z.of_nat 0) with 1. rewrite Z.mod_1_r. reflexivity.
  - cbn [hex_digits]. rewrite hex_fold_app, IH by (apply Z.div_pos; lia).
    rewrite hex_val_digit by (apply Z.mod_pos_bound; lia).
    rewrite Nat2Z.inj_succ, Z.pow_succ_r by lia.
    rewrite (Z.rem_mul_r v 16 (16 ^ Z.of_nat n)) by (try apply Z.pow_pos_nonneg; lia). ring.
Qed.

Theorem hex_roundtrip a : 0 <= a < 2 ^ 160 -> hex_to_addr (hex_of_addr a) = a.
Proof.
  intro H. unfold hex_to_addr, hex_of_addr. cbn [strip0x]. rewrite hex_fold_digits by lia.
  change (16 ^ Z.of_nat 40) with (2 ^ 160). apply Z.mod_small. exact H.
Qed.

Section Hook.
  Variable X : Type.
  Variable xcall : X -> Z -> Z -> call -> X * cres.
  Variable xcontract : X -> Z -> bool.
  Variable MODULE : Z.
  Notation state := (state X).
  Implicit Types s : state.
  Notation hook_recv := (hook_recv xcall xcontract MODULE).

  (** the hook did not convert (returned early, ConvertCoin returned an error, or something panicked): nothing
      changed *)
  Theorem hook_failure_changes_nothing s r d a s' c : hook_recv s r d a = (s', c) -> c <> 0%nat -> s' = s.
  Proof. intros H N. apply (hook_recv_inv X) in H as [(-> & _)|(_ & ->)]; [contradiction | reflexivity]. Qed.

  (** the hook converted: the gates were open for the receiver ... *)
  Theorem hook_ok_gates s r d a s' :
    hook_recv s r d a = (s', 0%nat) -> 0 <= r < 2 ^ 160 ->
    s_params s = true /\ denom_registered s d = true /\
    exists p, cc_pair s (hook_msg r d a) = Ok p /\ p_enabled p = true /\ zmem r (s_blocked s) = false /\
      get_pair s (get_denom_map s d) = Some p.
  Proof.
    intros H R. apply (hook_recv_inv X) in H as [(_ & DR & _ & _ & H)|(N & _)]; [|contradiction].
    pose proof (handle_ok_gates X xcall xcontract MODULE s (MCC (hook_msg r d a)) s' H) as (P & p & PR & E & B & _ & G).
    cbn [hook_msg cc_receiver cc_denom] in B, G. rewrite hex_roundtrip in B by exact R.
    split; [exact P|]. split; [exact DR|]. exists p. repeat split; assumption.
  Qed.

  (** ... and exactly [a] moved: the receiver's own coins of [d] to the escrow (module-owned pair) or out of the
      supply (external pair), the tokens to the receiver's EVM address [r]; same statement as
      [convert_coin_ok_exact] with sender = receiver = [r] *)
  Theorem hook_exact s r d a s' p :
    hook_recv s r d a = (s', 0%nat) -> 0 <= r < 2 ^ 160 -> cc_pair s (hook_msg r d a) = Ok p ->
    let c := p_erc20 p in
    if is_contract xcontract s c then
      (p_owner p = 1 \/ p_owner p = 2) /\ 0 < a /\ a <= bget (s_bank s) r d /\
      bank_shift s s' (fun x y => ind ((x =? r) && bytes_eqb y d) (- a)
                                  + ind ((p_owner p =? 1) && (x =? MODULE) && bytes_eqb y d) a) /\
      supply_shift s s' (fun y => ind ((p_owner p =? 2) && bytes_eqb y d) (- a)) /\
      same_gates s s' /\ accts_plus s s' MODULE /\
      exists res,
        (if p_owner p =? 1
         then token_effect xcall MODULE (s_tokens s) (s_tokens s') c MODULE (CMint r a) r a res
         else token_effect2 xcall MODULE (s_tokens s) (s_tokens s') c MODULE (CTransfer r a) r a MODULE (- a) res) /\
        (p_owner p = 2 -> unpack_bool (cr_ret res) = Some true /\ approval_check (cr_logs res) = Ok tt)
    else s' = delete_pair s p.
  Proof.
    intros H R PR. apply (hook_recv_inv X) in H as [(_ & _ & _ & _ & H)|(N & _)]; [|contradiction].
    pose proof (convert_coin_ok_exact X xcall xcontract MODULE s (hook_msg r d a) s' p H PR) as E.
    cbv zeta in E. cbn [hook_msg cc_receiver cc_denom cc_amount cc_sender] in E.
    rewrite hex_roundtrip in E by exact R. exact E.
  Qed.
End Hook.
