(** Basic lemmas for the Ethereum client model (Model/Eth.v): equality tests, the small
    maps, the earliest consensus state, uint64 helpers. *)
From Teleport Require Import Base.Bytes Base.Outcome Model.Eth.
From Coq Require Import Lia ZArith NArith List.
Local Open Scope N_scope.

(** * Equality tests *)
Lemma beq_eq a b : beq a b = bytes_eqb a b.
Proof.
  revert b; induction a as [|x a IH]; intros [|y b]; cbn; try reflexivity;
    rewrite IH; destruct (Byte.eqb x y); reflexivity.
Qed.

Lemma beq_spec a b : reflect (a = b) (beq a b).
Proof. rewrite beq_eq. apply bytes_eqb_spec. Qed.

Lemma beq_refl a : beq a a = true.
Proof. destruct (beq_spec a a); congruence. Qed.

Lemma hkey_eqb_spec (a b : hkey) : reflect (a = b) (hkey_eqb a b).
Proof.
  destruct a as [a1 a2], b as [b1 b2]. unfold hkey_eqb; cbn [fst snd].
  destruct (N.eqb_spec a2 b2) as [->|N2].
  - destruct (beq_spec a1 b1) as [->|N1]; constructor; congruence.
  - constructor; congruence.
Qed.

Lemma ckey_eqb_spec (a b : ckey) : reflect (a = b) (ckey_eqb a b).
Proof.
  destruct a as [a1 a2], b as [b1 b2]. unfold ckey_eqb; cbn [fst snd].
  destruct (N.eqb_spec a2 b2) as [->|N2].
  - destruct (N.eqb_spec a1 b1) as [->|N1]; constructor; congruence.
  - constructor; congruence.
Qed.

(** * Maps *)
Section KMapLemmas.
  Context {K V : Type} (eqb : K -> K -> bool) (eqb_spec : forall a b, reflect (a = b) (eqb a b)).
  Notation get := (mget eqb).
  Notation set := (mset eqb).
  Notation del := (mdel eqb).

  Lemma eqb_refl' k : eqb k k = true.
  Proof. destruct (eqb_spec k k); congruence. Qed.

  Lemma mget_mset_same k (v : V) l : get k (set k v l) = Some v.
  Proof.
    induction l as [|[k' v'] l IH]; cbn.
    - rewrite eqb_refl'; reflexivity.
    - destruct (eqb k k') eqn:E; cbn.
      + rewrite eqb_refl'; reflexivity.
      + rewrite E; exact IH.
  Qed.

  Lemma mget_mset_other k k2 (v : V) l : k2 <> k -> get k2 (set k v l) = get k2 l.
  Proof.
    intro N. induction l as [|[k' v'] l IH]; cbn.
    - destruct (eqb_spec k2 k); [contradiction | reflexivity].
    - destruct (eqb_spec k k') as [<-|N2]; cbn.
      + destruct (eqb_spec k2 k); [contradiction | reflexivity].
      + destruct (eqb k2 k'); [reflexivity | exact IH].
  Qed.

  Lemma mget_mset k k2 (v : V) l : get k2 (set k v l) = if eqb k2 k then Some v else get k2 l.
  Proof.
    destruct (eqb_spec k2 k) as [->|N]; [apply mget_mset_same | apply mget_mset_other; exact N].
  Qed.

  Lemma mget_mdel_same k (l : list (K * V)) : get k (del k l) = None.
  Proof.
    induction l as [|[k' v'] l IH]; cbn; [reflexivity|].
    destruct (eqb k k') eqn:E; cbn; [exact IH | rewrite E; exact IH].
  Qed.

  Lemma mget_mdel_other k k2 (l : list (K * V)) : k2 <> k -> get k2 (del k l) = get k2 l.
  Proof.
    intro N. induction l as [|[k' v'] l IH]; cbn; [reflexivity|].
    destruct (eqb_spec k k') as [<-|N2]; cbn.
    - destruct (eqb_spec k2 k); [contradiction | exact IH].
    - destruct (eqb k2 k'); [reflexivity | exact IH].
  Qed.

  Lemma mget_mdel k k2 (l : list (K * V)) : get k2 (del k l) = if eqb k2 k then None else get k2 l.
  Proof.
    destruct (eqb_spec k2 k) as [->|N]; [apply mget_mdel_same | apply mget_mdel_other; exact N].
  Qed.

  Lemma mget_in k (v : V) l : get k l = Some v -> In (k, v) l.
  Proof.
    induction l as [|[k' v'] l IH]; cbn; [discriminate|].
    destruct (eqb_spec k k') as [->|N]; intro H.
    - inversion H; subst; left; reflexivity.
    - right; apply IH; exact H.
  Qed.

  Lemma mget_in_keys k (v : V) l : get k l = Some v -> In k (map fst l).
  Proof. intro H. apply mget_in in H. apply (in_map fst) in H. exact H. Qed.

  Lemma in_mget_nodup k (v : V) l : NoDup (map fst l) -> In (k, v) l -> get k l = Some v.
  Proof.
    induction l as [|[k' v'] l IH]; cbn; [contradiction|].
    intros ND [E|I].
    - inversion E; subst. rewrite eqb_refl'; reflexivity.
    - inversion ND as [|? ? NI ND']; subst.
      destruct (eqb_spec k k') as [->|N].
      + exfalso. apply NI. apply (in_map fst) in I. exact I.
      + apply IH; assumption.
  Qed.

  Lemma mset_keys_in k (v : V) l x : In x (map fst (set k v l)) -> x = k \/ In x (map fst l).
  Proof.
    induction l as [|[k' v'] l IH]; cbn.
    - intros [E|[]]; left; congruence.
    - destruct (eqb_spec k k') as [<-|N]; cbn.
      + intros [E|I]; [left; congruence | right; right; exact I].
      + intros [E|I]; [right; left; exact E|]. destruct (IH I) as [E|I2]; [left; exact E | right; right; exact I2].
  Qed.

  Lemma mset_nodup k (v : V) l : NoDup (map fst l) -> NoDup (map fst (set k v l)).
  Proof.
    induction l as [|[k' v'] l IH]; cbn; intro ND.
    - constructor; [intros [] | constructor].
    - inversion ND as [|? ? NI ND']; subst.
      destruct (eqb_spec k k') as [<-|N]; cbn.
      + constructor; assumption.
      + constructor; [|apply IH; exact ND'].
        intro I. apply mset_keys_in in I. destruct I as [E|I]; [congruence | contradiction].
  Qed.

  Lemma mdel_keys_in k (l : list (K * V)) x : In x (map fst (del k l)) -> In x (map fst l).
  Proof.
    induction l as [|[k' v'] l IH]; cbn; [tauto|].
    destruct (eqb k k'); cbn; intros H; [right; apply IH; exact H|].
    destruct H as [E|I]; [left; exact E | right; apply IH; exact I].
  Qed.

  Lemma mdel_nodup k (l : list (K * V)) : NoDup (map fst l) -> NoDup (map fst (del k l)).
  Proof.
    induction l as [|[k' v'] l IH]; cbn; intro ND; [constructor|].
    inversion ND as [|? ? NI ND']; subst.
    destruct (eqb k k'); cbn; [apply IH; exact ND'|].
    constructor; [|apply IH; exact ND'].
    intro I. apply NI. eapply mdel_keys_in; exact I.
  Qed.

  Lemma mset_length_ge k (v : V) l : (length l <= length (set k v l))%nat.
  Proof.
    induction l as [|[k' v'] l IH]; cbn; [lia|].
    destruct (eqb k k'); cbn; lia.
  Qed.

  (** setting a binding that is already there changes nothing *)
  Lemma mset_same_noop k (v : V) l : NoDup (map fst l) -> get k l = Some v -> set k v l = l.
  Proof.
    induction l as [|[k' v'] l IH]; cbn; [discriminate|].
    intros ND. inversion ND as [|? ? NI ND']; subst.
    destruct (eqb_spec k k') as [<-|N]; intro H.
    - inversion H; subst; reflexivity.
    - f_equal. apply IH; assumption.
  Qed.
End KMapLemmas.

(** instances *)
Definition iget_iset := @mget_mset hkey header hkey_eqb hkey_eqb_spec.
Definition iget_idel := @mget_mdel hkey header hkey_eqb hkey_eqb_spec.
Definition rget_rset := @mget_mset hkey hkey hkey_eqb hkey_eqb_spec.
Definition rget_rdel := @mget_mdel hkey hkey hkey_eqb hkey_eqb_spec.
Definition cget_cset := @mget_mset ckey cstate ckey_eqb ckey_eqb_spec.
Definition cget_cdel := @mget_mdel ckey cstate ckey_eqb ckey_eqb_spec.

Lemma hkey_eqb_refl k : hkey_eqb k k = true.
Proof. destruct (hkey_eqb_spec k k); congruence. Qed.
Lemma ckey_eqb_refl k : ckey_eqb k k = true.
Proof. destruct (ckey_eqb_spec k k); congruence. Qed.

(** * The earliest consensus state *)
Definition ckey_le (a b : ckey) : Prop := fst a < fst b \/ (fst a = fst b /\ snd a <= snd b).

Lemma ckey_ltb_spec a b : ckey_ltb a b = true <-> (fst a < fst b \/ (fst a = fst b /\ snd a < snd b)).
Proof.
  unfold ckey_ltb. rewrite orb_true_iff, andb_true_iff, !N.ltb_lt, N.eqb_eq. tauto.
Qed.

Lemma cfirst_in l e : cfirst l = Some e -> In e l.
Proof.
  revert e; induction l as [|x l IH]; cbn; [discriminate|].
  intros e. destruct (cfirst l) as [m|].
  - destruct (ckey_ltb (fst m) (fst x)); intro H; inversion H; subst; [right; apply IH; reflexivity | left; reflexivity].
  - intro H; inversion H; subst; left; reflexivity.
Qed.

Lemma cfirst_min l e : cfirst l = Some e -> forall x, In x l -> ckey_le (fst e) (fst x).
Proof.
  revert e; induction l as [|y l IH]; cbn; [discriminate|].
  intros e H x [->|I].
  - destruct (cfirst l) as [m|].
    + destruct (ckey_ltb (fst m) (fst x)) eqn:E; inversion H; subst.
      * apply ckey_ltb_spec in E. unfold ckey_le. destruct E as [E|[E1 E2]]; [left; exact E | right; split; [exact E1 | lia]].
      * unfold ckey_le. right; split; [reflexivity | lia].
    + inversion H; subst. right; split; [reflexivity | lia].
  - destruct (cfirst l) as [m|] eqn:Em.
    + specialize (IH m eq_refl x I).
      destruct (ckey_ltb (fst m) (fst y)) eqn:E; inversion H; subst; [exact IH|].
      (* e = y, y <= m *)
      assert (Hle : ckey_le (fst e) (fst m)).
      { unfold ckey_le. destruct (N.lt_trichotomy (fst (fst e)) (fst (fst m))) as [L|[Q|G]]; [left; exact L| |].
        - right; split; [exact Q|]. destruct (N.le_gt_cases (snd (fst e)) (snd (fst m))) as [L2|G2]; [exact L2|].
          exfalso. assert (X : ckey_ltb (fst m) (fst e) = true) by (apply ckey_ltb_spec; right; split; [congruence | lia]).
          congruence.
        - exfalso. assert (X : ckey_ltb (fst m) (fst e) = true) by (apply ckey_ltb_spec; left; lia). congruence. }
      unfold ckey_le in *. destruct Hle as [A|[A1 A2]], IH as [B|[B1 B2]]; [left; lia | left; lia | left; lia | right; split; [congruence | lia]].
    + destruct l; [contradiction | cbn in Em; destruct (cfirst l); [destruct (ckey_ltb _ _)|]; discriminate].
Qed.

Lemma cfirst_none l : cfirst l = None -> l = [].
Proof.
  destruct l as [|x l]; [reflexivity|]. cbn. destruct (cfirst l); [destruct (ckey_ltb _ _)|]; discriminate.
Qed.

(** * uint64 helpers *)
Lemma two63_lt_two64 : two63 < two64.
Proof. reflexivity. Qed.

Lemma sub64_pred n : 1 <= n -> n < two64 -> sub64 n 1 = n - 1.
Proof.
  intros H1 H2. unfold sub64. rewrite (N.mod_small n two64) by exact H2.
  rewrite (N.mod_small 1 two64) by reflexivity.
  replace (n + two64 - 1) with ((n - 1) + 1 * two64) by lia.
  rewrite N.mod_add by discriminate. apply N.mod_small. lia.
Qed.

Lemma sub64_zero : sub64 0 1 = two64 - 1.
Proof. reflexivity. Qed.

Lemma sub64_lt n : sub64 n 1 < two64.
Proof. unfold sub64. apply N.mod_lt. discriminate. Qed.

(** if [n - 1] (mod 2^64) is a small number then [n >= 1] and it is the predecessor *)
Lemma sub64_small n k : n < two64 -> sub64 n 1 = k -> k < two63 -> 1 <= n /\ k = n - 1.
Proof.
  intros Hn E Hk. destruct (N.eq_dec n 0) as [->|NZ].
  - rewrite sub64_zero in E. subst k. exfalso. revert Hk. unfold two64, two63. lia.
  - split; [lia|]. rewrite sub64_pred in E by lia. congruence.
Qed.

Lemma add64_succ n : n + 1 < two64 -> add64 n 1 = n + 1.
Proof. intro H. unfold add64. apply N.mod_small; exact H. Qed.

(** [common.BytesToHash] is the identity on 32 bytes *)
Lemma to_hash_32 b : length b = 32%nat -> to_hash b = b.
Proof.
  intro H. unfold to_hash, fit. rewrite H. cbn. reflexivity.
Qed.
