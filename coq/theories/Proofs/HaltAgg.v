(** Proofs for C15, aggregate proposal handlers: for every oracle (module state, bank state, EVM
    behaviour) a proposal accepted by ValidateBasic is executed without reaching a panic site, and
    every token pair it stores keeps the state invariant (at least one denomination). *)
From Teleport Require Import Base.Bytes Base.Outcome Model.Rvesting Model.Halt Model.HaltAgg Proofs.Halt.
Local Open Scope N_scope.

Lemma units_loop_nil_no_display base display first cur seen :
  units_loop base display first cur seen false [] = Some false.
Proof. reflexivity. Qed.

Lemma metadata_ok_units m : metadata_ok m = true -> md_units m <> [].
Proof.
  unfold metadata_ok. intros H E. rewrite E in H. cbn in H. rewrite !andb_false_r in H. discriminate.
Qed.

Lemma limits_ok_parse p l mx mn :
  limits_ok p l mx mn = true ->
  exists a b c d, parse_int p = Some a /\ parse_int l = Some b /\ parse_int mx = Some c /\ parse_int mn = Some d.
Proof.
  unfold limits_ok. destruct (parse_int p), (parse_int mn), (parse_int mx), (parse_int l); try discriminate. eauto 10.
Qed.

Lemma ok_if_safe b : osafe (fun _ => True) (ok_if b).
Proof. destruct b; exact I. Qed.

Lemma verify_metadata_safe e md : osafe (fun _ => True) (verify_metadata e md).
Proof.
  unfold verify_metadata. destruct (e_bank_meta e (md_base md)) as [st|]; [|exact I].
  destruct (e_meta_equal e); [|exact I].
  destruct (negb (lenN (md_units st) =? lenN (md_units md))); [exact I|]. destruct (md_units st); exact I.
Qed.

Lemma register_coin_checks_safe e md : osafe (fun _ => True) (register_coin_checks e md).
Proof.
  unfold register_coin_checks.
  repeat (eapply osafe_bind; [apply ok_if_safe|]; intros _ _). apply verify_metadata_safe.
Qed.

Lemma deploy_safe e md : md_units md <> [] -> osafe (fun _ => True) (deploy_erc20 e md).
Proof.
  intro H. unfold deploy_erc20. destruct (md_units md); [contradiction|].
  eapply osafe_bind; [apply ok_if_safe|]; intros _ _. apply ok_if_safe.
Qed.

Lemma set_token_pair_safe p : pair_wf p -> osafe pair_wf (set_token_pair p).
Proof. unfold set_token_pair, pair_id, pair_wf. intro H. destruct (p_denoms p) eqn:E; [contradiction|]. cbn. rewrite E. discriminate. Qed.

Lemma pair_id_safe p : pair_wf p -> osafe (fun _ => True) (pair_id p).
Proof. unfold pair_id, pair_wf. destruct (p_denoms p); [contradiction | intros _; exact I]. Qed.

Lemma validate_true (b : bool) : (if b then Ok tt else (Err : outcome unit)) = Ok tt -> b = true.
Proof. destruct b; [reflexivity | discriminate]. Qed.

Theorem handle_aprop_safe e p :
  aprop_validate p = Ok tt -> aenv_wf e -> osafe (Forall pair_wf) (handle_aprop e p).
Proof.
  intros Hv Hwf. destruct p; cbn in Hv; apply validate_true in Hv; cbn [handle_aprop].
  - (* RegisterCoin *)
    do 3 (apply andb_true_iff in Hv as [Hv _]). apply metadata_ok_units in Hv.
    eapply osafe_bind; [apply register_coin_checks_safe|]; intros _ _.
    eapply osafe_bind; [apply deploy_safe; exact Hv|]; intros _ _.
    eapply osafe_bind; [apply set_token_pair_safe; unfold pair_wf; cbn; discriminate|]. intros w Hw. cbn. auto.
  - (* AddCoin *)
    eapply osafe_bind; [apply ok_if_safe|]; intros _ _.
    eapply osafe_bind; [apply register_coin_checks_safe|]; intros _ _.
    destruct (e_pair_id e contract) as [id|]; [|exact I]. destruct (e_pair e id) as [pr|]; [|exact I].
    assert (Hpr : pair_wf {| p_erc20 := p_erc20 pr; p_denoms := p_denoms pr ++ [md_base md] |}).
    { unfold pair_wf; cbn. destruct (p_denoms pr); discriminate. }
    eapply osafe_bind; [apply pair_id_safe; exact Hpr|]; intros _ _.
    eapply osafe_bind; [apply ok_if_safe|]; intros _ _.
    eapply osafe_bind; [apply set_token_pair_safe; exact Hpr|]. intros w Hw.
    eapply osafe_bind; [apply pair_id_safe; exact Hpr|]; intros _ _. cbn. auto.
  - (* RegisterERC20 *)
    eapply osafe_bind; [apply ok_if_safe|]; intros _ _.
    eapply osafe_bind; [apply ok_if_safe|]; intros _ _.
    destruct (e_query_erc20 e addr) as [[[name symbol] decimals]|]; [|exact I].
    repeat (eapply osafe_bind; [apply ok_if_safe|]; intros _ _).
    eapply osafe_bind; [apply set_token_pair_safe; unfold pair_wf; cbn; discriminate|]. intros w Hw. cbn. auto.
  - (* ToggleTokenRelay *)
    destruct (e_pair_id e token) as [id|]; [|exact I]. destruct (e_pair e id) as [pr|] eqn:Ep; [|exact I].
    eapply osafe_bind; [apply set_token_pair_safe; eapply Hwf; exact Ep|]. intros w Hw. cbn. auto.
  - (* UpdateTokenPairERC20 *)
    destruct (e_pair_id e addr) as [id|]; [|exact I].
    eapply osafe_bind; [apply ok_if_safe|]; intros _ _.
    destruct (e_pair e id) as [pr|] eqn:Ep; [|exact I].
    pose proof (Hwf _ _ Ep) as Hpr. unfold pair_wf in Hpr.
    destruct (p_denoms pr) as [|d0 ds] eqn:Ed; [contradiction|].
    destruct (e_bank_meta e d0) as [stored|]; [|exact I].
    destruct (md_units stored); [exact I|].
    destruct (e_query_erc20 e new_addr); [|exact I].
    eapply osafe_bind; [apply ok_if_safe|]; intros _ _.
    eapply osafe_bind; [apply pair_id_safe; unfold pair_wf; rewrite Ed; discriminate|]; intros _ _.
    eapply osafe_bind; [apply set_token_pair_safe; unfold pair_wf; cbn; discriminate|]. intros w Hw. cbn. auto.
  - (* RegisterERC20Trace *)
    repeat (eapply osafe_bind; [apply ok_if_safe|]; intros _ _). cbn. auto.
  - (* EnableTimeBasedSupplyLimit *)
    apply andb_true_iff in Hv as [Hv _]. apply andb_true_iff in Hv as [_ Hv].
    apply limits_ok_parse in Hv as (a & b & c & d & -> & -> & -> & ->).
    repeat (eapply osafe_bind; [apply ok_if_safe|]; intros _ _). cbn. auto.
  - (* DisableTimeBasedSupplyLimit *)
    repeat (eapply osafe_bind; [apply ok_if_safe|]; intros _ _). cbn. auto.
Qed.

(** * The state invariant: established by a validated genesis, kept along every history *)

(** [aenv_after e e' ws]: the token pairs readable in [e'] are those readable in [e] or written ([ws]) by the
    step in between - the only thing assumed about how the module state evolves (every other oracle of [e']
    is arbitrary: bank, EVM, parameters may change in any way between two proposals). *)
Definition aenv_after (e e' : aenv) (ws : list pair) : Prop :=
  forall id p, e_pair e' id = Some p -> (exists id0, e_pair e id0 = Some p) \/ In p ws.

Lemma aenv_wf_after e e' ws : aenv_wf e -> Forall pair_wf ws -> aenv_after e e' ws -> aenv_wf e'.
Proof.
  intros Hwf Hws Ha id p Hp. destruct (Ha id p Hp) as [(id0 & H0)|Hin].
  - exact (Hwf _ _ H0).
  - rewrite Forall_forall in Hws. exact (Hws p Hin).
Qed.

(** A history: each proposal with the environment in force AFTER it was executed by gov.EndBlocker
    (written on success, discarded on error). *)
Fixpoint achain (e : aenv) (l : list (aprop * aenv)) : Prop :=
  match l with
  | [] => True
  | (p, e') :: t =>
      (forall ws, handle_aprop e p = Ok ws -> aenv_after e e' ws) /\
      (handle_aprop e p = Err -> aenv_after e e' []) /\ achain e' t
  end.

Fixpoint arun_no_panic (e : aenv) (l : list (aprop * aenv)) : Prop :=
  match l with
  | [] => True
  | (p, e') :: t => handle_aprop e p <> Panic /\ arun_no_panic e' t
  end.

Theorem aggregate_history_safe l : forall e,
  aenv_wf e -> (forall p e', In (p, e') l -> aprop_validate p = Ok tt) -> achain e l -> arun_no_panic e l.
Proof.
  induction l as [|[p e'] t IH]; cbn; intros e Hwf Hv Hc; [exact I|].
  destruct Hc as (Hok & Herr & Hc).
  pose proof (handle_aprop_safe e p (Hv p e' (or_introl eq_refl)) Hwf) as Hs.
  split; [eapply osafe_not_panic; exact Hs|].
  apply IH; [| intros q e'' Hq; eapply Hv; right; exact Hq | exact Hc].
  destruct (handle_aprop e p) as [ws| |] eqn:E; cbn in Hs.
  - eapply aenv_wf_after; [exact Hwf | exact Hs | apply Hok; reflexivity].
  - eapply aenv_wf_after; [exact Hwf | apply Forall_nil | apply Herr; reflexivity].
  - contradiction.
Qed.

(** InitGenesis of a validated aggregate genesis stores exactly the listed pairs: every environment whose
    readable pairs come from the list satisfies the invariant. *)
Lemma ga_validate_establishes_wf l e :
  ga_validate l = Ok tt ->
  (forall id p, e_pair e id = Some p -> exists q, In q l /\ p_denoms p = gp_denoms q) -> aenv_wf e.
Proof.
  intros Hv Hfrom id p Hp. destruct (Hfrom id p Hp) as (q & Hin & Hd).
  unfold pair_wf. rewrite Hd. exact (ga_validate_pairs_denoms _ _ _ Hv q Hin).
Qed.
