(** The store keys of Model/Tendermint.v ARE the key builders of the Go source:
    they equal the renderings of the format terms that tools/gotocoq/keys
    regenerates on every run (Gen/KeysGen.v) from
    x/xibc/core/host/keys.go (ConsensusStateKey, ClientStateKey) and
    x/xibc/clients/light-clients/tendermint/types/store.go (ProcessedTimeKey,
    IterationKey, bigEndianHeightBytes, the two key constants).  A change of a Go
    key builder — another prefix, little-endian heights, swapped revision and
    height, a dropped separator — changes the regenerated term and breaks these
    lemmas, hence Props/C07.v. *)
From Teleport Require Import Base.Bytes Base.Outcome Model.Tendermint.
From Teleport Require Base.Fmt Gen.KeysGen.
From Coq Require Import NArith List Lia.
Local Open Scope N_scope.

Lemma byte_of_N_fmt n : byte_of_N (n mod 256) = Fmt.byte_of_N n.
Proof. reflexivity. Qed.

Lemma be_bytes_fmt k : forall n, be_bytes k n = Fmt.be_bytes k n.
Proof.
  induction k as [|k IH]; intro n; [reflexivity|].
  unfold Fmt.be_bytes in *. cbn [be_bytes Fmt.le_bytes rev]. rewrite IH, byte_of_N_fmt. reflexivity.
Qed.

Definition height_args (h : height) : Fmt.args := [Fmt.VN (h_rev h); Fmt.VN (h_hgt h)].

Lemma height_bytes_gen h : Fmt.render KeysGen.tm_bigEndianHeightBytes (height_args h) = height_bytes h.
Proof.
  unfold KeysGen.tm_bigEndianHeightBytes, height_bytes, height_args, be64.
  cbn [Fmt.render Fmt.render_item Fmt.get_n nth_error]. rewrite !be_bytes_fmt, app_nil_r. reflexivity.
Qed.

Lemma cons_key_gen h : Fmt.render KeysGen.host_ConsensusStateKey (height_args h) = cons_key h.
Proof.
  unfold KeysGen.host_ConsensusStateKey, cons_key, height_bytes, height_args, be64.
  cbn [Fmt.render Fmt.render_item Fmt.get_n nth_error]. rewrite !be_bytes_fmt, app_nil_r. reflexivity.
Qed.

Lemma pt_key_gen h : Fmt.render KeysGen.tm_ProcessedTimeKey (height_args h) = pt_key h.
Proof.
  unfold KeysGen.tm_ProcessedTimeKey, pt_key, cons_key, height_bytes, height_args, be64.
  cbn [Fmt.render Fmt.render_item Fmt.get_n nth_error]. rewrite !be_bytes_fmt.
  cbn [app]. repeat rewrite <- app_assoc. reflexivity.
Qed.

Lemma iter_key_gen h : Fmt.render KeysGen.tm_IterationKey (height_args h) = iter_key h.
Proof.
  unfold KeysGen.tm_IterationKey, iter_key, height_bytes, height_args, be64.
  cbn [Fmt.render Fmt.render_item Fmt.get_n nth_error]. rewrite !be_bytes_fmt, app_nil_r. reflexivity.
Qed.

Lemma client_key_gen : Fmt.render KeysGen.host_ClientStateKey [] = client_key.
Proof. reflexivity. Qed.

Lemma key_constants_gen :
  KeysGen.tm_KeyIterateConsensusStatePrefix = iter_prefix /\
  KeysGen.tm_KeyProcessedTime = pt_suffix /\
  KeysGen.host_KeyClientState = client_key /\
  KeysGen.host_KeyConsensusStatePrefix ++ [Fmt.sep] = cons_prefix.
Proof. repeat split; reflexivity. Qed.
