(** C12: what the registry model takes as given, re-derived from the Go source on every run
    ([Gen/RegistryGen.v], written by tools/gotocoq/registry).  THIS file has the generic part only (it does not
    import the generated file, so it always compiles): interpreters of the regenerated terms, decidable side
    conditions and the lemmas "side condition => what the model needs".  The side conditions are evaluated on the
    regenerated terms in Props/C12Source*.v, one file per item, so an item the translator cannot determine (or
    that changed harmfully) fails ITS obligation only.

    - the string [TokenPair.GetID] hashes, as a normalised operand list (the translator follows delegation to
      helpers and byte-slice building by append, so only WHAT is hashed matters).  Generic lemma: a hash of
      text ++ sep ++ denom0  whose separator starts with a character no hex address contains is collision-free on
      hex-address texts whenever the hash itself is.  So the oracle hypothesis of the C12 theorems ([hid] injective
      on hex-address texts, never empty) is met by the REAL GetID as soon as sha256 is collision-free - and by
      nothing weaker: on arbitrary texts every such function collides ([source_getid_collides]).
    - [CreateDenom] / [CreateDenomDescription] as operand lists: equal to the model's [create_denom] / [create_descr];
    - the Owner constants;
    - who writes the registry, semantically: the translator computes, interprocedurally under x/aggregate, which raw
      writes (Set / Delete on a prefix store of one of the three prefixes, however the store is obtained) every
      exported function can reach.  [writers_ok]: every operation / primitive of the model reaches exactly the writes
      the model's function performs; nothing else reaches a raw write without passing through an operation; nobody
      outside x/aggregate calls a write primitive; nothing was left undetermined. *)
From Coq Require Import Lia.
From Teleport Require Import Base.Bytes Base.Outcome Base.AList Model.Registry.
Local Open Scope N_scope.

(** * GetID *)

(* characters a hex address can contain: hex digits and the x / X of the prefix *)
Definition addr_char (b : byte) : bool := is_hex_char b || Byte.eqb b "x"%byte || Byte.eqb b "X"%byte.

Lemma strip_0x_shape s :
  strip_0x s = s \/ exists a b, s = a :: b :: strip_0x s /\ addr_char a = true /\ addr_char b = true.
Proof.
  destruct s as [|a [|b r]]; [left; reflexivity | left; reflexivity|]. cbn [strip_0x].
  destruct (Byte.eqb a "0"%byte) eqn:Ea; cbn [andb]; [|left; reflexivity].
  destruct (Byte.eqb b "x"%byte) eqn:Ex; cbn [orb].
  - right. exists a, b. split; [reflexivity|]. apply Byte.byte_dec_bl in Ea. subst a. split; [reflexivity|].
    unfold addr_char. rewrite Ex. apply orb_true_iff. left. apply orb_true_r.
  - destruct (Byte.eqb b "X"%byte) eqn:EX; [|left; reflexivity].
    right. exists a, b. split; [reflexivity|]. apply Byte.byte_dec_bl in Ea. subst a. split; [reflexivity|].
    unfold addr_char. rewrite EX. apply orb_true_r.
Qed.

Lemma hex_address_chars t : is_hex_address t = true -> forallb addr_char t = true.
Proof.
  unfold is_hex_address. intro H. apply andb_true_iff in H as [_ H].
  assert (X : forallb addr_char (strip_0x t) = true).
  { rewrite forallb_forall in *. intros b Hb. unfold addr_char. rewrite (H _ Hb). reflexivity. }
  destruct (strip_0x_shape t) as [E|(a & b & E & Ha & Hb)]; [rewrite E in X; exact X|].
  rewrite E. cbn [forallb]. rewrite Ha, Hb. exact X.
Qed.

Lemma split_at_sep (c : byte) (t t' r r' : bytes) :
  forallb addr_char t = true -> forallb addr_char t' = true -> addr_char c = false ->
  t ++ c :: r = t' ++ c :: r' -> t = t' /\ r = r'.
Proof.
  intros Ht Ht' Hc. revert t' Ht'. induction t as [|a t IH]; intros [|a' t'] Ht' E; cbn in *.
  - inversion E. split; reflexivity.
  - inversion E; subst. apply andb_true_iff in Ht' as [X _]. congruence.
  - inversion E; subst. apply andb_true_iff in Ht as [X _]. congruence.
  - inversion E; subst. apply andb_true_iff in Ht as [_ Ht]. apply andb_true_iff in Ht' as [_ Ht'].
    destruct (IH Ht t' Ht' H1) as [-> ->]. split; reflexivity.
Qed.

(* the operand list of the hashed concatenation: 0 = the pair's ERC20Address, 1 = Denoms[0], 2 = a literal *)
Fixpoint eval_parts (ps : list (nat * bytes)) (t d : bytes) : option bytes :=
  match ps with
  | [] => Some []
  | (k, lit) :: r =>
      match eval_parts r t d with
      | None => None
      | Some rest =>
          match k with
          | 0%nat => Some (t ++ rest)
          | 1%nat => Some (d ++ rest)
          | 2%nat => Some (lit ++ rest)
          | _ => None
          end
      end
  end.

(* text, a separator that starts with a character no address contains, first denomination - nothing else *)
Definition getid_shape_ok (ps : list (nat * bytes)) : bool :=
  match ps with
  | [(0%nat, _); (2%nat, c :: _); (1%nat, _)] => negb (addr_char c)
  | _ => false
  end.

Definition hid_of_source (H : bytes -> bytes) (ps : list (nat * bytes)) (t d : bytes) : bytes :=
  match eval_parts ps t d with Some x => H x | None => [] end.

Section GetID.
  Variable H : bytes -> bytes.                                  (* tmhash.Sum = sha256 *)
  Hypothesis H_inj : forall x y, H x = H y -> x = y.           (* collision freedom, idealised *)
  Hypothesis H_len : forall x, length (H x) = 32%nat.

  Lemma source_getid_meets_oracles ps :
    getid_shape_ok ps = true ->
    (forall t d t' d', is_hex_address t = true -> is_hex_address t' = true ->
       hid_of_source H ps t d = hid_of_source H ps t' d' -> t = t' /\ d = d') /\
    (forall t d, hid_of_source H ps t d <> []).
  Proof.
    intro S. unfold getid_shape_ok in S.
    destruct ps as [|[[|k0] l0] ps]; try discriminate.
    destruct ps as [|[[|[|[|k1]]] [|c sep]] ps]; try discriminate.
    destruct ps as [|[[|[|k2]] l2] ps]; try discriminate. destruct ps; try discriminate.
    apply negb_true_iff in S. split.
    - intros t d t' d' Ht Ht' E. unfold hid_of_source in E. cbn in E. apply H_inj in E.
      rewrite !app_nil_r in E. change ((c :: sep) ++ d) with (c :: sep ++ d) in E. change ((c :: sep) ++ d') with (c :: sep ++ d') in E.
      destruct (split_at_sep c t t' _ _ (hex_address_chars _ Ht) (hex_address_chars _ Ht') S E) as [-> E2].
      split; [reflexivity|]. exact (app_inv_head _ _ _ E2).
    - intros t d E. unfold hid_of_source in E. cbn in E.
      match type of E with H ?x = [] => pose proof (H_len x) as L; rewrite E in L; discriminate L end.
  Qed.
End GetID.

(** on ARBITRARY texts every function of this shape collides, whatever the hash: the separator may occur in the text *)
Lemma source_getid_collides (H : bytes -> bytes) ps :
  getid_shape_ok ps = true ->
  exists t d t' d', t <> t' /\ hid_of_source H ps t d = hid_of_source H ps t' d'.
Proof.
  intro S. unfold getid_shape_ok in S.
  destruct ps as [|[[|k0] l0] ps]; try discriminate.
  destruct ps as [|[[|[|[|k1]]] [|c sep]] ps]; try discriminate.
  destruct ps as [|[[|[|k2]] l2] ps]; try discriminate. destruct ps; try discriminate.
  exists (B "a" ++ (c :: sep) ++ B "b"), (B "c"), (B "a"), (B "b" ++ (c :: sep) ++ B "c"). split.
  - intro E. apply (f_equal (@length byte)) in E. rewrite !app_length in E. cbn in E. lia.
  - unfold hid_of_source. cbn [eval_parts]. f_equal. repeat (rewrite <- app_assoc || rewrite <- app_comm_cons). reflexivity.
Qed.

(** * CreateDenom / CreateDenomDescription as operand lists: 2 = literal bytes, 4 = the function's parameter *)
Fixpoint fmt_parts_eval (ps : list (nat * bytes)) (param : bytes) : option bytes :=
  match ps with
  | [] => Some []
  | (k, l) :: r =>
      match fmt_parts_eval r param with
      | None => None
      | Some rest => match k with 2%nat => Some (l ++ rest) | 4%nat => Some (param ++ rest) | _ => None end
      end
  end.

Definition part_eqb (a b : nat * bytes) : bool := Nat.eqb (fst a) (fst b) && bytes_eqb (snd a) (snd b).

Fixpoint parts_eqb (a b : list (nat * bytes)) : bool :=
  match a, b with
  | [], [] => true
  | x :: a', y :: b' => part_eqb x y && parts_eqb a' b'
  | _, _ => false
  end.

Lemma parts_eqb_eq a : forall b, parts_eqb a b = true -> a = b.
Proof.
  induction a as [|[k l] a IH]; intros [|[k' l'] b] H; cbn in H; try discriminate; [reflexivity|].
  apply andb_true_iff in H as [H1 H2]. unfold part_eqb in H1. cbn in H1. apply andb_true_iff in H1 as [K L].
  apply Nat.eqb_eq in K. apply bytes_eqb_eq in L. subst. rewrite (IH _ H2). reflexivity.
Qed.

Definition create_denom_expected : list (nat * bytes) := [(2%nat, B "aggregate/"); (4%nat, [])].
Definition create_descr_expected : list (nat * bytes) := [(2%nat, B "Cosmos coin token representation of "); (4%nat, [])].

Lemma create_denom_of_parts ps text :
  parts_eqb ps create_denom_expected = true -> fmt_parts_eval ps text = Some (create_denom text).
Proof. intro H. apply parts_eqb_eq in H. subst ps. cbn [fmt_parts_eval create_denom_expected]. rewrite app_nil_r. reflexivity. Qed.

Lemma create_descr_of_parts ps text :
  parts_eqb ps create_descr_expected = true -> fmt_parts_eval ps text = Some (create_descr text).
Proof. intro H. apply parts_eqb_eq in H. subst ps. cbn [fmt_parts_eval create_descr_expected]. rewrite app_nil_r. reflexivity. Qed.

(** * Owner constants *)
Fixpoint lookup_name (n : bytes) (l : list (bytes * N)) : option N :=
  match l with [] => None | (k, v) :: r => if bytes_eqb n k then Some v else lookup_name n r end.

Definition owners_ok (l : list (bytes * N)) : bool :=
  match lookup_name (B "OWNER_MODULE") l, lookup_name (B "OWNER_EXTERNAL") l with
  | Some a, Some b => N.eqb a OWNER_MODULE && N.eqb b OWNER_EXTERNAL
  | _, _ => false
  end.

(** * Who can write the registry *)

(* raw writes: 10 / 11 = Set / Delete on prefix 0x01 (the model's [st_pairs]: aset / adel), 20 / 21 on 0x02
   ([st_erc20]), 30 / 31 on 0x03 ([st_denom]).  What each function of the model writes: *)
Definition model_ops : list bytes :=
  [ B "x/aggregate:InitGenesis"; B "x/aggregate/keeper:Keeper.AddCoin"; B "x/aggregate/keeper:Keeper.ConvertCoin";
    B "x/aggregate/keeper:Keeper.ConvertERC20"; B "x/aggregate/keeper:Keeper.RegisterCoin";
    B "x/aggregate/keeper:Keeper.RegisterERC20"; B "x/aggregate/keeper:Keeper.ToggleRelay";
    B "x/aggregate/keeper:Keeper.UpdateTokenPairERC20" ].

Definition model_primitives : list bytes :=
  [ B "x/aggregate/keeper:Keeper.DeleteTokenPair"; B "x/aggregate/keeper:Keeper.SetDenomMap";
    B "x/aggregate/keeper:Keeper.SetDenomsMap"; B "x/aggregate/keeper:Keeper.SetERC20Map";
    B "x/aggregate/keeper:Keeper.SetTokenPair" ].

Definition model_footprints : list (bytes * list nat) :=
  [ (B "x/aggregate:InitGenesis", [10; 20; 30]%nat);                           (* init_genesis: store_new_pair per pair *)
    (B "x/aggregate/keeper:Keeper.RegisterCoin", [10; 20; 30]%nat);            (* register_coin: store_new_pair *)
    (B "x/aggregate/keeper:Keeper.RegisterERC20", [10; 20; 30]%nat);           (* register_erc20: store_new_pair *)
    (B "x/aggregate/keeper:Keeper.AddCoin", [10; 30]%nat);                     (* add_coin: aset pairs, aset denom *)
    (B "x/aggregate/keeper:Keeper.ToggleRelay", [10]%nat);                     (* toggle: set_pair *)
    (B "x/aggregate/keeper:Keeper.UpdateTokenPairERC20", [10; 11; 20; 21; 30; 31]%nat);  (* update_pair: delete_pair, then all three *)
    (B "x/aggregate/keeper:Keeper.ConvertCoin", [11; 21; 31]%nat);             (* convert: delete_pair (clean-up) *)
    (B "x/aggregate/keeper:Keeper.ConvertERC20", [11; 21; 31]%nat);
    (B "x/aggregate/keeper:Keeper.DeleteTokenPair", [11; 21; 31]%nat);         (* delete_pair *)
    (B "x/aggregate/keeper:Keeper.SetTokenPair", [10]%nat);                    (* aset .. st_pairs *)
    (B "x/aggregate/keeper:Keeper.SetERC20Map", [20]%nat);                     (* aset .. st_erc20 *)
    (B "x/aggregate/keeper:Keeper.SetDenomMap", [30]%nat);                     (* aset .. st_denom *)
    (B "x/aggregate/keeper:Keeper.SetDenomsMap", [30]%nat) ].                  (* set_denoms *)

Fixpoint lookup_fp (n : bytes) (l : list (bytes * list nat)) : option (list nat) :=
  match l with [] => None | (k, v) :: r => if bytes_eqb n k then Some v else lookup_fp n r end.

Fixpoint nats_eqb (a b : list nat) : bool :=
  match a, b with
  | [], [] => true
  | x :: a', y :: b' => Nat.eqb x y && nats_eqb a' b'
  | _, _ => false
  end.

Fixpoint names_eqb (a b : list bytes) : bool :=
  match a, b with
  | [], [] => true
  | x :: a', y :: b' => bytes_eqb x y && names_eqb a' b'
  | _, _ => false
  end.

Definition is_nil {A} (l : list A) : bool := match l with [] => true | _ => false end.

(* every modelled function reaches exactly the writes the model's function performs *)
Definition footprints_ok (entries : list (bytes * list nat)) : bool :=
  forallb (fun m => match lookup_fp (fst m) entries with Some fp => nats_eqb fp (snd m) | None => false end) model_footprints.

Definition writers_ok (entries : list (bytes * list nat)) (unmodelled external undetermined ops prims : list bytes) : bool :=
  footprints_ok entries && is_nil unmodelled && is_nil external && is_nil undetermined &&
  names_eqb ops model_ops && names_eqb prims model_primitives.
