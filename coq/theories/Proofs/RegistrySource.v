(** C12: what the registry model takes as given, re-derived from the Go source on every run
    ([Gen/RegistryGen.v], written by tools/gotocoq/registry):

    - the string [TokenPair.GetID] hashes.  Generic lemma: a hash of  text ++ sep ++ denom0  whose separator starts
      with a character no hex address contains is collision-free on hex-address texts whenever the hash itself is;
      the decidable side condition [getid_shape_ok] is evaluated on the regenerated operand list.  So the oracle
      hypothesis of the C12 theorems ([hid] injective on hex-address texts, never empty) is met by the REAL GetID
      as soon as sha256 is collision-free - and by nothing weaker: for arbitrary texts "a|b","c" and "a","b|c"
      collide, which is why the theorems only assume injectivity on hex addresses.
    - [CreateDenom] / [CreateDenomDescription] are the model's [create_denom] / [create_descr];
    - the Owner constants are the model's;
    - every function of the repository that writes the registry is a function the model has, and the six write
      primitives write the prefix the model's three maps stand for. *)
From Teleport Require Import Base.Bytes Base.Outcome Base.AList Model.Registry Gen.RegistryGen.
Local Open Scope N_scope.

(** * GetID *)

(* characters a hex address can contain: hex digits and the x / X of the prefix *)
Definition addr_char (b : byte) : bool := is_hex_char b || Byte.eqb b "x"%byte || Byte.eqb b "X"%byte.

Lemma strip_0x_shape s :
  strip_0x s = s \/ exists a b, s = a :: b :: strip_0x s /\ addr_char a = true /\ addr_char b = true.
Proof.
  destruct s as [|a [|b r]]; [left; reflexivity | left; reflexivity|]. cbn [strip_0x].
  destruct (Byte.eqb a "0"%byte) eqn:Ea; cbn [andb]; [|left; reflexivity].
  destruct (Byte.eqb b "x"%byte) eqn:Ex; cbn [orb].
  - right. exists a, b. split; [reflexivity|]. apply Byte.byte_dec_bl in Ea. subst a. split; [reflexivity|].
    unfold addr_char. rewrite Ex. apply orb_true_iff. left. apply orb_true_r.
  - destruct (Byte.eqb b "X"%byte) eqn:EX; [|left; reflexivity].
    right. exists a, b. split; [reflexivity|]. apply Byte.byte_dec_bl in Ea. subst a. split; [reflexivity|].
    unfold addr_char. rewrite EX. apply orb_true_r.
Qed.

Lemma hex_address_chars t : is_hex_address t = true -> forallb addr_char t = true.
Proof.
  unfold is_hex_address. intro H. apply andb_true_iff in H as [_ H].
  assert (X : forallb addr_char (strip_0x t) = true).
  { rewrite forallb_forall in *. intros b Hb. unfold addr_char. rewrite (H _ Hb). reflexivity. }
  destruct (strip_0x_shape t) as [E|(a & b & E & Ha & Hb)]; [rewrite E in X; exact X|].
  rewrite E. cbn [forallb]. rewrite Ha, Hb. exact X.
Qed.

Lemma split_at_sep (c : byte) (t t' r r' : bytes) :
  forallb addr_char t = true -> forallb addr_char t' = true -> addr_char c = false ->
  t ++ c :: r = t' ++ c :: r' -> t = t' /\ r = r'.
Proof.
  intros Ht Ht' Hc. revert t' Ht'. induction t as [|a t IH]; intros [|a' t'] Ht' E; cbn in *.
  - inversion E. split; reflexivity.
  - inversion E; subst. apply andb_true_iff in Ht' as [X _]. congruence.
  - inversion E; subst. apply andb_true_iff in Ht as [X _]. congruence.
  - inversion E; subst. apply andb_true_iff in Ht as [_ Ht]. apply andb_true_iff in Ht' as [_ Ht'].
    destruct (IH Ht t' Ht' H1) as [-> ->]. split; reflexivity.
Qed.

(* the operand list of the hashed concatenation: 0 = the pair's ERC20Address, 1 = Denoms[0], 2 = a literal *)
Fixpoint eval_parts (ps : list (nat * bytes)) (t d : bytes) : option bytes :=
  match ps with
  | [] => Some []
  | (k, lit) :: r =>
      match eval_parts r t d with
      | None => None
      | Some rest =>
          match k with
          | 0%nat => Some (t ++ rest)
          | 1%nat => Some (d ++ rest)
          | 2%nat => Some (lit ++ rest)
          | _ => None
          end
      end
  end.

(* text, a separator that starts with a character no address contains, first denomination - nothing else *)
Definition getid_shape_ok (ps : list (nat * bytes)) : bool :=
  match ps with
  | [(0%nat, _); (2%nat, c :: _); (1%nat, _)] => negb (addr_char c)
  | _ => false
  end.

Definition hid_of_source (H : bytes -> bytes) (ps : list (nat * bytes)) (t d : bytes) : bytes :=
  match eval_parts ps t d with Some x => H x | None => [] end.

Section GetID.
  Variable H : bytes -> bytes.                                  (* tmhash.Sum = sha256 *)
  Hypothesis H_inj : forall x y, H x = H y -> x = y.           (* collision freedom, idealised *)
  Hypothesis H_len : forall x, length (H x) = 32%nat.

  Lemma source_getid_meets_oracles ps :
    getid_shape_ok ps = true ->
    (forall t d t' d', is_hex_address t = true -> is_hex_address t' = true ->
       hid_of_source H ps t d = hid_of_source H ps t' d' -> t = t' /\ d = d') /\
    (forall t d, hid_of_source H ps t d <> []).
  Proof.
    intro S. unfold getid_shape_ok in S.
    destruct ps as [|[[|k0] l0] ps]; try discriminate.
    destruct ps as [|[[|[|[|k1]]] [|c sep]] ps]; try discriminate.
    destruct ps as [|[[|[|k2]] l2] ps]; try discriminate. destruct ps; try discriminate.
    apply negb_true_iff in S. split.
    - intros t d t' d' Ht Ht' E. unfold hid_of_source in E. cbn in E. apply H_inj in E.
      rewrite !app_nil_r in E. change ((c :: sep) ++ d) with (c :: sep ++ d) in E. change ((c :: sep) ++ d') with (c :: sep ++ d') in E.
      destruct (split_at_sep c t t' _ _ (hex_address_chars _ Ht) (hex_address_chars _ Ht') S E) as [-> E2].
      split; [reflexivity|]. exact (app_inv_head _ _ _ E2).
    - intros t d E. unfold hid_of_source in E. cbn in E.
      match type of E with H ?x = [] => pose proof (H_len x) as L; rewrite E in L; discriminate L end.
  Qed.
End GetID.

(** the regenerated GetID has the shape; and it is the string the documentation of the model states *)
Lemma getid_source_shape : getid_shape_ok getid_parts = true.
Proof. vm_compute. reflexivity. Qed.

Lemma getid_source_is_text_bar_denom t d : eval_parts getid_parts t d = Some (t ++ B "|" ++ d ++ []).
Proof. reflexivity. Qed.

(** * CreateDenom / CreateDenomDescription *)

(* fmt.Sprintf with %s verbs only *)
Fixpoint fmt_s (f : bytes) (args : list bytes) : option bytes :=
  match f with
  | [] => match args with [] => Some [] | _ => None end
  | c :: r =>
      if Byte.eqb c "%"%byte then
        match r with
        | s :: r' =>
            if Byte.eqb s "s"%byte then
              match args with
              | a :: args' =>
                  match r' with
                  | [] => match args' with [] => Some a | _ => None end
                  | _ => match fmt_s r' args' with Some x => Some (a ++ x) | None => None end
                  end
              | [] => None
              end
            else None
        | [] => None
        end
      else match fmt_s r args with Some x => Some (c :: x) | None => None end
  end.

(* 3 = a constant's value, 4 = the function's parameter *)
Fixpoint resolve_args (as_ : list (nat * bytes)) (param : bytes) : option (list bytes) :=
  match as_ with
  | [] => Some []
  | (k, v) :: r =>
      match resolve_args r param with
      | None => None
      | Some rest => match k with 3%nat => Some (v :: rest) | 4%nat => Some (param :: rest) | _ => None end
      end
  end.

Definition sprintf_source (f : bytes) (as_ : list (nat * bytes)) (param : bytes) : option bytes :=
  match resolve_args as_ param with Some l => fmt_s f l | None => None end.

Lemma create_denom_source text : sprintf_source create_denom_fmt create_denom_args text = Some (create_denom text).
Proof. reflexivity. Qed.

Lemma create_descr_source text : sprintf_source create_descr_fmt create_descr_args text = Some (create_descr text).
Proof. reflexivity. Qed.

(** * Owner constants *)
Fixpoint lookup_name (n : bytes) (l : list (bytes * N)) : option N :=
  match l with [] => None | (k, v) :: r => if bytes_eqb n k then Some v else lookup_name n r end.

Lemma owner_source :
  lookup_name (B "OWNER_MODULE") owner_values = Some OWNER_MODULE /\
  lookup_name (B "OWNER_EXTERNAL") owner_values = Some OWNER_EXTERNAL.
Proof. vm_compute. split; reflexivity. Qed.

(** * Who writes the registry *)

(* the functions the model has (Model/Registry.v): its operations and the helpers they are made of *)
Definition modelled_writers : list bytes :=
  [ B "x/aggregate/genesis.go:InitGenesis";                          (* init_genesis *)
    B "x/aggregate/keeper/msg_server.go:Keeper.ConvertCoin";         (* convert: the self-destruct clean-up *)
    B "x/aggregate/keeper/msg_server.go:Keeper.ConvertERC20";
    B "x/aggregate/keeper/proposals.go:Keeper.RegisterCoin";         (* register_coin *)
    B "x/aggregate/keeper/proposals.go:Keeper.AddCoin";              (* add_coin *)
    B "x/aggregate/keeper/proposals.go:Keeper.RegisterERC20";        (* register_erc20 *)
    B "x/aggregate/keeper/proposals.go:Keeper.ToggleRelay";          (* toggle *)
    B "x/aggregate/keeper/proposals.go:Keeper.UpdateTokenPairERC20"; (* update_pair *)
    B "x/aggregate/keeper/token_pairs.go:Keeper.DeleteTokenPair";    (* delete_pair *)
    B "x/aggregate/keeper/token_pairs.go:Keeper.SetDenomsMap" ].     (* set_denoms *)

Definition writers_ok (ws : list (bytes * list bytes)) : bool :=
  forallb (fun w => existsb (bytes_eqb (fst w)) modelled_writers) ws &&
  (* and every modelled function is still there (a renamed function is a model that describes nothing) *)
  forallb (fun m => existsb (fun w => bytes_eqb (fst w) m) ws) modelled_writers.

(* raw access to the three prefixes: a function whose store handle is written to (Set / Delete) must be one of the
   six primitives, on the prefix the model's map of that name stands for; the handle must come from
   prefix.NewStore / KVStorePrefixIterator (anything else is outside what the translator understands) *)
Definition primitive_prefix : list (bytes * (bytes * bytes)) :=
  [ (B "x/aggregate/keeper/token_pairs.go:Keeper.SetTokenPair", (B "KeyPrefixTokenPair", B "Set"));             (* aset .. st_pairs *)
    (B "x/aggregate/keeper/token_pairs.go:Keeper.deleteTokenPair", (B "KeyPrefixTokenPair", B "Delete"));       (* adel .. st_pairs *)
    (B "x/aggregate/keeper/token_pairs.go:Keeper.SetERC20Map", (B "KeyPrefixTokenPairByERC20", B "Set"));       (* aset .. st_erc20 *)
    (B "x/aggregate/keeper/token_pairs.go:Keeper.deleteERC20Map", (B "KeyPrefixTokenPairByERC20", B "Delete")); (* adel .. st_erc20 *)
    (B "x/aggregate/keeper/token_pairs.go:Keeper.SetDenomMap", (B "KeyPrefixTokenPairByDenom", B "Set"));       (* aset .. st_denom *)
    (B "x/aggregate/keeper/token_pairs.go:Keeper.deleteDenomMap", (B "KeyPrefixTokenPairByDenom", B "Delete")) ].

Definition mem (x : bytes) (l : list bytes) : bool := existsb (bytes_eqb x) l.

Definition raw_entry_ok (e : bytes * list bytes) : bool :=
  let items := snd e in
  (mem (B "<-prefix.NewStore") items || mem (B "<-sdk.KVStorePrefixIterator") items) &&
  if mem (B "Set") items || mem (B "Delete") items then
    existsb (fun pp => bytes_eqb (fst pp) (fst e) &&
                       (* exactly this prefix, exactly this one write method *)
                       mem (fst (snd pp)) items && mem (snd (snd pp)) items &&
                       Nat.eqb (length (filter (fun i => is_prefix (B "KeyPrefixTokenPair") i) items)) 1 &&
                       negb (mem (if bytes_eqb (snd (snd pp)) (B "Set") then B "Delete" else B "Set") items))
            primitive_prefix
  else true.

Definition raw_ok (rs : list (bytes * list bytes)) : bool :=
  forallb raw_entry_ok rs &&
  forallb (fun pp => existsb (fun e => bytes_eqb (fst e) (fst pp)) rs) primitive_prefix.

Lemma writers_source : writers_ok registry_writers = true /\ raw_ok registry_raw_access = true.
Proof. vm_compute. split; reflexivity. Qed.
