(** C12: the stores stay strictly sorted (so raw iteration = the association list, no shadowed bindings), every
    registered denomination stays a valid bank denomination, and therefore the genesis that ExportGenesis produces
    from ANY reachable registry passes GenesisState.Validate (the chain can always restart from its own export). *)
From Teleport Require Import Base.Bytes Base.Outcome Base.AList Model.Registry Model.RegistryExport Model.RegistryCheck
  Proofs.RegistryMap Proofs.Registry.

(** * Strictly sorted association lists *)
Section Srt.
  Context {V : Type}.

  Fixpoint Srt (l : alist V) : Prop :=
    match l with
    | [] => True
    | (k, _) :: r => (forall k', In k' (map fst r) -> bytes_cmp k k' = Lt) /\ Srt r
    end.

  Lemma keys_aset k v (l : alist V) x : In x (map fst (aset k v l)) -> x = k \/ In x (map fst l).
  Proof.
    induction l as [|[k' v'] l IH]; cbn.
    - intros [<-|[]]; left; reflexivity.
    - destruct (bytes_cmp k k') eqn:E; cbn.
      + intros [<-|H]; [left; reflexivity | right; right; exact H].
      + intros [<-|[<-|H]]; [left; reflexivity | right; left; reflexivity | right; right; exact H].
      + intros [<-|H]; [right; left; reflexivity|]. destruct (IH H) as [->|H']; [left; reflexivity | right; right; exact H'].
  Qed.

  Lemma Srt_aset k v (l : alist V) : Srt l -> Srt (aset k v l).
  Proof.
    induction l as [|[k' v'] l IH]; cbn [aset]; intros S.
    - cbn. split; [intros ? [] | exact I].
    - destruct S as [B S]. destruct (bytes_cmp k k') eqn:E.
      + apply bytes_cmp_eq in E. subst k'. cbn. split; assumption.
      + cbn. split; [|split; assumption]. intros x [<-|H]; [exact E | exact (bytes_cmp_lt_trans _ _ _ E (B _ H))].
      + cbn [Srt]. split; [|apply IH; exact S]. intros x H. apply keys_aset in H as [->|H]; [|exact (B _ H)].
        rewrite (bytes_cmp_antisym k k'), E. reflexivity.
  Qed.

  Lemma keys_filter (f : bytes * V -> bool) (l : alist V) x : In x (map fst (filter f l)) -> In x (map fst l).
  Proof.
    induction l as [|kv l IH]; cbn; [tauto|]. destruct (f kv); cbn; [intros [H|H]; [left; exact H | right; exact (IH H)] | intro H; right; exact (IH H)].
  Qed.

  Lemma Srt_filter (f : bytes * V -> bool) (l : alist V) : Srt l -> Srt (filter f l).
  Proof.
    induction l as [|[k' v'] l IH]; cbn [filter]; [tauto|]. intros [B S]. destruct (f (k', v')); [|exact (IH S)].
    cbn [Srt]. split; [|exact (IH S)]. intros x H. apply B. exact (keys_filter _ _ _ H).
  Qed.

  Lemma Srt_adel k (l : alist V) : Srt l -> Srt (adel k l).
  Proof. apply Srt_filter. Qed.

  Lemma Srt_nodup (l : alist V) : Srt l -> NoDup (map fst l).
  Proof.
    induction l as [|[k v] l IH]; cbn; [constructor|]. intros [B S]. constructor; [|exact (IH S)].
    intro H. specialize (B _ H). assert (X : bytes_cmp k k = Eq) by (apply bytes_cmp_eq; reflexivity). congruence.
  Qed.

  Lemma Srt_in_aget (l : alist V) k v : Srt l -> In (k, v) l -> aget k l = Some v.
  Proof.
    induction l as [|[k' v'] l IH]; cbn [aget In Srt]; [intros _ []|]. intros [B S] [E|H].
    - inversion E; subst. rewrite bytes_eqb_refl. reflexivity.
    - destruct (bytes_eqb_spec k k') as [->|N]; [|apply IH; assumption]. exfalso.
      assert (X : In k' (map fst l)) by (apply in_map_iff; exists (k', v); split; [reflexivity | exact H]).
      specialize (B _ X). assert (Y : bytes_cmp k' k' = Eq) by (apply bytes_cmp_eq; reflexivity). congruence.
  Qed.

  Lemma aget_in (l : alist V) k v : aget k l = Some v -> In (k, v) l.
  Proof.
    induction l as [|[k' v'] l IH]; cbn; [discriminate|].
    destruct (bytes_eqb_spec k k') as [->|N]; [intro H; inversion H; left; reflexivity | intro H; right; exact (IH H)].
  Qed.

  (** the executable form used on the implementation's dumps *)
  Lemma sorted_b_Srt (l : alist V) : sorted_b l = true -> Srt l.
  Proof.
    induction l as [|[k v] l IH]; cbn [sorted_b Srt]; [tauto|]. destruct l as [|[k2 v2] r].
    - intros _. split; [intros ? [] | exact I].
    - intro H. apply andb_true_iff in H as [H1 H2]. specialize (IH H2). split; [|exact IH].
      assert (L : bytes_cmp k k2 = Lt) by (unfold bytes_ltb in H1; destruct (bytes_cmp k k2); [discriminate | reflexivity | discriminate]).
      intros x [<-|X]; [exact L|]. destruct IH as [B _]. exact (bytes_cmp_lt_trans _ _ _ L (B _ X)).
  Qed.
End Srt.

Lemma Srt_set_denoms ds : forall (m : alist bytes) id, Srt m -> Srt (set_denoms m ds id).
Proof. unfold set_denoms. induction ds as [|d ds IH]; intros m id S; cbn; [exact S | apply IH, Srt_aset, S]. Qed.

Lemma Srt_del_denoms ds : forall (m : alist bytes), Srt m -> Srt (del_denoms m ds).
Proof. unfold del_denoms. induction ds as [|d ds IH]; intros m S; cbn; [exact S | apply IH, Srt_adel, S]. Qed.

(** * The three prefixes stay sorted under every operation (any code variant) *)

Definition SortedS (s : state) : Prop := Srt (st_pairs s) /\ Srt (st_erc20 s) /\ Srt (st_denom s).

Ltac brk H :=
  repeat (match type of H with
          | context [match ?x with _ => _ end] => destruct x eqn:?; try discriminate H
          end).

Ltac srt :=
  unfold SortedS in *; cbn [st_pairs st_erc20 st_denom with_meta] in *;
  repeat match goal with H : _ /\ _ |- _ => destruct H end;
  repeat split;
  repeat first [assumption | apply Srt_aset | apply Srt_adel | apply Srt_set_denoms | apply Srt_del_denoms].

Section SortedStep.
  Variable hid : bytes -> bytes -> bytes.
  Variable canon : bytes -> bytes.
  Variable evm_denom : bytes.
  Variable v : variant.

  Lemma sorted_empty : SortedS empty_state.
  Proof. repeat split. Qed.

  Lemma coin_checks_sorted s md sup s1 : coin_checks evm_denom v s md sup = Ok s1 -> SortedS s -> SortedS s1.
  Proof. intros H S. unfold coin_checks in H. brk H; apply Ok_inj in H; subst s1; srt. Qed.

  Lemma store_new_pair_sorted s p s' : store_new_pair hid s p = Ok s' -> SortedS s -> SortedS s'.
  Proof. intros H S. unfold store_new_pair, obind in H. brk H. apply Ok_inj in H; subst s'; srt. Qed.

  Lemma delete_pair_sorted s p s' : delete_pair hid s p = Ok s' -> SortedS s -> SortedS s'.
  Proof. intros H S. unfold delete_pair, obind in H. brk H. apply Ok_inj in H; subst s'; srt. Qed.

  Lemma register_coin_sorted s md a sup s' : register_coin hid canon evm_denom v s md a sup = Ok s' -> SortedS s -> SortedS s'.
  Proof.
    intros H S. unfold register_coin, obind in H.
    destruct (coin_checks evm_denom v s md sup) as [s1| |] eqn:Ec; try discriminate.
    destruct (md_units md); [discriminate|].
    exact (store_new_pair_sorted _ _ _ H (coin_checks_sorted _ _ _ _ Ec S)).
  Qed.

  Lemma add_coin_sorted s md c sup s' : add_coin hid evm_denom v s md c sup = Ok s' -> SortedS s -> SortedS s'.
  Proof.
    intros H S. unfold add_coin, obind in H.
    destruct (negb (is_hex_address c)); [discriminate|].
    destruct (coin_checks evm_denom v s md sup) as [s1| |] eqn:Ec; try discriminate.
    pose proof (coin_checks_sorted _ _ _ _ Ec S) as S1.
    brk H. apply Ok_inj in H; subst s'; srt.
  Qed.

  Lemma register_erc20_sorted s t q s' : register_erc20 hid canon s t q = Ok s' -> SortedS s -> SortedS s'.
  Proof.
    intros H S. unfold register_erc20 in H.
    destruct (negb (st_enable s)); [discriminate|]. destruct (ahas (addr_of t) (st_erc20 s)); [discriminate|].
    destruct q as [q|]; [|discriminate].
    repeat match type of H with (if ?c then _ else _) = _ => destruct c; [discriminate|] end.
    apply (store_new_pair_sorted _ _ _ H). srt.
  Qed.

  Lemma toggle_sorted s t s' : toggle hid s t = Ok s' -> SortedS s -> SortedS s'.
  Proof. intros H S. unfold toggle, set_pair, obind in H. brk H. apply Ok_inj in H; subst s'; srt. Qed.

  Lemma update_pair_sorted s a b q s' : update_pair hid canon v s a b q = Ok s' -> SortedS s -> SortedS s'.
  Proof.
    intros H S. unfold update_pair in H.
    destruct (get0 (st_erc20 s) (addr_of a)); [discriminate|].
    destruct (v_update_guard v && ahas (addr_of b) (st_erc20 s)); [discriminate|].
    destruct (get_pair s _) as [p|]; [|discriminate].
    destruct (p_denoms p) as [|d0 ds] eqn:Eds; [discriminate|].
    destruct (aget d0 (st_meta s)) as [m|]; [|discriminate].
    destruct (md_units m); [discriminate|]. destruct q as [q|]; [|discriminate].
    repeat match type of H with (if ?c then _ else _) = _ => destruct c; [discriminate|] end.
    unfold obind in H.
    match type of H with context [delete_pair hid ?x p] => destruct (delete_pair hid x p) as [s1| |] eqn:Ed; try discriminate;
      assert (S1 : SortedS s1) by (apply (delete_pair_sorted _ _ _ Ed); srt) end.
    brk H; apply Ok_inj in H; subst s'; srt.
  Qed.

  Lemma convert_sorted s t d live s' cl : convert hid v s t d live = Ok (s', cl) -> SortedS s -> SortedS s'.
  Proof.
    intros H S. unfold convert, obind in H. destruct (minting_enabled v s t d) as [p| |]; try discriminate.
    - destruct (existsb (bytes_eqb (addr_of (p_text p))) live); [apply Ok_inj in H; inversion H; subst; exact S|].
      destruct (delete_pair hid s p) as [s1| |] eqn:Ed; try discriminate.
      apply Ok_inj in H; inversion H; subst. exact (delete_pair_sorted _ _ _ Ed S).
    - apply Ok_inj in H; inversion H; subst; exact S.
  Qed.

  Lemma init_genesis_sorted ps : forall s s', init_genesis hid s ps = Ok s' -> SortedS s -> SortedS s'.
  Proof.
    induction ps as [|p r IH]; intros s s' H S; cbn [init_genesis] in H; [apply Ok_inj in H; subst; exact S|].
    unfold obind in H. destruct (store_new_pair hid s p) as [s1| |] eqn:E1; try discriminate.
    exact (IH _ _ H (store_new_pair_sorted _ _ _ E1 S)).
  Qed.

  Lemma commit_sorted s r : SortedS s -> (forall s', r = Ok s' -> SortedS s') -> SortedS (fst (commit s r)).
  Proof. intros S H. destruct r; cbn; [apply H; reflexivity | exact S | exact S]. Qed.

  Lemma step_sorted s o : SortedS s -> SortedS (fst (step hid canon evm_denom v s o)).
  Proof.
    intro S. unfold step. destruct (validate_basic o); cbn [negb]; [|exact S].
    destruct o.
    - apply commit_sorted; [exact S|]. intros s' H. exact (register_coin_sorted _ _ _ _ _ H S).
    - apply commit_sorted; [exact S|]. intros s' H. exact (add_coin_sorted _ _ _ _ _ H S).
    - apply commit_sorted; [exact S|]. intros s' H. exact (register_erc20_sorted _ _ _ _ H S).
    - apply commit_sorted; [exact S|]. intros s' H. exact (toggle_sorted _ _ _ H S).
    - apply commit_sorted; [exact S|]. intros s' H. exact (update_pair_sorted _ _ _ _ _ H S).
    - destruct (convert hid v s denom denom live) as [[s' cl]| |] eqn:E; try exact S. exact (convert_sorted _ _ _ _ _ _ E S).
    - destruct (convert hid v s contract denom live) as [[s' cl]| |] eqn:E; try exact S. exact (convert_sorted _ _ _ _ _ _ E S).
    - srt.
    - assert (S0 : SortedS (set_metas s metas)) by (unfold set_metas; srt).
      destruct (validate_genesis v [] [] pairs) as [[]| |]; try exact S0.
      apply commit_sorted; [exact S0|]. intros s' H. exact (init_genesis_sorted _ _ _ H S0).
    - exact S.
  Qed.

  Lemma run_sorted os : forall s, SortedS s -> SortedS (run hid canon evm_denom v s os).
  Proof. induction os as [|o r IH]; intros s S; cbn; [exact S | apply IH, step_sorted, S]. Qed.
End SortedStep.

(** * Registered denominations are valid bank denominations; the export validates *)

Definition ValidDenoms (s : state) : Prop := forall d id, aget d (st_denom s) = Some id -> valid_denom d = true.

Lemma valid_denoms_b_spec s : valid_denoms_b s = true -> ValidDenoms s.
Proof.
  unfold valid_denoms_b. rewrite forallb_forall. intros H d id Hd. apply H. exact (aget_in_keys _ _ _ Hd).
Qed.

Section Valid.
  Variable hid : bytes -> bytes -> bytes.
  Variable canon : bytes -> bytes.
  Variable evm_denom : bytes.
  Hypothesis hid_inj : forall t d t' d', is_hex_address t = true -> is_hex_address t' = true -> hid t d = hid t' d' -> t = t' /\ d = d'.
  Hypothesis canon_hex : forall a, is_hex_address (canon a) = true.
  Hypothesis canon_addr : forall a, length a = 20%nat -> addr_of (canon a) = a.

  Notation step := (step hid canon evm_denom head).
  Notation run := (run hid canon evm_denom head).
  Notation Good := (Good hid).

  Lemma valid_empty : ValidDenoms empty_state.
  Proof. intros d id H. discriminate. Qed.

  Lemma coin_vb_base md : coin_vb md = true -> valid_denom (md_base md) = true.
  Proof. unfold coin_vb, metadata_validate. rewrite !andb_true_iff. tauto. Qed.

  Lemma coin_checks_denoms s md sup s1 : coin_checks evm_denom head s md sup = Ok s1 -> st_denom s1 = st_denom s /\ st_pairs s1 = st_pairs s /\ st_erc20 s1 = st_erc20 s.
  Proof. intro H. unfold coin_checks in H. brk H; apply Ok_inj in H; subst s1; repeat split. Qed.

  Lemma init_genesis_valid ps : forall s s' seenE seenD,
    validate_genesis head seenE seenD ps = Ok tt -> init_genesis hid s ps = Ok s' -> ValidDenoms s -> ValidDenoms s'.
  Proof.
    induction ps as [|p r IH]; intros s s' seenE seenD Hv H V; cbn [init_genesis] in H; [apply Ok_inj in H; subst; exact V|].
    cbn [validate_genesis head v_genesis_addr v_genesis_all] in Hv.
    destruct (existsb (bytes_eqb (addr_of (p_text p))) seenE); [discriminate|].
    destruct (p_denoms p) as [|d0 ds] eqn:Eds; [discriminate|]. rewrite <- Eds in Hv.
    destruct (check_denoms seenD (p_denoms p)) as [seen'|]; [|discriminate].
    destruct (pair_validate head p) eqn:Ev; [|discriminate].
    unfold obind in H. destruct (store_new_pair hid s p) as [s1| |] eqn:E1; try discriminate.
    refine (IH _ _ _ _ Hv H _).
    unfold store_new_pair, obind in E1. destruct (Registry.pair_id hid p) as [id| |]; try discriminate. apply Ok_inj in E1. subst s1.
    intros d i Hd. cbn [st_denom] in Hd. rewrite aget_set_denoms in Hd.
    destruct (existsb (bytes_eqb d) (p_denoms p)) eqn:X; [|exact (V _ _ Hd)].
    apply existsb_eqb_In in X. unfold pair_validate in Ev. apply andb_true_iff in Ev as [Ev _].
    rewrite forallb_forall in Ev. specialize (Ev _ X). apply andb_true_iff in Ev as [Ev _]. exact Ev.
  Qed.

  Lemma step_valid s o : Good s -> ValidDenoms s -> ValidDenoms (fst (step s o)).
  Proof.
    intros [C N] V. unfold Registry.step. destruct (validate_basic o) eqn:VB; cbn [negb]; [|exact V].
    destruct o.
    - (* RegisterCoin *)
      destruct (register_coin hid canon evm_denom head s md deploy has_supply) as [s'| |] eqn:H; cbn [commit fst]; try exact V.
      unfold register_coin, obind in H.
      destruct (coin_checks evm_denom head s md has_supply) as [s1| |] eqn:Ec; try discriminate.
      destruct (coin_checks_denoms _ _ _ _ Ec) as (ED & _).
      destruct (md_units md); [discriminate|].
      unfold store_new_pair in H. cbn [Registry.pair_id p_denoms p_text obind] in H. apply Ok_inj in H. subst s'.
      intros d i Hd. cbn [st_denom] in Hd. rewrite aget_set_denoms, ED in Hd. cbn [existsb] in Hd. rewrite orb_false_r in Hd.
      destruct (bytes_eqb_spec d (md_base md)) as [->|_]; [|exact (V _ _ Hd)].
      cbn [validate_basic] in VB. exact (coin_vb_base _ VB).
    - (* AddCoin *)
      destruct (add_coin hid evm_denom head s md contract has_supply) as [s'| |] eqn:H; cbn [commit fst]; try exact V.
      unfold add_coin, obind in H. destruct (negb (is_hex_address contract)); [discriminate|].
      destruct (coin_checks evm_denom head s md has_supply) as [s1| |] eqn:Ec; try discriminate.
      destruct (coin_checks_denoms _ _ _ _ Ec) as (ED & _).
      brk H. apply Ok_inj in H. subst s'.
      intros d i Hd. cbn [st_denom] in Hd. rewrite aget_aset, ED in Hd.
      destruct (bytes_eqb_spec d (md_base md)) as [->|_]; [|exact (V _ _ Hd)].
      cbn [validate_basic] in VB. apply andb_true_iff in VB as [VB _]. exact (coin_vb_base _ VB).
    - (* RegisterERC20 *)
      destruct (register_erc20 hid canon s text q) as [s'| |] eqn:H; cbn [commit fst]; try exact V.
      unfold register_erc20 in H.
      destruct (negb (st_enable s)); [discriminate|]. destruct (ahas (addr_of text) (st_erc20 s)); [discriminate|].
      destruct q as [q|]; [|discriminate].
      destruct (ahas (create_denom (canon (addr_of text))) (st_meta s)); [discriminate|].
      destruct (ahas (create_denom (canon (addr_of text))) (st_denom s)); [discriminate|].
      destruct (metadata_validate (erc20_metadata (canon (addr_of text)) q)) eqn:Em; cbn [negb] in H; [|discriminate].
      unfold store_new_pair in H. cbn [Registry.pair_id p_denoms p_text obind erc20_metadata md_name md_base] in H.
      apply Ok_inj in H. subst s'.
      intros d i Hd. cbn [st_denom with_meta] in Hd. rewrite aget_set_denoms in Hd. cbn [existsb] in Hd. rewrite orb_false_r in Hd.
      destruct (bytes_eqb_spec d (create_denom (canon (addr_of text)))) as [->|_]; [|exact (V _ _ Hd)].
      unfold metadata_validate in Em. rewrite !andb_true_iff in Em. cbn [erc20_metadata md_base] in Em. tauto.
    - (* Toggle *)
      destruct (toggle hid s token) as [s'| |] eqn:H; cbn [commit fst]; try exact V.
      unfold toggle, set_pair, obind in H. brk H. apply Ok_inj in H. subst s'. exact V.
    - (* Update *)
      destruct (update_pair hid canon head s old_text new_text q) as [s'| |] eqn:H; cbn [commit fst]; try exact V.
      unfold update_pair in H. cbn [head v_update_guard v_reindex_all andb] in H.
      destruct (get0 (st_erc20 s) (addr_of old_text)) as [|b r] eqn:Eid; [discriminate|].
      destruct (ahas (addr_of new_text) (st_erc20 s)); [discriminate|].
      destruct (get_pair s (b :: r)) as [x|] eqn:Ex; [|discriminate].
      apply get_pair_some in Ex as [Ex _].
      destruct (c_pair _ _ _ _ C _ _ Ex) as (_ & Ix & _ & HD).
      destruct (p_denoms x) as [|d0 ds] eqn:Eds; [discriminate|].
      destruct (aget d0 (st_meta s)) as [m|]; [|discriminate].
      destruct (md_units m); [discriminate|]. destruct q as [q|]; [|discriminate].
      match type of H with (if ?c then _ else _) = _ => destruct c; [discriminate|] end.
      match type of H with (if ?c then _ else _) = _ => destruct c; [discriminate|] end.
      unfold delete_pair in H. rewrite Ix in H. cbn [obind] in H.
      unfold Registry.pair_id in H. cbn [p_denoms p_text] in H. rewrite Eds in H. cbn [obind] in H.
      apply Ok_inj in H. subst s'.
      intros d i Hd. cbn [st_denom with_meta] in Hd. rewrite aget_set_denoms in Hd.
      destruct (existsb (bytes_eqb d) (d0 :: ds)) eqn:X.
      + apply existsb_eqb_In in X. exact (V _ _ (HD _ X)).
      + rewrite aget_del_denoms in Hd. try rewrite Eds in Hd. rewrite X in Hd. exact (V _ _ Hd).
    - (* ConvertCoin *)
      destruct (convert hid head s denom denom live) as [[s' cl]| |] eqn:E; cbn [fst]; try exact V.
      unfold convert, obind in E. destruct (minting_enabled head s denom denom) as [p| |]; try discriminate.
      + destruct (existsb (bytes_eqb (addr_of (p_text p))) live); [apply Ok_inj in E; inversion E; subst; exact V|].
        unfold delete_pair, obind in E. destruct (Registry.pair_id hid p); try discriminate. apply Ok_inj in E. inversion E; subst.
        intros d i Hd. cbn [st_denom] in Hd. rewrite aget_del_denoms in Hd.
        destruct (existsb (bytes_eqb d) (p_denoms p)); [discriminate | exact (V _ _ Hd)].
      + apply Ok_inj in E; inversion E; subst; exact V.
    - (* ConvertERC20 *)
      destruct (convert hid head s contract denom live) as [[s' cl]| |] eqn:E; cbn [fst]; try exact V.
      unfold convert, obind in E. destruct (minting_enabled head s contract denom) as [p| |]; try discriminate.
      + destruct (existsb (bytes_eqb (addr_of (p_text p))) live); [apply Ok_inj in E; inversion E; subst; exact V|].
        unfold delete_pair, obind in E. destruct (Registry.pair_id hid p); try discriminate. apply Ok_inj in E. inversion E; subst.
        intros d i Hd. cbn [st_denom] in Hd. rewrite aget_del_denoms in Hd.
        destruct (existsb (bytes_eqb d) (p_denoms p)); [discriminate | exact (V _ _ Hd)].
      + apply Ok_inj in E; inversion E; subst; exact V.
    - exact V.
    - (* Genesis *)
      assert (V0 : ValidDenoms (set_metas s metas)) by exact V.
      destruct (validate_genesis head [] [] pairs) as [[]| |] eqn:Ev; try exact V0.
      destruct (init_genesis hid (set_metas s metas) pairs) as [s'| |] eqn:H; cbn [commit fst]; try exact V0.
      exact (init_genesis_valid _ _ _ _ _ Ev H V0).
    - exact V.
  Qed.

  (** the three invariants together, over any admissible history *)
  Definition Wf (s : state) : Prop := Good s /\ SortedS s /\ ValidDenoms s.

  Lemma wf_empty : Wf empty_state.
  Proof. split; [apply good_empty | split; [apply sorted_empty | apply valid_empty]]. Qed.

  Lemma wf_step s o : Wf s -> admissible head s o -> Wf (fst (step s o)).
  Proof.
    intros (G & S & V) A. split; [apply step_good; assumption|]. split; [apply step_sorted; exact S | apply step_valid; assumption].
  Qed.

  Lemma wf_run os : forall s, Wf s -> admissible_run hid canon evm_denom head s os -> Wf (run s os).
  Proof.
    induction os as [|o r IH]; intros s W A; cbn; [exact W|]. destruct A as [A1 A2]. apply IH; [apply wf_step; assumption | exact A2].
  Qed.

  (** ** GenesisState.Validate accepts the export *)

  Definition gen_pair_ok (p : pair) : Prop :=
    p_denoms p <> [] /\ NoDup (p_denoms p) /\ pair_validate head p = true.

  Fixpoint GenOK (ps : list pair) : Prop :=
    match ps with
    | [] => True
    | p :: r => gen_pair_ok p /\
                (forall q, In q r -> addr_of (p_text p) <> addr_of (p_text q) /\
                                     forall d, In d (p_denoms p) -> ~ In d (p_denoms q)) /\
                GenOK r
    end.

  Lemma check_denoms_complete ds : forall seen,
    NoDup ds -> (forall d, In d ds -> ~ In d seen) ->
    exists seen', check_denoms seen ds = Some seen' /\ forall x, In x seen' <-> In x seen \/ In x ds.
  Proof.
    induction ds as [|d ds IH]; intros seen ND NI; cbn.
    - exists seen. split; [reflexivity|]. intro x. cbn. tauto.
    - inversion ND as [|? ? Hn ND']; subst.
      assert (E : existsb (bytes_eqb d) seen = false) by (apply existsb_eqb_nIn, NI; left; reflexivity). rewrite E.
      destruct (IH (d :: seen) ND') as (seen' & Hc & M).
      + intros x Hx [<-|Hs]; [exact (Hn Hx) | exact (NI _ (or_intror Hx) Hs)].
      + exists seen'. split; [exact Hc|]. intro x. rewrite M. cbn. tauto.
  Qed.

  Lemma validate_ok ps : forall seenE seenD,
    GenOK ps ->
    (forall p, In p ps -> ~ In (addr_of (p_text p)) seenE /\ forall d, In d (p_denoms p) -> ~ In d seenD) ->
    validate_genesis head seenE seenD ps = Ok tt.
  Proof.
    induction ps as [|p r IH]; intros seenE seenD G F; [reflexivity|].
    destruct G as ((Ne & ND & Pv) & Oth & G').
    cbn [validate_genesis head v_genesis_addr v_genesis_all].
    destruct (F p (or_introl eq_refl)) as [FE FD].
    assert (E1 : existsb (bytes_eqb (addr_of (p_text p))) seenE = false) by (apply existsb_eqb_nIn; exact FE). rewrite E1.
    destruct (p_denoms p) as [|d0 ds] eqn:Eds; [contradiction|].
    destruct (check_denoms_complete (d0 :: ds) seenD ND FD) as (seen' & Hc & M). rewrite Hc, Pv.
    apply IH; [exact G'|]. intros q Hq. destruct (F q (or_intror Hq)) as [QE QD]. destruct (Oth q Hq) as [OA OD]. split.
    - intros [X|X]; [exact (OA X) | exact (QE X)].
    - intros d Hd X. apply M in X as [X|X]; [exact (QD _ Hd X) | exact (OD _ X Hd)].
  Qed.

  Lemma genok_of_registry s : Wf s -> forall l, incl l (st_pairs s) -> NoDup (map fst l) -> GenOK (map snd l).
  Proof.
    intros ((C & N) & (SP & _ & _) & V). induction l as [|[id p] l IH]; intros Inc ND; cbn [map snd GenOK]; [exact I|].
    inversion ND as [|? ? Hn ND']; subst.
    assert (Hp : aget id (st_pairs s) = Some p) by (apply Srt_in_aget; [exact SP | apply Inc; left; reflexivity]).
    destruct (c_pair _ _ _ _ C _ _ Hp) as ((W1 & W2 & W3) & _ & _ & HD).
    split; [|split].
    - split; [exact W1|]. split; [exact W2|]. unfold pair_validate. rewrite W3, andb_true_r. apply forallb_forall. intros d Hd.
      rewrite (V _ _ (HD _ Hd)), (N _ _ (HD _ Hd)). reflexivity.
    - intros q Hq. apply in_map_iff in Hq as ([id2 q'] & <- & Hq). cbn [snd].
      assert (Hq' : aget id2 (st_pairs s) = Some q') by (apply Srt_in_aget; [exact SP | apply Inc; right; exact Hq]).
      assert (Nid : id <> id2).
      { intros ->. apply Hn. apply in_map_iff. exists (id2, q'). split; [reflexivity | exact Hq]. }
      split.
      + intro X. apply Nid. exact (no_address_in_two_pairs _ _ _ _ _ _ _ _ C Hp Hq' X).
      + intros d Hd Hd'. apply Nid. exact (no_denom_in_two_pairs _ _ _ _ _ _ _ _ _ C Hp Hq' Hd Hd').
    - apply IH; [intros x Hx; apply Inc; right; exact Hx | exact ND'].
  Qed.

  (** ExportGenesis of a well-formed registry passes GenesisState.Validate *)
  Lemma export_validates_wf s : Wf s -> export_validates head s = true.
  Proof.
    intro W. unfold export_validates, get_all_token_pairs.
    rewrite (validate_ok (map snd (st_pairs s)) [] []); [reflexivity | | intros p _; split; [intros [] | intros d _ []]].
    apply (genok_of_registry s W); [apply incl_refl|]. destruct W as (_ & (SP & _) & _). exact (Srt_nodup _ SP).
  Qed.

  (** ... and importing it into an empty registry gives a good registry again (with [genesis_consistent]) *)
  Lemma export_reimports s : Wf s ->
    exists s', init_genesis hid empty_state (get_all_token_pairs s) = Ok s' /\ Good s'.
  Proof.
    intro W. pose proof (export_validates_wf s W) as E. unfold export_validates in E.
    destruct (validate_genesis head [] [] (get_all_token_pairs s)) as [[]| |] eqn:Ev; try discriminate.
    exact (genesis_consistent hid hid_inj _ Ev).
  Qed.
End Valid.
