(** The xibc part of the genesis round trip (C13): for EVERY well-formed xibc
    store [s], [export_xibc s] returns a genesis [g] and [import_xibc g]
    rebuilds [s] key by key — all client types, all byte patterns of heights and
    revision numbers, any packet traffic, any relayers. *)
From Teleport Require Import Base.Bytes Base.Outcome Base.AList Base.Fmt Gen.KeysGen Model.Keys Model.Genesis.
From Teleport Require Import Proofs.Keys Proofs.KeysParse Proofs.GenesisStore Proofs.GenesisKeys.
Local Open Scope N_scope.

Lemma in_prefix_iter p (s : store) kv : In kv (prefix_iter p s) <-> In kv s /\ is_prefix p (fst kv) = true.
Proof. unfold prefix_iter. apply filter_In. Qed.

Lemma in_sub_store p (s : store) q v : In (q, v) (sub_store p s) <-> In (p ++ q, v) s.
Proof.
  unfold sub_store. rewrite in_flat_map. split.
  - intros [[k v'] [H I]]. cbn in I. destruct (strip p k) as [r|] eqn:S; [|destruct I].
    destruct I as [I|[]]. inversion I; subst. apply strip_some in S. subst k. exact H.
  - intro H. exists (p ++ q, v). split; [exact H|]. cbn. rewrite strip_app. left; reflexivity.
Qed.

Lemma is_prefix_nonempty p k : p <> [] -> is_prefix p k = true -> k <> [].
Proof. intros NE H E. subst k. destruct p; [congruence | discriminate]. Qed.

Lemma sort_by_name_in1 {X} (y : bytes * X) l : In y (sort_by_name l) -> In y l.
Proof. apply sort_by_name_in. Qed.
Lemma sort_by_name_in2 {X} (y : bytes * X) l : In y l -> In y (sort_by_name l).
Proof. apply sort_by_name_in. Qed.

Ltac prefixes_false_in W :=
  repeat match type of W with
  | context [is_prefix ?q ?k] =>
      match goal with
      | H : is_prefix ?p k = true |- _ =>
          lazymatch q with
          | p => fail
          | _ => rewrite (prefix_exclusive p q k eq_refl H) in W
          end
      end
  end.

Ltac in_prefixes := unfold xibc_prefixes; cbn [In]; repeat (first [left; reflexivity | right]).

Section Xibc.
  Variables CS CONS : Type.
  Variable cs_unmarshal : bytes -> option CS.
  Variable cs_marshal : CS -> bytes.
  Variable cs_type : CS -> ctype.
  Variable cons_unmarshal : bytes -> option CONS.
  Variable cons_marshal : CONS -> bytes.
  Variable rel_unmarshal : bytes -> option relayer.
  Variable rel_marshal : relayer -> bytes.

  Notation wf_xibc := (wf_xibc CS CONS cs_unmarshal cs_marshal cs_type cons_unmarshal cons_marshal rel_unmarshal rel_marshal).
  Notation wf_xibc_entry := (wf_xibc_entry CS CONS cs_unmarshal cs_marshal cs_type cons_unmarshal cons_marshal rel_unmarshal rel_marshal).
  Notation wf_client_entry := (wf_client_entry CS CONS cs_unmarshal cs_marshal cs_type cons_unmarshal cons_marshal).
  Notation client_type_of := (client_type_of CS cs_unmarshal cs_type).
  Notation export_xibc := (export_xibc CS CONS cs_unmarshal cs_type cons_unmarshal rel_unmarshal).
  Notation import_xibc := (import_xibc CS CONS cs_marshal cons_marshal rel_marshal).
  Notation client_writes := (client_writes CS CONS cs_marshal cons_marshal rel_marshal).

  (** ** What [export_metadata] returns *)
  Lemma in_export_metadata t (cs : store) kv :
    In kv (export_metadata t cs) <-> In kv cs /\ metadata_path t (fst kv) = true.
  Proof.
    destruct t; cbn [export_metadata metadata_path].
    - rewrite in_app_iff, filter_In, !in_prefix_iter, orb_true_iff, andb_true_iff. tauto.
    - rewrite in_app_iff, !in_prefix_iter, orb_true_iff. tauto.
    - rewrite in_app_iff, !in_prefix_iter, orb_true_iff. tauto.
    - split; [intros [] | intros [_ H]; discriminate].
  Qed.

  (** ** The pure lists behind the four collecting iterators *)
  Definition clients_of (s : store) : list (bytes * CS) :=
    flat_map (fun kv => match (match iter_clients (fst kv) with
                               | Skip => None
                               | Got name => match cs_unmarshal (snd kv) with Some c => Some (name, c) | None => None end
                               end) with Some b => [b] | None => [] end)
             (prefix_iter host_KeyClientStorePrefix s).

  Definition consensus_of (s : store) : list (bytes * (height * CONS)) :=
    flat_map (fun kv => match (match iter_consensus_states (fst kv) with
                               | Skip => None
                               | Got (name, h) => match cons_unmarshal (snd kv) with Some c => Some (name, (h, c)) | None => None end
                               end) with Some b => [b] | None => [] end)
             (prefix_iter host_KeyClientStorePrefix s).

  Definition relayers_of (s : store) : list relayer :=
    flat_map (fun kv => match rel_unmarshal (snd kv) with Some b => [b] | None => [] end) (prefix_iter clienttypes_KeyRelayers s).

  Definition packets_of (p : bytes) (s : store) : list packet_state :=
    flat_map (fun kv => match (match iterate_hashes_parse (fst kv) with
                               | Ok t => Some {| ps_src := t_src t; ps_dst := t_dst t; ps_seq := t_seq t; ps_data := snd kv |}
                               | _ => None end) with Some b => [b] | None => [] end) (prefix_iter p s).

  (** ** Facts a well-formed store provides, per family *)
  Section WithStore.
    Variable s : store.
    Hypothesis WF : wf_xibc s = true.

    Lemma wf_sorted : sorted s = true.
    Proof. unfold Genesis.wf_xibc in WF. apply andb_true_iff in WF as [W _]. apply andb_true_iff in W as [W _]. exact W. Qed.

    Lemma wf_entry kv : In kv s -> wf_xibc_entry s kv = true.
    Proof.
      unfold Genesis.wf_xibc in WF. apply andb_true_iff in WF as [W _]. apply andb_true_iff in W as [_ W].
      rewrite forallb_forall in W. apply W.
    Qed.

    Lemma wf_chain_name : exists v, In (chain_name_key, v) s.
    Proof.
      unfold Genesis.wf_xibc in WF. apply andb_true_iff in WF as [_ W]. unfold ahas in W.
      destruct (aget chain_name_key s) as [v|] eqn:G; [|discriminate]. exists v. apply aget_some_in. exact G.
    Qed.

    (** dispatch: an entry under one of the six prefixes takes that prefix's branch *)
    Lemma wf_clients k v : In (k, v) s -> is_prefix host_KeyClientStorePrefix k = true -> wf_client_entry s k v = true.
    Proof. intros I P. pose proof (wf_entry _ I) as W. unfold Genesis.wf_xibc_entry in W; cbv beta iota in W. rewrite P in W. exact W. Qed.

    Lemma wf_relayers k v : In (k, v) s -> is_prefix clienttypes_KeyRelayers k = true ->
      exists r, rel_unmarshal v = Some r /\ k = relayer_key (r_address r) /\ rel_marshal r = v.
    Proof.
      intros I P. pose proof (wf_entry _ I) as W. unfold Genesis.wf_xibc_entry in W; cbv beta iota in W.
      rewrite (not_chain_name clienttypes_KeyRelayers k ltac:(in_prefixes) P) in W.
      prefixes_false_in W. rewrite P in W.
      destruct (rel_unmarshal v) as [r|]; [|discriminate]. apply andb_true_iff in W as [W W3]. apply andb_true_iff in W as [W1 W2].
      apply bytes_eqb_eq in W1, W2. exists r. auto.
    Qed.

    Lemma wf_relayers_address k v r :
      In (k, v) s -> is_prefix clienttypes_KeyRelayers k = true -> rel_unmarshal v = Some r -> r_address r <> [].
    Proof.
      intros I P U. pose proof (wf_entry _ I) as W. unfold Genesis.wf_xibc_entry in W; cbv beta iota in W.
      rewrite (not_chain_name clienttypes_KeyRelayers k ltac:(in_prefixes) P) in W.
      prefixes_false_in W. rewrite P, U in W. apply andb_true_iff in W as [_ W3].
      intro E. rewrite E in W3. discriminate.
    Qed.

    Lemma wf_hashes k v : In (k, v) s ->
      (is_prefix host_KeyPacketAckPrefix k = true -> wf_packet_key packet_ack_key k = true) /\
      (is_prefix host_KeyPacketCommitmentPrefix k = true -> wf_packet_key packet_commitment_key k = true) /\
      (is_prefix host_KeyPacketReceiptPrefix k = true -> wf_packet_key packet_receipt_key k = true /\ v = [x01]) /\
      (is_prefix host_KeyNextSeqSendPrefix k = true ->
         exists a b, parse_path k = Ok (a, b) /\ k = next_seq_send_key a b /\ length v = 8%nat).
    Proof.
      intro I. pose proof (wf_entry _ I) as W. unfold Genesis.wf_xibc_entry in W; cbv beta iota in W. refine (conj _ (conj _ (conj _ _))); intro P.
      - rewrite (not_chain_name host_KeyPacketAckPrefix k ltac:(in_prefixes) P) in W.
        prefixes_false_in W. rewrite P in W. exact W.
      - rewrite (not_chain_name host_KeyPacketCommitmentPrefix k ltac:(in_prefixes) P) in W.
        prefixes_false_in W. rewrite P in W. exact W.
      - rewrite (not_chain_name host_KeyPacketReceiptPrefix k ltac:(in_prefixes) P) in W.
        prefixes_false_in W. rewrite P in W. apply andb_true_iff in W as [W1 W2]. apply bytes_eqb_eq in W2. auto.
      - rewrite (not_chain_name host_KeyNextSeqSendPrefix k ltac:(in_prefixes) P) in W.
        prefixes_false_in W. rewrite P in W.
        destruct (parse_path k) as [[a b]| |]; try discriminate. apply andb_true_iff in W as [W1 W2].
        apply bytes_eqb_eq in W1. apply Nat.eqb_eq in W2. exists a, b. auto.
    Qed.

    (** every entry belongs to one of the families *)
    Lemma wf_family k v : In (k, v) s ->
      is_prefix host_KeyClientStorePrefix k = true \/ k = chain_name_key \/ is_prefix clienttypes_KeyRelayers k = true \/
      is_prefix host_KeyPacketAckPrefix k = true \/ is_prefix host_KeyPacketCommitmentPrefix k = true \/
      is_prefix host_KeyPacketReceiptPrefix k = true \/ is_prefix host_KeyNextSeqSendPrefix k = true.
    Proof.
      intro I. pose proof (wf_entry _ I) as W. unfold Genesis.wf_xibc_entry in W; cbv beta iota in W.
      destruct (is_prefix host_KeyClientStorePrefix k); [tauto|].
      destruct (bytes_eqb_spec k chain_name_key); [tauto|].
      destruct (is_prefix clienttypes_KeyRelayers k); [tauto|].
      destruct (is_prefix host_KeyPacketAckPrefix k); [tauto|].
      destruct (is_prefix host_KeyPacketCommitmentPrefix k); [tauto|].
      destruct (is_prefix host_KeyPacketReceiptPrefix k); [tauto|].
      destruct (is_prefix host_KeyNextSeqSendPrefix k); [tauto|]. discriminate.
    Qed.

    (** *** client states *)
    Lemma in_clients_of name c :
      In (name, c) (clients_of s) <->
      exists v, In (full_client_state_key name, v) s /\ cs_unmarshal v = Some c /\ no_sep name = true.
    Proof.
      unfold clients_of. rewrite in_flat_map. split.
      - intros [[k v] [I H]]. apply in_prefix_iter in I as [I P]. cbn [fst snd] in *.
        destruct (iter_clients k) as [|n] eqn:E; [destruct H|].
        destruct (cs_unmarshal v) as [c'|] eqn:U; [|destruct H]. destruct H as [H|[]]. inversion H; subst.
        apply iter_clients_exact in E as [-> N]. exists v. auto.
      - intros [v [I [U N]]]. exists (full_client_state_key name, v). split.
        + apply in_prefix_iter. split; [exact I|]. cbn [fst]. rewrite full_client_state_key_split. apply is_prefix_client_store.
        + cbn [fst snd]. rewrite full_client_state_key_split, (iter_clients_on_client_key _ _ N), bytes_eqb_refl, U.
          left; reflexivity.
    Qed.

    Lemma client_value_canonical name v :
      In (full_client_state_key name, v) s -> no_sep name = true ->
      exists c, cs_unmarshal v = Some c /\ cs_marshal c = v.
    Proof.
      intros I N. pose proof (wf_clients _ _ I) as W. rewrite full_client_state_key_split in W.
      specialize (W (is_prefix_client_store _ _)). unfold Genesis.wf_client_entry in W.
      rewrite (parse_client_key_prefix _ _ N), bytes_eqb_refl in W. unfold canonical_cs in W.
      destruct (cs_unmarshal v) as [c|]; [|discriminate]. apply bytes_eqb_eq in W. exists c. auto.
    Qed.

    Lemma client_type_of_spec name t :
      no_sep name = true ->
      (client_type_of name s = Some t <-> exists c, In (name, c) (clients_of s) /\ cs_type c = t).
    Proof.
      intro N. unfold Genesis.client_type_of. split.
      - destruct (aget (full_client_state_key name) s) as [v|] eqn:G; [|discriminate].
        destruct (cs_unmarshal v) as [c|] eqn:U; [|discriminate]. intros [= <-].
        exists c. split; [|reflexivity]. apply in_clients_of. exists v. split; [apply aget_some_in; exact G | auto].
      - intros [c [I <-]]. apply in_clients_of in I as [v [I [U _]]].
        rewrite (aget_in_sorted _ _ _ wf_sorted I), U. reflexivity.
    Qed.

    (** *** consensus states *)
    Lemma in_consensus_of name h c :
      In (name, (h, c)) (consensus_of s) <->
      exists v, In (full_consensus_state_key name h, v) s /\ cons_unmarshal v = Some c /\ no_sep name = true /\ valid_height h = true.
    Proof.
      unfold consensus_of. rewrite in_flat_map. split.
      - intros [[k v] [I H]]. apply in_prefix_iter in I as [I P]. cbn [fst snd] in *.
        destruct (iter_consensus_states k) as [|[n h']] eqn:E; [destruct H|].
        destruct (cons_unmarshal v) as [c'|] eqn:U; [|destruct H]. destruct H as [H|[]]. inversion H; subst.
        apply iter_consensus_states_exact in E as [-> [N V]]. exists v. auto.
      - intros [v [I [U [N V]]]]. exists (full_consensus_state_key name h, v). split.
        + apply in_prefix_iter. split; [exact I|]. cbn [fst]. rewrite full_consensus_key_split. apply is_prefix_client_store.
        + cbn [fst snd]. rewrite full_consensus_key_split, (iter_consensus_states_on_client_key _ _ N),
            (parse_consensus_state_key_roundtrip h V), U. left; reflexivity.
    Qed.

    Lemma consensus_value_canonical name h v :
      In (full_consensus_state_key name h, v) s -> no_sep name = true -> valid_height h = true ->
      exists c, cons_unmarshal v = Some c /\ cons_marshal c = v.
    Proof.
      intros I N V. pose proof (wf_clients _ _ I) as W. rewrite full_consensus_key_split in W.
      specialize (W (is_prefix_client_store _ _)). unfold Genesis.wf_client_entry in W.
      rewrite (parse_client_key_prefix _ _ N), consensus_key_not_client_state, (parse_consensus_state_key_roundtrip h V) in W.
      unfold canonical_cons in W. destruct (cons_unmarshal v) as [c|]; [|discriminate]. apply bytes_eqb_eq in W. exists c. auto.
    Qed.

    (** ** The iterators return (no panic) *)
    Lemma all_genesis_clients_ok :
      all_genesis_clients CS cs_unmarshal (fun k => Ok (iter_clients k)) s = Ok (sort_by_name (clients_of s)).
    Proof.
      unfold all_genesis_clients, clients_of.
      erewrite ocollect_total; [reflexivity|].
      intros [k v] I. apply in_prefix_iter in I as [I P]. cbn [fst snd obind]. cbn [fst] in P.
      destruct (iter_clients k) as [|name] eqn:E; [reflexivity|].
      apply iter_clients_exact in E as [-> N]. destruct (client_value_canonical _ _ I N) as [c [U _]]. rewrite U. reflexivity.
    Qed.

    Lemma all_consensus_states_ok :
      all_consensus_states CONS cons_unmarshal (fun k => Ok (iter_consensus_states k)) s
      = Ok (sort_by_name (group_by_name (consensus_of s))).
    Proof.
      unfold all_consensus_states, consensus_of.
      erewrite ocollect_total; [reflexivity|].
      intros [k v] I. apply in_prefix_iter in I as [I P]. cbn [fst snd obind]. cbn [fst] in P.
      destruct (iter_consensus_states k) as [|[name h]] eqn:E; [reflexivity|].
      apply iter_consensus_states_exact in E as [-> [N V]]. destruct (consensus_value_canonical _ _ _ I N V) as [c [U _]].
      rewrite U. reflexivity.
    Qed.

    Lemma all_relayers_ok : all_relayers rel_unmarshal s = Ok (relayers_of s).
    Proof.
      unfold all_relayers, relayers_of. apply ocollect_total.
      intros [k v] I. apply in_prefix_iter in I as [I P]. cbn [fst snd] in *.
      destruct (wf_relayers _ _ I P) as [r [U _]]. rewrite U. reflexivity.
    Qed.

    Lemma hashes_parse_ok p render_key :
      (forall k v, In (k, v) s -> is_prefix p k = true -> wf_packet_key render_key k = true) ->
      iterate_hashes p s = Ok (packets_of p s) /\
      (forall x, In x (packets_of p s) ->
         In (render_key (triple_of x), ps_data x) s /\ is_prefix p (render_key (triple_of x)) = true) /\
      (forall k v, In (k, v) s -> is_prefix p k = true ->
         exists x, In x (packets_of p s) /\ render_key (triple_of x) = k /\ ps_data x = v).
    Proof.
      intro H. refine (conj _ (conj _ _)).
      - unfold iterate_hashes, packets_of. apply ocollect_total.
        intros [k v] I. apply in_prefix_iter in I as [I P]. cbn [fst snd obind] in *.
        specialize (H _ _ I P). unfold wf_packet_key in H. destruct (iterate_hashes_parse k); try discriminate. reflexivity.
      - intro x. unfold packets_of. rewrite in_flat_map.
        intros [[k v] [I X]]. apply in_prefix_iter in I as [I P]. cbn [fst snd] in *.
        specialize (H _ _ I P). unfold wf_packet_key in H. destruct (iterate_hashes_parse k) as [t| |]; try discriminate.
        apply bytes_eqb_eq in H. destruct X as [X|[]]. subst x. cbn [ps_data]. unfold triple_of. cbn [ps_src ps_dst ps_seq].
        replace {| t_src := t_src t; t_dst := t_dst t; t_seq := t_seq t |} with t by (destruct t; reflexivity).
        rewrite <- H. split; assumption.
      - intros k v I P. pose proof (H _ _ I P) as W. unfold wf_packet_key in W.
        destruct (iterate_hashes_parse k) as [t| |] eqn:T; try discriminate. apply bytes_eqb_eq in W.
        exists {| ps_src := t_src t; ps_dst := t_dst t; ps_seq := t_seq t; ps_data := v |}. refine (conj _ (conj _ eq_refl)).
        + unfold packets_of. apply in_flat_map. exists (k, v). split; [apply in_prefix_iter; auto|]. cbn [fst snd]. rewrite T. left; reflexivity.
        + unfold triple_of. cbn [ps_src ps_dst ps_seq].
          replace {| t_src := t_src t; t_dst := t_dst t; t_seq := t_seq t |} with t by (destruct t; reflexivity). symmetry. exact W.
    Qed.

    (** *** send sequences *)
    Definition seqs_of_list (l : store) : list (bytes * bytes * N) :=
      flat_map (fun kv => match parse_path (fst kv) with Ok (a, b) => [((a, b), be_val (snd kv))] | _ => [] end) l.

    Lemma iterate_packet_sequence_ok l :
      (forall kv, In kv l -> In kv s /\ is_prefix host_KeyNextSeqSendPrefix (fst kv) = true) ->
      iterate_packet_sequence l = Ok (seqs_of_list l).
    Proof.
      induction l as [|[k v] l IH]; intro H; [reflexivity|].
      destruct (H (k, v) (or_introl eq_refl)) as [I P]. cbn [fst] in P.
      destruct (wf_hashes _ _ I) as [_ [_ [_ W]]]. destruct (W P) as [a [b [PP [_ L]]]].
      cbn [iterate_packet_sequence seqs_of_list flat_map fst snd]. rewrite PP.
      destruct (sdk_be_to_uint64_8 v L) as [B _]. rewrite B. cbn [obind].
      rewrite IH by (intros kv Hkv; apply H; right; exact Hkv). reflexivity.
    Qed.

    (** ** The genesis the export returns *)
    Definition the_clients := sort_by_name (clients_of s).
    Definition the_client_genesis : client_genesis CS CONS :=
      {| g_clients := the_clients;
         g_metadata := all_client_metadata CS cs_type export_metadata s the_clients;
         g_consensus := sort_by_name (group_by_name (consensus_of s));
         g_native := get_chain_name s;
         g_relayers := relayers_of s |}.
    Definition the_packet_genesis : packet_genesis :=
      {| g_acks := packets_of host_KeyPacketAckPrefix s;
         g_commitments := packets_of host_KeyPacketCommitmentPrefix s;
         g_receipts := packets_of host_KeyPacketReceiptPrefix s;
         g_send_seqs := seqs_of_list (prefix_iter host_KeyNextSeqSendPrefix s) |}.

    Definition acks_ok := hashes_parse_ok host_KeyPacketAckPrefix packet_ack_key
      (fun k v I P => proj1 (wf_hashes k v I) P).
    Definition comms_ok := hashes_parse_ok host_KeyPacketCommitmentPrefix packet_commitment_key
      (fun k v I P => proj1 (proj2 (wf_hashes k v I)) P).
    Definition rcpts_ok := hashes_parse_ok host_KeyPacketReceiptPrefix packet_receipt_key
      (fun k v I P => proj1 (proj1 (proj2 (proj2 (wf_hashes k v I))) P)).

    Lemma export_xibc_ok : export_xibc s = Ok (the_client_genesis, the_packet_genesis).
    Proof.
      unfold Genesis.export_xibc, export_xibc_with, export_client, export_client_with, export_packet.
      rewrite all_genesis_clients_ok, all_consensus_states_ok, all_relayers_ok. cbn [obind].
      rewrite (proj1 acks_ok), (proj1 comms_ok), (proj1 rcpts_ok). cbn [obind].
      rewrite iterate_packet_sequence_ok by (intros kv H; apply in_prefix_iter in H; exact H). reflexivity.
    Qed.

    (** ** Every write of the import is an entry of the store, and conversely *)
    Lemma in_the_metadata name k v :
      (exists gms, In (name, gms) (g_metadata _ _ the_client_genesis) /\ In (k, v) gms) <->
      exists c, In (name, c) (clients_of s) /\ In (client_store_prefix name ++ k, v) s /\ metadata_path (cs_type c) k = true.
    Proof.
      cbn [g_metadata the_client_genesis]. unfold all_client_metadata, the_clients. split.
      - intros [gms [I K]]. apply in_flat_map in I as [[n c] [Ic I]]. cbn [fst snd] in I.
        destruct (is_nil _) eqn:E; [destruct I|]. destruct I as [I|[]]. inversion I; subst n gms.
        apply in_export_metadata in K as [K M]. apply in_sub_store in K. cbn [fst] in M.
        exists c. split; [apply sort_by_name_in1 in Ic; exact Ic | auto].
      - intros [c [Ic [I M]]].
        exists (export_metadata (cs_type c) (sub_store (client_store_prefix name) s)).
        assert (K : In (k, v) (export_metadata (cs_type c) (sub_store (client_store_prefix name) s))).
        { apply in_export_metadata. split; [apply in_sub_store; exact I | exact M]. }
        split; [|exact K]. apply in_flat_map. exists (name, c). split; [apply sort_by_name_in2; exact Ic|].
        cbn [fst snd]. destruct (export_metadata _ _); [destruct K | left; reflexivity].
    Qed.

    Lemma writes_sound kv :
      In kv (client_writes the_client_genesis ++ packet_writes the_packet_genesis) -> In kv s.
    Proof.
      unfold Genesis.client_writes, packet_writes. rewrite !in_app_iff.
      intros [[H|[H|[H|[H|H]]]]|[H|[H|[H|H]]]].
      - (* metadata *)
        apply in_flat_map in H as [[name gms] [I H]]. cbn [fst snd] in H. apply in_map_iff in H as [[k v] [E K]].
        cbn [fst snd] in E. subst kv.
        assert (X : exists gms, In (name, gms) (g_metadata _ _ the_client_genesis) /\ In (k, v) gms) by (exists gms; auto).
        apply in_the_metadata in X as [c [_ [X _]]]. exact X.
      - (* client states *)
        apply in_map_iff in H as [[name c] [E I]]. cbn [fst snd g_clients the_client_genesis] in *. subst kv. unfold the_clients in I.
        apply sort_by_name_in1, in_clients_of in I as [v [I [U N]]].
        destruct (client_value_canonical _ _ I N) as [c' [U' M]]. rewrite U in U'. inversion U'; subst c'. rewrite M. exact I.
      - (* consensus states *)
        apply in_flat_map in H as [[name ys] [I H]]. cbn [fst snd g_consensus the_client_genesis] in *.
        apply in_map_iff in H as [[h c] [E K]]. cbn [fst snd] in E. subst kv.
        apply sort_by_name_in1 in I.
        assert (X : In (name, (h, c)) (consensus_of s)) by (apply group_by_name_in; exists ys; auto).
        apply in_consensus_of in X as [v [X [U [N V]]]].
        destruct (consensus_value_canonical _ _ _ X N V) as [c' [U' M]]. rewrite U in U'. inversion U'; subst c'. rewrite M. exact X.
      - (* relayers *)
        apply in_map_iff in H as [r [E I]]. cbn [g_relayers the_client_genesis] in I. subst kv. unfold relayers_of in I.
        apply in_flat_map in I as [[k v] [I H]]. apply in_prefix_iter in I as [I P]. cbn [fst snd] in *.
        destruct (wf_relayers _ _ I P) as [r' [U [K M]]]. rewrite U in H. destruct H as [H|[]]. subst r'.
        unfold relayer_writes. rewrite <- K, M. exact I.
      - (* chain name *)
        destruct H as [H|[]]. subst kv. cbn [g_native the_client_genesis]. destruct wf_chain_name as [v I].
        unfold get_chain_name. rewrite (aget_in_sorted _ _ _ wf_sorted I). exact I.
      - apply in_map_iff in H as [x [E I]]. subst kv. apply (proj1 (proj2 acks_ok)) in I. apply I.
      - apply in_map_iff in H as [x [E I]]. subst kv. apply (proj1 (proj2 comms_ok)) in I. apply I.
      - apply in_map_iff in H as [x [E I]]. subst kv. apply (proj1 (proj2 rcpts_ok)) in I as [I P].
        destruct (wf_hashes _ _ I) as [_ [_ [W _]]]. destruct (W P) as [_ D]. rewrite <- D. exact I.
      - apply in_map_iff in H as [[[a b] n] [E I]]. subst kv. cbn [fst snd g_send_seqs the_packet_genesis] in *.
        unfold seqs_of_list in I. apply in_flat_map in I as [[k v] [I H]]. apply in_prefix_iter in I as [I P]. cbn [fst snd] in *.
        destruct (wf_hashes _ _ I) as [_ [_ [_ W]]]. destruct (W P) as [a' [b' [PP [K L]]]]. rewrite PP in H.
        destruct H as [H|[]]. inversion H; subst a' b' n. rewrite <- K. destruct (sdk_be_to_uint64_8 v L) as [_ B]. rewrite B. exact I.
    Qed.

    Lemma writes_complete kv :
      In kv s -> In kv (client_writes the_client_genesis ++ packet_writes the_packet_genesis).
    Proof.
      destruct kv as [k v]. intro I. unfold Genesis.client_writes, packet_writes. rewrite !in_app_iff.
      destruct (wf_family _ _ I) as [P|[E|[P|[P|[P|[P|P]]]]]].
      - (* under "clients" *)
        left. pose proof (wf_clients _ _ I P) as W. unfold Genesis.wf_client_entry in W.
        destruct (parse_client_key k) as [[name path]|] eqn:PK; [|discriminate].
        apply parse_client_key_exact in PK as [-> N].
        destruct (bytes_eqb_spec path host_KeyClientState) as [->|NE].
        + (* client state *)
          right. left. unfold canonical_cs in W. destruct (cs_unmarshal v) as [c|] eqn:U; [|discriminate].
          apply bytes_eqb_eq in W. apply in_map_iff. exists (name, c). cbn [fst snd]. rewrite full_client_state_key_split, W.
          split; [reflexivity|]. cbn [g_clients the_client_genesis]. unfold the_clients. apply sort_by_name_in2, in_clients_of.
          exists v. rewrite full_client_state_key_split. auto.
        + destruct (parse_consensus_state_key path) as [h|] eqn:PC.
          * (* consensus state *)
            right. right. left. apply parse_consensus_state_key_exact in PC as [-> V].
            unfold canonical_cons in W. destruct (cons_unmarshal v) as [c|] eqn:U; [|discriminate]. apply bytes_eqb_eq in W.
            assert (X : In (name, (h, c)) (consensus_of s)).
            { apply in_consensus_of. exists v. rewrite full_consensus_key_split. auto. }
            apply group_by_name_in in X as [ys [X Y]].
            apply in_flat_map. exists (name, ys). split; [cbn [g_consensus the_client_genesis]; apply sort_by_name_in2; exact X|].
            cbn [fst snd]. apply in_map_iff. exists (h, c). cbn [fst snd]. rewrite full_consensus_key_split, W. auto.
          * (* metadata of the client's type *)
            left. destruct (client_type_of name s) as [t|] eqn:T; [|discriminate]. apply andb_true_iff in W as [M _].
            apply (client_type_of_spec name t N) in T as [c [Ic Et]]. subst t.
            assert (X : exists gms, In (name, gms) (g_metadata _ _ the_client_genesis) /\ In (path, v) gms).
            { apply in_the_metadata. exists c. auto. }
            destruct X as [gms [X Y]]. apply in_flat_map. exists (name, gms). split; [exact X|].
            cbn [fst snd]. apply in_map_iff. exists (path, v). auto.
      - (* chain name *)
        subst k. left. right. right. right. right. left. cbn [g_native the_client_genesis]. unfold get_chain_name.
        rewrite (aget_in_sorted _ _ _ wf_sorted I). reflexivity.
      - (* relayers *)
        left. right. right. right. left. destruct (wf_relayers _ _ I P) as [r [U [K M]]].
        apply in_map_iff. exists r. unfold relayer_writes. rewrite <- K, M. split; [reflexivity|].
        cbn [g_relayers the_client_genesis]. unfold relayers_of. apply in_flat_map. exists (k, v).
        split; [apply in_prefix_iter; auto|]. cbn [snd]. rewrite U. left; reflexivity.
      - right. left. destruct (proj2 (proj2 acks_ok) _ _ I P) as [x [Ix [K D]]].
        apply in_map_iff. exists x. rewrite K, D. auto.
      - right. right. left. destruct (proj2 (proj2 comms_ok) _ _ I P) as [x [Ix [K D]]].
        apply in_map_iff. exists x. rewrite K, D. auto.
      - right. right. right. left. destruct (proj2 (proj2 rcpts_ok) _ _ I P) as [x [Ix [K D]]].
        destruct (wf_hashes _ _ I) as [_ [_ [W _]]]. destruct (W P) as [_ V]. apply in_map_iff. exists x. rewrite K, V. auto.
      - right. right. right. right. destruct (wf_hashes _ _ I) as [_ [_ [_ W]]]. destruct (W P) as [a [b [PP [K L]]]].
        apply in_map_iff. exists ((a, b), be_val v). cbn [fst snd]. destruct (sdk_be_to_uint64_8 v L) as [_ B]. rewrite B, <- K.
        split; [reflexivity|]. cbn [g_send_seqs the_packet_genesis]. unfold seqs_of_list. apply in_flat_map. exists (k, v).
        split; [apply in_prefix_iter; auto|]. cbn [fst snd]. rewrite PP. left; reflexivity.
    Qed.

    Lemma no_import_panic : client_import_panics CS CONS the_client_genesis = false.
    Proof.
      unfold client_import_panics. apply not_true_is_false. intro H. apply orb_true_iff in H as [H|H].
      - apply existsb_exists in H as [[name gms] [I H]]. cbn [snd] in H. apply existsb_exists in H as [[k v] [K E]]. cbn [fst] in E.
        assert (X : exists gms, In (name, gms) (g_metadata _ _ the_client_genesis) /\ In (k, v) gms) by (exists gms; auto).
        apply in_the_metadata in X as [c [_ [_ M]]]. destruct k; [|discriminate].
        destruct (cs_type c); cbn in M; discriminate.
      - apply existsb_exists in H as [r [I E]]. cbn [g_relayers the_client_genesis] in I. unfold relayers_of in I.
        apply in_flat_map in I as [[k v] [I H]]. apply in_prefix_iter in I as [I P]. cbn [fst snd] in *.
        destruct (rel_unmarshal v) as [r'|] eqn:U; [|destruct H]. destruct H as [H|[]]. subst r'.
        pose proof (wf_relayers_address _ _ _ I P U) as NE. destruct (r_address r); [congruence | discriminate].
    Qed.

    Theorem xibc_round_trip : exists g, export_xibc s = Ok g /\ import_xibc g = Ok s.
    Proof.
      exists (the_client_genesis, the_packet_genesis). split; [exact export_xibc_ok|].
      unfold Genesis.import_xibc. cbn [fst snd]. rewrite no_import_panic. f_equal.
      rewrite <- apply_writes_app. apply apply_writes_exact; [exact wf_sorted | exact writes_sound | exact writes_complete].
    Qed.
  End WithStore.
End Xibc.
