(** Proofs for C12: the token-pair registry stays self-consistent under every operation. *)
From Teleport Require Import Base.Bytes Base.Outcome Base.AList Model.Registry Model.RegistryCheck Proofs.RegistryMap.

Section Proofs.
  Variable hid : bytes -> bytes -> bytes.
  Variable canon : bytes -> bytes.
  Variable evm_denom : bytes.

  (** Assumed behaviour of the external functions. *)
  Hypothesis hid_inj : forall t d t' d', is_hex_address t = true -> is_hex_address t' = true -> hid t d = hid t' d' -> t = t' /\ d = d'.
  Hypothesis hid_nonempty : forall t d, hid t d <> [].
  Hypothesis canon_hex : forall a, is_hex_address (canon a) = true.
  Hypothesis canon_addr : forall a, length a = 20%nat -> addr_of (canon a) = a.

  Notation pair_id := (pair_id hid).

  (** * The invariant *)

  Definition pair_wf (p : pair) : Prop :=
    p_denoms p <> [] /\ NoDup (p_denoms p) /\ is_hex_address (p_text p) = true.

  (** [Cons P E D]: every pair is stored under its GetID and is reachable by its address and by EACH of
      its denominations; every index entry points to an existing pair that lists it. *)
  Record Cons (P : alist pair) (E D : alist bytes) : Prop := {
    c_pair : forall id p, aget id P = Some p ->
      pair_wf p /\ pair_id p = Ok id /\ aget (addr_of (p_text p)) E = Some id /\
      (forall d, In d (p_denoms p) -> aget d D = Some id);
    c_erc20 : forall a id, aget a E = Some id -> exists p, aget id P = Some p /\ addr_of (p_text p) = a;
    c_denom : forall d id, aget d D = Some id -> exists p, aget id P = Some p /\ In d (p_denoms p) }.

  Definition Consistent (s : state) : Prop := Cons (st_pairs s) (st_erc20 s) (st_denom s).

  Lemma consistent_empty : Consistent empty_state.
  Proof. split; cbn; intros; discriminate. Qed.

  Lemma pair_id_ok p id : pair_id p = Ok id -> exists d0 r, p_denoms p = d0 :: r /\ id = hid (p_text p) d0.
  Proof.
    unfold Registry.pair_id. destruct (p_denoms p) as [|d0 r]; [discriminate|].
    intro H. inversion H. exists d0, r. split; reflexivity.
  Qed.

  Lemma pair_id_nonempty p id : pair_id p = Ok id -> id <> [].
  Proof. intro H. apply pair_id_ok in H as (d0 & r & _ & ->). apply hid_nonempty. Qed.

  Lemma pair_id_inj p q id :
    is_hex_address (p_text p) = true -> is_hex_address (p_text q) = true ->
    pair_id p = Ok id -> pair_id q = Ok id -> p_text p = p_text q.
  Proof.
    intros Wp Wq Hp Hq. apply pair_id_ok in Hp as (d0 & r & _ & ->). apply pair_id_ok in Hq as (d1 & r1 & _ & E).
    apply (hid_inj _ _ _ _ Wp Wq) in E. tauto.
  Qed.

  (** No denomination and no contract belongs to two pairs. *)
  Lemma no_denom_in_two_pairs P E D id1 p1 id2 p2 d :
    Cons P E D -> aget id1 P = Some p1 -> aget id2 P = Some p2 -> In d (p_denoms p1) -> In d (p_denoms p2) -> id1 = id2.
  Proof.
    intros C H1 H2 I1 I2.
    destruct (c_pair _ _ _ C _ _ H1) as (_ & _ & _ & D1). destruct (c_pair _ _ _ C _ _ H2) as (_ & _ & _ & D2).
    specialize (D1 _ I1). specialize (D2 _ I2). congruence.
  Qed.

  Lemma no_address_in_two_pairs P E D id1 p1 id2 p2 :
    Cons P E D -> aget id1 P = Some p1 -> aget id2 P = Some p2 -> addr_of (p_text p1) = addr_of (p_text p2) -> id1 = id2.
  Proof.
    intros C H1 H2 A.
    destruct (c_pair _ _ _ C _ _ H1) as (_ & _ & E1 & _). destruct (c_pair _ _ _ C _ _ H2) as (_ & _ & E2 & _).
    rewrite A in E1. congruence.
  Qed.

  (** * The four ways the code changes the maps *)

  (** a pair that is new in every respect is stored with all its index entries *)
  Lemma cons_add P E D id p :
    Cons P E D -> pair_wf p -> pair_id p = Ok id ->
    aget id P = None -> aget (addr_of (p_text p)) E = None -> (forall d, In d (p_denoms p) -> aget d D = None) ->
    Cons (aset id p P) (aset (addr_of (p_text p)) id E) (set_denoms D (p_denoms p) id).
  Proof.
    intros C W I HP HE HD. split.
    - intros id' p' H. rewrite aget_aset in H. destruct (bytes_eqb_spec id' id) as [->|N].
      + inversion H; subst p'. repeat split; try apply W; try exact I.
        * rewrite aget_aset, bytes_eqb_refl. reflexivity.
        * intros d Hd. rewrite aget_set_denoms. apply existsb_eqb_In in Hd. rewrite Hd. reflexivity.
      + destruct (c_pair _ _ _ C _ _ H) as (W' & I' & E' & D'). repeat split; try apply W'; try exact I'.
        * rewrite aget_aset. destruct (bytes_eqb_spec (addr_of (p_text p')) (addr_of (p_text p))) as [A|A]; [|exact E'].
          rewrite A in E'. congruence.
        * intros d Hd. rewrite aget_set_denoms. destruct (existsb (bytes_eqb d) (p_denoms p)) eqn:X; [|apply D'; exact Hd].
          apply existsb_eqb_In in X. specialize (HD _ X). specialize (D' _ Hd). congruence.
    - intros a id' H. rewrite aget_aset in H. destruct (bytes_eqb_spec a (addr_of (p_text p))) as [->|N].
      + inversion H; subst id'. exists p. rewrite aget_aset, bytes_eqb_refl. split; reflexivity.
      + destruct (c_erc20 _ _ _ C _ _ H) as (p0 & H0 & A0). exists p0. split; [|exact A0].
        rewrite aget_aset. destruct (bytes_eqb_spec id' id) as [->|N']; [congruence | exact H0].
    - intros d id' H. rewrite aget_set_denoms in H. destruct (existsb (bytes_eqb d) (p_denoms p)) eqn:X.
      + inversion H; subst id'. exists p. rewrite aget_aset, bytes_eqb_refl. split; [reflexivity | apply existsb_eqb_In; exact X].
      + destruct (c_denom _ _ _ C _ _ H) as (p0 & H0 & I0). exists p0. split; [|exact I0].
        rewrite aget_aset. destruct (bytes_eqb_spec id' id) as [->|N']; [congruence | exact H0].
  Qed.

  (** DeleteTokenPair of a stored pair removes it with all its index entries *)
  Lemma cons_remove P E D id p :
    Cons P E D -> aget id P = Some p ->
    Cons (adel id P) (adel (addr_of (p_text p)) E) (del_denoms D (p_denoms p)).
  Proof.
    intros C H. destruct (c_pair _ _ _ C _ _ H) as (W & I & HE & HD). split.
    - intros id' p' H'. rewrite aget_adel in H'. destruct (bytes_eqb_spec id' id) as [->|N]; [discriminate|].
      destruct (c_pair _ _ _ C _ _ H') as (W' & I' & E' & D'). repeat split; try apply W'; try exact I'.
      + rewrite aget_adel. destruct (bytes_eqb_spec (addr_of (p_text p')) (addr_of (p_text p))) as [A|A]; [|exact E'].
        rewrite A in E'. congruence.
      + intros d Hd. rewrite aget_del_denoms. destruct (existsb (bytes_eqb d) (p_denoms p)) eqn:X; [|apply D'; exact Hd].
        apply existsb_eqb_In in X. specialize (HD _ X). specialize (D' _ Hd). congruence.
    - intros a id' H'. rewrite aget_adel in H'. destruct (bytes_eqb_spec a (addr_of (p_text p))) as [->|N]; [discriminate|].
      destruct (c_erc20 _ _ _ C _ _ H') as (p0 & H0 & A0). exists p0. split; [|exact A0].
      rewrite aget_adel. destruct (bytes_eqb_spec id' id) as [->|N']; [|exact H0].
      rewrite H in H0. inversion H0; subst p0. congruence.
    - intros d id' H'. rewrite aget_del_denoms in H'. destruct (existsb (bytes_eqb d) (p_denoms p)) eqn:X; [discriminate|].
      destruct (c_denom _ _ _ C _ _ H') as (p0 & H0 & I0). exists p0. split; [|exact I0].
      rewrite aget_adel. destruct (bytes_eqb_spec id' id) as [->|N']; [|exact H0].
      rewrite H in H0. inversion H0; subst p0. apply existsb_eqb_nIn in X. contradiction.
  Qed.

  (** SetTokenPair of a pair that differs from the stored one only in [Enabled] *)
  Lemma cons_replace P E D id p p' :
    Cons P E D -> aget id P = Some p -> p_text p' = p_text p -> p_denoms p' = p_denoms p ->
    Cons (aset id p' P) E D.
  Proof.
    intros C H T Ds. destruct (c_pair _ _ _ C _ _ H) as (W & I & HE & HD). split.
    - intros id' q H'. rewrite aget_aset in H'. destruct (bytes_eqb_spec id' id) as [->|N].
      + inversion H'; subst q. unfold pair_wf, Registry.pair_id. rewrite T, Ds. exact (conj W (conj I (conj HE HD))).
      + apply (c_pair _ _ _ C _ _ H').
    - intros a id' H'. destruct (c_erc20 _ _ _ C _ _ H') as (p0 & H0 & A0).
      rewrite aget_aset. destruct (bytes_eqb_spec id' id) as [->|N].
      + exists p'. split; [reflexivity|]. rewrite H in H0. inversion H0; subst p0. rewrite T. exact A0.
      + exists p0. split; assumption.
    - intros d id' H'. destruct (c_denom _ _ _ C _ _ H') as (p0 & H0 & I0).
      rewrite aget_aset. destruct (bytes_eqb_spec id' id) as [->|N].
      + exists p'. split; [reflexivity|]. rewrite H in H0. inversion H0; subst p0. rewrite Ds. exact I0.
      + exists p0. split; assumption.
  Qed.

  Lemma NoDup_snoc (l : list bytes) b : NoDup l -> ~ In b l -> NoDup (l ++ [b]).
  Proof.
    induction l as [|x l IH]; cbn; intros ND NI.
    - constructor; [intros [] | constructor].
    - inversion ND; subst. constructor.
      + rewrite in_app_iff. cbn. intros [X|[X|[]]]; [contradiction | subst; apply NI; left; reflexivity].
      + apply IH; [assumption | intro X; apply NI; right; exact X].
  Qed.

  (** AddCoin: one more denomination, not registered so far *)
  Lemma cons_add_denom P E D id p p' b :
    Cons P E D -> aget id P = Some p -> p_text p' = p_text p -> p_denoms p' = p_denoms p ++ [b] -> aget b D = None ->
    Cons (aset id p' P) E (aset b id D).
  Proof.
    intros C H T Ds HB. destruct (c_pair _ _ _ C _ _ H) as ((Wne & Wnd & Wh) & I & HE & HD).
    assert (NB : ~ In b (p_denoms p)) by (intro X; specialize (HD _ X); congruence).
    split.
    - intros id' q H'. rewrite aget_aset in H'. destruct (bytes_eqb_spec id' id) as [->|N].
      + inversion H'; subst q. split; [|split; [|split]].
        * unfold pair_wf. rewrite T, Ds. split; [|split; [|exact Wh]].
          -- destruct (p_denoms p); discriminate.
          -- apply NoDup_snoc; assumption.
        * unfold Registry.pair_id in *. rewrite T, Ds. destruct (p_denoms p); [contradiction | exact I].
        * rewrite T. exact HE.
        * intros d Hd. rewrite Ds, in_app_iff in Hd. rewrite aget_aset. destruct (bytes_eqb_spec d b) as [->|Nb]; [reflexivity|].
          destruct Hd as [Hd|[Hd|[]]]; [apply HD; exact Hd | congruence].
      + destruct (c_pair _ _ _ C _ _ H') as (W' & I' & E' & D'). repeat split; try apply W'; try exact I'; try exact E'.
        intros d Hd. rewrite aget_aset. destruct (bytes_eqb_spec d b) as [->|Nb]; [|apply D'; exact Hd].
        specialize (D' _ Hd). congruence.
    - intros a id' H'. destruct (c_erc20 _ _ _ C _ _ H') as (p0 & H0 & A0).
      rewrite aget_aset. destruct (bytes_eqb_spec id' id) as [->|N].
      + exists p'. split; [reflexivity|]. rewrite H in H0. inversion H0; subst p0. rewrite T. exact A0.
      + exists p0. split; assumption.
    - intros d id' H'. rewrite aget_aset in H'. destruct (bytes_eqb_spec d b) as [->|Nb].
      + inversion H'; subst id'. exists p'. rewrite aget_aset, bytes_eqb_refl. split; [reflexivity|].
        rewrite Ds, in_app_iff. right. left. reflexivity.
      + destruct (c_denom _ _ _ C _ _ H') as (p0 & H0 & I0).
        rewrite aget_aset. destruct (bytes_eqb_spec id' id) as [->|N].
        * exists p'. split; [reflexivity|]. rewrite H in H0. inversion H0; subst p0. rewrite Ds, in_app_iff. left. exact I0.
        * exists p0. split; assumption.
  Qed.

  (** * Preservation by the operations *)

  Variable v : variant.

  (** "a registered denomination has bank metadata" — what masks the wrong [Name] test of the pinned code *)
  Definition MetaInv (s : state) : Prop :=
    forall d id, aget d (st_denom s) = Some id -> aget d (st_meta s) <> None.

  Definition Inv (s : state) : Prop := Consistent s /\ (v_test_base v = true \/ MetaInv s).

  Definition same_registry (s s' : state) : Prop :=
    st_pairs s' = st_pairs s /\ st_erc20 s' = st_erc20 s /\ st_denom s' = st_denom s /\ st_enable s' = st_enable s.

  Definition meta_grows (s s' : state) : Prop := forall k, aget k (st_meta s) <> None -> aget k (st_meta s') <> None.

  Lemma meta_grows_refl s : meta_grows s s.
  Proof. intros k H. exact H. Qed.

  Lemma meta_grows_aset s k m : meta_grows s (with_meta s (aset k m (st_meta s))).
  Proof. intros k' H. cbn. rewrite aget_aset. destruct (bytes_eqb k' k); [discriminate | exact H]. Qed.

  Lemma metadata_validate_units md : metadata_validate md = true -> md_units md <> [].
  Proof.
    unfold metadata_validate. intros H E. rewrite E in H. cbn in H.
    rewrite !andb_false_r in H. discriminate.
  Qed.

  (** the checks shared by RegisterCoin and AddCoin leave the registry alone, make sure [Base] has metadata
      and - directly in the repaired code, through [MetaInv] and the pointer comparison in the pinned code -
      pass only for a base that is not registered *)
  Lemma coin_checks_ok s md sup s1 :
    Inv s -> md_units md <> [] -> coin_checks evm_denom v s md sup = Ok s1 ->
    same_registry s s1 /\ meta_grows s s1 /\ aget (md_base md) (st_meta s1) <> None /\
    aget (md_base md) (st_denom s) = None /\ (v_reject_hex v = true -> is_hex_address (md_base md) = false).
  Proof.
    intros [C F] U H. unfold coin_checks in H.
    destruct (negb (st_enable s)); [discriminate|].
    destruct (v_reject_hex v && is_hex_address (md_base md)) eqn:Ehex; [discriminate|].
    destruct (bytes_eqb (md_base md) evm_denom); [discriminate|].
    destruct (ahas (if v_test_base v then md_base md else md_name md) (st_denom s)) eqn:Ereg; [discriminate|].
    destruct (negb sup); [discriminate|].
    assert (HX : v_reject_hex v = true -> is_hex_address (md_base md) = false).
    { intro X. rewrite X in Ehex. exact Ehex. }
    destruct (aget (md_base md) (st_meta s)) as [m|] eqn:Em.
    - destruct (equal_metadata m md) eqn:Eeq; [|discriminate].
      exfalso. unfold equal_metadata in Eeq. rewrite !andb_true_iff in Eeq. destruct Eeq as [[_ L1] L2].
      apply Nat.eqb_eq in L1, L2. rewrite L2 in L1. symmetry in L1. apply length_zero_iff_nil in L1. contradiction.
    - inversion H; subst s1. split; [repeat split|]. split; [apply meta_grows_aset|]. split.
      + cbn. rewrite aget_aset, bytes_eqb_refl. discriminate.
      + split; [|exact HX]. destruct F as [F|F].
        * rewrite F in Ereg. apply ahas_false in Ereg. exact Ereg.
        * destruct (aget (md_base md) (st_denom s)) eqn:Ed; [|reflexivity]. exfalso. apply (F _ _ Ed). exact Em.
  Qed.

  Lemma meta_inv_grows s s' : MetaInv s -> st_denom s' = st_denom s -> meta_grows s s' -> MetaInv s'.
  Proof. intros M Ed G d id H. rewrite Ed in H. apply G. exact (M _ _ H). Qed.

  (** ** RegisterCoin *)
  Lemma register_coin_inv s md deploy sup s' :
    Inv s -> length deploy = 20%nat -> aget deploy (st_erc20 s) = None ->
    register_coin hid canon evm_denom v s md deploy sup = Ok s' -> Inv s'.
  Proof.
    intros I L Fr H. unfold register_coin in H.
    destruct (coin_checks evm_denom v s md sup) as [s1| |] eqn:Ec; cbn in H; try discriminate.
    destruct (md_units md) eqn:Eu; [discriminate|].
    assert (U : md_units md <> []) by (rewrite Eu; discriminate).
    destruct (coin_checks_ok _ _ _ _ I U Ec) as ((EP & EE & ED & EN) & G & HM & HB & _).
    unfold store_new_pair in H. cbn in H. inversion H; subst s'; clear H.
    destruct I as [C F]. unfold Consistent in C. split.
    - unfold Consistent. cbn [st_pairs st_erc20 st_denom]. rewrite EP, EE, ED.
      set (np := {| p_text := canon deploy; p_denoms := [md_base md]; p_enabled := true; p_owner := OWNER_MODULE |}).
      change (canon deploy) with (p_text np). change [md_base md] with (p_denoms np).
      refine (cons_add _ _ _ (hid (p_text np) (md_base md)) np C _ _ _ _ _).
      + unfold pair_wf; cbn. split; [discriminate|]. split; [repeat constructor; intros [] | apply canon_hex].
      + reflexivity.
      + destruct (aget (hid (canon deploy) (md_base md)) (st_pairs s)) as [q|] eqn:Eq; [|exact Eq]. exfalso.
        destruct (c_pair _ _ _ C _ _ Eq) as ((_ & _ & Wq) & Iq & Eq' & _).
        apply pair_id_ok in Iq as (d0 & r & _ & X). apply (hid_inj _ _ _ _ (canon_hex _) Wq) in X as [X _].
        rewrite <- X, canon_addr in Eq' by exact L. congruence.
      + cbn. rewrite canon_addr by exact L. exact Fr.
      + cbn. intros d [<-|[]]. exact HB.
    - destruct F as [F|F]; [left; exact F | right].
      intros d id Hd. cbn [st_denom st_meta] in *. rewrite aget_aset in Hd.
      destruct (bytes_eqb_spec d (md_base md)) as [->|N]; [exact HM|]. rewrite ED in Hd. apply G. exact (F _ _ Hd).
  Qed.

  Lemma get_pair_some s id p : get_pair s id = Some p -> aget id (st_pairs s) = Some p /\ id <> [].
  Proof. unfold get_pair. destruct id; [discriminate|]. intro H. split; [exact H | discriminate]. Qed.

  Lemma get_pair_of s id p : aget id (st_pairs s) = Some p -> id <> [] -> get_pair s id = Some p.
  Proof. unfold get_pair. destruct id; [contradiction|]. intros H _. exact H. Qed.

  (** ** AddCoin *)
  Lemma add_coin_inv s md contract sup s' :
    Inv s -> md_units md <> [] ->
    add_coin hid evm_denom v s md contract sup = Ok s' -> Inv s'.
  Proof.
    intros I U H. unfold add_coin in H.
    destruct (negb (is_hex_address contract)); [discriminate|].
    destruct (coin_checks evm_denom v s md sup) as [s1| |] eqn:Ec; cbn [obind] in H; try discriminate.
    destruct (coin_checks_ok _ _ _ _ I U Ec) as ((EP & EE & ED & EN) & G & HM & HB & _).
    destruct (get_pair s1 (get0 (st_erc20 s1) (addr_of contract))) as [p|] eqn:Ep; [|discriminate].
    apply get_pair_some in Ep as [Ep _]. rewrite EP in Ep.
    set (id := get0 (st_erc20 s1) (addr_of contract)) in *.
    set (p' := {| p_text := p_text p; p_denoms := p_denoms p ++ [md_base md]; p_enabled := p_enabled p; p_owner := p_owner p |}) in *.
    destruct (Registry.pair_id hid p') as [id'| |] eqn:Ei; cbn [obind] in H; try discriminate.
    destruct (bytes_eqb_spec id id') as [<-|N]; cbn [negb] in H; [|discriminate].
    inversion H; subst s'; clear H. destruct I as [C F]. split.
    - unfold Consistent. cbn [st_pairs st_erc20 st_denom]. rewrite EP, EE, ED.
      apply (cons_add_denom _ _ _ id p p' (md_base md) C Ep); [reflexivity | reflexivity | exact HB].
    - destruct F as [F|F]; [left; exact F | right].
      intros d i Hd. cbn [st_denom st_meta] in *. rewrite aget_aset in Hd.
      destruct (bytes_eqb_spec d (md_base md)) as [->|N]; [exact HM|]. rewrite ED in Hd. apply G. exact (F _ _ Hd).
  Qed.

  (** ** RegisterERC20 *)
  Lemma register_erc20_inv s text q s' :
    Inv s -> register_erc20 hid canon s text q = Ok s' -> Inv s'.
  Proof.
    intros [C F] H. unfold register_erc20 in H.
    destruct (negb (st_enable s)); [discriminate|].
    destruct (ahas (addr_of text) (st_erc20 s)) eqn:Ea; [discriminate|]. apply ahas_false in Ea.
    destruct q as [q|]; [|discriminate].
    destruct (ahas (create_denom (canon (addr_of text))) (st_meta s)); [discriminate|].
    destruct (ahas (create_denom (canon (addr_of text))) (st_denom s)) eqn:Ed; [discriminate|]. apply ahas_false in Ed.
    destruct (negb (metadata_validate (erc20_metadata (canon (addr_of text)) q))); [discriminate|].
    unfold store_new_pair in H. cbn [Registry.pair_id p_denoms p_text obind erc20_metadata md_name md_base] in H.
    inversion H; subst s'; clear H.
    set (a := addr_of text) in *. assert (L : length a = 20%nat) by apply addr_of_length.
    set (np := {| p_text := canon a; p_denoms := [create_denom (canon a)]; p_enabled := true; p_owner := OWNER_EXTERNAL |}).
    split.
    - unfold Consistent. cbn [st_pairs st_erc20 st_denom with_meta].
      refine (cons_add _ _ _ (hid (p_text np) (create_denom (canon a))) np C _ _ _ _ _).
      + unfold pair_wf; cbn. split; [discriminate|]. split; [repeat constructor; intros [] | apply canon_hex].
      + reflexivity.
      + destruct (aget (hid (canon a) (create_denom (canon a))) (st_pairs s)) as [x|] eqn:Eq; [|exact Eq]. exfalso.
        destruct (c_pair _ _ _ C _ _ Eq) as ((_ & _ & Wq) & Iq & Eq' & _).
        apply pair_id_ok in Iq as (d0 & r & _ & X). apply (hid_inj _ _ _ _ (canon_hex _) Wq) in X as [X _].
        rewrite <- X, canon_addr in Eq' by exact L. congruence.
      + cbn. rewrite canon_addr by exact L. exact Ea.
      + cbn. intros d [<-|[]]. exact Ed.
    - destruct F as [F|F]; [left; exact F | right].
      intros d i Hd. cbn [st_denom st_meta with_meta] in *. rewrite aget_aset in Hd. rewrite aget_aset.
      destruct (bytes_eqb d (create_denom (canon a))); [discriminate|]. exact (F _ _ Hd).
  Qed.

  (** ** ToggleRelay *)
  Lemma toggle_inv s token s' : Inv s -> toggle hid s token = Ok s' -> Inv s'.
  Proof.
    intros [C F] H. unfold toggle in H.
    destruct (get_token_pair_id s token) as [|b r] eqn:Eid; [discriminate|].
    destruct (get_pair s (b :: r)) as [p|] eqn:Ep; [|discriminate].
    apply get_pair_some in Ep as [Ep _].
    destruct (c_pair _ _ _ C _ _ Ep) as (W & Ip & _).
    unfold set_pair in H.
    set (p' := {| p_text := p_text p; p_denoms := p_denoms p; p_enabled := negb (p_enabled p); p_owner := p_owner p |}) in *.
    assert (Ip' : Registry.pair_id hid p' = Ok (b :: r)) by exact Ip.
    rewrite Ip' in H. cbn [obind] in H. inversion H; subst s'; clear H. split.
    - unfold Consistent. cbn [st_pairs st_erc20 st_denom].
      apply (cons_replace _ _ _ (b :: r) p p' C Ep); reflexivity.
    - destruct F as [F|F]; [left; exact F | right]. exact F.
  Qed.

  (** ** DeleteTokenPair (the self-destruct clean-up) *)
  Lemma delete_pair_inv s id p s' :
    Inv s -> aget id (st_pairs s) = Some p -> delete_pair hid s p = Ok s' -> Inv s'.
  Proof.
    intros [C F] Ep H. destruct (c_pair _ _ _ C _ _ Ep) as (W & Ip & _).
    unfold delete_pair in H. rewrite Ip in H. cbn [obind] in H. inversion H; subst s'; clear H. split.
    - unfold Consistent. cbn [st_pairs st_erc20 st_denom]. apply cons_remove; assumption.
    - destruct F as [F|F]; [left; exact F | right].
      intros d i Hd. cbn [st_denom st_meta] in *. rewrite aget_del_denoms in Hd.
      destruct (existsb (bytes_eqb d) (p_denoms p)); [discriminate|]. exact (F _ _ Hd).
  Qed.

  Lemma Ok_inj {A} (a b : A) : Ok a = Ok b -> a = b.
  Proof. intro H. inversion H. reflexivity. Qed.

  (** ** UpdateTokenPairERC20 (repaired: every denomination re-indexed, registered new address refused) *)
  Lemma update_pair_inv s old_text new_text q s' :
    v_reindex_all v = true -> v_update_guard v = true ->
    Inv s -> update_pair hid canon v s old_text new_text q = Ok s' -> Inv s'.
  Proof.
    intros VR VG [C F] H. unfold update_pair in H. rewrite VR, VG in H.
    set (old := addr_of old_text) in *. set (new := addr_of new_text) in *.
    assert (L : length new = 20%nat) by apply addr_of_length.
    destruct (get0 (st_erc20 s) old) as [|b r] eqn:Eid; [discriminate|].
    cbn [andb] in H. destruct (ahas new (st_erc20 s)) eqn:En; [discriminate|]. apply ahas_false in En.
    destruct (get_pair s (b :: r)) as [p|] eqn:Ep; [|discriminate].
    apply get_pair_some in Ep as [Ep _]. set (id := b :: r) in *.
    destruct (c_pair _ _ _ C _ _ Ep) as (W & Ip & HE & HD).
    destruct (p_denoms p) as [|d0 ds] eqn:Eds; [discriminate|].
    destruct (aget d0 (st_meta s)) as [m|] eqn:Em; [|discriminate].
    destruct (md_units m) eqn:Eu; [discriminate|]. destruct q as [q|]; [|discriminate].
    match type of H with (if ?c then _ else _) = _ => destruct c; [discriminate|] end.
    match type of H with (if ?c then _ else _) = _ => destruct c; [discriminate|] end.
    unfold delete_pair in H. rewrite Ip in H. cbn [obind] in H.
    unfold Registry.pair_id in H. cbn [p_denoms p_text] in H. rewrite Eds in H. cbn [obind] in H.
    apply Ok_inj in H. subst s'.
    set (p' := {| p_text := canon new; p_denoms := d0 :: ds; p_enabled := p_enabled p; p_owner := p_owner p |}).
    pose proof (cons_remove _ _ _ _ _ C Ep) as C1.
    split.
    - unfold Consistent. cbn [st_pairs st_erc20 st_denom with_meta].
      assert (X : new = addr_of (p_text p')) by (cbn; rewrite canon_addr by exact L; reflexivity).
      rewrite Eds in C1.
      assert (G : Cons (aset (hid (canon new) d0) p' (adel id (st_pairs s)))
                       (aset (addr_of (p_text p')) (hid (canon new) d0) (adel (addr_of (p_text p)) (st_erc20 s)))
                       (set_denoms (del_denoms (st_denom s) (d0 :: ds)) (p_denoms p') (hid (canon new) d0)));
        [|rewrite <- X in G; exact G].
      refine (cons_add _ _ _ (hid (canon new) d0) p' C1 _ _ _ _ _).
      + destruct W as (W1 & W2 & W3). unfold pair_wf; cbn. rewrite Eds in W2. split; [discriminate|]. split; [exact W2 | apply canon_hex].
      + reflexivity.
      + rewrite aget_adel. destruct (bytes_eqb (hid (canon new) d0) id); [reflexivity|].
        destruct (aget (hid (canon new) d0) (st_pairs s)) as [x|] eqn:Eq; [|reflexivity]. exfalso.
        destruct (c_pair _ _ _ C _ _ Eq) as ((_ & _ & Wq) & Iq & Eq' & _).
        apply pair_id_ok in Iq as (d1 & r1 & _ & Y). apply (hid_inj _ _ _ _ (canon_hex _) Wq) in Y as [Y _].
        rewrite <- Y, canon_addr in Eq' by exact L. congruence.
      + rewrite <- X. rewrite aget_adel. destruct (bytes_eqb new (addr_of (p_text p))); [reflexivity | exact En].
      + intros d Hd. cbn [p_denoms p'] in Hd. rewrite aget_del_denoms. apply existsb_eqb_In in Hd. rewrite Hd. reflexivity.
    - destruct F as [F|F]; [left; exact F | right].
      intros d i Hd. cbn [st_denom st_meta with_meta] in *. rewrite aget_set_denoms in Hd. rewrite aget_aset.
      match goal with |- (if ?c then _ else _) <> None => destruct c; [discriminate|] end.
      destruct (existsb (bytes_eqb d) (d0 :: ds)) eqn:X.
      + apply existsb_eqb_In in X. exact (F _ _ (HD _ X)).
      + rewrite aget_del_denoms in Hd. try rewrite Eds in Hd. rewrite X in Hd. exact (F _ _ Hd).
  Qed.

  (** ** MintingEnabled and the conversions *)

  Lemma minting_enabled_ok s token denom p :
    minting_enabled v s token denom = Ok p ->
    st_enable s = true /\ p_enabled p = true /\
    exists id, id <> [] /\ get_token_pair_id s token = id /\ aget id (st_pairs s) = Some p /\
               (if v_mint_direct v then get0 (st_denom s) denom else get_token_pair_id s denom) = id.
  Proof.
    unfold minting_enabled. destruct (st_enable s); cbn [negb]; [|discriminate].
    destruct (bytes_eqb_spec (if v_mint_direct v then get0 (st_denom s) denom else get_token_pair_id s denom)
                             (get_token_pair_id s token)) as [E|N]; cbn [negb]; [|discriminate].
    destruct (get_token_pair_id s token) as [|b r] eqn:Et; [discriminate|].
    destruct (get_pair s (b :: r)) as [q|] eqn:Eq; [|discriminate].
    destruct (p_enabled q) eqn:En; [|discriminate]. intro H. apply Ok_inj in H. subst q.
    apply get_pair_some in Eq as [Eq Ne]. repeat split; try assumption. exists (b :: r). repeat split; assumption.
  Qed.

  Lemma convert_inv s token denom live s' cl :
    Inv s -> convert hid v s token denom live = Ok (s', cl) -> Inv s'.
  Proof.
    intros I H. unfold convert in H.
    destruct (minting_enabled v s token denom) as [p| |] eqn:Em; try discriminate.
    - apply minting_enabled_ok in Em as (_ & _ & id & _ & _ & Ep & _).
      destruct (existsb (bytes_eqb (addr_of (p_text p))) live).
      + apply Ok_inj in H. inversion H; subst; exact I.
      + destruct (delete_pair hid s p) as [s1| |] eqn:Ed; cbn [obind] in H; try discriminate.
        apply Ok_inj in H. inversion H; subst. exact (delete_pair_inv _ _ _ _ I Ep Ed).
    - apply Ok_inj in H. inversion H; subst; exact I.
  Qed.

  (** ** Genesis *)

  Lemma check_denoms_spec ds : forall seen seen',
    check_denoms seen ds = Some seen' ->
    NoDup ds /\ (forall d, In d ds -> ~ In d seen) /\ (forall x, In x seen' <-> In x seen \/ In x ds).
  Proof.
    induction ds as [|d ds IH]; intros seen seen' H; cbn in H.
    - inversion H; subst. split; [constructor|]. split; [intros ? []|]. intro x. cbn. tauto.
    - destruct (existsb (bytes_eqb d) seen) eqn:E; [discriminate|]. apply existsb_eqb_nIn in E.
      destruct (IH _ _ H) as (ND & NI & M). split; [|split].
      + constructor; [|exact ND]. intro X. apply (NI _ X). left. reflexivity.
      + intros x [<-|X]; [exact E|]. intro Y. apply (NI _ X). right. exact Y.
      + intro x. rewrite M. cbn. tauto.
  Qed.

  Lemma init_genesis_cons ps : forall s seenE seenD,
    v_genesis_all v = true -> v_genesis_addr v = true ->
    validate_genesis v seenE seenD ps = Ok tt -> Consistent s ->
    (forall a id, aget a (st_erc20 s) = Some id -> In a seenE) ->
    (forall d id, aget d (st_denom s) = Some id -> In d seenD) ->
    exists s', init_genesis hid s ps = Ok s' /\ Consistent s' /\ st_meta s' = st_meta s /\ st_enable s' = st_enable s /\
               (v_reject_hex v = true -> (forall d id, aget d (st_denom s) = Some id -> is_hex_address d = false) ->
                forall d id, aget d (st_denom s') = Some id -> is_hex_address d = false).
  Proof.
    induction ps as [|p r IH]; intros s seenE seenD VA VD H C SE SD.
    - exists s. cbn. split; [reflexivity|]. split; [exact C|]. split; [reflexivity|]. split; [reflexivity|]. intros _ X. exact X.
    - cbn [validate_genesis] in H. rewrite VA, VD in H.
      destruct (existsb (bytes_eqb (addr_of (p_text p))) seenE) eqn:E1; [discriminate|]. apply existsb_eqb_nIn in E1.
      destruct (p_denoms p) as [|d0 ds] eqn:Eds; [discriminate|]. rewrite <- Eds in H.
      destruct (check_denoms seenD (p_denoms p)) as [seen'|] eqn:Ec; [|discriminate].
      destruct (pair_validate v p) eqn:Ev; [|discriminate].
      destruct (check_denoms_spec _ _ _ Ec) as (ND & NI & M).
      unfold pair_validate in Ev. apply andb_true_iff in Ev as [Ev1 Ev2].
      cbn [init_genesis]. unfold store_new_pair at 1. unfold Registry.pair_id at 1. rewrite Eds. cbn [obind]. rewrite <- Eds.
      set (id := hid (p_text p) d0).
      set (s1 := {| st_pairs := aset id p (st_pairs s); st_erc20 := aset (addr_of (p_text p)) id (st_erc20 s);
                    st_denom := set_denoms (st_denom s) (p_denoms p) id; st_meta := st_meta s; st_enable := st_enable s |}).
      assert (C1 : Consistent s1).
      { unfold Consistent, s1. cbn [st_pairs st_erc20 st_denom]. apply cons_add; try assumption.
        - unfold pair_wf. rewrite Eds. split; [discriminate|]. rewrite <- Eds. split; assumption.
        - unfold Registry.pair_id. rewrite Eds. reflexivity.
        - destruct (aget id (st_pairs s)) as [q|] eqn:Eq; [|reflexivity]. exfalso.
          destruct (c_pair _ _ _ C _ _ Eq) as ((_ & _ & Wq) & Iq & Eq' & _).
          apply pair_id_ok in Iq as (d1 & r1 & _ & Y). apply (hid_inj _ _ _ _ Ev2 Wq) in Y as [Y _].
          rewrite <- Y in Eq'. apply E1. exact (SE _ _ Eq').
        - destruct (aget (addr_of (p_text p)) (st_erc20 s)) eqn:Eq; [|reflexivity]. exfalso. apply E1. exact (SE _ _ Eq).
        - intros d Hd. destruct (aget d (st_denom s)) eqn:Eq; [|reflexivity]. exfalso. apply (NI _ Hd). exact (SD _ _ Eq). }
      destruct (IH s1 (addr_of (p_text p) :: seenE) seen' VA VD H C1) as (s' & Hs' & C' & Em & En & Hx).
      + intros a i Ha. unfold s1 in Ha. cbn [st_erc20] in Ha. rewrite aget_aset in Ha.
        destruct (bytes_eqb_spec a (addr_of (p_text p))) as [->|N]; [left; reflexivity | right; exact (SE _ _ Ha)].
      + intros d i Hd. unfold s1 in Hd. cbn [st_denom] in Hd. rewrite aget_set_denoms in Hd. apply M.
        destruct (existsb (bytes_eqb d) (p_denoms p)) eqn:X; [right; apply existsb_eqb_In; exact X | left; exact (SD _ _ Hd)].
      + exists s'. split; [exact Hs'|]. split; [exact C'|]. split; [exact Em|]. split; [exact En|].
        intros VH NH. apply Hx; [exact VH|]. intros d i Hd. unfold s1 in Hd. cbn [st_denom] in Hd. rewrite aget_set_denoms in Hd.
        destruct (existsb (bytes_eqb d) (p_denoms p)) eqn:X; [|exact (NH _ _ Hd)].
        apply existsb_eqb_In in X. rewrite forallb_forall in Ev1. specialize (Ev1 _ X). rewrite VH in Ev1.
        apply andb_true_iff in Ev1 as [_ Ev1]. cbn [andb] in Ev1. apply negb_true_iff in Ev1. exact Ev1.
  Qed.

  (** * Every operation preserves the invariant *)

  (** Environment hypotheses of an operation: the address the module account creates for RegisterCoin is a
      20-byte address that is not in the ERC20 index (a collision would be a keccak collision); a genesis is
      imported into an empty registry (and, for the pinned [Name] test, never: [MetaInv] cannot be checked
      by the aggregate genesis alone). *)
  Definition admissible (s : state) (o : op) : Prop :=
    match o with
    | ORegisterCoin _ deploy _ => length deploy = 20%nat /\ aget deploy (st_erc20 s) = None
    | OGenesis _ _ => st_pairs s = [] /\ st_erc20 s = [] /\ st_denom s = [] /\ v_test_base v = true
    | _ => True
    end.

  Definition repaired : Prop :=
    v_reindex_all v = true /\ v_update_guard v = true /\ v_genesis_all v = true /\ v_genesis_addr v = true.

  Notation step := (step hid canon evm_denom v).
  Notation run := (run hid canon evm_denom v).

  Lemma commit_inv s r : Inv s -> (forall s', r = Ok s' -> Inv s') -> Inv (fst (commit s r)).
  Proof. intros I H. destruct r; cbn; [apply H; reflexivity | exact I | exact I]. Qed.

  Lemma step_inv s o : repaired -> Inv s -> admissible s o -> Inv (fst (step s o)).
  Proof.
    intros (VR & VG & VA & VD) I A. unfold Registry.step.
    destruct (validate_basic o) eqn:VB; cbn [negb]; [|exact I].
    destruct o; cbn [admissible] in A.
    - destruct A as [L Fr]. apply commit_inv; [exact I|]. intros s' H. exact (register_coin_inv _ _ _ _ _ I L Fr H).
    - apply commit_inv; [exact I|]. intros s' H. refine (add_coin_inv _ _ _ _ _ I _ H).
      cbn [validate_basic] in VB. unfold coin_vb in VB. rewrite !andb_true_iff in VB.
      apply metadata_validate_units. tauto.
    - apply commit_inv; [exact I|]. intros s' H. exact (register_erc20_inv _ _ _ _ I H).
    - apply commit_inv; [exact I|]. intros s' H. exact (toggle_inv _ _ _ I H).
    - apply commit_inv; [exact I|]. intros s' H. exact (update_pair_inv _ _ _ _ _ VR VG I H).
    - destruct (convert hid v s denom denom live) as [[s' cl]| |] eqn:E; try exact I. exact (convert_inv _ _ _ _ _ _ I E).
    - destruct (convert hid v s contract denom live) as [[s' cl]| |] eqn:E; try exact I. exact (convert_inv _ _ _ _ _ _ I E).
    - destruct I as [C F]. split; [exact C|]. destruct F as [F|F]; [left; exact F | right; exact F].
    - destruct A as (EP & EE & ED & VT).
      set (s0 := set_metas s metas).
      assert (I0 : Inv s0) by (destruct I as [C _]; split; [exact C | left; exact VT]).
      destruct (validate_genesis v [] [] pairs) as [[]| |] eqn:Ev; try exact I0.
      destruct (init_genesis_cons pairs s0 [] [] VA VD Ev (proj1 I0)) as (s' & Hs & C' & _).
      + intros a i Ha. cbn in Ha. rewrite EE in Ha. discriminate.
      + intros d i Hd. cbn in Hd. rewrite ED in Hd. discriminate.
      + rewrite Hs. cbn. split; [exact C' | left; exact VT].
    - exact I.
  Qed.

  Fixpoint admissible_run (s : state) (os : list op) : Prop :=
    match os with
    | [] => True
    | o :: r => admissible s o /\ admissible_run (fst (step s o)) r
    end.

  (** [Consistent] (with the auxiliary invariant) holds after ANY sequence of operations *)
  Lemma run_inv os : forall s, repaired -> Inv s -> admissible_run s os -> Inv (run s os).
  Proof.
    induction os as [|o r IH]; intros s R I A; cbn; [exact I|].
    destruct A as [A1 A2]. apply IH; [exact R | apply step_inv; assumption | exact A2].
  Qed.

  (** * What each operation does to the pair records and to the denomination index (shapes) *)

  (** the pair keeps its denominations IN ORDER (new ones are only appended: Denoms[0], hence the id for a given
      contract, never changes), its owner and its enabled flag *)
  Definition evolved (p p' : pair) : Prop :=
    (exists ext, p_denoms p' = p_denoms p ++ ext) /\ p_owner p' = p_owner p /\ p_enabled p' = p_enabled p.

  Lemma evolved_refl p : evolved p p.
  Proof. split; [exists []; rewrite app_nil_r; reflexivity | split; reflexivity]. Qed.

  Lemma evolved_incl p p' : evolved p p' -> incl (p_denoms p) (p_denoms p').
  Proof. intros [[ext E] _]. rewrite E. apply incl_appl, incl_refl. Qed.

  (** [old_or_new s s' P]: every denomination entry of [s'] is an entry of [s] or satisfies [P] *)
  Definition denoms_from (s s' : state) (Q : bytes -> Prop) : Prop :=
    forall d id', aget d (st_denom s') = Some id' -> (exists id0, aget d (st_denom s) = Some id0) \/ Q d.

  Definition nohex_if (d : bytes) : Prop := v_reject_hex v = true -> is_hex_address d = false.

  (** [keeps s s']: every pair of [s] is still there (possibly with more denominations) *)
  Definition keeps (s s' : state) : Prop :=
    forall id p, aget id (st_pairs s) = Some p -> exists id' p', aget id' (st_pairs s') = Some p' /\ evolved p p'.

  Lemma keeps_refl s : keeps s s.
  Proof. intros id p H. exists id, p. split; [exact H | apply evolved_refl]. Qed.

  Lemma keeps_fresh s s' nid np :
    st_pairs s' = aset nid np (st_pairs s) -> aget nid (st_pairs s) = None -> keeps s s'.
  Proof.
    intros E F id p H. exists id, p. split; [|apply evolved_refl]. rewrite E, aget_aset.
    destruct (bytes_eqb_spec id nid) as [->|N]; [congruence | exact H].
  Qed.

  Lemma register_coin_shape s md deploy sup s' :
    Inv s -> length deploy = 20%nat -> aget deploy (st_erc20 s) = None ->
    register_coin hid canon evm_denom v s md deploy sup = Ok s' ->
    keeps s s' /\ denoms_from s s' nohex_if /\ st_enable s' = st_enable s.
  Proof.
    intros I L Fr H. unfold register_coin in H.
    destruct (coin_checks evm_denom v s md sup) as [s1| |] eqn:Ec; cbn [obind] in H; try discriminate.
    destruct (md_units md) eqn:Eu; [discriminate|].
    assert (U : md_units md <> []) by (rewrite Eu; discriminate).
    destruct (coin_checks_ok _ _ _ _ I U Ec) as ((EP & EE & ED & EN) & G & HM & HB & HX).
    unfold store_new_pair in H. cbn [Registry.pair_id p_denoms p_text obind] in H. apply Ok_inj in H. subst s'.
    destruct I as [C F]. split; [|split].
    - eapply keeps_fresh; [cbn [st_pairs]; rewrite EP; reflexivity|].
      destruct (aget (hid (canon deploy) (md_base md)) (st_pairs s)) as [q|] eqn:Eq; [|reflexivity]. exfalso.
      destruct (c_pair _ _ _ C _ _ Eq) as ((_ & _ & Wq) & Iq & Eq' & _).
      apply pair_id_ok in Iq as (d0 & r & _ & X). apply (hid_inj _ _ _ _ (canon_hex _) Wq) in X as [X _].
      rewrite <- X, canon_addr in Eq' by exact L. congruence.
    - intros d id' Hd. cbn [st_denom] in Hd. rewrite aget_set_denoms in Hd. cbn [existsb] in Hd. rewrite orb_false_r in Hd.
      destruct (bytes_eqb_spec d (md_base md)) as [->|N]; [right; exact HX | left; rewrite ED in Hd; eauto].
    - cbn. exact EN.
  Qed.

  Lemma add_coin_shape s md contract sup s' :
    Inv s -> md_units md <> [] -> add_coin hid evm_denom v s md contract sup = Ok s' ->
    keeps s s' /\ denoms_from s s' nohex_if /\ st_enable s' = st_enable s.
  Proof.
    intros I U H. unfold add_coin in H.
    destruct (negb (is_hex_address contract)); [discriminate|].
    destruct (coin_checks evm_denom v s md sup) as [s1| |] eqn:Ec; cbn [obind] in H; try discriminate.
    destruct (coin_checks_ok _ _ _ _ I U Ec) as ((EP & EE & ED & EN) & G & HM & HB & HX).
    destruct (get_pair s1 (get0 (st_erc20 s1) (addr_of contract))) as [p|] eqn:Ep; [|discriminate].
    apply get_pair_some in Ep as [Ep _]. rewrite EP in Ep.
    set (id := get0 (st_erc20 s1) (addr_of contract)) in *.
    set (p' := {| p_text := p_text p; p_denoms := p_denoms p ++ [md_base md]; p_enabled := p_enabled p; p_owner := p_owner p |}) in *.
    destruct (Registry.pair_id hid p') as [id'| |] eqn:Ei; cbn [obind] in H; try discriminate.
    destruct (bytes_eqb_spec id id') as [<-|N]; cbn [negb] in H; [|discriminate].
    apply Ok_inj in H. subst s'. split; [|split].
    - intros i q Hq. cbn [st_pairs]. rewrite EP. destruct (bytes_eqb_spec i id) as [->|N].
      + exists id, p'. rewrite aget_aset, bytes_eqb_refl. split; [reflexivity|].
        rewrite Ep in Hq. inversion Hq; subst q. split; [exists [md_base md]; reflexivity | split; reflexivity].
      + exists i, q. rewrite aget_aset. destruct (bytes_eqb_spec i id); [contradiction|]. split; [exact Hq | apply evolved_refl].
    - intros d i Hd. cbn [st_denom] in Hd. rewrite aget_aset in Hd.
      destruct (bytes_eqb_spec d (md_base md)) as [->|N]; [right; exact HX | left; rewrite ED in Hd; eauto].
    - cbn. exact EN.
  Qed.

  Lemma register_erc20_shape s text q s' :
    Inv s -> register_erc20 hid canon s text q = Ok s' ->
    keeps s s' /\ denoms_from s s' nohex_if /\ st_enable s' = st_enable s.
  Proof.
    intros [C F] H. unfold register_erc20 in H.
    destruct (negb (st_enable s)); [discriminate|].
    destruct (ahas (addr_of text) (st_erc20 s)) eqn:Ea; [discriminate|]. apply ahas_false in Ea.
    destruct q as [q|]; [|discriminate].
    destruct (ahas (create_denom (canon (addr_of text))) (st_meta s)); [discriminate|].
    destruct (ahas (create_denom (canon (addr_of text))) (st_denom s)) eqn:Ed; [discriminate|].
    destruct (negb (metadata_validate (erc20_metadata (canon (addr_of text)) q))); [discriminate|].
    unfold store_new_pair in H. cbn [Registry.pair_id p_denoms p_text obind erc20_metadata md_name md_base] in H.
    apply Ok_inj in H. subst s'.
    set (a := addr_of text) in *. assert (L : length a = 20%nat) by apply addr_of_length.
    split; [|split].
    - eapply keeps_fresh; [cbn [st_pairs with_meta]; reflexivity|].
      destruct (aget (hid (canon a) (create_denom (canon a))) (st_pairs s)) as [x|] eqn:Eq; [|reflexivity]. exfalso.
      destruct (c_pair _ _ _ C _ _ Eq) as ((_ & _ & Wq) & Iq & Eq' & _).
      apply pair_id_ok in Iq as (d0 & r & _ & X). apply (hid_inj _ _ _ _ (canon_hex _) Wq) in X as [X _].
      rewrite <- X, canon_addr in Eq' by exact L. congruence.
    - intros d id' Hd. cbn [st_denom with_meta] in Hd. rewrite aget_set_denoms in Hd. cbn [existsb] in Hd. rewrite orb_false_r in Hd.
      destruct (bytes_eqb_spec d (create_denom (canon a))) as [->|N]; [right; intros _; apply create_denom_not_hex | left; eauto].
    - reflexivity.
  Qed.

  Lemma toggle_shape s token s' :
    Inv s -> toggle hid s token = Ok s' ->
    (forall id p, aget id (st_pairs s) = Some p -> id = get_token_pair_id s token \/ aget id (st_pairs s') = Some p) /\
    st_denom s' = st_denom s /\ st_enable s' = st_enable s.
  Proof.
    intros [C F] H. unfold toggle in H.
    destruct (get_token_pair_id s token) as [|b r] eqn:Eid; [discriminate|].
    destruct (get_pair s (b :: r)) as [p|] eqn:Ep; [|discriminate].
    apply get_pair_some in Ep as [Ep _].
    destruct (c_pair _ _ _ C _ _ Ep) as (W & Ip & _).
    unfold set_pair in H.
    set (p' := {| p_text := p_text p; p_denoms := p_denoms p; p_enabled := negb (p_enabled p); p_owner := p_owner p |}) in *.
    assert (Ip' : Registry.pair_id hid p' = Ok (b :: r)) by exact Ip.
    rewrite Ip' in H. cbn [obind] in H. apply Ok_inj in H. subst s'. split; [|split; reflexivity].
    intros id q Hq. cbn [st_pairs]. rewrite aget_aset. destruct (bytes_eqb_spec id (b :: r)) as [->|N]; [left; reflexivity | right; exact Hq].
  Qed.

  Lemma delete_pair_shape s idc p s' :
    Inv s -> aget idc (st_pairs s) = Some p -> delete_pair hid s p = Ok s' ->
    (forall id q, aget id (st_pairs s) = Some q -> id = idc \/ aget id (st_pairs s') = Some q) /\
    denoms_from s s' (fun _ => False) /\ st_enable s' = st_enable s.
  Proof.
    intros [C F] Ep H. destruct (c_pair _ _ _ C _ _ Ep) as (W & Ip & _).
    unfold delete_pair in H. rewrite Ip in H. cbn [obind] in H. apply Ok_inj in H. subst s'. split; [|split; [|reflexivity]].
    - intros id q Hq. cbn [st_pairs]. rewrite aget_adel. destruct (bytes_eqb_spec id idc) as [->|N]; [left; reflexivity | right; exact Hq].
    - intros d id' Hd. cbn [st_denom] in Hd. rewrite aget_del_denoms in Hd.
      destruct (existsb (bytes_eqb d) (p_denoms p)); [discriminate | left; eauto].
  Qed.

  Lemma update_pair_shape s old_text new_text q s' :
    v_reindex_all v = true -> v_update_guard v = true ->
    Inv s -> update_pair hid canon v s old_text new_text q = Ok s' ->
    keeps s s' /\ denoms_from s s' (fun _ => False) /\ st_enable s' = st_enable s.
  Proof.
    intros VR VG [C F] H. unfold update_pair in H. rewrite VR, VG in H.
    set (old := addr_of old_text) in *. set (new := addr_of new_text) in *.
    assert (L : length new = 20%nat) by apply addr_of_length.
    destruct (get0 (st_erc20 s) old) as [|b r] eqn:Eid; [discriminate|].
    cbn [andb] in H. destruct (ahas new (st_erc20 s)) eqn:En; [discriminate|]. apply ahas_false in En.
    destruct (get_pair s (b :: r)) as [p|] eqn:Ep; [|discriminate].
    apply get_pair_some in Ep as [Ep _]. set (id := b :: r) in *.
    destruct (c_pair _ _ _ C _ _ Ep) as (W & Ip & HE & HD).
    destruct (p_denoms p) as [|d0 ds] eqn:Eds; [discriminate|].
    destruct (aget d0 (st_meta s)) as [m|] eqn:Em; [|discriminate].
    destruct (md_units m) eqn:Eu; [discriminate|]. destruct q as [q|]; [|discriminate].
    match type of H with (if ?c then _ else _) = _ => destruct c; [discriminate|] end.
    match type of H with (if ?c then _ else _) = _ => destruct c; [discriminate|] end.
    unfold delete_pair in H. rewrite Ip in H. cbn [obind] in H.
    unfold Registry.pair_id in H. cbn [p_denoms p_text] in H. rewrite Eds in H. cbn [obind] in H.
    apply Ok_inj in H. subst s'.
    set (p' := {| p_text := canon new; p_denoms := d0 :: ds; p_enabled := p_enabled p; p_owner := p_owner p |}).
    split; [|split; [|reflexivity]].
    - intros i x Hx. cbn [st_pairs with_meta]. destruct (bytes_eqb_spec i id) as [->|N].
      + exists (hid (canon new) d0), p'. rewrite aget_aset, bytes_eqb_refl. split; [reflexivity|].
        rewrite Ep in Hx. inversion Hx; subst x. split; [exists []; rewrite app_nil_r, Eds; reflexivity | split; reflexivity].
      + exists i, x. split; [|apply evolved_refl]. rewrite aget_aset, aget_adel.
        destruct (bytes_eqb_spec i (hid (canon new) d0)) as [->|N2].
        * exfalso. destruct (c_pair _ _ _ C _ _ Hx) as ((_ & _ & Wq) & Iq & Eq' & _).
          apply pair_id_ok in Iq as (d1 & r1 & _ & Y). apply (hid_inj _ _ _ _ (canon_hex _) Wq) in Y as [Y _].
          rewrite <- Y, canon_addr in Eq' by exact L. congruence.
        * destruct (bytes_eqb_spec i id); [contradiction | exact Hx].
    - intros d i Hd. cbn [st_denom with_meta] in Hd. rewrite aget_set_denoms in Hd. left.
      destruct (existsb (bytes_eqb d) (d0 :: ds)) eqn:X.
      + apply existsb_eqb_In in X. exists id. exact (HD _ X).
      + rewrite aget_del_denoms in Hd. try rewrite Eds in Hd. rewrite X in Hd. eauto.
  Qed.

  (** * No registered denomination reads as a hex address (code that refuses such a base) *)

  Definition NoHex (s : state) : Prop := forall d id, aget d (st_denom s) = Some id -> is_hex_address d = false.

  Lemma nohex_from s s' Q : NoHex s -> denoms_from s s' Q -> (forall d, Q d -> is_hex_address d = false) -> NoHex s'.
  Proof. intros N Df HQ d id H. destruct (Df _ _ H) as [[id0 H0]|X]; [exact (N _ _ H0) | exact (HQ _ X)]. Qed.

  Lemma commit_prop (Q : state -> Prop) s r : Q s -> (forall s', r = Ok s' -> Q s') -> Q (fst (commit s r)).
  Proof. intros I H. destruct r; cbn; [apply H; reflexivity | exact I | exact I]. Qed.

  Lemma step_nohex s o :
    repaired -> v_reject_hex v = true -> Inv s -> NoHex s -> admissible s o -> NoHex (fst (step s o)).
  Proof.
    intros (VR & VG & VA & VD) VH I N A. unfold Registry.step.
    destruct (validate_basic o) eqn:VB; cbn [negb]; [|exact N].
    assert (HQ : forall d, nohex_if d -> is_hex_address d = false) by (intros d X; exact (X VH)).
    destruct o; cbn [admissible] in A.
    - destruct A as [L Fr]. apply commit_prop; [exact N|]. intros s' H.
      destruct (register_coin_shape _ _ _ _ _ I L Fr H) as (_ & Df & _). exact (nohex_from _ _ _ N Df HQ).
    - apply commit_prop; [exact N|]. intros s' H.
      assert (U : md_units md <> []).
      { cbn [validate_basic] in VB. unfold coin_vb in VB. rewrite !andb_true_iff in VB. apply metadata_validate_units. tauto. }
      destruct (add_coin_shape _ _ _ _ _ I U H) as (_ & Df & _). exact (nohex_from _ _ _ N Df HQ).
    - apply commit_prop; [exact N|]. intros s' H.
      destruct (register_erc20_shape _ _ _ _ I H) as (_ & Df & _). exact (nohex_from _ _ _ N Df HQ).
    - apply commit_prop; [exact N|]. intros s' H.
      destruct (toggle_shape _ _ _ I H) as (_ & Ed & _). intros d id Hd. rewrite Ed in Hd. exact (N _ _ Hd).
    - apply commit_prop; [exact N|]. intros s' H.
      destruct (update_pair_shape _ _ _ _ _ VR VG I H) as (_ & Df & _). apply (nohex_from _ _ _ N Df). intros ? [].
    - destruct (convert hid v s denom denom live) as [[s' cl]| |] eqn:E; try exact N. cbn [fst].
      unfold convert in E. destruct (minting_enabled v s denom denom) as [p| |] eqn:Em; try discriminate.
      + apply minting_enabled_ok in Em as (_ & _ & id & _ & _ & Ep & _).
        destruct (existsb (bytes_eqb (addr_of (p_text p))) live); [apply Ok_inj in E; inversion E; subst; exact N|].
        destruct (delete_pair hid s p) as [s1| |] eqn:Ed; cbn [obind] in E; try discriminate.
        apply Ok_inj in E. inversion E; subst.
        destruct (delete_pair_shape _ _ _ _ I Ep Ed) as (_ & Df & _). apply (nohex_from _ _ _ N Df). intros ? [].
      + apply Ok_inj in E; inversion E; subst; exact N.
    - destruct (convert hid v s contract denom live) as [[s' cl]| |] eqn:E; try exact N. cbn [fst].
      unfold convert in E. destruct (minting_enabled v s contract denom) as [p| |] eqn:Em; try discriminate.
      + apply minting_enabled_ok in Em as (_ & _ & id & _ & _ & Ep & _).
        destruct (existsb (bytes_eqb (addr_of (p_text p))) live); [apply Ok_inj in E; inversion E; subst; exact N|].
        destruct (delete_pair hid s p) as [s1| |] eqn:Ed; cbn [obind] in E; try discriminate.
        apply Ok_inj in E. inversion E; subst.
        destruct (delete_pair_shape _ _ _ _ I Ep Ed) as (_ & Df & _). apply (nohex_from _ _ _ N Df). intros ? [].
      + apply Ok_inj in E; inversion E; subst; exact N.
    - exact N.
    - destruct A as (EP & EE & ED & VT).
      set (s0 := set_metas s metas).
      assert (N0 : NoHex s0) by exact N.
      destruct (validate_genesis v [] [] pairs) as [[]| |] eqn:Ev; try exact N0.
      destruct I as [C _].
      destruct (init_genesis_cons pairs s0 [] [] VA VD Ev C) as (s' & Hs & _ & _ & _ & Hx).
      + intros a i Ha. cbn in Ha. rewrite EE in Ha. discriminate.
      + intros d i Hd. cbn in Hd. rewrite ED in Hd. discriminate.
      + rewrite Hs. cbn. exact (Hx VH N0).
    - exact N.
  Qed.

  (** * Resolution through the API *)

  (** every pair is found by its address text and by EACH of its denominations *)
  Lemma resolvable s id p :
    Consistent s -> NoHex s -> aget id (st_pairs s) = Some p ->
    get_token_pair_id s (p_text p) = id /\ forall d, In d (p_denoms p) -> get_token_pair_id s d = id.
  Proof.
    intros C N H. destruct (c_pair _ _ _ C _ _ H) as ((_ & _ & Wh) & _ & HE & HD). unfold get_token_pair_id. split.
    - rewrite Wh. apply get0_some. exact HE.
    - intros d Hd. rewrite (N _ _ (HD _ Hd)). apply get0_some. exact (HD _ Hd).
  Qed.

  (** MintingEnabled is sound: the denomination is listed by the returned pair, which is stored, enabled and
      is the pair the token resolves to *)
  Lemma minting_enabled_sound s token denom p :
    Consistent s -> v_mint_direct v = true -> minting_enabled v s token denom = Ok p ->
    st_enable s = true /\ p_enabled p = true /\ In denom (p_denoms p) /\
    exists id, aget id (st_pairs s) = Some p /\ get_token_pair_id s token = id.
  Proof.
    intros C VM H. apply minting_enabled_ok in H as (En & Ep & id & Ne & Et & Hp & Hd). rewrite VM in Hd.
    split; [exact En|]. split; [exact Ep|]. split; [|exists id; split; assumption].
    assert (Y : aget denom (st_denom s) = Some id).
    { destruct id as [|b r]; [contradiction|]. apply get0_cons. exact Hd. }
    destruct (c_denom _ _ _ C _ _ Y) as (q & Hq & Iq). rewrite Hp in Hq. inversion Hq; subst q. exact Iq.
  Qed.

  (** ... and complete: while the module and the pair are enabled, every listed denomination converts, in
      both directions (ConvertCoin passes the denomination twice, ConvertERC20 the contract and the denomination) *)
  Lemma minting_enabled_complete s id p d :
    Consistent s -> NoHex s -> st_enable s = true -> aget id (st_pairs s) = Some p -> p_enabled p = true ->
    In d (p_denoms p) ->
    minting_enabled v s d d = Ok p /\ minting_enabled v s (p_text p) d = Ok p.
  Proof.
    intros C N En Hp Ep Hd.
    destruct (resolvable _ _ _ C N Hp) as [Rt Rd]. specialize (Rd _ Hd).
    destruct (c_pair _ _ _ C _ _ Hp) as (_ & Ip & _ & HD). pose proof (pair_id_nonempty _ _ Ip) as Ne.
    assert (G : get0 (st_denom s) d = id) by (apply get0_some; exact (HD _ Hd)).
    assert (GP : get_pair s id = Some p) by (apply get_pair_of; assumption).
    unfold minting_enabled. rewrite En. cbn [negb]. rewrite Rt, Rd, G.
    assert (X : (if v_mint_direct v then id else id) = id) by (destruct (v_mint_direct v); reflexivity).
    rewrite X, bytes_eqb_refl. cbn [negb]. rewrite GP, Ep.
    destruct id; [contradiction|]. split; reflexivity.
  Qed.

  (** * Convert back *)

  (** the operation explicitly removes or disables the pair stored under [id] (or the whole module) *)
  Definition explicit (s : state) (o : op) (id : bytes) : Prop :=
    match o with
    | OToggle t => get_token_pair_id s t = id
    | OSetEnable b => b = false
    | OConvertCoin d live =>
        exists p, minting_enabled v s d d = Ok p /\ pair_id p = Ok id /\ existsb (bytes_eqb (addr_of (p_text p))) live = false
    | OConvertERC20 c d live =>
        exists p, minting_enabled v s c d = Ok p /\ pair_id p = Ok id /\ existsb (bytes_eqb (addr_of (p_text p))) live = false
    | _ => False
    end.

  Lemma convert_tracks s token denom live s' cl id p :
    Inv s -> convert hid v s token denom live = Ok (s', cl) -> aget id (st_pairs s) = Some p ->
    (exists q, minting_enabled v s token denom = Ok q /\ pair_id q = Ok id /\ existsb (bytes_eqb (addr_of (p_text q))) live = false) \/
    (aget id (st_pairs s') = Some p /\ st_enable s' = st_enable s).
  Proof.
    intros I E Hp. unfold convert in E. destruct (minting_enabled v s token denom) as [q| |] eqn:Em; try discriminate.
    - pose proof Em as Em'. apply minting_enabled_ok in Em' as (_ & _ & idq & _ & _ & Eq & _).
      destruct (existsb (bytes_eqb (addr_of (p_text q))) live) eqn:El; [apply Ok_inj in E; inversion E; subst; right; split; [exact Hp | reflexivity]|].
      destruct (delete_pair hid s q) as [s1| |] eqn:Ed; cbn [obind] in E; try discriminate.
      apply Ok_inj in E. inversion E; subst.
      destruct (delete_pair_shape _ _ _ _ I Eq Ed) as (T & _ & En). destruct (T _ _ Hp) as [->|K].
      + left. exists q. split; [reflexivity|]. split; [|exact El]. destruct I as [C _]. exact (proj1 (proj2 (c_pair _ _ _ C _ _ Eq))).
      + right. split; assumption.
    - apply Ok_inj in E; inversion E; subst. right; split; [exact Hp | reflexivity].
  Qed.

  (** every pair survives every operation (possibly with more denominations, a new address and id) unless
      the operation explicitly toggles it or cleans it up after a self-destruct; the module stays enabled
      unless it is explicitly disabled *)
  Lemma step_tracks s o id p :
    repaired -> Inv s -> admissible s o -> aget id (st_pairs s) = Some p ->
    explicit s o id \/
    (exists id' p', aget id' (st_pairs (fst (step s o))) = Some p' /\ evolved p p') /\
    (st_enable s = true -> st_enable (fst (step s o)) = true).
  Proof.
    intros (VR & VG & VA & VD) I A Hp. unfold Registry.step.
    assert (Same : (exists id' p', aget id' (st_pairs s) = Some p' /\ evolved p p') /\ (st_enable s = true -> st_enable s = true)).
    { split; [exists id, p; split; [exact Hp | apply evolved_refl] | tauto]. }
    destruct (validate_basic o) eqn:VB; cbn [negb]; [|right; exact Same].
    assert (K : forall r, (forall s', r = Ok s' -> keeps s s' /\ st_enable s' = st_enable s) ->
                (exists id' p', aget id' (st_pairs (fst (commit s r))) = Some p' /\ evolved p p') /\
                (st_enable s = true -> st_enable (fst (commit s r)) = true)).
    { intros r Hr. destruct r as [s'| |]; cbn [commit fst]; try exact Same.
      destruct (Hr s' eq_refl) as [Kp En]. split; [exact (Kp _ _ Hp) | rewrite En; tauto]. }
    destruct o; cbn [admissible explicit] in *.
    - right. destruct A as [L Fr]. apply K. intros s' H. destruct (register_coin_shape _ _ _ _ _ I L Fr H) as (X & _ & Y). split; assumption.
    - right. apply K. intros s' H.
      assert (U : md_units md <> []).
      { cbn [validate_basic] in VB. unfold coin_vb in VB. rewrite !andb_true_iff in VB. apply metadata_validate_units. tauto. }
      destruct (add_coin_shape _ _ _ _ _ I U H) as (X & _ & Y). split; assumption.
    - right. apply K. intros s' H. destruct (register_erc20_shape _ _ _ _ I H) as (X & _ & Y). split; assumption.
    - destruct (toggle hid s token) as [s'| |] eqn:H; cbn [commit fst]; try (right; exact Same).
      destruct (toggle_shape _ _ _ I H) as (T & _ & En). destruct (T _ _ Hp) as [->|Kp]; [left; reflexivity | right].
      split; [exists id, p; split; [exact Kp | apply evolved_refl] | rewrite En; tauto].
    - right. apply K. intros s' H. destruct (update_pair_shape _ _ _ _ _ VR VG I H) as (X & _ & Y). split; assumption.
    - destruct (convert hid v s denom denom live) as [[s' cl]| |] eqn:E; cbn [fst]; try (right; exact Same).
      destruct (convert_tracks _ _ _ _ _ _ _ _ I E Hp) as [X|[Kp En]]; [left; exact X | right].
      split; [exists id, p; split; [exact Kp | apply evolved_refl] | rewrite En; tauto].
    - destruct (convert hid v s contract denom live) as [[s' cl]| |] eqn:E; cbn [fst]; try (right; exact Same).
      destruct (convert_tracks _ _ _ _ _ _ _ _ I E Hp) as [X|[Kp En]]; [left; exact X | right].
      split; [exists id, p; split; [exact Kp | apply evolved_refl] | rewrite En; tauto].
    - destruct b; [right | left; reflexivity]. cbn [fst st_pairs st_enable]. split; [exists id, p; split; [exact Hp | apply evolved_refl] | tauto].
    - destruct A as (EP & _). rewrite EP in Hp. discriminate.
    - right. exact Same.
  Qed.

  (** a denomination that converts before an operation still converts after it, through the evolved pair,
      unless the operation explicitly removed / disabled that pair (or the module) *)
  Lemma convert_back_possible s o d p id :
    repaired -> v_reject_hex v = true -> v_mint_direct v = true -> Inv s -> NoHex s -> admissible s o ->
    minting_enabled v s d d = Ok p -> pair_id p = Ok id ->
    explicit s o id \/
    exists p', minting_enabled v (fst (step s o)) d d = Ok p' /\ evolved p p'.
  Proof.
    intros R VH VM I N A H Ip.
    pose proof (step_inv _ _ R I A) as [C' _]. pose proof (step_nohex _ _ R VH I N A) as N'.
    destruct I as [C F].
    assert (X : st_enable s = true /\ p_enabled p = true /\ aget id (st_pairs s) = Some p /\ In d (p_denoms p)).
    { apply minting_enabled_ok in H as (En & Ep & i & Ne & Et & Hp & Hd).
      destruct (c_pair _ _ _ C _ _ Hp) as (_ & Ii & _).
      assert (Ei : i = id) by (rewrite Ip in Ii; inversion Ii; reflexivity). rewrite Ei in *. clear Ei Ii.
      split; [exact En|]. split; [exact Ep|]. split; [exact Hp|].
      assert (Y : aget d (st_denom s) = Some id).
      { rewrite VM in Hd. destruct id as [|b r]; [exfalso; apply Ne; reflexivity|]. apply get0_cons; exact Hd. }
      destruct (c_denom _ _ _ C _ _ Y) as (q & Hq & Iq). rewrite Hp in Hq. inversion Hq; subst q. exact Iq. }
    destruct X as (En & Ep & Hp & Hd).
    destruct (step_tracks _ o _ _ R (conj C F) A Hp) as [E|[(id' & p' & Hp' & Ev) En']]; [left; exact E | right].
    exists p'. split; [|exact Ev]. pose proof (evolved_incl _ _ Ev) as Inc. destruct Ev as (_ & _ & Een).
    apply (minting_enabled_complete _ id'); try assumption; [apply En'; exact En | rewrite Een; exact Ep | apply Inc; exact Hd].
  Qed.

  (** * The executable monitor [consistent_b] decides [Consistent] *)

  Lemma nodup_b_spec l : nodup_b l = true <-> NoDup l.
  Proof.
    induction l as [|x l IH]; cbn; [split; [constructor | reflexivity]|].
    rewrite andb_true_iff, negb_true_iff, IH, existsb_eqb_nIn. split.
    - intros [A B0]. constructor; assumption.
    - intro H. inversion H; subst. split; assumption.
  Qed.

  Lemma pair_ok_spec s id p :
    pair_ok hid s id p = true <->
    (pair_wf p /\ pair_id p = Ok id /\ aget (addr_of (p_text p)) (st_erc20 s) = Some id /\
     (forall d, In d (p_denoms p) -> aget d (st_denom s) = Some id)).
  Proof.
    unfold pair_ok, pair_wf, Registry.pair_id. destruct (p_denoms p) as [|d0 ds] eqn:Eds.
    - split; [discriminate | intros ((X & _) & _); contradiction].
    - rewrite !andb_true_iff, nodup_b_spec, bytes_eqb_eq, forallb_forall. split.
      + intros ((((ND & Hx) & Ei) & He) & Hd). subst id. split; [split; [discriminate | split; assumption]|]. split; [reflexivity|]. split.
        * destruct (aget (addr_of (p_text p)) (st_erc20 s)); [apply bytes_eqb_eq in He; subst; reflexivity | discriminate].
        * intros d I0. specialize (Hd _ I0). destruct (aget d (st_denom s)); [apply bytes_eqb_eq in Hd; subst; reflexivity | discriminate].
      + intros ((_ & ND & Hx) & Ei & He & Hd). inversion Ei; subst id. repeat split; try assumption.
        * rewrite He. apply bytes_eqb_refl.
        * intros d I0. rewrite (Hd _ I0). apply bytes_eqb_refl.
  Qed.

  Lemma consistent_b_sound s : consistent_b hid s = true -> Consistent s.
  Proof.
    unfold consistent_b. rewrite !andb_true_iff, !forallb_forall. intros [[HP HE] HD]. split.
    - intros id p H. specialize (HP _ (aget_in_keys _ _ _ H)). rewrite H in HP. apply pair_ok_spec in HP. exact HP.
    - intros a id H. specialize (HE _ (aget_in_keys _ _ _ H)). rewrite H in HE.
      destruct (aget id (st_pairs s)) as [p|]; [|discriminate]. exists p. split; [reflexivity | apply bytes_eqb_eq; exact HE].
    - intros d id H. specialize (HD _ (aget_in_keys _ _ _ H)). rewrite H in HD.
      destruct (aget id (st_pairs s)) as [p|]; [|discriminate]. exists p. split; [reflexivity | apply existsb_eqb_In; exact HD].
  Qed.

  Lemma consistent_b_complete s : Consistent s -> consistent_b hid s = true.
  Proof.
    intro C. unfold consistent_b. rewrite !andb_true_iff, !forallb_forall. split; [split|].
    - intros id _. destruct (aget id (st_pairs s)) as [p|] eqn:H; [|reflexivity]. apply pair_ok_spec. exact (c_pair _ _ _ C _ _ H).
    - intros a _. destruct (aget a (st_erc20 s)) as [id|] eqn:H; [|reflexivity].
      destruct (c_erc20 _ _ _ C _ _ H) as (p & Hp & A). rewrite Hp. apply bytes_eqb_eq. exact A.
    - intros d _. destruct (aget d (st_denom s)) as [id|] eqn:H; [|reflexivity].
      destruct (c_denom _ _ _ C _ _ H) as (p & Hp & I0). rewrite Hp. apply existsb_eqb_In. exact I0.
  Qed.

  Lemma nohex_b_spec s : nohex_b s = true <-> NoHex s.
  Proof.
    unfold nohex_b, NoHex. rewrite forallb_forall. split.
    - intros H d id Hd. specialize (H _ (aget_in_keys _ _ _ Hd)). apply negb_true_iff in H. exact H.
    - intros H d Hd. apply negb_true_iff. apply in_map_iff in Hd as [[k x] [<- Hin]]. cbn.
      destruct (aget k (st_denom s)) eqn:E; [exact (H _ _ E)|].
      exfalso. clear - E Hin. induction (st_denom s) as [|[k' v'] l IH]; [destruct Hin|].
      cbn in E. destruct (bytes_eqb_spec k k') as [->|N]; [discriminate|].
      destruct Hin as [X|X]; [inversion X; congruence | exact (IH X E)].
  Qed.

End Proofs.

(** * The statements about the code at /repo HEAD ([head]) *)
Section Head.
  Variable hid : bytes -> bytes -> bytes.
  Variable canon : bytes -> bytes.
  Variable evm_denom : bytes.
  Hypothesis hid_inj : forall t d t' d', is_hex_address t = true -> is_hex_address t' = true -> hid t d = hid t' d' -> t = t' /\ d = d'.
  Hypothesis hid_nonempty : forall t d, hid t d <> [].
  Hypothesis canon_hex : forall a, is_hex_address (canon a) = true.
  Hypothesis canon_addr : forall a, length a = 20%nat -> addr_of (canon a) = a.

  Notation step := (step hid canon evm_denom head).
  Notation run := (run hid canon evm_denom head).
  Notation admissible := (admissible head).
  Notation admissible_run := (admissible_run hid canon evm_denom head).

  (** self-consistent, and no registered denomination reads as a hex address *)
  Definition Good (s : state) : Prop := Consistent hid s /\ NoHex s.

  Lemma head_repaired : repaired head.
  Proof. repeat split. Qed.

  Lemma good_inv s : Good s -> Inv hid head s.
  Proof. intros [C _]. split; [exact C | left; reflexivity]. Qed.

  Lemma good_empty : Good empty_state.
  Proof. split; [apply consistent_empty | intros d id H; discriminate]. Qed.

  Lemma step_good s o : Good s -> admissible s o -> Good (fst (step s o)).
  Proof.
    intros G A. split.
    - exact (proj1 (step_inv hid canon evm_denom hid_inj canon_hex canon_addr head s o head_repaired (good_inv _ G) A)).
    - exact (step_nohex hid canon evm_denom hid_inj canon_hex canon_addr head s o head_repaired eq_refl (good_inv _ G) (proj2 G) A).
  Qed.

  Lemma registry_consistent os : forall s, Good s -> admissible_run s os -> Good (run s os).
  Proof.
    induction os as [|o r IH]; intros s G A; cbn; [exact G|].
    destruct A as [A1 A2]. apply IH; [apply step_good; assumption | exact A2].
  Qed.

  Lemma registry_consistent_from_empty os : admissible_run empty_state os -> Good (run empty_state os).
  Proof. apply registry_consistent. exact good_empty. Qed.

  (** the code with the pinned [Name] test (but the repaired update and genesis validation): consistency is
      preserved together with "a registered denomination has bank metadata" *)
  Lemma registry_consistent_masked v os s :
    repaired v -> v_test_base v = false ->
    Consistent hid s -> MetaInv s -> Registry.admissible_run hid canon evm_denom v s os ->
    Consistent hid (Registry.run hid canon evm_denom v s os) /\ MetaInv (Registry.run hid canon evm_denom v s os).
  Proof.
    intros R VT C M A.
    destruct (run_inv hid canon evm_denom hid_inj canon_hex canon_addr v os s R (conj C (or_intror M)) A) as [C' [F|F]].
    - congruence.
    - split; assumption.
  Qed.

  Lemma no_denom_in_two_pairs_head s id1 p1 id2 p2 d :
    Good s -> aget id1 (st_pairs s) = Some p1 -> aget id2 (st_pairs s) = Some p2 ->
    In d (p_denoms p1) -> In d (p_denoms p2) -> id1 = id2 /\ p1 = p2.
  Proof.
    intros [C _] H1 H2 I1 I2. assert (E : id1 = id2) by exact (no_denom_in_two_pairs hid _ _ _ _ _ _ _ _ C H1 H2 I1 I2).
    split; [exact E | congruence].
  Qed.

  Lemma no_contract_in_two_pairs_head s id1 p1 id2 p2 :
    Good s -> aget id1 (st_pairs s) = Some p1 -> aget id2 (st_pairs s) = Some p2 ->
    addr_of (p_text p1) = addr_of (p_text p2) -> id1 = id2 /\ p1 = p2.
  Proof.
    intros [C _] H1 H2 A. assert (E : id1 = id2) by exact (no_address_in_two_pairs hid _ _ _ _ _ _ _ C H1 H2 A).
    split; [exact E | congruence].
  Qed.

  Lemma index_entries_point_to_pairs s :
    Good s ->
    (forall a id, aget a (st_erc20 s) = Some id -> exists p, aget id (st_pairs s) = Some p /\ addr_of (p_text p) = a) /\
    (forall d id, aget d (st_denom s) = Some id -> exists p, aget id (st_pairs s) = Some p /\ In d (p_denoms p)).
  Proof. intros [C _]. split; [exact (c_erc20 _ _ _ _ C) | exact (c_denom _ _ _ _ C)]. Qed.

  Lemma resolvable_head s id p :
    Good s -> aget id (st_pairs s) = Some p ->
    pair_id hid p = Ok id /\ get_token_pair_id s (p_text p) = id /\ forall d, In d (p_denoms p) -> get_token_pair_id s d = id.
  Proof.
    intros [C N] H. destruct (resolvable hid s id p C N H) as [A B0].
    split; [exact (proj1 (proj2 (c_pair _ _ _ _ C _ _ H))) | split; assumption].
  Qed.

  Lemma minting_enabled_sound_head s token denom p :
    Good s -> minting_enabled head s token denom = Ok p ->
    st_enable s = true /\ p_enabled p = true /\ In denom (p_denoms p) /\
    exists id, aget id (st_pairs s) = Some p /\ get_token_pair_id s token = id.
  Proof. intros [C _]. apply (minting_enabled_sound hid head s token denom p C eq_refl). Qed.

  Lemma minting_enabled_complete_head s id p d :
    Good s -> st_enable s = true -> aget id (st_pairs s) = Some p -> p_enabled p = true -> In d (p_denoms p) ->
    minting_enabled head s d d = Ok p /\ minting_enabled head s (p_text p) d = Ok p.
  Proof. intros [C N]. apply (minting_enabled_complete hid hid_nonempty head s id p d C N). Qed.

  Lemma convert_back_possible_head s o d p id :
    Good s -> admissible s o -> minting_enabled head s d d = Ok p -> pair_id hid p = Ok id ->
    explicit hid head s o id \/
    exists p', minting_enabled head (fst (step s o)) d d = Ok p' /\ evolved p p'.
  Proof.
    intros G A. apply (convert_back_possible hid canon evm_denom hid_inj hid_nonempty canon_hex canon_addr head s o d p id
                         head_repaired eq_refl eq_refl (good_inv _ G) (proj2 G) A).
  Qed.

  (** a genesis accepted by [Validate] imports into a self-consistent registry *)
  Lemma genesis_consistent ps :
    validate_genesis head [] [] ps = Ok tt ->
    exists s', init_genesis hid empty_state ps = Ok s' /\ Good s'.
  Proof.
    intro H.
    destruct (init_genesis_cons hid hid_inj head ps empty_state [] [] eq_refl eq_refl H (consistent_empty hid)) as (s' & Hs & C & _ & _ & Hx).
    - intros a id X. discriminate.
    - intros d id X. discriminate.
    - exists s'. split; [exact Hs|]. split; [exact C|]. refine (Hx eq_refl _). intros d id X. discriminate.
  Qed.

  (** the executable monitors accept every state the model can reach *)
  Lemma monitor_accepts_model os s :
    Good s -> admissible_run s os -> consistent_b hid (run s os) = true /\ nohex_b (run s os) = true.
  Proof.
    intros G A. destruct (registry_consistent os s G A) as [C N].
    split; [apply consistent_b_complete; exact C | apply nohex_b_spec; exact N].
  Qed.

  Lemma monitor_decides s : consistent_b hid s = true /\ nohex_b s = true <-> Good s.
  Proof.
    split.
    - intros [A B0]. split; [apply consistent_b_sound; exact A | apply nohex_b_spec; exact B0].
    - intros [C N]. split; [apply consistent_b_complete; exact C | apply nohex_b_spec; exact N].
  Qed.
End Head.
