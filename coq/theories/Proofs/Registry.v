(** Proofs for C12: the token-pair registry stays self-consistent under every operation. *)
From Teleport Require Import Base.Bytes Base.Outcome Base.AList Model.Registry Model.RegistryCheck Proofs.RegistryMap.

Section Proofs.
  Variable hid : bytes -> bytes -> bytes.
  Variable canon : bytes -> bytes.
  Variable evm_denom : bytes.

  (** Assumed behaviour of the external functions. *)
  Hypothesis hid_inj : forall t d t' d', hid t d = hid t' d' -> t = t' /\ d = d'.
  Hypothesis hid_nonempty : forall t d, hid t d <> [].
  Hypothesis canon_hex : forall a, is_hex_address (canon a) = true.
  Hypothesis canon_addr : forall a, length a = 20%nat -> addr_of (canon a) = a.

  Notation pair_id := (pair_id hid).

  (** * The invariant *)

  Definition pair_wf (p : pair) : Prop :=
    p_denoms p <> [] /\ NoDup (p_denoms p) /\ is_hex_address (p_text p) = true.

  (** [Cons P E D]: every pair is stored under its GetID and is reachable by its address and by EACH of
      its denominations; every index entry points to an existing pair that lists it. *)
  Record Cons (P : alist pair) (E D : alist bytes) : Prop := {
    c_pair : forall id p, aget id P = Some p ->
      pair_wf p /\ pair_id p = Ok id /\ aget (addr_of (p_text p)) E = Some id /\
      (forall d, In d (p_denoms p) -> aget d D = Some id);
    c_erc20 : forall a id, aget a E = Some id -> exists p, aget id P = Some p /\ addr_of (p_text p) = a;
    c_denom : forall d id, aget d D = Some id -> exists p, aget id P = Some p /\ In d (p_denoms p) }.

  Definition Consistent (s : state) : Prop := Cons (st_pairs s) (st_erc20 s) (st_denom s).

  Lemma consistent_empty : Consistent empty_state.
  Proof. split; cbn; intros; discriminate. Qed.

  Lemma pair_id_ok p id : pair_id p = Ok id -> exists d0 r, p_denoms p = d0 :: r /\ id = hid (p_text p) d0.
  Proof.
    unfold Registry.pair_id. destruct (p_denoms p) as [|d0 r]; [discriminate|].
    intro H. inversion H. exists d0, r. split; reflexivity.
  Qed.

  Lemma pair_id_nonempty p id : pair_id p = Ok id -> id <> [].
  Proof. intro H. apply pair_id_ok in H as (d0 & r & _ & ->). apply hid_nonempty. Qed.

  Lemma pair_id_inj p q id : pair_id p = Ok id -> pair_id q = Ok id -> p_text p = p_text q.
  Proof.
    intros Hp Hq. apply pair_id_ok in Hp as (d0 & r & _ & ->). apply pair_id_ok in Hq as (d1 & r1 & _ & E).
    apply hid_inj in E. tauto.
  Qed.

  (** No denomination and no contract belongs to two pairs. *)
  Lemma no_denom_in_two_pairs P E D id1 p1 id2 p2 d :
    Cons P E D -> aget id1 P = Some p1 -> aget id2 P = Some p2 -> In d (p_denoms p1) -> In d (p_denoms p2) -> id1 = id2.
  Proof.
    intros C H1 H2 I1 I2.
    destruct (c_pair _ _ _ C _ _ H1) as (_ & _ & _ & D1). destruct (c_pair _ _ _ C _ _ H2) as (_ & _ & _ & D2).
    specialize (D1 _ I1). specialize (D2 _ I2). congruence.
  Qed.

  Lemma no_address_in_two_pairs P E D id1 p1 id2 p2 :
    Cons P E D -> aget id1 P = Some p1 -> aget id2 P = Some p2 -> addr_of (p_text p1) = addr_of (p_text p2) -> id1 = id2.
  Proof.
    intros C H1 H2 A.
    destruct (c_pair _ _ _ C _ _ H1) as (_ & _ & E1 & _). destruct (c_pair _ _ _ C _ _ H2) as (_ & _ & E2 & _).
    rewrite A in E1. congruence.
  Qed.

  (** * The four ways the code changes the maps *)

  (** a pair that is new in every respect is stored with all its index entries *)
  Lemma cons_add P E D id p :
    Cons P E D -> pair_wf p -> pair_id p = Ok id ->
    aget id P = None -> aget (addr_of (p_text p)) E = None -> (forall d, In d (p_denoms p) -> aget d D = None) ->
    Cons (aset id p P) (aset (addr_of (p_text p)) id E) (set_denoms D (p_denoms p) id).
  Proof.
    intros C W I HP HE HD. split.
    - intros id' p' H. rewrite aget_aset in H. destruct (bytes_eqb_spec id' id) as [->|N].
      + inversion H; subst p'. repeat split; try apply W; try exact I.
        * rewrite aget_aset, bytes_eqb_refl. reflexivity.
        * intros d Hd. rewrite aget_set_denoms. apply existsb_eqb_In in Hd. rewrite Hd. reflexivity.
      + destruct (c_pair _ _ _ C _ _ H) as (W' & I' & E' & D'). repeat split; try apply W'; try exact I'.
        * rewrite aget_aset. destruct (bytes_eqb_spec (addr_of (p_text p')) (addr_of (p_text p))) as [A|A]; [|exact E'].
          rewrite A in E'. congruence.
        * intros d Hd. rewrite aget_set_denoms. destruct (existsb (bytes_eqb d) (p_denoms p)) eqn:X; [|apply D'; exact Hd].
          apply existsb_eqb_In in X. specialize (HD _ X). specialize (D' _ Hd). congruence.
    - intros a id' H. rewrite aget_aset in H. destruct (bytes_eqb_spec a (addr_of (p_text p))) as [->|N].
      + inversion H; subst id'. exists p. rewrite aget_aset, bytes_eqb_refl. split; reflexivity.
      + destruct (c_erc20 _ _ _ C _ _ H) as (p0 & H0 & A0). exists p0. split; [|exact A0].
        rewrite aget_aset. destruct (bytes_eqb_spec id' id) as [->|N']; [congruence | exact H0].
    - intros d id' H. rewrite aget_set_denoms in H. destruct (existsb (bytes_eqb d) (p_denoms p)) eqn:X.
      + inversion H; subst id'. exists p. rewrite aget_aset, bytes_eqb_refl. split; [reflexivity | apply existsb_eqb_In; exact X].
      + destruct (c_denom _ _ _ C _ _ H) as (p0 & H0 & I0). exists p0. split; [|exact I0].
        rewrite aget_aset. destruct (bytes_eqb_spec id' id) as [->|N']; [congruence | exact H0].
  Qed.

  (** DeleteTokenPair of a stored pair removes it with all its index entries *)
  Lemma cons_remove P E D id p :
    Cons P E D -> aget id P = Some p ->
    Cons (adel id P) (adel (addr_of (p_text p)) E) (del_denoms D (p_denoms p)).
  Proof.
    intros C H. destruct (c_pair _ _ _ C _ _ H) as (W & I & HE & HD). split.
    - intros id' p' H'. rewrite aget_adel in H'. destruct (bytes_eqb_spec id' id) as [->|N]; [discriminate|].
      destruct (c_pair _ _ _ C _ _ H') as (W' & I' & E' & D'). repeat split; try apply W'; try exact I'.
      + rewrite aget_adel. destruct (bytes_eqb_spec (addr_of (p_text p')) (addr_of (p_text p))) as [A|A]; [|exact E'].
        rewrite A in E'. congruence.
      + intros d Hd. rewrite aget_del_denoms. destruct (existsb (bytes_eqb d) (p_denoms p)) eqn:X; [|apply D'; exact Hd].
        apply existsb_eqb_In in X. specialize (HD _ X). specialize (D' _ Hd). congruence.
    - intros a id' H'. rewrite aget_adel in H'. destruct (bytes_eqb_spec a (addr_of (p_text p))) as [->|N]; [discriminate|].
      destruct (c_erc20 _ _ _ C _ _ H') as (p0 & H0 & A0). exists p0. split; [|exact A0].
      rewrite aget_adel. destruct (bytes_eqb_spec id' id) as [->|N']; [|exact H0].
      rewrite H in H0. inversion H0; subst p0. congruence.
    - intros d id' H'. rewrite aget_del_denoms in H'. destruct (existsb (bytes_eqb d) (p_denoms p)) eqn:X; [discriminate|].
      destruct (c_denom _ _ _ C _ _ H') as (p0 & H0 & I0). exists p0. split; [|exact I0].
      rewrite aget_adel. destruct (bytes_eqb_spec id' id) as [->|N']; [|exact H0].
      rewrite H in H0. inversion H0; subst p0. apply existsb_eqb_nIn in X. contradiction.
  Qed.

  (** SetTokenPair of a pair that differs from the stored one only in [Enabled] *)
  Lemma cons_replace P E D id p p' :
    Cons P E D -> aget id P = Some p -> p_text p' = p_text p -> p_denoms p' = p_denoms p ->
    Cons (aset id p' P) E D.
  Proof.
    intros C H T Ds. destruct (c_pair _ _ _ C _ _ H) as (W & I & HE & HD). split.
    - intros id' q H'. rewrite aget_aset in H'. destruct (bytes_eqb_spec id' id) as [->|N].
      + inversion H'; subst q. unfold pair_wf, Registry.pair_id. rewrite T, Ds. exact (conj W (conj I (conj HE HD))).
      + apply (c_pair _ _ _ C _ _ H').
    - intros a id' H'. destruct (c_erc20 _ _ _ C _ _ H') as (p0 & H0 & A0).
      rewrite aget_aset. destruct (bytes_eqb_spec id' id) as [->|N].
      + exists p'. split; [reflexivity|]. rewrite H in H0. inversion H0; subst p0. rewrite T. exact A0.
      + exists p0. split; assumption.
    - intros d id' H'. destruct (c_denom _ _ _ C _ _ H') as (p0 & H0 & I0).
      rewrite aget_aset. destruct (bytes_eqb_spec id' id) as [->|N].
      + exists p'. split; [reflexivity|]. rewrite H in H0. inversion H0; subst p0. rewrite Ds. exact I0.
      + exists p0. split; assumption.
  Qed.

  Lemma NoDup_snoc (l : list bytes) b : NoDup l -> ~ In b l -> NoDup (l ++ [b]).
  Proof.
    induction l as [|x l IH]; cbn; intros ND NI.
    - constructor; [intros [] | constructor].
    - inversion ND; subst. constructor.
      + rewrite in_app_iff. cbn. intros [X|[X|[]]]; [contradiction | subst; apply NI; left; reflexivity].
      + apply IH; [assumption | intro X; apply NI; right; exact X].
  Qed.

  (** AddCoin: one more denomination, not registered so far *)
  Lemma cons_add_denom P E D id p p' b :
    Cons P E D -> aget id P = Some p -> p_text p' = p_text p -> p_denoms p' = p_denoms p ++ [b] -> aget b D = None ->
    Cons (aset id p' P) E (aset b id D).
  Proof.
    intros C H T Ds HB. destruct (c_pair _ _ _ C _ _ H) as ((Wne & Wnd & Wh) & I & HE & HD).
    assert (NB : ~ In b (p_denoms p)) by (intro X; specialize (HD _ X); congruence).
    split.
    - intros id' q H'. rewrite aget_aset in H'. destruct (bytes_eqb_spec id' id) as [->|N].
      + inversion H'; subst q. split; [|split; [|split]].
        * unfold pair_wf. rewrite T, Ds. split; [|split; [|exact Wh]].
          -- destruct (p_denoms p); discriminate.
          -- apply NoDup_snoc; assumption.
        * unfold Registry.pair_id in *. rewrite T, Ds. destruct (p_denoms p); [contradiction | exact I].
        * rewrite T. exact HE.
        * intros d Hd. rewrite Ds, in_app_iff in Hd. rewrite aget_aset. destruct (bytes_eqb_spec d b) as [->|Nb]; [reflexivity|].
          destruct Hd as [Hd|[Hd|[]]]; [apply HD; exact Hd | congruence].
      + destruct (c_pair _ _ _ C _ _ H') as (W' & I' & E' & D'). repeat split; try apply W'; try exact I'; try exact E'.
        intros d Hd. rewrite aget_aset. destruct (bytes_eqb_spec d b) as [->|Nb]; [|apply D'; exact Hd].
        specialize (D' _ Hd). congruence.
    - intros a id' H'. destruct (c_erc20 _ _ _ C _ _ H') as (p0 & H0 & A0).
      rewrite aget_aset. destruct (bytes_eqb_spec id' id) as [->|N].
      + exists p'. split; [reflexivity|]. rewrite H in H0. inversion H0; subst p0. rewrite T. exact A0.
      + exists p0. split; assumption.
    - intros d id' H'. rewrite aget_aset in H'. destruct (bytes_eqb_spec d b) as [->|Nb].
      + inversion H'; subst id'. exists p'. rewrite aget_aset, bytes_eqb_refl. split; [reflexivity|].
        rewrite Ds, in_app_iff. right. left. reflexivity.
      + destruct (c_denom _ _ _ C _ _ H') as (p0 & H0 & I0).
        rewrite aget_aset. destruct (bytes_eqb_spec id' id) as [->|N].
        * exists p'. split; [reflexivity|]. rewrite H in H0. inversion H0; subst p0. rewrite Ds, in_app_iff. left. exact I0.
        * exists p0. split; assumption.
  Qed.

End Proofs.
