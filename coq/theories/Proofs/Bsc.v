(** Single-step facts about the BSC client model: what an accepted header
    satisfies, and the exact state after an accepted update. *)
From Teleport Require Import Base.Bytes Base.Outcome Model.Bsc Proofs.BscBase.
From Coq Require Import ZifyN ZifyNat.
Local Open Scope N_scope.

Ltac brk H :=
  match type of H with
  | (if ?c then _ else _) = _ => let E := fresh "E" in destruct c eqn:E; try discriminate H
  | match ?c with _ => _ end = _ => let E := fresh "E" in destruct c eqn:E; try discriminate H
  end.

Section Step.
  Variable HH : header -> bytes.
  Variable ER : N -> header -> option bytes.

  (** * Everything [verify_pre] / [verify_post] established *)
  Record accept_conds (cs : cstate) (st : cstore) (h : header) (signer : bytes) : Prop := {
    ac_bloom : len (h_bloom h) <= 256;
    ac_nonce : len (h_nonce h) <= 8;
    ac_extra : 97 <= len (h_extra h);
    ac_mix : to_hash (h_mix h) = zeros 32;
    ac_uncle : to_hash (h_uncle h) = uncleHash;
    ac_diff0 : 0 < h_num h -> N_of_bytes (h_diff h) mod two64 <> 0;
    ac_epoch : c_epoch cs <> 0;
    ac_vals_bytes : if h_num h mod c_epoch cs =? 0 then (len (h_extra h) - 97) mod 20 = 0 else len (h_extra h) = 97;
    ac_number : h_num (c_header cs) = sub64 (h_num h) 1;
    ac_parent : HH (c_header cs) = to_hash (h_parent h);
    ac_gas_cap : h_gaslimit h <= 9223372036854775807;
    ac_gas_used : h_gasused h <= h_gaslimit h;
    ac_gas_bound : gas_bound_bad (h_gaslimit (c_header cs)) (h_gaslimit h) = false;
    ac_sealer : sealer ER (c_chain cs) h = Some signer;
    ac_coinbase : signer = to_addr (h_coinbase h);
    ac_member : In signer (map to_addr (c_vals cs));
    ac_recent : recently_signed (recents st) signer (h_num h) (limit_of_vals (c_vals cs)) = false
  }.

  Lemma validate_basic_ok h : validate_basic h = ROk tt ->
    len (h_bloom h) <= 256 /\ len (h_nonce h) <= 8 /\ 97 <= len (h_extra h) /\
    to_hash (h_mix h) = zeros 32 /\ to_hash (h_uncle h) = uncleHash /\
    (0 < h_num h -> N_of_bytes (h_diff h) mod two64 <> 0).
  Proof.
    unfold validate_basic, extraVanity, extraSeal. intro H.
    repeat brk H.
    apply N.ltb_ge in E, E0, E1, E2. apply negb_false_iff, bytes_eqb_eq in E3, E4.
    repeat split; try assumption; try lia.
    intros Hn. apply andb_false_iff in E5 as [E5|E5].
    - apply N.ltb_ge in E5. lia.
    - apply N.eqb_neq in E5. exact E5.
  Qed.

  Lemma verify_pre_ok cs st h signer : verify_pre HH ER cs st h = ROk signer -> accept_conds cs st h signer.
  Proof.
    unfold verify_pre, verify_pre_gen. intro H.
    destruct (validate_basic h) as [[]| |] eqn:VB; try discriminate H.
    apply validate_basic_ok in VB as (B1 & B2 & B3 & B4 & B5 & B6).
    unfold extraVanity, extraSeal, addressLength in H.
    repeat brk H. inversion H; subst; clear H.
    apply N.eqb_neq in E.
    apply negb_false_iff in E2. apply negb_false_iff, N.eqb_eq in E3.
    apply negb_false_iff, bytes_eqb_eq in E4. apply N.ltb_ge in E5, E6.
    apply negb_false_iff, bytes_eqb_eq in E9. apply negb_false_iff, mem_In in E10.
    constructor; try assumption.
    - destruct (h_num h mod c_epoch cs =? 0) eqn:EP; cbn [negb andb] in E0, E1.
      + apply negb_false_iff, N.eqb_eq in E1. lia.
      + apply negb_false_iff, N.eqb_eq in E0. lia.
  Qed.

  Lemma verify_post_ok cs h signer : verify_post cs h signer = ROk tt ->
    N_of_bytes (h_diff h) = if inturn cs signer then 2 else 1.
  Proof.
    unfold verify_post, diffInTurn, diffNoTurn. intro H.
    destruct (inturn cs signer); brk H; apply N.eqb_eq in E; exact E.
  Qed.

  (** * The state after an accepted update, operation by operation *)
  Definition vals_after (cs : cstate) (st : cstore) (h : header) : list bytes :=
    if h_num h mod c_epoch cs =? len (c_vals cs) / 2
    then match pending st with Some v => v | None => [] end
    else c_vals cs.

  Definition pending_step (cs : cstate) (st : cstore) (h : header) : cstore :=
    if h_num h mod c_epoch cs =? 0 then set_pending st (parse_validators (h_extra h)) else st.

  Definition shrink_step (cs : cstate) (st : cstore) (h : header) : cstore :=
    if h_num h mod c_epoch cs =? len (c_vals cs) / 2 then
      let validators := match pending st with Some v => v | None => [] end in
      if limit_of_vals validators <? len (c_vals cs) / 2 + 1
      then del_range st (h_rev h) (h_num h) (limit_of_vals validators)
                     (N.to_nat (len (c_vals cs) / 2 + 1 - limit_of_vals validators))
      else st
    else st.

  Definition shift_step (vals : list bytes) (st : cstore) (h : header) : cstore :=
    if len vals / 2 + 1 <=? h_num h then del_signer st (h_rev h, sub64 (h_num h) (len vals / 2 + 1)) else st.

  Lemma update_ok cs st h st' cs' c' : update cs st h = (st', ROk (cs', c')) ->
    c_epoch cs <> 0 /\
    let st1 := pending_step cs st h in
    let vals' := vals_after cs st1 h in
    st' = shift_step vals' (shrink_step cs st1 h) h /\
    cs' = {| c_header := h; c_chain := c_chain cs; c_epoch := c_epoch cs; c_interval := c_interval cs;
             c_vals := vals'; c_contract := c_contract cs; c_trust := c_trust cs |} /\
    c' = {| cs_time := h_time h; cs_height := hheight h; cs_root := h_root h |}.
  Proof.
    unfold update, pending_step, vals_after, shrink_step, shift_step, extraVanity, extraSeal, addressLength.
    intro H. destruct (c_epoch cs =? 0) eqn:E0; [discriminate H|]. apply N.eqb_neq in E0. split; [exact E0|].
    destruct (h_num h mod c_epoch cs =? 0) eqn:EP.
    - destruct (len (h_extra h) <? 32 + 65); [discriminate H|].
      destruct (negb ((len (h_extra h) - 97) mod 20 =? 0)); [discriminate H|].
      cbv zeta in H |- *.
      destruct (h_num h mod c_epoch cs =? len (c_vals cs) / 2).
      + destruct (limit_of_vals _ <? len (c_vals cs) / 2 + 1); inversion H; subst; auto.
      + inversion H; subst; auto.
    - cbv zeta in H |- *.
      destruct (h_num h mod c_epoch cs =? len (c_vals cs) / 2).
      + destruct (limit_of_vals _ <? len (c_vals cs) / 2 + 1); inversion H; subst; auto.
      + inversion H; subst; auto.
  Qed.

  Lemma check_ok bt cs st h st' cs' c' :
    check_header_and_update HH ER bt cs st h = (st', ROk (cs', c')) ->
    exists signer,
      get_cons st (hheight (c_header cs)) <> None /\
      accept_conds cs st h signer /\
      N_of_bytes (h_diff h) = (if inturn cs signer then 2 else 1) /\
      update cs (prune bt cs (set_signer st (hheight h) signer)) h = (st', ROk (cs', c')).
  Proof.
    unfold check_header_and_update, check_header_and_update_gen. intro H.
    destruct (get_cons st (hheight (c_header cs))) eqn:G; [|discriminate H].
    destruct (verify_pre_gen HH ER recently_signed cs st h) as [signer| |] eqn:V; try discriminate H.
    destruct (verify_post cs h signer) as [[]| |] eqn:P; try discriminate H.
    exists signer. split; [congruence|]. split; [apply verify_pre_ok; exact V|].
    split; [apply verify_post_ok; exact P | exact H].
  Qed.

  Lemma update_client_ok bt cs st h st' cs' :
    update_client HH ER bt cs st h = (st', ROk cs') ->
    active bt cs st = true /\
    exists st2 c', check_header_and_update HH ER bt cs st h = (st2, ROk (cs', c')) /\
                   st' = set_cons st2 (hheight h) c'.
  Proof.
    unfold update_client. intro H. destruct (active bt cs st); [|discriminate H]. split; [reflexivity|].
    cbn [negb] in H. destruct (check_header_and_update HH ER bt cs st h) as [st2 [[cs2 c2]| |]]; try discriminate H.
    inversion H; subst. exists st2, c2. auto.
  Qed.

  (** The number of the accepted header is the head's number plus one (no wrap for uint64 values other than 0). *)
  Lemma number_succ cs st h signer : accept_conds cs st h signer -> 0 < h_num h -> h_num h < two64 ->
    h_num h = h_num (c_header cs) + 1.
  Proof.
    intros A H0 H1. rewrite (ac_number _ _ _ _ A), sub64_1 by assumption. lia.
  Qed.
End Step.
