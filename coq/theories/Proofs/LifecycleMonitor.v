(** The executable monitor of LifecycleCheck.v accepts every successful proposal step of the model
    (repaired code): monitor soundness for the store-level kinds 13-17 and 19. *)
From Teleport Require Import Base.Bytes Base.Outcome Base.AList Model.Lifecycle Model.LifecycleCheck Proofs.Lifecycle.
Local Open Scope N_scope.

Lemma list_eqb_refl {A} (f : A -> A -> bool) : (forall x, f x x = true) -> forall l, list_eqb f l l = true.
Proof. intros R l. induction l as [|x l IH]; cbn; [reflexivity|]. rewrite R, IH. reflexivity. Qed.

Lemma opt_eqb_refl {A} (f : A -> A -> bool) : (forall x, f x x = true) -> forall o, opt_eqb f o o = true.
Proof. intros R [x|]; cbn; [apply R | reflexivity]. Qed.

Lemma cons_eqb_refl c : cons_eqb c c = true.
Proof. unfold cons_eqb. rewrite ctype_eqb_refl, N.eqb_refl, !bytes_eqb_refl. reflexivity. Qed.

Lemma hdr_eqb_refl h : hdr_eqb h h = true.
Proof.
  unfold hdr_eqb. rewrite h_eqb_refl, !bytes_eqb_refl, N.eqb_refl.
  rewrite (opt_eqb_refl _ bytes_eqb_refl), (opt_eqb_refl _ (list_eqb_refl _ bytes_eqb_refl)). reflexivity.
Qed.

Lemma client_eqb_refl c : client_eqb c c = true.
Proof.
  destruct c; cbn; rewrite ?h_eqb_refl, ?hdr_eqb_refl, ?N.eqb_refl, ?bytes_eqb_refl, ?(list_eqb_refl _ bytes_eqb_refl); reflexivity.
Qed.

Lemma value_eqb_refl v : value_eqb v v = true.
Proof.
  destruct v; cbn; rewrite ?client_eqb_refl, ?cons_eqb_refl, ?N.eqb_refl, ?h_eqb_refl, ?bytes_eqb_refl,
    ?hdr_eqb_refl, ?(list_eqb_refl _ bytes_eqb_refl); reflexivity.
Qed.

Lemma has_key_of k v s : sget k s = Some v -> has_key k v s = true.
Proof. intro H. unfold has_key. rewrite H. apply value_eqb_refl. Qed.

Lemma metadata_ok_of tnow c s : metadata tnow c s -> metadata_ok tnow c s = true.
Proof.
  destruct c as [l t d y r | hd e v t r | hd b t r | a r]; cbn.
  - intros [H1 H2]. rewrite (has_key_of _ _ _ H1), (has_key_of _ _ _ H2). reflexivity.
  - intros (sg & vs & -> & -> & H1 & H2). rewrite (has_key_of _ _ _ H1), (has_key_of _ _ _ H2). reflexivity.
  - intros [H1 H2]. rewrite (has_key_of _ _ _ H1), (has_key_of _ _ _ H2). reflexivity.
  - reflexivity.
Qed.

Lemma cons_all_of_type_of t s : all_cons t s -> cons_all_of_type t s = true.
Proof.
  intro A. unfold cons_all_of_type. apply forallb_forall. intros [k v] H.
  destruct k; try reflexivity. destruct (A _ _ H) as (cs & -> & <-). apply ctype_eqb_refl.
Qed.

Lemma only_installed_fresh tnow c cns : only_installed c (fresh_store tnow c cns) = true.
Proof.
  destruct c; cbn; rewrite ?h_eqb_refl, ?bytes_eqb_refl, ?N.eqb_refl; cbn; rewrite ?orb_true_r; reflexivity.
Qed.

Lemma installed_core_ok kind tnow c cns s :
  installed tnow c cns s -> cs_type cns = type_of c -> typed_clean c s ->
  (Nat.eqb kind 1 || only_installed c s) = true -> forall (ra : bool), ra = true ->
  (if ctype_eqb (cs_type cns) (type_of c) then [] else [19%nat]) ++
  (if ra then [] else [24%nat]) ++
  (if has_key KClient (VClient c) s &&
      (if ctype_eqb (type_of c) TSS then match sget (KCons (0, 0)) s with None => true | Some _ => false end
       else has_key (KCons (latest_of c)) (VCons cns) s)
   then [] else [15%nat]) ++
  (if metadata_ok tnow c s then [] else [16%nat]) ++
  (if (Nat.eqb kind 1 || only_installed c s) && cons_all_of_type (type_of c) s then [] else [17%nat]) = [].
Proof.
  intros (Hc & Hk & Hm) T (A & _ & D) O ra ->.
  rewrite T, ctype_eqb_refl, (has_key_of _ _ _ Hc), (metadata_ok_of _ _ _ Hm), O, (cons_all_of_type_of _ _ A). cbn.
  destruct (ctype_eqb_spec (type_of c) TSS) as [Ts|_].
  - rewrite (D Ts). reflexivity.
  - rewrite (has_key_of _ _ _ Hk). reflexivity.
Qed.

Section Sound.
  Variable cf : cfg.
  Hypothesis F1 : f_toggle_new cf = true.
  Hypothesis F2 : f_toggle_clear cf = true.
  Hypothesis F3 : f_cons_type_check cf = true.
  Hypothesis F4 : f_upgrade_tss_nocons cf = true.
  Hypothesis F5 : f_tm_upgrade_meta cf = true.
  Hypothesis F6 : f_eth_root_check cf = true.

  Lemma monitor_create_sound st p st' :
    wf_state st -> exec cf st (Create p) = Ok st' ->
    (valid_name (p_name p) && negb (has_client st (p_name p))) = true /\ mon_installed_core 0 p st' = [].
  Proof.
    intros W E. pose proof (exec_roots_agree _ _ _ _ E) as R. cbn in R. rewrite (roots_agree_head _ _ F6) in R.
    apply create_spec in E; try assumption. destruct E as (Hn & _ & Hc & T & I & ->).
    split; [rewrite Hn, Hc; reflexivity|].
    unfold mon_installed_core. rewrite store_of_with_same, now_with.
    apply installed_core_ok; [apply fresh_store_installed, I | exact T | apply fresh_store_clean, T | | exact R].
    rewrite only_installed_fresh. reflexivity.
  Qed.

  Lemma monitor_toggle_sound st p st' :
    exec cf st (Toggle p) = Ok st' ->
    (exists old, sget KClient (store_of st (p_name p)) = Some (VClient old) /\ ctype_eqb (type_of old) (type_of (p_client p)) = false) /\
    mon_installed_core 2 p st' = [].
  Proof.
    intros E. pose proof (exec_roots_agree _ _ _ _ E) as R. cbn in R. rewrite (roots_agree_head _ _ F6) in R.
    apply toggle_spec in E; try assumption. destruct E as (old & Ho & Nt & _ & _ & T & I & ->).
    split.
    - exists old. split; [exact Ho|]. destruct (ctype_eqb_spec (type_of old) (type_of (p_client p))); [contradiction | reflexivity].
    - unfold mon_installed_core. rewrite store_of_with_same, now_with.
      apply installed_core_ok; [apply fresh_store_installed, I | exact T | apply fresh_store_clean, T | | exact R].
      rewrite only_installed_fresh. reflexivity.
  Qed.

  Lemma monitor_upgrade_sound st p st' :
    clean_state st -> exec cf st (Upgrade p) = Ok st' ->
    (exists old, sget KClient (store_of st (p_name p)) = Some (VClient old) /\ ctype_eqb (type_of old) (type_of (p_client p)) = true) /\
    mon_installed_core 1 p st' = [].
  Proof.
    intros Cl E. pose proof E as E0. pose proof (exec_roots_agree _ _ _ _ E) as R. cbn in R. rewrite (roots_agree_head _ _ F6) in R.
    apply upgrade_spec in E; try assumption.
    destruct E as (old & s' & Ho & Te & _ & _ & T & -> & I).
    split; [exists old; split; [exact Ho | rewrite Te; apply ctype_eqb_refl]|].
    unfold mon_installed_core. rewrite store_of_with_same, now_with.
    apply installed_core_ok; [exact I | exact T | | reflexivity | exact R].
    unfold exec in E0. destruct (negb _); [discriminate|]. destruct (negb _); [discriminate|]. destruct (negb _); [discriminate|].
    destruct (upgrade_client cf (now st) (p_client p) (p_cons p) (store_of st (p_name p))) as [s2| |] eqn:U; cbn in E0; try discriminate.
    assert (E1 : with_store st (p_name p) s2 = with_store st (p_name p) s') by congruence.
    assert (s2 = s') as ->.
    { apply (f_equal (fun x => store_of x (p_name p))) in E1. rewrite !store_of_with_same in E1. exact E1. }
    eapply upgrade_client_clean; try eassumption. apply Cl. exact Ho.
  Qed.
End Sound.
