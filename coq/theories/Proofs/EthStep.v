(** The update step of the Ethereum client model after pruning: storing the new header and
    (unless it extends the head) re-pointing the consensus states with [RestrictChain].
    Main results: [rebuild_inv] (the invariant is re-established for the spliced chain) and
    the analysis of a successful [restrict_chain] run ([restrict_ok_shape]). *)
From Coq Require Import Lia ZArith NArith List.
From Teleport Require Import Base.Bytes Base.Outcome Model.Eth Proofs.EthBase Proofs.EthValid Proofs.EthChain Proofs.EthInv.
Local Open Scope N_scope.

Section Step.
  Variable hash : header -> bytes.
  Variable r0 g0 : N.
  Notation idx_wf := (idx_wf hash r0).
  Notation wf_hdr := (wf_hdr r0).
  Notation key := (key hash).
  Notation Stored := (Stored hash).
  Notation Inv := (Inv hash r0 g0).
  Notation nth_anc := (nth_anc).

  (** * The index after [update] wrote the new header *)
  Section Store.
    Variable ix : imap.
    Variable h : header.
    Let ix2 := iset (key h) h ix.

    Lemma iget_store k : iget k ix2 = if hkey_eqb k (key h) then Some h else iget k ix.
    Proof. unfold ix2, iset, iget. apply iget_iset. Qed.

    Lemma iget_store_other k : snd k <> h_num h -> iget k ix2 = iget k ix.
    Proof.
      intro N. rewrite iget_store. destruct (hkey_eqb_spec k (key h)) as [->|_]; [|reflexivity].
      exfalso. apply N. reflexivity.
    Qed.

    Lemma store_wf : idx_wf ix -> wf_hdr h -> idx_wf ix2.
    Proof.
      intros WF Wh x k a E. rewrite iget_store in E.
      destruct (hkey_eqb_spec (x, k) (key h)) as [K|_]; [|exact (WF _ _ _ E)].
      inversion E; subst a. inversion K; subst. repeat split; try reflexivity; apply Wh.
    Qed.

    Lemma store_stored_h : Stored ix2 h.
    Proof. unfold EthChain.Stored. rewrite iget_store, hkey_eqb_refl. reflexivity. Qed.

    (** with no alias stored under the key of [h], everything stored stays stored *)
    Lemma store_mono : (forall a, iget (key h) ix = Some a -> a = h) -> forall k a, iget k ix = Some a -> iget k ix2 = Some a.
    Proof.
      intros NA k a E. rewrite iget_store. destruct (hkey_eqb_spec k (key h)) as [->|_]; [|exact E].
      rewrite (NA _ E). reflexivity.
    Qed.

    Lemma store_inv_stored a : Stored ix2 a -> a = h \/ Stored ix a.
    Proof.
      unfold EthChain.Stored. rewrite iget_store. destruct (hkey_eqb (EthChain.key hash a) (key h)); intro E; [left; congruence | right; exact E].
    Qed.

    (** ancestors of headers not above [h] are the same in both indexes *)
    Lemma store_anc x j : idx_wf ix -> h_num x <= h_num h -> h_num h < two63 -> nth_anc ix2 x j = nth_anc ix x j.
    Proof.
      intros WF Hx Hh. apply (nth_anc_ext hash r0 ix ix2 (h_num h)); try assumption.
      intros k N. apply iget_store_other. exact N.
    Qed.

    Lemma store_parent x : h_num x <= h_num h -> h_num h < two63 -> parent_of ix2 x = parent_of ix x.
    Proof.
      intros Hx Hh. unfold parent_of. apply iget_store_other. apply (pkey_height_ne x (h_num h)); assumption.
    Qed.
  End Store.

  (** * Ascending lists *)
  Lemma Asc_app ti l x : Asc ti l -> h_num x = ti + N.of_nat (length l) -> Asc ti (l ++ [x]).
  Proof.
    revert ti; induction l as [|a l IH]; intros ti A E; cbn in *.
    - split; [lia | exact I].
    - destruct A as [A1 A2]. split; [exact A1|]. apply IH; [exact A2 | lia].
  Qed.

  Lemma ancs_asc ix : forall j x a, idx_wf ix -> h_num x < two63 -> nth_anc ix x j = Some a ->
    Asc (h_num a) (rev (ancs ix x j)).
  Proof.
    induction j as [|j IH]; intros x a WF Hx E.
    - cbn in *. inversion E; subst. split; [reflexivity | exact I].
    - cbn in E. cbn [ancs]. destruct (parent_of ix x) as [p|] eqn:P; [|discriminate].
      destruct (parent_of_spec _ _ _ _ _ WF Hx P) as [_ [Hn [[_ [Wp _]] _]]].
      cbn [rev]. apply Asc_app; [apply IH; assumption|].
      rewrite rev_length. destruct (ancs_nth _ _ _ _ E) as [Len _]. rewrite Len.
      destruct (nth_anc_num _ _ _ _ _ _ WF Wp E) as [Q _]. lia.
  Qed.

  Lemma ancs_nums ix j x a b : idx_wf ix -> h_num x < two63 -> nth_anc ix x j = Some a -> In b (ancs ix x j) ->
    h_num a <= h_num b <= h_num x /\ h_num b < two63.
  Proof.
    intros WF Hx E I. destruct (ancs_in _ _ _ _ I) as [i [Hi Ei]].
    destruct (nth_anc_num _ _ _ _ _ _ WF Hx Ei) as [Q1 Q2].
    destruct (nth_anc_num _ _ _ _ _ _ WF Hx E) as [Q3 _]. split; [lia | exact Q2].
  Qed.

  Lemma ancs_nodup ix j x a : idx_wf ix -> h_num x < two63 -> nth_anc ix x j = Some a -> NoDup (map h_num (ancs ix x j)).
  Proof.
    intros WF. revert x; induction j as [|j IH]; intros x Hx E.
    - cbn. constructor; [intros [] | constructor].
    - cbn in E. cbn [ancs]. destruct (parent_of ix x) as [p|] eqn:P; [|discriminate].
      destruct (parent_of_spec _ _ _ _ _ WF Hx P) as [_ [Hn [[_ [Wp _]] _]]].
      cbn [map]. constructor; [|apply IH; assumption].
      intro I. apply in_map_iff in I. destruct I as [b [Eb Ib]].
      destruct (ancs_nums _ _ _ _ _ WF Wp E Ib) as [[_ Q] _]. lia.
  Qed.

  Lemma push_add ix x i j acc a : nth_anc ix x i = Some a -> push hash ix x (i + j) acc = push hash ix a j (push hash ix x i acc).
  Proof.
    revert x acc; induction i as [|i IH]; intros x acc E.
    - cbn in *. inversion E; reflexivity.
    - cbn in E. cbn [Nat.add push]. destruct (parent_of ix x) as [p|]; [|discriminate]. apply IH. exact E.
  Qed.

  (** * Loop 1, soundness for an arbitrary amount of fuel *)
  Lemma walk1_sound ix : forall fuel new ti si acc r,
    ti < two64 -> walk1 hash fuel ix new ti si acc = Ok r ->
    exists a, nth_anc ix new (N.to_nat (ti - si)) = Some a /\
              r = (a, ti - N.of_nat (N.to_nat (ti - si)), push hash ix new (N.to_nat (ti - si)) acc).
  Proof.
    induction fuel as [|f IH]; intros new ti si acc r Hti W.
    - cbn in W. destruct (N.ltb_spec si ti) as [L|L]; [discriminate|].
      inversion W; subst. replace (ti - si) with 0 by lia. cbn. exists new. rewrite N.sub_0_r. split; reflexivity.
    - cbn in W. destruct (N.ltb_spec si ti) as [L|L].
      + destruct (parent_of ix new) as [p|] eqn:P; [|discriminate].
        rewrite sub64_pred in W by lia.
        destruct (IH p (ti - 1) si (hash new :: acc) r) as [a [A R]]; [lia | exact W|].
        replace (N.to_nat (ti - si)) with (S (N.to_nat (ti - 1 - si))) by lia.
        exists a. cbn [nth_anc push]. rewrite P. split; [exact A|]. rewrite R. f_equal. f_equal. lia.
      + inversion W; subst. replace (ti - si) with 0 by lia. cbn. exists new. rewrite N.sub_0_r. split; reflexivity.
  Qed.
End Step.
