(** The update step of the Ethereum client model after pruning: storing the new header and
    (unless it extends the head) re-pointing the consensus states with [RestrictChain].
    Main results: [rebuild_inv] (the invariant is re-established for the spliced chain) and
    the analysis of a successful [restrict_chain] run ([restrict_ok_shape]). *)
From Coq Require Import Lia ZArith NArith List.
From Teleport Require Import Base.Bytes Base.Outcome Model.Eth Proofs.EthBase Proofs.EthValid Proofs.EthChain Proofs.EthInv.
Local Open Scope N_scope.

Section Step.
  Variable hash : header -> bytes.
  Variable r0 g0 : N.
  Variable U : header -> Prop.
  Notation idx_wf := (idx_wf hash r0).
  Notation wf_hdr := (wf_hdr r0).
  Notation key := (key hash).
  Notation Stored := (Stored hash).
  Notation Inv := (Inv hash r0 g0 U).
  Notation nth_anc := (nth_anc).

  (** * The index after [update] wrote the new header *)
  Section Store.
    Variable ix : imap.
    Variable h : header.
    Let ix2 := iset (key h) h ix.

    Lemma iget_store k : iget k ix2 = if hkey_eqb k (key h) then Some h else iget k ix.
    Proof. unfold ix2, iset, iget. apply iget_iset. Qed.

    Lemma iget_store_other k : snd k <> h_num h -> iget k ix2 = iget k ix.
    Proof.
      intro N. rewrite iget_store. destruct (hkey_eqb_spec k (key h)) as [->|_]; [|reflexivity].
      exfalso. apply N. reflexivity.
    Qed.

    Lemma store_wf : idx_wf ix -> wf_hdr h -> idx_wf ix2.
    Proof.
      intros WF Wh x k a E. rewrite iget_store in E.
      destruct (hkey_eqb_spec (x, k) (key h)) as [K|_]; [|exact (WF _ _ _ E)].
      inversion E; subst a. inversion K; subst. repeat split; try reflexivity; apply Wh.
    Qed.

    Lemma store_stored_h : Stored ix2 h.
    Proof. unfold EthChain.Stored. rewrite iget_store, hkey_eqb_refl. reflexivity. Qed.

    (** with no alias stored under the key of [h], everything stored stays stored *)
    Lemma store_mono : (forall a, iget (key h) ix = Some a -> a = h) -> forall k a, iget k ix = Some a -> iget k ix2 = Some a.
    Proof.
      intros NA k a E. rewrite iget_store. destruct (hkey_eqb_spec k (key h)) as [->|_]; [|exact E].
      rewrite (NA _ E). reflexivity.
    Qed.

    Lemma store_inv_stored a : Stored ix2 a -> a = h \/ Stored ix a.
    Proof.
      unfold EthChain.Stored. rewrite iget_store. destruct (hkey_eqb (EthChain.key hash a) (key h)); intro E; [left; congruence | right; exact E].
    Qed.

    (** ancestors of headers not above [h] are the same in both indexes *)
    Lemma store_anc x j : idx_wf ix -> h_num x <= h_num h -> h_num h < two63 -> nth_anc ix2 x j = nth_anc ix x j.
    Proof.
      intros WF Hx Hh. apply (nth_anc_ext hash r0 ix ix2 (h_num h)); try assumption.
      intros k N. apply iget_store_other. exact N.
    Qed.

    Lemma store_parent x : h_num x <= h_num h -> h_num h < two63 -> parent_of ix2 x = parent_of ix x.
    Proof.
      intros Hx Hh. unfold parent_of. apply iget_store_other. apply (pkey_height_ne x (h_num h)); assumption.
    Qed.
  End Store.

  (** * Ascending lists *)
  Lemma Asc_app ti l x : Asc ti l -> h_num x = ti + N.of_nat (length l) -> Asc ti (l ++ [x]).
  Proof.
    revert ti; induction l as [|a l IH]; intros ti A E; cbn in *.
    - split; [lia | exact I].
    - destruct A as [A1 A2]. split; [exact A1|]. apply IH; [exact A2 | lia].
  Qed.

  Lemma ancs_asc ix : forall j x a, idx_wf ix -> h_num x < two63 -> nth_anc ix x j = Some a ->
    Asc (h_num a) (rev (ancs ix x j)).
  Proof.
    induction j as [|j IH]; intros x a WF Hx E.
    - cbn in *. inversion E; subst. split; [reflexivity | exact I].
    - cbn in E. cbn [ancs]. destruct (parent_of ix x) as [p|] eqn:P; [|discriminate].
      destruct (parent_of_spec _ _ _ _ _ WF Hx P) as [_ [Hn [[_ [Wp _]] _]]].
      cbn [rev]. apply Asc_app; [apply IH; assumption|].
      rewrite rev_length. destruct (ancs_nth _ _ _ _ E) as [Len _]. rewrite Len.
      destruct (nth_anc_num _ _ _ _ _ _ WF Wp E) as [Q _]. lia.
  Qed.

  Lemma ancs_nums ix j x a b : idx_wf ix -> h_num x < two63 -> nth_anc ix x j = Some a -> In b (ancs ix x j) ->
    h_num a <= h_num b <= h_num x /\ h_num b < two63.
  Proof.
    intros WF Hx E I. destruct (ancs_in _ _ _ _ I) as [i [Hi Ei]].
    destruct (nth_anc_num _ _ _ _ _ _ WF Hx Ei) as [Q1 Q2].
    destruct (nth_anc_num _ _ _ _ _ _ WF Hx E) as [Q3 _]. split; [lia | exact Q2].
  Qed.

  Lemma ancs_nodup ix j x a : idx_wf ix -> h_num x < two63 -> nth_anc ix x j = Some a -> NoDup (map h_num (ancs ix x j)).
  Proof.
    intros WF. revert x; induction j as [|j IH]; intros x Hx E.
    - cbn. constructor; [intros [] | constructor].
    - cbn in E. cbn [ancs]. destruct (parent_of ix x) as [p|] eqn:P; [|discriminate].
      destruct (parent_of_spec _ _ _ _ _ WF Hx P) as [_ [Hn [[_ [Wp _]] _]]].
      cbn [map]. constructor; [|apply IH; assumption].
      intro I. apply in_map_iff in I. destruct I as [b [Eb Ib]].
      destruct (ancs_nums _ _ _ _ _ WF Wp E Ib) as [[_ Q] _]. lia.
  Qed.

  Lemma push_add ix x i j acc a : nth_anc ix x i = Some a -> push hash ix x (i + j) acc = push hash ix a j (push hash ix x i acc).
  Proof.
    revert x acc; induction i as [|i IH]; intros x acc E.
    - cbn in *. inversion E; reflexivity.
    - cbn in E. cbn [Nat.add push]. destruct (parent_of ix x) as [p|]; [|discriminate]. apply IH. exact E.
  Qed.

  (** * Loop 1, soundness for an arbitrary amount of fuel *)
  Lemma walk1_sound ix : forall fuel new ti si acc r,
    ti < two64 -> walk1 hash fuel ix new ti si acc = Ok r ->
    exists a, nth_anc ix new (N.to_nat (ti - si)) = Some a /\
              r = (a, ti - N.of_nat (N.to_nat (ti - si)), push hash ix new (N.to_nat (ti - si)) acc).
  Proof.
    induction fuel as [|f IH]; intros new ti si acc r Hti W.
    - cbn in W. destruct (N.ltb_spec si ti) as [L|L]; [discriminate|].
      inversion W; subst. replace (ti - si) with 0 by lia. cbn. exists new. rewrite N.sub_0_r. split; reflexivity.
    - cbn in W. destruct (N.ltb_spec si ti) as [L|L].
      + destruct (parent_of ix new) as [p|] eqn:P; [|discriminate].
        rewrite sub64_pred in W by lia.
        destruct (IH p (ti - 1) si (hash new :: acc) r) as [a [A R]]; [lia | exact W|].
        replace (N.to_nat (ti - si)) with (S (N.to_nat (ti - 1 - si))) by lia.
        exists a. cbn [nth_anc push]. rewrite P. split; [exact A|]. rewrite R. f_equal. f_equal. lia.
      + inversion W; subst. replace (ti - si) with 0 by lia. cbn. exists new. rewrite N.sub_0_r. split; reflexivity.
  Qed.

  (** * List helpers *)
  Lemma last_app_ne {A} (l1 l2 : list A) d : l2 <> [] -> last (l1 ++ l2) d = last l2 d.
  Proof.
    intro NE. induction l1 as [|a l1 IH]; [reflexivity|].
    cbn [app]. remember (l1 ++ l2) as m eqn:E. destruct m as [|b m].
    - symmetry in E. apply app_eq_nil in E. destruct E; contradiction.
    - exact IH.
  Qed.

  Lemma last_indep {A} (l : list A) d d' : l <> [] -> last l d = last l d'.
  Proof.
    induction l as [|a l IH]; [congruence|]. intros _. destruct l as [|b l]; [reflexivity|].
    cbn [last]. apply IH. discriminate.
  Qed.

  Lemma last_skipn {A} t (l : list A) d : (t < length l)%nat -> last (skipn t l) d = last l d.
  Proof.
    revert l; induction t as [|t IH]; intros l H; [reflexivity|].
    destruct l as [|a l]; [cbn in H; lia|]. cbn [skipn]. cbn in H.
    rewrite IH by lia. destruct l as [|b l]; [cbn in H; lia | reflexivity].
  Qed.

  Lemma nth_error_skipn {A} t (l : list A) u : nth_error (skipn t l) u = nth_error l (t + u).
  Proof.
    revert l; induction t as [|t IH]; intros l; [reflexivity|].
    destruct l as [|a l]; [cbn; destruct u; reflexivity | cbn; apply IH].
  Qed.

  Lemma skipn_nil_iff {A} t (l : list A) : skipn t l = [] <-> (length l <= t)%nat.
  Proof.
    revert l; induction t as [|t IH]; intros [|a l]; cbn; split; intro H; try reflexivity; try lia; try discriminate.
    - apply IH in H. lia.
    - apply IH. lia.
  Qed.

  Lemma deadpath_store ix h k D : DeadPath hash g0 U ix k D -> (forall d, In d D -> key h <> key d) ->
    DeadPath hash g0 U (iset (key h) h ix) k D.
  Proof.
    revert k; induction D as [|d D IH]; intros k H N; [exact H|].
    cbn in *. destruct H as [H1 [H2 [H3 H4]]]. split; [exact H1|]. split.
    - rewrite iget_store. destruct (hkey_eqb_spec k (key h)) as [K|_]; [|exact H2].
      exfalso. apply (N d (or_introl eq_refl)). congruence.
    - split; [exact H3|]. apply IH; [exact H4 | intros d' I; apply N; right; exact I].
  Qed.

  (** * Re-establishing the invariant for the spliced chain
      [ancs h J ++ skipn t L]: the first [J]+1 ancestors of the new head followed by the old
      main chain from its [t]-th element on. *)
  Section Rebuild.
    Variable s1 : state.
    Variable L D : list header.
    Variable h : header.
    Hypothesis I1 : Inv s1 L D.
    Hypothesis Wh : wf_hdr h.
    Hypothesis HU : U h.
    Hypothesis Hg0 : g0 <= h_num h.
    Hypothesis Hfresh : fix_root = false -> forall a, Stored (idx s1) a -> h_num a = h_num h ->
                                  to_hash (h_root a) = to_hash (h_root h) -> key a = key h.
    Hypothesis Hnoalias : forall a, iget (key h) (idx s1) = Some a -> a = h.
    Hypothesis Hdead : forall d, In d D -> key h <> key d.
    Let old := head s1.
    Let ix1 := idx s1.
    Let ix2 := iset (key h) h ix1.
    Let rm2 := rset (to_hash (h_root h), h_num h) (key h) (rmain s1).
    Variable J t : nat.
    Variable new2 : header.
    Variable c' : cmap.
    Variable rm' : rmap.
    Hypothesis A1 : nth_anc ix2 h J = Some new2.
    Hypothesis A2 : parent_of ix2 new2 = nth_error L t.
    Hypothesis A3 : h_num new2 + N.of_nat t = h_num old + 1.
    Hypothesis A4 : (t <= length L)%nat.
    Hypothesis A5 : t = length L -> pkey new2 = pkey (last L old).
    Let Nn := ancs ix2 h J.
    Hypothesis K1 : forall a, In a Nn -> cget (r0, h_num a) c' = Some (cstate_of a).
    Hypothesis K2 : forall r k, (forall a, In a Nn -> k <> h_num a) -> cget (r, k) c' = cget (r, k) (cons s1).
    Hypothesis K3 : forall r k c, cget (r, k) c' = Some c ->
                      (r = r0 /\ exists a, In a Nn /\ k = h_num a) \/ cget (r, k) (cons s1) = Some c.
    Hypothesis K4 : NoDup (map fst c').
    (* the root-main index: as [update] left it (code as it is), or with the slots of the new chain re-pointed *)
    Hypothesis KR0 : fix_root = false -> rm' = rm2.
    Hypothesis KR1 : fix_root = true -> forall a, In a Nn -> rget (to_hash (h_root a), h_num a) rm' = Some (key a).
    Hypothesis KR2 : fix_root = true -> forall k, (forall a, In a Nn -> snd k <> h_num a) -> rget k rm' = rget k (rmain s1).
    Let s' := {| head := h; chain_id := chain_id s1; trusting := trusting s1; idx := ix2; rmain := rm'; cons := c' |}.
    Let L' := Nn ++ skipn t L.

    Lemma rebuild_inv : Inv s' L' D /\ low h L' = low old L.
    Proof.
      pose proof (inv_wf _ _ _ _ _ _ _ I1) as WF1. fold ix1 in WF1.
      assert (WF2 : idx_wf ix2) by (apply store_wf; assumption).
      destruct (inv_head_wf _ _ _ _ _ _ _ I1) as [_ [Hold _]]. fold old in Hold.
      pose proof (inv_main _ _ _ _ _ _ _ I1) as M1. fold ix1 old in M1.
      destruct Wh as [Hrev [Hh Hgl]].
      assert (S2h : Stored ix2 h) by apply store_stored_h.
      destruct (ancs_nth _ _ _ _ A1) as [LenN NthN]. fold Nn in LenN, NthN.
      assert (NumN : forall b, In b Nn -> h_num new2 <= h_num b <= h_num h /\ h_num b < two63).
      { intros b Ib. eapply ancs_nums; eauto. }
      assert (InNew2 : In new2 Nn).
      { apply (nth_error_In Nn J). rewrite NthN by lia. exact A1. }
      pose proof (main_low _ _ _ _ _ WF1 Hold M1) as ML.
      destruct (main_cons _ _ _ M1) as [l EqL].
      assert (LenL : (1 <= length L)%nat) by (rewrite EqL; cbn; lia).
      assert (LowNew2 : low old L <= h_num new2) by lia.
      (* elements of the kept tail *)
      assert (Tail : forall b u, nth_error (skipn t L) u = Some b -> In b L /\ h_num b < h_num new2 /\ h_num b < two63).
      { intros b u E. rewrite nth_error_skipn in E.
        destruct (main_num _ _ _ _ _ WF1 Hold M1 _ _ E) as [Q1 Q2].
        split; [eapply nth_error_In; exact E|]. split; [lia | exact Q2]. }
      (* the lowest element is unchanged *)
      assert (LastEq : last L' h = last L old \/ (t = length L /\ last L' h = new2)).
      { destruct (Nat.eq_dec t (length L)) as [Et|Nt].
        - right. split; [exact Et|]. unfold L'. rewrite (proj2 (skipn_nil_iff t L)) by lia. rewrite app_nil_r.
          unfold Nn. apply ancs_last. exact A1.
        - left. unfold L'. assert (NE : skipn t L <> []) by (intro Z; apply skipn_nil_iff in Z; lia).
          rewrite last_app_ne by exact NE. rewrite last_skipn by lia. apply last_indep. rewrite EqL; discriminate. }
      assert (LowEq : low h L' = low old L).
      { unfold low. destruct LastEq as [->|[Et ->]]; [reflexivity|].
        fold (low old L). lia. }
      assert (BotEq : pkey (last L' h) = pkey (last L old)).
      { destruct LastEq as [->|[Et ->]]; [reflexivity | apply A5; exact Et]. }
      (* the new main chain *)
      assert (M2 : Main ix2 h L').
      { intro i. unfold L'. destruct (Nat.le_gt_cases i J) as [Hi|Hi].
        - rewrite nth_error_app1 by lia. symmetry. apply NthN. exact Hi.
        - rewrite nth_error_app2 by lia. rewrite LenN.
          replace i with (J + S (i - S J))%nat at 1 by lia.
          rewrite nth_anc_add, A1. cbn [EthChain.nth_anc]. rewrite A2. rewrite nth_error_skipn.
          destruct (nth_error L t) as [q|] eqn:Eq.
          + destruct (main_num _ _ _ _ _ WF1 Hold M1 _ _ Eq) as [Q1 Q2].
            destruct (NumN _ InNew2) as [[_ Qn] _].
            unfold ix2. rewrite store_anc by (try assumption; lia).
            rewrite <- (M1 (t + (i - S J))%nat). rewrite nth_anc_add, M1, Eq. reflexivity.
          + symmetry. apply nth_error_None. apply nth_error_None in Eq. lia. }
      split; [|exact LowEq].
      constructor; cbn [idx cons rmain head s'].
      - exact WF2.
      - exact M2.
      - exact S2h.
      - (* inv_cdom *) intros r k c E. rewrite LowEq. destruct (K3 _ _ _ E) as [[-> [a [Ia ->]]]|E1].
        + split; [reflexivity|]. destruct (NumN _ Ia) as [[Q _] _]. lia.
        + exact (inv_cdom _ _ _ _ _ _ _ I1 _ _ _ E1).
      - (* inv_cmain *) intros a Ia. unfold L' in Ia. apply in_app_or in Ia. destruct Ia as [Ia|Ia]; [apply K1; exact Ia|].
        apply In_nth_error in Ia. destruct Ia as [u Eu]. destruct (Tail _ _ Eu) as [InL [Lt _]].
        rewrite K2; [apply (inv_cmain _ _ _ _ _ _ _ I1); exact InL|].
        intros b Ib. destruct (NumN _ Ib) as [[Q _] _]. lia.
      - exact K4.
      - (* inv_closure *) intros a Sa Ha. rewrite LowEq in Ha.
        destruct (store_inv_stored _ _ _ Sa) as [->|Sa1].
        + pose proof (main_low _ _ _ _ _ WF2 Hh M2) as ML2. rewrite LowEq in ML2.
          assert (Len2 : (2 <= length L')%nat) by lia.
          pose proof (M2 1%nat) as Q. cbn [EthChain.nth_anc] in Q.
          destruct (parent_of ix2 h); [discriminate|].
          symmetry in Q. apply nth_error_None in Q. lia.
        + pose proof (inv_closure _ _ _ _ _ _ _ I1 a Sa1 Ha) as C. fold ix1 in C.
          unfold parent_of in *. destruct (iget _ ix1) as [q|] eqn:Eq; [|congruence].
          unfold ix2. rewrite (store_mono ix1 h Hnoalias _ _ Eq). discriminate.
      - (* inv_rmain *) intros a Sa Ha Ia. rewrite LowEq in Ha.
        destruct (Bool.bool_dec fix_root true) as [FR|FR]; [|apply Bool.not_true_is_false in FR].
        + (* repaired: only the slots of the main chain are claimed; the new part was re-pointed *)
          specialize (Ia FR). unfold L' in Ia. apply in_app_or in Ia. destruct Ia as [Ia|Ia]; [exact (KR1 FR a Ia)|].
          apply In_nth_error in Ia. destruct Ia as [u Eu]. destruct (Tail _ _ Eu) as [InL [Lt _]].
          rewrite (KR2 FR); [|intros b Ib; cbn [snd]; destruct (NumN _ Ib) as [[Q _] _]; lia].
          apply (inv_rmain _ _ _ _ _ _ _ I1 a); [|exact Ha | intros _; exact InL].
          exact (main_stored _ _ _ _ _ WF1 Hold M1 (inv_head _ _ _ _ _ _ _ I1) _ InL).
        + rewrite (KR0 FR). unfold rm2, rset, rget. rewrite rget_rset.
          destruct (store_inv_stored _ _ _ Sa) as [->|Sa1].
          * rewrite hkey_eqb_refl. reflexivity.
          * destruct (hkey_eqb_spec (to_hash (h_root a), h_num a) (to_hash (h_root h), h_num h)) as [K|_].
            -- inversion K as [[Kr Kn]]. rewrite (Hfresh FR a Sa1 Kn Kr). reflexivity.
            -- apply (inv_rmain _ _ _ _ _ _ _ I1 a Sa1 Ha). intro F. rewrite FR in F. discriminate F.
      - (* inv_low *) intros a Sa. destruct (store_inv_stored _ _ _ Sa) as [->|Sa1]; [exact Hg0|].
        exact (inv_low _ _ _ _ _ _ _ I1 a Sa1).
      - (* inv_univ *) intros a Sa. destruct (store_inv_stored _ _ _ Sa) as [->|Sa1]; [exact HU|].
        exact (inv_univ _ _ _ _ _ _ _ I1 a Sa1).
      - (* inv_dead *) rewrite BotEq. apply deadpath_store; [exact (inv_dead _ _ _ _ _ _ _ I1) | exact Hdead].
    Qed.
  End Rebuild.

  (** * The consensus states after the keeper's write and the re-pointing *)
  Lemma cons_conds (c1 : cmap) (h : header) (Nn l : list header) :
    NoDup (map h_num Nn) -> NoDup (map h_num l) -> In h Nn ->
    (forall a, In a l -> In a Nn) -> (forall a, In a Nn -> a = h \/ In a l) ->
    NoDup (map fst c1) ->
    let c' := cset (r0, h_num h) (cstate_of h) (fold_left (setc r0) l c1) in
    (forall a, In a Nn -> cget (r0, h_num a) c' = Some (cstate_of a)) /\
    (forall r k, (forall a, In a Nn -> k <> h_num a) -> cget (r, k) c' = cget (r, k) c1) /\
    (forall r k c, cget (r, k) c' = Some c -> (r = r0 /\ exists a, In a Nn /\ k = h_num a) \/ cget (r, k) c1 = Some c) /\
    NoDup (map fst c').
  Proof.
    intros NDN NDl Ih Sub Sup ND1 c'. unfold c', cset, cget. repeat split.
    - intros a Ia. rewrite cget_cset. destruct (ckey_eqb_spec (r0, h_num a) (r0, h_num h)) as [K|NK].
      + assert (E : h_num a = h_num h) by congruence.
        assert (a = h) as ->; [|reflexivity].
        clear -NDN Ia Ih E. induction Nn as [|x N IH]; [contradiction|]. cbn in NDN. inversion NDN as [|? ? NI ND']; subst.
        destruct Ia as [->|Ia], Ih as [->|Ih]; try reflexivity.
        * exfalso. apply NI. rewrite E. apply in_map. exact Ih.
        * exfalso. apply NI. rewrite <- E. apply in_map. exact Ia.
        * apply IH; assumption.
      + destruct (Sup a Ia) as [->|Il]; [congruence|]. apply fold_setc_in; assumption.
    - intros r k N. rewrite cget_cset. destruct (ckey_eqb_spec (r, k) (r0, h_num h)) as [K|NK].
      + exfalso. apply (N h Ih). congruence.
      + apply fold_setc_other. intros a Ia E. apply (N a (Sub a Ia)). congruence.
    - intros r k c E. rewrite cget_cset in E. destruct (ckey_eqb_spec (r, k) (r0, h_num h)) as [K|NK].
      + left. inversion K; subst. split; [reflexivity|]. exists h. split; [exact Ih | reflexivity].
      + destruct (fold_setc_keys _ _ _ _ _ E) as [E1|[a [Ia K]]]; [right; exact E1|].
        left. inversion K; subst. split; [reflexivity|]. exists a. split; [apply Sub; exact Ia | reflexivity].
    - apply (mset_nodup ckey_eqb ckey_eqb_spec). apply fold_setc_nodup. exact ND1.
  Qed.

  (** * The root-main index after [update] wrote the new header's slot and (variant [v_root]) the re-pointing *)
  Lemma nodup_num_inj (Nn : list header) a b : NoDup (map h_num Nn) -> In a Nn -> In b Nn -> h_num a = h_num b -> a = b.
  Proof.
    induction Nn as [|x N IH]; [contradiction|]. cbn [map]. intros ND Ia Ib E. inversion ND as [|? ? NI ND']; subst.
    destruct Ia as [->|Ia], Ib as [->|Ib]; try reflexivity.
    - exfalso. apply NI. rewrite E. apply in_map. exact Ib.
    - exfalso. apply NI. rewrite <- E. apply in_map. exact Ia.
    - apply IH; assumption.
  Qed.

  Lemma fold_setr_base l : forall rm h, (forall a, In a l -> h_num a = h_num h -> a = h) ->
    rget (to_hash (h_root h), h_num h) rm = Some (key h) ->
    rget (to_hash (h_root h), h_num h) (fold_left (setr hash) l rm) = Some (key h).
  Proof.
    induction l as [|a l IH]; intros rm h Inj B; [exact B|].
    cbn [fold_left]. apply IH; [intros b Ib; apply Inj; right; exact Ib|].
    unfold setr, rset, rget. rewrite rget_rset.
    destruct (hkey_eqb_spec (to_hash (h_root h), h_num h) (to_hash (h_root a), h_num a)) as [K|_]; [|exact B].
    inversion K as [[Kr Kn]]. rewrite (Inj a (or_introl eq_refl) (eq_sym Kn)). reflexivity.
  Qed.

  Lemma rmain_conds (rm1 : rmap) (h : header) (Nn l : list header) (fr : bool) :
    NoDup (map h_num Nn) -> NoDup (map h_num l) -> In h Nn ->
    (forall a, In a l -> In a Nn) -> (forall a, In a Nn -> a = h \/ In a l) ->
    let rm2 := rset (to_hash (h_root h), h_num h) (key h) rm1 in
    let rm' := rfold hash fr l rm2 in
    (fr = false -> rm' = rm2) /\
    (fr = true -> forall a, In a Nn -> rget (to_hash (h_root a), h_num a) rm' = Some (key a)) /\
    (fr = true -> forall k, (forall a, In a Nn -> snd k <> h_num a) -> rget k rm' = rget k rm1).
  Proof.
    intros NDN NDl Ih Sub Sup rm2 rm'. unfold rm', rfold. split; [intros ->; reflexivity|]. split; intros ->.
    - intros a Ia. destruct (Sup a Ia) as [->|Il]; [|apply fold_setr_in; assumption].
      apply fold_setr_base.
      + intros b Ib E. exact (nodup_num_inj Nn b h NDN (Sub b Ib) Ih E).
      + unfold rm2, rset, rget. rewrite rget_rset, hkey_eqb_refl. reflexivity.
    - intros k N. rewrite fold_setr_other.
      + unfold rm2, rset, rget. rewrite rget_rset.
        destruct (hkey_eqb_spec k (to_hash (h_root h), h_num h)) as [K|_]; [|reflexivity].
        exfalso. apply (N h Ih). rewrite K. reflexivity.
      + intros a Ia E. apply (N a (Sub a Ia)). rewrite <- E. reflexivity.
  Qed.

  (** * A successful run of the (repaired) RestrictChain *)
  Section Restrict.
    Variable s1 : state.
    Variable L D : list header.
    Variable h : header.
    Hypothesis I1 : Inv s1 L D.
    Hypothesis Wh : wf_hdr h.
    Hypothesis Hfresh : fix_root = false -> forall a, Stored (idx s1) a -> h_num a = h_num h ->
                                  to_hash (h_root a) = to_hash (h_root h) -> key a = key h.
    Hypothesis Hnoalias : forall a, iget (key h) (idx s1) = Some a -> a = h.
    (* needed by the repaired variant only (it walks down from the head in the index that already holds [h]) *)
    Hypothesis Hg0 : fix_root = true -> g0 <= h_num h.
    Hypothesis Hdead : fix_root = true -> forall d, In d D -> key h <> key d.
    Let old := head s1.
    Let ix1 := idx s1.
    Let ix2 := iset (key h) h ix1.
    Let s2 := store_header hash s1 h.

    (** the main-chain header the [si > ti] branch starts from -- code as it is: through the consensus state
        and the root-main slot *)
    Lemma restrict_current y i0 :
      fix_root = false ->
      h_num h < h_num old -> nth_error L i0 = Some y -> h_num y = h_num h ->
      cget (h_rev h, h_num h) (cons s2) = Some (cstate_of y) /\
      rget (to_hash (h_root y), h_num h) (rmain s2) = Some (key y) /\
      iget (key y) (idx s2) = Some y.
    Proof.
      intros FR Lt Ey Ny. destruct Wh as [Hrev [Hh Hgl]].
      pose proof (inv_wf _ _ _ _ _ _ _ I1) as WF1. pose proof (inv_main _ _ _ _ _ _ _ I1) as M1.
      destruct (inv_head_wf _ _ _ _ _ _ _ I1) as [_ [Hold _]].
      assert (Iy : In y L) by (eapply nth_error_In; exact Ey).
      pose proof (main_stored _ _ _ _ _ WF1 Hold M1 (inv_head _ _ _ _ _ _ _ I1) _ Iy) as Sy.
      destruct (main_in_range _ _ _ _ _ WF1 Hold M1 _ Iy) as [[Ly _] _].
      cbn [s2 store_header cons rmain idx]. change (hash h, h_num h) with (key h). rewrite Hrev. split.
      - rewrite <- Ny. exact (inv_cmain _ _ _ _ _ _ _ I1 _ Iy).
      - assert (Ky : key y = key h -> y = h).
        { intro K. apply Hnoalias. rewrite <- K. exact Sy. }
        split.
        + unfold rset, rget. rewrite rget_rset.
          destruct (hkey_eqb_spec (to_hash (h_root y), h_num h) (to_hash (h_root h), h_num h)) as [K|_].
          * inversion K as [Kr]. rewrite (Hfresh FR y Sy Ny Kr). reflexivity.
          * rewrite <- Ny. exact (inv_rmain _ _ _ _ _ _ _ I1 y Sy Ly (fun _ => Iy)).
        + rewrite iget_store. destruct (hkey_eqb_spec (key y) (key h)) as [K|_]; [rewrite (Ky K); reflexivity | exact Sy].
    Qed.

    (** storing the new header does not change the head's stored ancestry: the only key it adds is its own,
        and that is neither a pruned header's nor below the creation height *)
    Lemma store_main_same : g0 <= h_num h -> (forall d, In d D -> key h <> key d) ->
      forall j, nth_anc ix2 old j = nth_anc ix1 old j.
    Proof.
      clear Hg0 Hdead Hfresh. intros Hg0' Hdead' j.
      pose proof (inv_wf _ _ _ _ _ _ _ I1) as WF1. pose proof (inv_main _ _ _ _ _ _ _ I1) as M1. fold ix1 old in M1.
      destruct (inv_head_wf _ _ _ _ _ _ _ I1) as [_ [Hold _]]. fold old in Hold.
      destruct Wh as [Hrev [Hh Hgl]].
      destruct (nth_anc ix1 old j) as [a|] eqn:E1.
      - apply (nth_anc_mono ix2 ix1 old j a); [|exact E1].
        intros k v Ek. exact (store_mono ix1 h Hnoalias k v Ek).
      - (* beyond the lowest stored main-chain header: its parent key is dead, the new key is not *)
        destruct (main_last _ _ _ M1) as [EL PL].
        destruct (main_cons _ _ _ M1) as [l EqL].
        assert (Hj : (length L <= j)%nat).
        { rewrite M1 in E1. apply nth_error_None in E1. exact E1. }
        assert (PL2 : parent_of ix2 (last L old) = None).
        { unfold parent_of, ix2. rewrite iget_store.
          change (to_hash (h_parent (last L old)), sub64 (h_num (last L old)) 1) with (pkey (last L old)).
          destruct (hkey_eqb_spec (pkey (last L old)) (key h)) as [K|_]; [|exact PL].
          exfalso. pose proof (inv_dead _ _ _ _ _ _ _ I1) as DP. fold old in DP. destruct D as [|d D'].
          - cbn [DeadPath] in DP. rewrite K in DP. cbn [snd EthChain.key] in DP. lia.
          - cbn [DeadPath] in DP. destruct DP as [Kd _]. apply (Hdead' d (or_introl eq_refl)). congruence. }
        assert (EL2 : nth_anc ix2 old (length L - 1) = Some (last L old)).
        { apply (nth_anc_mono ix2 ix1 old _ _); [|exact EL]. intros k v Ek. exact (store_mono ix1 h Hnoalias k v Ek). }
        replace j with ((length L - 1) + S (j - length L))%nat by (rewrite EqL in *; cbn [length] in *; lia).
        rewrite nth_anc_add, EL2. cbn [EthChain.nth_anc]. rewrite PL2. reflexivity.
    Qed.

    Lemma restrict_ok_shape c3 rm3 :
      restrict_chain hash s2 old h = Ok (c3, rm3) ->
      exists J m new2 y,
        nth_anc ix2 h J = Some new2 /\ nth_error L m = Some y /\ h_num new2 = h_num y /\
        h_parent y = h_parent new2 /\ c3 = fold_left (setc r0) (rev (ancs ix2 h J)) (cons s1) /\
        rm3 = rfold hash fix_root (rev (ancs ix2 h J)) (rmain s2).
    Proof.
      intro R. pose proof Wh as [Hrev [Hh Hgl]].
      pose proof (inv_wf _ _ _ _ _ _ _ I1) as WF1. fold ix1 in WF1.
      assert (WF2 : idx_wf ix2) by (apply store_wf; [exact WF1 | exact Wh]).
      pose proof (inv_main _ _ _ _ _ _ _ I1) as M1. fold ix1 old in M1.
      destruct (inv_head_wf _ _ _ _ _ _ _ I1) as [_ [Hold _]]. fold old in Hold.
      assert (S2h : Stored ix2 h) by apply store_stored_h.
      assert (H64 : h_num h < two64) by (pose proof two63_lt_two64; lia).
      assert (O64 : h_num old < two64) by (pose proof two63_lt_two64; lia).
      unfold restrict_chain, restrict_chain_gen in R.
      (* finishing argument shared by both branches *)
      assert (Fin : forall J new2 ti2 acc2,
                 nth_anc ix2 h J = Some new2 -> ti2 = h_num new2 -> acc2 = push hash ix2 h J [] ->
                 repoint fix_root ix2 (h_rev h) ti2 (hash new2 :: acc2) (cons s1) (rmain s2) = Ok (c3, rm3) ->
                 c3 = fold_left (setc r0) (rev (ancs ix2 h J)) (cons s1) /\
                 rm3 = rfold hash fix_root (rev (ancs ix2 h J)) (rmain s2)).
      { intros J new2 ti2 acc2 A -> -> Rp. rewrite (push_ancs hash ix2 h J [] new2 A), app_nil_r in Rp.
        rewrite Hrev in Rp. rewrite (repoint_spec hash) in Rp.
        - inversion Rp; split; reflexivity.
        - intros a Ia. apply in_rev in Ia. destruct (ancs_in _ _ _ _ Ia) as [i [_ Ei]].
          split; [exact (nth_anc_stored _ _ _ _ _ _ WF2 Hh S2h Ei) | exact (proj2 (nth_anc_num _ _ _ _ _ _ WF2 Hh Ei))].
        - apply (ancs_asc ix2 J h new2 WF2 Hh A). }
      destruct (N.ltb_spec (h_num h) (h_num old)) as [Lt|Ge].
      - (* the head is higher: start from the main-chain header [y] at the new header's height *)
        set (i0 := N.to_nat (h_num old - h_num h)) in *.
        assert (Start : forall r,
                  (if fix_root then cur <- walk0 (S (length (idx s2))) (idx s2) old (h_num old) (h_num h) ;; Ok (cur, h_num h)
                   else match cget (h_rev h, h_num h) (cons s2) with
                        | None => Err
                        | Some c => match rget (to_hash (c_root c), h_num h) (rmain s2) with
                                    | None => Err
                                    | Some ik => match iget ik (idx s2) with None => Err | Some cur => Ok (cur, h_num h) end
                                    end
                        end) = Ok r ->
                  exists y, nth_error L i0 = Some y /\ h_num y = h_num h /\ r = (y, h_num h)).
        { intros r St. destruct (Bool.bool_dec fix_root true) as [FR|FR]; [|apply Bool.not_true_is_false in FR]; rewrite FR in St.
          - destruct (walk0 (S (length (idx s2))) (idx s2) old (h_num old) (h_num h)) as [cur| |] eqn:W0; try discriminate St.
            cbn [obind] in St. inversion St; subst r.
            pose proof (walk0_sound (idx s2) _ _ _ _ _ O64 W0) as A0. fold i0 in A0.
            change (idx s2) with ix2 in A0. rewrite (store_main_same (Hg0 FR) (Hdead FR)), M1 in A0.
            exists cur. split; [exact A0|]. split; [|reflexivity].
            destruct (main_num _ _ _ _ _ WF1 Hold M1 _ _ A0) as [Q _]. unfold i0 in Q. lia.
          - destruct (cget (h_rev h, h_num h) (cons s2)) as [c|] eqn:E1; [|discriminate St].
            assert (LowH : low old L <= h_num h).
            { cbn [s2 store_header cons] in E1. rewrite Hrev in E1. exact (proj2 (inv_cdom _ _ _ _ _ _ _ I1 _ _ _ E1)). }
            destruct (main_at _ _ _ _ _ WF1 Hold M1 (h_num h)) as [y [Ey Ny]]; [lia|]. fold i0 in Ey.
            destruct (restrict_current y i0 FR Lt Ey Ny) as [C1 [C2 C3]].
            exists y. split; [exact Ey|]. split; [exact Ny|].
            rewrite C1 in E1. inversion E1; subst c. cbn [c_root cstate_of] in St. rewrite C2, C3 in St. inversion St; reflexivity. }
        match type of R with (obind ?st _ = _) => destruct st as [r| |] eqn:St; try discriminate R end.
        destruct (Start r eq_refl) as [y [Ey [Ny ->]]]. clear Start St. cbn [obind fst snd] in R.
        cbn [walk1] in R. rewrite N.ltb_irrefl in R. cbn [obind] in R.
        destruct (walk2 hash (S (length (idx s2))) (idx s2) y h (h_num h) []) as [[[new2 ti2] acc2]| |] eqn:W2; try discriminate.
        cbn [obind] in R.
        destruct (walk2_sound hash r0 ix2 _ _ _ _ _ _ _ _ WF2 Hh eq_refl W2) as [j [cur2 [_ [A [B [C [T P]]]]]]].
        exists j, (i0 + j)%nat, new2, cur2.
        split; [exact A|]. split.
        + rewrite <- M1, nth_anc_add, M1, Ey. unfold ix2 in B. rewrite store_anc in B by (try assumption; lia). exact B.
        + destruct (nth_anc_num _ _ _ _ _ _ WF2 Hh A) as [Q1 _].
          assert (Hy : h_num y < two63) by lia.
          destruct (nth_anc_num _ _ _ _ _ _ WF2 Hy B) as [Q2 _].
          split; [lia|]. split; [exact C|]. exact (Fin j new2 ti2 acc2 A T P R).
      - (* the head is not higher: bring the new branch down to its height first *)
        cbn [obind fst snd] in R.
        destruct (walk1 hash (S (length (idx s2))) (idx s2) h (h_num h) (h_num old) []) as [[[new1 ti1] acc1]| |] eqn:W1; try discriminate.
        cbn [obind] in R.
        destruct (walk1_sound ix2 _ _ _ _ _ _ H64 W1) as [a1 [A1 R1]].
        set (d := N.to_nat (h_num h - h_num old)) in *.
        inversion R1; subst new1 ti1 acc1. clear R1.
        destruct (nth_anc_num _ _ _ _ _ _ WF2 Hh A1) as [Q1 Ha1].
        assert (T1 : h_num h - N.of_nat d = h_num a1) by (unfold d in *; lia).
        rewrite T1 in R.
        destruct (walk2 hash (S (length (idx s2))) (idx s2) old a1 (h_num a1) (push hash ix2 h d [])) as [[[new2 ti2] acc2]| |] eqn:W2; try discriminate.
        cbn [obind] in R.
        destruct (walk2_sound hash r0 ix2 _ _ _ _ _ _ _ _ WF2 Ha1 eq_refl W2) as [j [cur2 [_ [A [B [C [T P]]]]]]].
        exists (d + j)%nat, j, new2, cur2.
        assert (AJ : nth_anc ix2 h (d + j) = Some new2) by (rewrite nth_anc_add, A1; exact A).
        split; [exact AJ|]. split.
        + rewrite <- M1. unfold ix2 in B. rewrite store_anc in B by (try assumption; lia). exact B.
        + destruct (nth_anc_num _ _ _ _ _ _ WF2 Ha1 A) as [Q2 _].
          destruct (nth_anc_num _ _ _ _ _ _ WF2 Hold B) as [Q3 _].
          split; [unfold d in *; lia|]. split; [exact C|].
          apply (Fin (d + j)%nat new2 ti2 acc2 AJ T); [|exact R].
          rewrite P. symmetry. apply push_add. exact A1.
    Qed.
  End Restrict.
End Step.
