(** The C09 theorems about the BSC client model (statements are repeated in Props/C09.v). *)
From Teleport Require Import Base.Bytes Base.Outcome Model.Bsc Model.BscCheck Proofs.BscBase Proofs.Bsc Proofs.BscInv.
From Coq Require Import ZifyN ZifyNat.
Local Open Scope N_scope.

Lemma existsb_false_forall {A} (f : A -> bool) l : existsb f l = false -> forall x, In x l -> f x = false.
Proof.
  intros H x Hx. destruct (f x) eqn:E; [|reflexivity].
  assert (existsb f l = true) by (apply existsb_exists; exists x; auto). congruence.
Qed.

Lemma heights_nodup {V} (l : list (height * V)) :
  NoDup (map fst l) ->
  (forall e1 e2, In e1 l -> In e2 l -> snd (fst e1) = snd (fst e2) -> fst e1 = fst e2) ->
  NoDup (map (fun e => snd (fst e)) l).
Proof.
  induction l as [|e l IH]; cbn; intros Hd Hk; [constructor|].
  inversion Hd as [|? ? Hn Hd']; subst. constructor.
  - intro Hin. apply in_map_iff in Hin as [e2 [E Hin]].
    apply Hn. apply in_map_iff. exists e2. split; [|exact Hin].
    apply Hk; [right; exact Hin | left; reflexivity | exact E].
  - apply IH; [exact Hd'|]. intros e1 e2 H1 H2. apply Hk; right; assumption.
Qed.

(** the gas-limit bound in ordinary arithmetic *)
Lemma gas_bound_math pg gl :
  gas_bound_bad pg gl = false <->
  (if gl <=? pg then pg - gl else gl - pg) < pg / 256 /\ 5000 <= gl.
Proof.
  unfold gas_bound_bad, gasLimitBoundDivisor, minGasLimit.
  rewrite orb_false_iff, N.leb_gt, N.ltb_ge.
  assert (E : (if gl <? pg then pg - gl else gl - pg) = (if gl <=? pg then pg - gl else gl - pg)).
  { destruct (gl <? pg) eqn:E1; destruct (gl <=? pg) eqn:E2; try reflexivity.
    - apply N.ltb_lt in E1. apply N.leb_gt in E2. lia.
    - apply N.ltb_ge in E1. apply N.leb_le in E2. lia. }
  rewrite E. tauto.
Qed.

Section Thm.
  Variable HH : header -> bytes.
  Variable ER : N -> header -> option bytes.

  (** * acceptance implies every conjunct of the property's first sentence *)
  Theorem accept_sound bt cs st h st' cs' c' :
    check_header_and_update HH ER bt cs st h = (st', ROk (cs', c')) ->
    exists signer,
      accept_conds HH ER cs st h signer /\
      N_of_bytes (h_diff h) = (if inturn cs signer then 2 else 1).
  Proof.
    intro H. destruct (check_ok _ _ _ _ _ _ _ _ _ H) as (signer & _ & A & D & _). exists signer. auto.
  Qed.

  (** ** what [recently_signed = false] means *)
  Lemma recently_signed_false rs signer n limit :
    recently_signed rs signer n limit = false ->
    forall r seen v, In ((r, seen), v) rs -> NoDup (map (fun e => snd (fst e)) rs) ->
                     to_addr v = signer -> limit <= n /\ seen <= sub64 n limit.
  Proof.
    unfold recently_signed. intros H r seen v Hin Hd Ev.
    pose proof (existsb_false_forall _ _ H (seen, to_addr v) (snap_recents_complete rs r seen v Hd Hin)) as F.
    cbn [fst snd] in F. rewrite Ev, bytes_eqb_refl in F. cbn [andb] in F.
    apply orb_false_iff in F as [F1 F2]. apply N.ltb_ge in F1, F2. auto.
  Qed.

  (** * the recent-signer window over all histories *)
  Theorem recents_window cs st ch bt h st' cs' :
    reach HH ER (cs, st) ch -> wf_hdr h -> 0 < h_num h ->
    update_client HH ER bt cs st h = (st', ROk cs') ->
    exists signer, sealer ER (c_chain cs) h = Some signer /\
      forall b, In b ch -> kept ch b -> h_num h < gnum b + limit_of_vals (c_vals cs) -> gb_sealer b <> signer.
  Proof.
    intros HR [Hn Hex] H0 HU.
    pose proof (reach_inv _ _ _ _ HR) as I.
    destruct (update_client_ok _ _ _ _ _ _ _ _ HU) as (_ & st5 & c' & HC & _).
    destruct (check_ok _ _ _ _ _ _ _ _ _ HC) as (signer & _ & A & _ & _).
    exists signer. split; [apply (ac_sealer _ _ _ _ _ _ A)|].
    intros b Hb Hk Hwin Es.
    destruct I as [Iep [b0 [rest [Ech Ehd]]] Icon Iwf Iaddr Igen Ind Iwin _ Ilen _ _ _]. cbn [fst snd] in *.
    pose proof (Iwin b Hb Hk) as Hin.
    assert (Hd : NoDup (map (fun e => snd (fst e)) (recents st))).
    { apply heights_nodup; [exact Ind|]. intros [k1 v1] [k2 v2] H1 H2 E. cbn [fst snd] in *.
      destruct (Igen k1 v1 H1) as (b1 & Hb1 & <- & _). destruct (Igen k2 v2 H2) as (b2 & Hb2 & <- & _).
      assert (b1 = b2) by (apply (consec_inj ch Icon); auto). subst. reflexivity. }
    assert (Ea : to_addr (gb_sealer b) = signer).
    { rewrite <- Es. apply fit_id. rewrite Forall_forall in Iaddr. apply (Iaddr b Hb). }
    unfold gkey, hheight in Hin.
    destruct (recently_signed_false _ _ _ _ (ac_recent _ _ _ _ _ _ A) _ _ _ Hin Hd Ea) as [L1 L2].
    assert (Hl : limit_of_vals (c_vals cs) < two64).
    { unfold limit_of_vals, len in *. pose proof (sorted_vals_length (c_vals cs)). rewrite two64_val in *. lia. }
    destruct (sub64_cases (h_num h) (limit_of_vals (c_vals cs)) Hn Hl) as [[_ E]|[L _]]; [|lia].
    rewrite E in L2. unfold gnum in Hwin. lia.
  Qed.

  (** the same with a premise that is easier to read: the retention limit has not been below the
      current limit since block [b] *)
  Corollary recents_window_simple cs st ch bt h st' cs' :
    reach HH ER (cs, st) ch -> wf_hdr h -> 0 < h_num h ->
    update_client HH ER bt cs st h = (st', ROk cs') ->
    exists signer, sealer ER (c_chain cs) h = Some signer /\
      forall b, In b ch -> h_num h < gnum b + limit_of_vals (c_vals cs) ->
                (forall j, In j ch -> gnum b < gnum j -> limit_of_vals (c_vals cs) <= gb_eff j) ->
                gb_sealer b <> signer.
  Proof.
    intros HR Hwf H0 HU. destruct (recents_window _ _ _ _ _ _ _ HR Hwf H0 HU) as (signer & HS & W).
    exists signer. split; [exact HS|]. intros b Hb Hwin Heff. apply W; [exact Hb | | exact Hwin].
    intros j Hj Hlt. specialize (Heff j Hj Hlt).
    pose proof (reach_inv _ _ _ _ HR) as I. destruct I as [_ [b0 [rest [Ech Ehd]]] Icon _ _ _ _ _ _ _ _ _ _]. cbn [fst] in *.
    destruct (update_client_ok _ _ _ _ _ _ _ _ HU) as (_ & st5 & c' & HC & _).
    destruct (check_ok _ _ _ _ _ _ _ _ _ HC) as (s & _ & A & _ & _).
    assert (Enum : h_num h = gnum b0 + 1).
    { unfold gnum. rewrite Ehd. destruct Hwf. eapply number_succ; eauto. }
    assert (gnum j <= gnum b0).
    { subst ch. destruct Hj as [<-|Hj]; [lia|]. pose proof (consec_lt _ _ Icon j Hj). lia. }
    lia.
  Qed.

  (** every stored entry is the (height, sealer) of an accepted block; no two entries share a height *)
  Theorem recents_genuine k ch :
    reach HH ER k ch ->
    (forall key v, In (key, v) (recents (snd k)) -> exists b, In b ch /\ gkey b = key /\ gb_sealer b = v) /\
    (forall b, In b ch -> kept ch b -> In (gkey b, gb_sealer b) (recents (snd k))) /\
    NoDup (map fst (recents (snd k))).
  Proof.
    intro HR. destruct (reach_inv _ _ _ _ HR). auto.
  Qed.

  (** * validator-set rotation *)
  Theorem valset_changes_only_at_offset cs st ch bt h st' cs' :
    reach HH ER (cs, st) ch ->
    update_client HH ER bt cs st h = (st', ROk cs') ->
    exists x0, last_epoch_extra (c_epoch cs) ch = Some x0 /\
      let x := if h_num h mod c_epoch cs =? 0 then h_extra h else x0 in
      c_vals cs' = (if h_num h mod c_epoch cs =? len (c_vals cs) / 2 then parse_validators x else c_vals cs) /\
      pending st' = pend_of (parse_validators x).
  Proof.
    intros HR HU. pose proof (reach_inv _ _ _ _ HR) as I.
    destruct I as [_ _ _ _ _ _ _ _ [x0 [Ilx Ipend]] _ _ _ _]. cbn [fst snd] in *.
    exists x0. split; [exact Ilx|]. cbv zeta.
    destruct (update_client_ok _ _ _ _ _ _ _ _ HU) as (_ & st5 & c' & HC & Est').
    destruct (check_ok _ _ _ _ _ _ _ _ _ HC) as (signer & _ & A & _ & HUp).
    destruct (update_ok _ _ _ _ _ _ HUp) as (_ & Est & Ecs & Ec). cbv zeta in Est, Ecs.
    assert (Ep : pending (pending_step cs (prune bt cs (set_signer st (hheight h) signer)) h)
                 = pend_of (parse_validators (if h_num h mod c_epoch cs =? 0 then h_extra h else x0))).
    { unfold pending_step. destruct (h_num h mod c_epoch cs =? 0).
      - reflexivity.
      - rewrite pending_prune. cbn [set_signer pending]. exact Ipend. }
    split.
    - rewrite Ecs. cbn [c_vals]. unfold vals_after.
      destruct (h_num h mod c_epoch cs =? len (c_vals cs) / 2); [|reflexivity].
      fold (pend_read (pending (pending_step cs (prune bt cs (set_signer st (hheight h) signer)) h))).
      rewrite Ep. apply pend_read_of.
    - rewrite Est'. cbn [set_cons pending]. rewrite Est, pending_shift_step, pending_shrink_step. exact Ep.
  Qed.

  (** * consensus states *)
  Theorem consensus_root bt cs st h st' cs' :
    update_client HH ER bt cs st h = (st', ROk cs') ->
    c_header cs' = h /\ h_num (c_header cs) = sub64 (h_num h) 1 /\
    c_chain cs' = c_chain cs /\ c_epoch cs' = c_epoch cs /\ c_interval cs' = c_interval cs /\
    c_contract cs' = c_contract cs /\ c_trust cs' = c_trust cs /\
    get_cons st' (hheight h) = Some {| cs_time := h_time h; cs_height := hheight h; cs_root := h_root h |} /\
    forall k, k <> hheight h ->
      get_cons st' k = get_cons st k \/ (prune_target bt cs st = Some k /\ get_cons st' k = None).
  Proof.
    intro HU.
    destruct (update_client_ok _ _ _ _ _ _ _ _ HU) as (_ & st5 & c' & HC & Est').
    destruct (check_ok _ _ _ _ _ _ _ _ _ HC) as (signer & _ & A & _ & HUp).
    destruct (update_ok _ _ _ _ _ _ HUp) as (_ & Est & Ecs & Ec). cbv zeta in Est, Ecs.
    rewrite Ecs. cbn [c_header c_chain c_epoch c_interval c_contract c_trust].
    repeat (split; [first [reflexivity | apply (ac_number _ _ _ _ _ _ A)]|]).
    assert (Econs : cons st5 = cons (prune bt cs (set_signer st (hheight h) signer))).
    { rewrite Est, cons_shift_step, cons_shrink_step. apply cons_pending_step. }
    unfold get_cons. rewrite Est'. cbn [set_cons cons]. rewrite Econs. split.
    - rewrite Ec. apply get_key_ins_same. apply get_key_del_same.
    - intros k Hne. rewrite get_key_ins_other, get_key_del by exact Hne.
      unfold prune. replace (prune_target bt cs (set_signer st (hheight h) signer)) with (prune_target bt cs st) by reflexivity.
      destruct (prune_target bt cs st) as [p|]; [|left; reflexivity].
      cbn [del_cons cons set_signer]. destruct (key_eqb k p) eqn:E.
      + apply key_eqb_eq in E. subst p. right. split; [reflexivity | apply get_key_del_same].
      + apply key_eqb_neq in E. left. apply get_key_del. exact E.
  Qed.

  (** over histories: the consensus state stored under the height of an accepted header is the one made
      from that header (or has been pruned), the head's is present, and nothing else is stored *)
  Theorem consensus_states_history k ch :
    reach HH ER k ch ->
    (forall b, In b ch -> get_cons (snd k) (gkey b) = Some (gb_cons b) \/ get_cons (snd k) (gkey b) = None) /\
    (forall b rest, ch = b :: rest -> gb_hdr b = c_header (fst k) /\ get_cons (snd k) (gkey b) = Some (gb_cons b)) /\
    (forall key c, In (key, c) (cons (snd k)) -> exists b, In b ch /\ gkey b = key /\ gb_cons b = c).
  Proof.
    intro HR. destruct (reach_inv _ _ _ _ HR) as [_ [b0 [rest0 [Ech Ehd]]] _ _ _ _ _ _ _ _ Ic Ich Icg].
    split; [exact Ic|]. split; [|exact Icg].
    intros b rest E. split; [|eapply Ich; exact E]. rewrite E in Ech. inversion Ech; subst. exact Ehd.
  Qed.

  (** * all histories: submissions that are rejected (or panic) change nothing, accepted ones extend the chain *)
  Theorem run_reach steps : forall k ch,
    reach HH ER k ch ->
    Forall (fun s => wf_hdr (snd s) /\ 0 < h_num (snd s)) steps ->
    exists ch', reach HH ER (run HH ER k steps) (ch' ++ ch).
  Proof.
    induction steps as [|[bt h] steps IH]; intros k ch HR Hwf.
    - exists []. exact HR.
    - inversion Hwf as [|? ? [Hw H0] Hwf']; subst. cbn [run snd] in *.
      unfold deliver. destruct k as [cs st]. cbn [fst snd].
      destruct (update_client HH ER bt cs st h) as [st' [cs'| |]] eqn:HU; cbn [fst].
      + destruct (update_client_ok _ _ _ _ _ _ _ _ HU) as (_ & st5 & c' & HC & _).
        destruct (check_ok _ _ _ _ _ _ _ _ _ HC) as (signer & _ & A & _ & _).
        pose proof (reach_step HH ER _ _ _ _ _ _ _ signer HR HU (ac_sealer _ _ _ _ _ _ A) Hw H0) as HR'.
        destruct (IH _ _ HR' Hwf') as [ch' Hch']. eexists (ch' ++ [_]). rewrite <- app_assoc. exact Hch'.
      + apply IH; assumption.
      + apply IH; assumption.
  Qed.

End Thm.

(** * what a rejected raw call leaves behind *)
Section Rejected.
  Variable HH : header -> bytes.
  Variable ER : N -> header -> option bytes.

  Lemma update_after_verify cs st0 st h signer :
    accept_conds HH ER cs st0 h signer -> exists st' r, update cs st h = (st', ROk r).
  Proof.
    intro A. unfold update, extraVanity, extraSeal, addressLength.
    pose proof (ac_epoch _ _ _ _ _ _ A) as E0. apply N.eqb_neq in E0. rewrite E0.
    pose proof (ac_vals_bytes _ _ _ _ _ _ A) as B. pose proof (ac_extra _ _ _ _ _ _ A) as B1.
    destruct (h_num h mod c_epoch cs =? 0).
    - assert (E1 : len (h_extra h) <? 32 + 65 = false) by (apply N.ltb_ge; lia). rewrite E1.
      apply N.eqb_eq in B. rewrite B. cbn [negb]. cbv zeta.
      destruct (h_num h mod c_epoch cs =? len (c_vals cs) / 2); [destruct (_ <? _)|]; eexists; eexists; reflexivity.
    - cbv zeta. destruct (h_num h mod c_epoch cs =? len (c_vals cs) / 2); [destruct (_ <? _)|]; eexists; eexists; reflexivity.
  Qed.

  (** A rejected (or panicking) CheckHeaderAndUpdateState leaves the store as it was, except that a header
      failing only the difficulty test (error 13) leaves the recent-signer entry written by SetSigner — the
      reason why the call must run inside a transaction ([deliver]). *)
  Theorem rejected_writes bt cs st h st' :
    (exists k, check_header_and_update HH ER bt cs st h = (st', RErr k)) \/
    check_header_and_update HH ER bt cs st h = (st', RPanic) ->
    st' = st \/
    exists signer, sealer ER (c_chain cs) h = Some signer /\ st' = set_signer st (hheight h) signer /\
                   check_header_and_update HH ER bt cs st h = (st', RErr 13).
  Proof.
    unfold check_header_and_update, check_header_and_update_gen.
    destruct (get_cons st (hheight (c_header cs))); [|intros [[k H]|H]; inversion H; auto].
    destruct (verify_pre_gen HH ER recently_signed cs st h) as [signer| |] eqn:V;
      [|intros [[k H]|H]; inversion H; auto | intros [[k H]|H]; inversion H; auto].
    pose proof (verify_pre_ok _ _ _ _ _ _ V) as A.
    unfold verify_post, diffInTurn, diffNoTurn.
    destruct (update_after_verify cs st (prune bt cs (set_signer st (hheight h) signer)) h signer A) as (s2 & r & EU).
    destruct (inturn cs signer); destruct (N_of_bytes (h_diff h) =? _);
      try (rewrite EU; intros [[k H]|H]; discriminate H);
      intros [[k H]|H]; inversion H; subst; right; exists signer;
      (split; [apply (ac_sealer _ _ _ _ _ _ A) | split; reflexivity]).
  Qed.
End Rejected.
