(** C03 — tie between the value layer (Model/Bridge.v) and the packet layer (Model/Packet.v, the line-by-line
    transcription of msg_server.go / packet.go / evm.go / evm_hooks.go that properties C01 C02 C04 C05 are proved about
    and that their correspondence checks pin to the Go code).

    Model/Bridge.v keeps the packet layer abstract: [Recv] is taken for a packet that was sent and not yet received and
    keeps the callback's ledger effects iff the acknowledgement it writes has result code 0; [Ack] is taken for a received,
    not yet acknowledged packet, records status 1 for code 0 and 2 otherwise, pays the fee and runs the refund path, all
    or nothing.  This file proves that the transcribed handlers behave exactly like that, on the ghost log of
    contract-side effects that Model/Packet.v maintains:

      - [packet_recv_rule]: an accepted MsgRecvPacket on the destination chain writes exactly one acknowledgement [a];
        the packet contract's onRecvPacket effects (and every packet the callback sent on) PERSIST iff [a_code a = 0];
        [a_code a] is 1 when the EVM call or one of its post-transaction hooks failed, and the contract's result code
        otherwise.  This is [recv_chain] of Model/Bridge.v ([bridge_recv_rule]).
      - [packet_ack_rule]: an accepted MsgAcknowledgement on the source chain performs setAckStatus(1 if code 0 else 2),
        sendPacketFeeToRelayer and OnAcknowledgePacket(p, a), each exactly once, in this order, all or nothing.
        This is [ack_chain] of Model/Bridge.v ([bridge_ack_rule]).
      - [packet_gates]: over any history of a chain the callback effects of a triple persist at most once and the three
        acknowledgement effects happen at most once (C01 / C05): the single-use gates [is_sent] / [is_received].

    What remains assumed between the layers (stated in notes/C03.md): the light clients are sound (a verified commitment /
    acknowledgement was really stored by the counterparty: C02 + C07..C10) and packet / acknowledgement commitments are
    collision free, so that the packet and acknowledgement processed are the ones the counterparty produced. *)
From Coq Require Import List Arith PeanoNat NArith Bool Lia.
From Teleport Require Import Base.Bytes Base.Outcome Base.AList Model.Packet Model.PacketKeys
  Proofs.Packet Proofs.PacketC01 Proofs.PacketC04 Proofs.PacketKeys.
From Teleport Require Model.Bridge Proofs.Bridge Proofs.BridgeOutcome.
Import ListNotations.
Local Open Scope N_scope.

(** The rule shared by both layers: acknowledgement code and "are the callback's effects kept". *)
Definition ack_code_rule (call_failed : bool) (ret : N) : N := if call_failed then 1 else ret.
Definition keep_rule (code : N) : bool := code =? 0.

Definition is_sent_ev (e : event) : bool := match e with EvSent _ => true | _ => false end.

Section Tie.
  Variable P : params.
  Hypothesis KO : keys_ok P.
  Local Notation slog s := (log (st_app s)).

  Lemma hook_sends_sent l : forall s s', hook_sends P s l = Ok s' -> cnt is_sent_ev (slog s') = (cnt is_sent_ev (slog s) + length l)%nat.
  Proof.
    induction l as [|[p ok] l IH]; intros s s' H; cbn [hook_sends] in H.
    - inversion H; subst. cbn. lia.
    - destruct (send_packet P s p ok) as [s1| |] eqn:E; cbn [obind] in H; try discriminate.
      rewrite (IH _ _ H). apply send_packet_ok in E as (_ & _ & _ & _ & _ & bz & _ & ->).
      rewrite slog_sent, !cnt_app, !cnt_one. cbn. lia.
  Qed.

  Lemma call_sent s e cb s' :
    is_sent_ev e = false -> call_packet P s e cb = Ok s' ->
    cnt is_sent_ev (slog s') = (cnt is_sent_ev (slog s) + length (cb_sends cb))%nat.
  Proof.
    intros He H. unfold call_packet in H. destruct (cb_fail cb); [discriminate|].
    rewrite (hook_sends_sent _ _ _ H), slog_add_log, cnt_app, cnt_one, He. lia.
  Qed.

  Lemma write_ack_cnt f s p bz s' :
    write_ack P s p bz = Ok s' ->
    cnt f (slog s') = (cnt f (slog s) + if f (EvAckWritten (triple_of p) (sha256 P bz)) then 1 else 0)%nat.
  Proof.
    intro H. apply write_ack_ok in H as (_ & _ & _ & ->). rewrite slog_add_log, cnt_app, cnt_one. reflexivity.
  Qed.

  Lemma recv_keeper_slog env s m s1 : recv_keeper P env s m = Ok s1 -> slog s1 = slog s /\ st_name s1 = st_name s.
  Proof.
    intro H. apply recv_keeper_ok in H. cbv zeta in H. destruct H as (_ & _ & _ & ct & bz & _ & _ & _ & ->).
    destruct (recv_relay s _); split; reflexivity.
  Qed.

  (** ** MsgRecvPacket on the destination chain *)
  Theorem packet_recv_rule env s m cb s' :
    recv_handler P env s m cb = Ok s' ->
    let p := fst (decode P (rm_packet m)) in
    let t := triple_of p in
    p_dst p = st_name s ->
    exists s1 a bz,
      recv_keeper P env s m = Ok s1 /\
      (* the acknowledgement written: its code *)
      pack_ack P a = Some bz /\ sget (akey P t) s' = Some (sha256 P bz) /\
      a_code a = match call_packet P s1 (EvOnRecv p) cb with
                 | Ok _ => match cb_ret cb with Some (code, _, _) => ack_code_rule false code | None => 1 end
                 | _ => ack_code_rule true 0
                 end /\
      (* exactly one acknowledgement event for the triple *)
      cnt (is_ackw t) (slog s') = S (cnt (is_ackw t) (slog s)) /\
      (* the callback's contract-side effects persist iff the code is 0 *)
      cnt (is_onrecv t) (slog s') = (cnt (is_onrecv t) (slog s) + if keep_rule (a_code a) then 1 else 0)%nat /\
      (* so do the packets the callback sent on (SendPacket hook) *)
      cnt is_sent_ev (slog s') = (cnt is_sent_ev (slog s) + if keep_rule (a_code a) then length (cb_sends cb) else 0)%nat.
  Proof.
    intros H p t Hd. apply recv_handler_ok in H. cbv zeta in H. fold p in H.
    destruct H as (s1 & relayer & RK & _ & _ & Hc).
    destruct (recv_keeper_slog _ _ _ _ RK) as [L1 N1].
    destruct Hc as [(_ & s3 & a & bz & PA & WA & Hcb) | [(Hne & _) | (Hne & _)]]; [|congruence|congruence].
    exists s1, a, bz. split; [exact RK|]. split; [exact PA|].
    pose proof (write_ack_ok P _ _ _ _ WA) as (_ & _ & _ & Es').
    split.
    { rewrite Es'. unfold add_log, set_kv, sget; cbn. unfold t, triple_of, akey. apply aget_aset_same. }
    assert (Hack : forall f, cnt f (slog s') = (cnt f (slog s3) + if f (EvAckWritten t (sha256 P bz)) then 1 else 0)%nat)
      by (intro f; apply (write_ack_cnt f _ _ _ _ WA)).
    destruct Hcb as [(CE & -> & ->) | (s2 & code & res & msg & CP & CR & -> & ->)].
    - rewrite CE. cbn [a_code ack_code_rule keep_rule N.eqb Pos.eqb].
      split; [reflexivity|]. rewrite !Hack, L1. cbn [is_ackw is_onrecv is_sent_ev]. rewrite triple_eqb_refl.
      repeat split; lia.
    - rewrite CP, CR. cbn [a_code ack_code_rule]. split; [reflexivity|]. unfold keep_rule.
      rewrite !Hack. cbn [is_ackw is_onrecv is_sent_ev]. rewrite triple_eqb_refl.
      destruct (code =? 0) eqn:Ec.
      + rewrite (call_cnt P (is_ackw t) _ _ _ _ (send_blind_ackw t) CP), (call_cnt P (is_onrecv t) _ _ _ _ (send_blind_onrecv t) CP),
          (call_sent _ (EvOnRecv p) _ _ eq_refl CP), L1.
        cbn [is_ackw is_onrecv]. fold t. rewrite triple_eqb_refl. repeat split; lia.
      + rewrite L1. repeat split; lia.
  Qed.

  (** The EVM behaviour Model/Bridge.v assigns to the callback of a packet, as an input of the transcribed handler:
      result code [c1] of [give_tokens] / [run_calldata] (2 = token part refused, 3 = inner call reverted: both returned
      BY VALUE by the packet contract; 1 = CallPacket itself fails because a post-transaction hook fails),
      [sends] = the packets the callback sends on. *)
  Definition cb_of_bridge (c1 : N) (sends : list (packet * bool)) : cbres :=
    {| cb_fail := (c1 =? 1); cb_sends := sends; cb_ret := Some (c1, [], []) |}.

  (** With that behaviour (for codes other than 1 the call and its SendPacket hooks succeed) the transcribed handler
      writes an acknowledgement with exactly the code Model/Bridge.v records for the packet, and keeps the callback's
      effects in exactly the cases in which [recv_chain] keeps the ledger. *)
  Corollary packet_recv_bridge_code env s m c1 sends s' :
    recv_handler P env s m (cb_of_bridge c1 sends) = Ok s' ->
    let p := fst (decode P (rm_packet m)) in
    p_dst p = st_name s ->
    (c1 <> 1 -> forall s1, recv_keeper P env s m = Ok s1 ->
       exists s2, call_packet P s1 (EvOnRecv p) (cb_of_bridge c1 sends) = Ok s2) ->
    exists a, a_code a = c1 /\
      cnt (is_onrecv (triple_of p)) (slog s') = (cnt (is_onrecv (triple_of p)) (slog s) + if keep_rule c1 then 1 else 0)%nat.
  Proof.
    intros H p Hd Hok. destruct (packet_recv_rule _ _ _ _ _ H Hd) as (s1 & a & bz & RK & _ & _ & Hc & _ & Hk & _).
    fold p in Hc, Hk. exists a.
    assert (E : a_code a = c1).
    { rewrite Hc. destruct (N.eq_dec c1 1) as [->|Hne].
      - unfold call_packet, cb_of_bridge; cbn. reflexivity.
      - destruct (Hok Hne s1 RK) as [s2 ->]. cbn. reflexivity. }
    split; [exact E|]. rewrite <- E. exact Hk.
  Qed.

  (** ** MsgAcknowledgement on the source chain *)
  Theorem packet_ack_rule env s m cb1 cb2 cb3 s' :
    ack_handler P env s m cb1 cb2 cb3 = Ok s' ->
    let p := fst (decode P (am_packet m)) in
    p_src p = st_name s ->
    exists a addr,
      decode_ack P (am_ack m) = Some a /\
      let st := if keep_rule (a_code a) then 1 else 2 in
      (forall f, send_blind f ->
         cnt f (slog s') = (cnt f (slog s) + (if f (EvAckStatus (p_dst p) (p_seq p) st) then 1 else 0)
                                           + (if f (EvFee (p_dst p) (p_seq p) addr) then 1 else 0)
                                           + (if f (EvOnAck p a) then 1 else 0))%nat).
  Proof.
    intros H p Hs. apply ack_handler_ok in H. cbv zeta in H. fold p in H.
    destruct H as (s1 & a & AK & DA & _ & Hc).
    assert (L1 : slog s1 = slog s /\ st_name s1 = st_name s).
    { apply ack_keeper_ok in AK. cbv zeta in AK. fold p in AK.
      destruct AK as (_ & _ & bz & ct & _ & _ & _ & _ & [[_ ->] | (Hne & _ & _)]); [split; reflexivity|].
      exfalso. apply Hne. cbn. exact Hs. }
    destruct L1 as [L1 N1].
    destruct Hc as [(Hne & _) | (_ & s2 & s3 & r & addr & C1 & _ & _ & C2 & C3)]; [congruence|].
    exists a, addr. split; [exact DA|]. intros st f Bf.
    rewrite (call_cnt P f _ _ _ _ Bf C3), (call_cnt P f _ _ _ _ Bf C2), (call_cnt P f _ _ _ _ Bf C1), L1.
    unfold st, keep_rule. lia.
  Qed.

  (** ** The gates: at most once per triple, over any history of the chain *)
  Theorem packet_gates ops s t :
    log_ok P s ->
    (cnt (is_onrecv t) (slog (run P s ops)) <= 1)%nat /\ (cnt (is_ackw t) (slog (run P s ops)) <= 1)%nat.
  Proof. apply (effects_at_most_once P KO). Qed.

  Theorem packet_ack_gates ops s j d k :
    (forall x, sha256 P x <> []) ->
    inv4 P s -> ops_noself (st_name s) ops -> acklog_ok P s -> valid_name P d = true ->
    (cnt (ackev j d k) (slog (run P s ops)) <= 1)%nat.
  Proof. intro Sh. apply (ack_effects_at_most_once P KO Sh). Qed.
End Tie.

(** * The same rules on the value layer *)
Section BridgeSide.
  Import Model.Bridge Proofs.Bridge Proofs.BridgeOutcome.
  Variable cfg : config.

  (** [Recv]: the acknowledgement code is the token part's failure code 2, or the call data's code ([run_calldata]: 1 for a
      failing hook, the contract's code otherwise); the destination ledger after the step is the callback's ledger iff
      [keep_rule code], and the ledger before the step otherwise; an onward packet exists only if [keep_rule code]. *)
  Theorem bridge_recv_rule cs p :
    let '(code, cs', d, onw) := recv_chain cfg cs p in
    match give_tokens cfg cs p with
    | None => code = 2 /\ cs' = cs /\ d = 0 /\ onw = None
    | Some (cs1, d1) =>
        let '(c1, cs2, onw1) := run_calldata cfg cs1 p d1 in
        code = c1 /\
        (cs', d, onw) = if keep_rule code then (cs2, d1, onw1) else (cs, 0, None)
    end.
  Proof.
    unfold recv_chain. destruct (give_tokens cfg cs p) as [[cs1 d1]|]; [|repeat split; reflexivity].
    destruct (run_calldata cfg cs1 p d1) as [[c1 cs2] onw1]. unfold keep_rule.
    destruct (c1 =? 0) eqn:E; cbn.
    - apply N.eqb_eq in E. subst. split; reflexivity.
    - rewrite E. split; reflexivity.
  Qed.

  (** [Ack]: status 1 iff [keep_rule code] (else 2), then the fee, then the refund path; [None] if any part fails. *)
  Theorem bridge_ack_rule cs p cs' r :
    ack_chain cfg cs p = Some (cs', r) ->
    ack_status cs' (p_dst p) (p_seq p) = (if keep_rule (p_code p) then 1 else 2) /\ p_cb p <> CbBroken.
  Proof.
    intro H. split; [|exact (proj1 (ack_chain_cases cfg _ _ _ _ H))].
    unfold ack_chain in H. unfold keep_rule.
    destruct (fees cs (p_dst p) (p_seq p)) as [ft f].
    assert (G : exists cs2, give_back cfg (move (set_ackst cs (upd_cs (ack_status cs) (p_dst p) (p_seq p) (if p_code p =? 0 then 1 else 2)))
                                             ft PacketC Relayer f) p = Some (cs2, r) /\ ack_status cs' = ack_status cs2).
    { destruct (p_cb p) as [| |ref]; [|discriminate|];
        (match type of H with (if ?c then _ else _) = _ => destruct c end; [|discriminate]);
        (match type of H with match ?g with Some _ => _ | None => _ end = _ => destruct g as [[cs2 r2]|] eqn:Eg end; [|discriminate]);
        injection H as <- <-; exists cs2; (split; [reflexivity|]); [reflexivity|].
      destruct (r2 =? 0); reflexivity. }
    destruct G as (cs2 & G & ->). apply (give_back_cases cfg) in G as (_ & -> & _). cbn. unfold upd_cs.
    rewrite Nat.eqb_refl, N.eqb_refl. reflexivity.
  Qed.
End BridgeSide.
