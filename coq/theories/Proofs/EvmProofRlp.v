(** Lemmas about the byte / number / hex / RLP functions of Model/EvmProof.v:
    big-endian round trips, the strict RLP string decoder inverts the encoder, the encoders are
    injective (prefix-free), [rlp_account] is injective. *)
From Teleport Require Import Base.Bytes Base.Outcome Model.EvmProof.
From Coq Require Import ZifyN ZifyNat.
Local Open Scope N_scope.
Ltac Zify.zify_post_hook ::= Z.div_mod_to_equations.

(** ** bytes <-> numbers *)

Lemma nb_lt b : nb b < 256.
Proof. unfold nb. pose proof (Byte.to_N_bounded b). lia. Qed.

Lemma nb_byte_of_N n : nb (byte_of_N n) = n mod 256.
Proof.
  unfold byte_of_N, nb. destruct (Byte.of_N (n mod 256)) eqn:E.
  - apply Byte.to_of_N in E. exact E.
  - apply Byte.of_N_None_iff in E. assert (n mod 256 < 256) by (apply N.mod_lt; lia). lia.
Qed.

Lemma byte_of_N_nb b : byte_of_N (nb b) = b.
Proof.
  unfold byte_of_N, nb. rewrite N.mod_small by (pose proof (Byte.to_N_bounded b); lia).
  rewrite Byte.of_to_N. reflexivity.
Qed.

Lemma nb_inj a b : nb a = nb b -> a = b.
Proof. apply byte_to_N_inj. Qed.

Lemma byte_eqb_x00 b : Byte.eqb b x00 = true <-> b = x00.
Proof. split; intro H; [apply byte_dec_bl in H; exact H | subst; reflexivity]. Qed.

Lemma byte_eqb_false b c : Byte.eqb b c = false <-> b <> c.
Proof.
  split; intro H.
  - intro E; subst. rewrite (byte_dec_lb eq_refl) in H. discriminate.
  - destruct (Byte.eqb b c) eqn:E; [apply byte_dec_bl in E; contradiction | reflexivity].
Qed.

Lemma length_le_fixed k n : length (le_fixed k n) = k.
Proof. revert n; induction k as [|k IH]; intro n; cbn [le_fixed length]; [reflexivity | rewrite IH; reflexivity]. Qed.

Lemma length_be_fixed k n : length (be_fixed k n) = k.
Proof. unfold be_fixed. rewrite rev_length. apply length_le_fixed. Qed.

Lemma N_of_le_le_fixed k n : N_of_le (le_fixed k n) = n mod 256 ^ N.of_nat k.
Proof.
  revert n; induction k as [|k IH]; intro n.
  - cbn. rewrite N.mod_1_r. reflexivity.
  - cbn [le_fixed N_of_le]. rewrite IH, nb_byte_of_N.
    replace (N.of_nat (S k)) with (N.succ (N.of_nat k)) by lia.
    rewrite N.pow_succ_r'.
    assert (P : 256 ^ N.of_nat k <> 0) by (apply N.pow_nonzero; lia).
    rewrite N.mod_mul_r by lia. reflexivity.
Qed.

Lemma N_of_le_app a b : N_of_le (a ++ b) = N_of_le a + 256 ^ N.of_nat (length a) * N_of_le b.
Proof.
  induction a as [|x a IH]; cbn [app N_of_le length].
  - change (N.of_nat 0) with 0. rewrite N.pow_0_r. lia.
  - rewrite IH. replace (N.of_nat (S (length a))) with (N.succ (N.of_nat (length a))) by lia.
    rewrite N.pow_succ_r'. lia.
Qed.

Lemma N_of_le_bound l : N_of_le l < 256 ^ N.of_nat (length l).
Proof.
  induction l as [|x l IH]; cbn [N_of_le length].
  - change (N.of_nat 0) with 0. rewrite N.pow_0_r. lia.
  - replace (N.of_nat (S (length l))) with (N.succ (N.of_nat (length l))) by lia.
    rewrite N.pow_succ_r'. pose proof (nb_lt x). lia.
Qed.

Lemma N_of_be_bound l : N_of_be l < 256 ^ N.of_nat (length l).
Proof. unfold N_of_be. rewrite <- rev_length. apply N_of_le_bound. Qed.

Lemma N_of_be_be_fixed k n : N_of_be (be_fixed k n) = n mod 256 ^ N.of_nat k.
Proof. unfold N_of_be, be_fixed. rewrite rev_involutive. apply N_of_le_le_fixed. Qed.

Lemma N_of_be_cons_zero l : N_of_be (x00 :: l) = N_of_be l.
Proof. unfold N_of_be. cbn [rev]. rewrite N_of_le_app. cbn. lia. Qed.

Lemma N_of_be_strip l : N_of_be (strip_zeros l) = N_of_be l.
Proof.
  induction l as [|b l IH]; cbn [strip_zeros]; [reflexivity|].
  destruct (Byte.eqb b x00) eqn:E; [|reflexivity].
  apply byte_eqb_x00 in E; subst. rewrite IH, N_of_be_cons_zero. reflexivity.
Qed.

Lemma strip_zeros_head l b r : strip_zeros l = b :: r -> b <> x00.
Proof.
  induction l as [|c l IH]; cbn [strip_zeros]; [discriminate|].
  destruct (Byte.eqb c x00) eqn:E; [exact IH|].
  intro H; inversion H; subst. apply byte_eqb_false in E. exact E.
Qed.

Lemma strip_zeros_length l : (length (strip_zeros l) <= length l)%nat.
Proof.
  induction l as [|c l IH]; cbn [strip_zeros length]; [lia|].
  destruct (Byte.eqb c x00); cbn [length]; lia.
Qed.

Lemma strip_zeros_pad l : zeros (length l - length (strip_zeros l)) ++ strip_zeros l = l.
Proof.
  induction l as [|c l IH]; cbn [strip_zeros length]; [reflexivity|].
  destruct (Byte.eqb c x00) eqn:E.
  - apply byte_eqb_x00 in E; subst. pose proof (strip_zeros_length l).
    replace (S (length l) - length (strip_zeros l))%nat with (S (length l - length (strip_zeros l))) by lia.
    cbn [zeros repeat app]. unfold zeros in IH. rewrite IH. reflexivity.
  - cbn [length]. rewrite Nat.sub_diag. reflexivity.
Qed.

Lemma N_of_be_nil_iff l : strip_zeros l = [] -> N_of_be l = 0.
Proof. intro H. rewrite <- N_of_be_strip, H. reflexivity. Qed.

Lemma be_min_roundtrip n : n < 2 ^ 256 -> N_of_be (be_min n) = n.
Proof.
  intro H. unfold be_min. rewrite N_of_be_strip, N_of_be_be_fixed.
  apply N.mod_small. replace (256 ^ N.of_nat 32) with (2 ^ 256) by reflexivity. exact H.
Qed.

Lemma be_min_inj a b : a < 2 ^ 256 -> b < 2 ^ 256 -> be_min a = be_min b -> a = b.
Proof. intros Ha Hb E. rewrite <- (be_min_roundtrip a Ha), <- (be_min_roundtrip b Hb), E. reflexivity. Qed.

Lemma length_be_min n : (length (be_min n) <= 32)%nat.
Proof. unfold be_min. pose proof (strip_zeros_length (be_fixed 32 n)). rewrite length_be_fixed in H. exact H. Qed.

Lemma length_zeros k : length (zeros k) = k.
Proof. apply repeat_length. Qed.

Lemma length_bytes_to_hash b : length (bytes_to_hash b) = 32%nat.
Proof.
  unfold bytes_to_hash. destruct (32 <? length b)%nat eqn:E.
  - apply Nat.ltb_lt in E. rewrite app_length, length_zeros, skipn_length. lia.
  - apply Nat.ltb_ge in E. rewrite app_length, length_zeros. lia.
Qed.

Lemma N_of_be_hash_bound b : N_of_be (bytes_to_hash b) < 2 ^ 256.
Proof.
  pose proof (N_of_be_bound (bytes_to_hash b)) as H. rewrite length_bytes_to_hash in H.
  replace (2 ^ 256) with (256 ^ N.of_nat 32) by reflexivity. exact H.
Qed.

Lemma bytes_to_hash_32 b : length b = 32%nat -> bytes_to_hash b = b.
Proof.
  intro H. unfold bytes_to_hash. rewrite H. cbn [Nat.ltb Nat.leb]. rewrite H. reflexivity.
Qed.

(** ** RLP headers are prefix-free *)

Definition len_bytes (len : N) : bytes := strip_zeros (be_fixed 8 len).

Lemma len_bytes_spec len : 0 < len < two64 ->
  N_of_be (len_bytes len) = len /\ (1 <= length (len_bytes len) <= 8)%nat /\
  exists l0 r, len_bytes len = l0 :: r /\ l0 <> x00.
Proof.
  intros [H0 H1]. unfold len_bytes.
  assert (V : N_of_be (strip_zeros (be_fixed 8 len)) = len).
  { rewrite N_of_be_strip, N_of_be_be_fixed. apply N.mod_small. exact H1. }
  pose proof (strip_zeros_length (be_fixed 8 len)) as L. rewrite length_be_fixed in L.
  destruct (strip_zeros (be_fixed 8 len)) as [|l0 r] eqn:E.
  - cbn in V. lia.
  - split; [exact V|]. split; [cbn [length] in *; lia|].
    exists l0, r. split; [reflexivity|]. eapply strip_zeros_head; eauto.
Qed.

Lemma rlp_header_inj base l1 l2 x y :
  base + 63 < 256 -> l1 < two64 -> l2 < two64 ->
  rlp_header base l1 ++ x = rlp_header base l2 ++ y -> l1 = l2 /\ x = y.
Proof.
  intros Hb H1 H2. unfold rlp_header. fold (len_bytes l1) (len_bytes l2).
  destruct (l1 <=? 55) eqn:E1; destruct (l2 <=? 55) eqn:E2;
    [apply N.leb_le in E1, E2 | apply N.leb_le in E1; apply N.leb_gt in E2
     | apply N.leb_gt in E1; apply N.leb_le in E2 | apply N.leb_gt in E1, E2];
    cbn [app]; intro H; injection H as Hh Ht.
  - apply (f_equal nb) in Hh. rewrite !nb_byte_of_N in Hh.
    rewrite !N.mod_small in Hh by lia. split; [lia | exact Ht].
  - exfalso. destruct (len_bytes_spec l2) as (_ & L & _); [lia|].
    apply (f_equal nb) in Hh. rewrite !nb_byte_of_N in Hh. rewrite !N.mod_small in Hh by lia. lia.
  - exfalso. destruct (len_bytes_spec l1) as (_ & L & _); [lia|].
    apply (f_equal nb) in Hh. rewrite !nb_byte_of_N in Hh. rewrite !N.mod_small in Hh by lia. lia.
  - destruct (len_bytes_spec l1) as (V1 & L1 & _); [lia|].
    destruct (len_bytes_spec l2) as (V2 & L2 & _); [lia|].
    apply (f_equal nb) in Hh. rewrite !nb_byte_of_N in Hh. rewrite !N.mod_small in Hh by lia.
    assert (EL : length (len_bytes l1) = length (len_bytes l2)) by lia.
    assert (A : len_bytes l1 = len_bytes l2 /\ x = y).
    { clear -Ht EL. revert EL Ht. generalize (len_bytes l1) (len_bytes l2). intros a.
      induction a as [|c a IH]; intros [|d b] EL Ht; cbn in *; try discriminate.
      - split; [reflexivity | exact Ht].
      - inversion Ht; subst. destruct (IH b) as [-> ->]; [lia | assumption | split; reflexivity]. }
    destruct A as [A ->]. split; [|reflexivity]. rewrite <- V1, <- V2, A. reflexivity.
Qed.

(** ** The strict string decoder inverts the encoder *)

Lemma firstn_app_exact {A} (a b : list A) : firstn (length a) (a ++ b) = a.
Proof. rewrite firstn_app, Nat.sub_diag, firstn_O, app_nil_r, firstn_all. reflexivity. Qed.

Lemma skipn_app_exact {A} (a b : list A) : skipn (length a) (a ++ b) = b.
Proof. rewrite skipn_app, Nat.sub_diag, skipn_all. reflexivity. Qed.

Lemma rlp_split_string_encode b rest :
  N.of_nat (length b) < two64 ->
  rlp_split_string (rlp_string b ++ rest) = Some (b, rest).
Proof.
  intro HL. unfold rlp_string.
  destruct b as [|x [|y b]].
  - (* empty *)
    change (rlp_split_string (x80 :: rest) = Some ([], rest)).
    unfold rlp_split_string. change (nb x80) with 128.
    change (128 <? 128) with false. change (128 <? 184) with true. change (128 - 128) with 0.
    cbn [N.to_nat firstn skipn].
    replace (N.of_nat (length rest) <? 0) with false by (symmetry; apply N.ltb_ge; lia). reflexivity.
  - (* one byte *)
    destruct (nb x <? 128) eqn:E.
    + cbn [app]. unfold rlp_split_string. rewrite E. reflexivity.
    + change (rlp_split_string (x81 :: x :: rest) = Some ([x], rest)).
      unfold rlp_split_string. change (nb x81) with 129.
      change (129 <? 128) with false. change (129 <? 184) with true. change (129 - 128) with 1.
      change (N.to_nat 1) with 1%nat. cbn [firstn skipn length].
      replace (N.of_nat (S (length rest)) <? 1) with false by (symmetry; apply N.ltb_ge; lia).
      rewrite E. reflexivity.
  - (* two or more *)
    set (s := x :: y :: b) in *. set (len := N.of_nat (length s)) in *.
    unfold rlp_header. fold (len_bytes len).
    destruct (len <=? 55) eqn:E; [apply N.leb_le in E | apply N.leb_gt in E].
    + cbn [app]. unfold rlp_split_string.
      rewrite nb_byte_of_N, N.mod_small by lia.
      replace (128 + len <? 128) with false by (symmetry; apply N.ltb_ge; lia).
      replace (128 + len <? 184) with true by (symmetry; apply N.ltb_lt; lia).
      replace (128 + len - 128) with len by lia.
      replace (N.of_nat (length (s ++ rest)) <? len) with false
        by (symmetry; apply N.ltb_ge; rewrite app_length; lia).
      unfold len. rewrite Nat2N.id, firstn_app_exact, skipn_app_exact.
      subst s. reflexivity.
    + destruct (len_bytes_spec len) as (V & L & l0 & r & EQ & NZ); [lia|].
      rewrite <- app_assoc. cbn [app]. unfold rlp_split_string.
      rewrite nb_byte_of_N, N.mod_small by lia.
      set (k := length (len_bytes len)) in *.
      replace (128 + 55 + N.of_nat k <? 128) with false by (symmetry; apply N.ltb_ge; lia).
      replace (128 + 55 + N.of_nat k <? 184) with false by (symmetry; apply N.ltb_ge; lia).
      replace (128 + 55 + N.of_nat k <? 192) with true by (symmetry; apply N.ltb_lt; lia).
      replace (128 + 55 + N.of_nat k - 183) with (N.of_nat k) by lia.
      rewrite Nat2N.id.
      replace (length (len_bytes len ++ s ++ rest) <? k)%nat with false
        by (symmetry; apply Nat.ltb_ge; rewrite app_length; fold k; lia).
      unfold k. rewrite firstn_app_exact, skipn_app_exact.
      rewrite EQ. rewrite <- EQ.
      replace (Byte.eqb l0 x00) with false by (symmetry; apply byte_eqb_false; exact NZ).
      rewrite V.
      replace (len <? 56) with false by (symmetry; apply N.ltb_ge; lia).
      replace (N.of_nat (length (s ++ rest)) <? len) with false
        by (symmetry; apply N.ltb_ge; rewrite app_length; lia).
      unfold len. rewrite Nat2N.id, firstn_app_exact, skipn_app_exact. reflexivity.
Qed.

Lemma rlp_decode_encode b : N.of_nat (length b) < two64 -> rlp_decode_bytes (rlp_string b) = Some b.
Proof.
  intro H. unfold rlp_decode_bytes. rewrite <- (app_nil_r (rlp_string b)).
  rewrite rlp_split_string_encode by exact H. reflexivity.
Qed.

Lemma rlp_string_inj a b x y :
  N.of_nat (length a) < two64 -> N.of_nat (length b) < two64 ->
  rlp_string a ++ x = rlp_string b ++ y -> a = b /\ x = y.
Proof.
  intros Ha Hb E. pose proof (rlp_split_string_encode a x Ha) as H1.
  rewrite E, (rlp_split_string_encode b y Hb) in H1. inversion H1; subst. split; reflexivity.
Qed.

(** ** The account encoding is injective *)

Definition account_wf (a : account) : Prop :=
  a_nonce a < 2 ^ 256 /\ a_balance a < 2 ^ 256 /\
  N.of_nat (length (a_storage a)) < two64 /\ N.of_nat (length (a_code a)) < two64.

Lemma small_len (l : bytes) : (length l <= 32)%nat -> N.of_nat (length l) < two64.
Proof. intro H. unfold two64. lia. Qed.

Lemma length_rlp_string_le b : (length b <= 55)%nat -> (length (rlp_string b) <= S (length b))%nat.
Proof.
  intro H. unfold rlp_string. destruct b as [|x [|y b]].
  - cbn. lia.
  - destruct (nb x <? 128); cbn; lia.
  - unfold rlp_header. replace (N.of_nat (length (x :: y :: b)) <=? 55) with true
      by (symmetry; apply N.leb_le; lia). cbn [app length]. lia.
Qed.

Lemma rlp_account_injective a b :
  account_wf a -> account_wf b ->
  (length (a_storage a) <= 55)%nat -> (length (a_code a) <= 55)%nat ->
  (length (a_storage b) <= 55)%nat -> (length (a_code b) <= 55)%nat ->
  rlp_account a = rlp_account b -> a = b.
Proof.
  intros (An & Ab & As & Ac) (Bn & Bb & Bs & Bc) LAs LAc LBs LBc E.
  unfold rlp_account, rlp_list in E. cbn [concat] in E.
  assert (PL : forall n bal s c, (length s <= 55)%nat -> (length c <= 55)%nat ->
               N.of_nat (length (rlp_string (be_min n) ++ rlp_string (be_min bal) ++ rlp_string s ++ rlp_string c ++ [])) < two64).
  { intros n bal s c Hs Hc. rewrite !app_length. cbn [length].
    pose proof (length_rlp_string_le (be_min n)) as H1. pose proof (length_be_min n).
    pose proof (length_rlp_string_le (be_min bal)) as H2. pose proof (length_be_min bal).
    pose proof (length_rlp_string_le s Hs). pose proof (length_rlp_string_le c Hc).
    unfold two64. lia. }
  apply rlp_header_inj in E; [| lia | apply PL; assumption | apply PL; assumption].
  destruct E as [_ E].
  apply rlp_string_inj in E; [| apply small_len, length_be_min | apply small_len, length_be_min].
  destruct E as [E1 E].
  apply rlp_string_inj in E; [| apply small_len, length_be_min | apply small_len, length_be_min].
  destruct E as [E2 E].
  apply rlp_string_inj in E; [| assumption | assumption].
  destruct E as [E3 E].
  apply rlp_string_inj in E; [| assumption | assumption].
  destruct E as [E4 _].
  apply be_min_inj in E1; [| assumption | assumption].
  apply be_min_inj in E2; [| assumption | assumption].
  destruct a, b; cbn in *; subst; reflexivity.
Qed.

(** ** checkProofResult *)

Lemma check_proof_result_spec v c :
  check_proof_result v c = true <-> exists t, rlp_decode_bytes v = Some t /\ left_pad32 t = c.
Proof.
  unfold check_proof_result. destruct (rlp_decode_bytes v) as [t|].
  - rewrite bytes_eqb_eq. split.
    + intro H. exists t. split; [reflexivity | exact H].
    + intros (t' & E & H). inversion E; subst. reflexivity.
  - split; [discriminate | intros (t & E & _); discriminate].
Qed.

Lemma rlp_decode_nil : rlp_decode_bytes [] = None.
Proof. reflexivity. Qed.

Lemma check_proof_result_honest c :
  length c = 32%nat -> check_proof_result (rlp_string (strip_zeros c)) c = true.
Proof.
  intro H. apply check_proof_result_spec. exists (strip_zeros c). split.
  - apply rlp_decode_encode. pose proof (strip_zeros_length c). unfold two64. lia.
  - unfold left_pad32. rewrite <- H. apply strip_zeros_pad.
Qed.

(** ** Canonical hex renderings are read back by [from_hex] *)

Definition hexdigit (d : N) : byte := byte_of_N (if d <? 10 then 48 + d else 87 + d).

Definition hex_of_byte (b : byte) : bytes := [hexdigit (nb b / 16); hexdigit (nb b mod 16)].

Definition hex_lower (l : bytes) : bytes := flat_map hex_of_byte l.

(** "0x" followed by the lower-case hex digits *)
Definition hex0x (l : bytes) : bytes := x30 :: x78 :: hex_lower l.

Lemma hex_decode_byte b r : hex_decode (hex_of_byte b ++ r) = b :: hex_decode r.
Proof. destruct b; reflexivity. Qed.

Lemma hex_decode_lower l : hex_decode (hex_lower l) = l.
Proof.
  induction l as [|b l IH]; [reflexivity|].
  cbn [hex_lower flat_map]. fold (hex_lower l). rewrite hex_decode_byte, IH. reflexivity.
Qed.

Lemma length_hex_lower l : length (hex_lower l) = (2 * length l)%nat.
Proof.
  induction l as [|b l IH]; [reflexivity|].
  cbn [hex_lower flat_map]. fold (hex_lower l). rewrite app_length, IH. cbn [hex_of_byte length]. lia.
Qed.

Lemma from_hex_hex0x l : from_hex (hex0x l) = l.
Proof.
  unfold from_hex, hex0x.
  change (has0x (x30 :: x78 :: hex_lower l)) with true. cbn iota. cbn [skipn].
  rewrite length_hex_lower.
  replace (N.odd (N.of_nat (2 * length l))) with false.
  - apply hex_decode_lower.
  - symmetry. rewrite Nat2N.inj_mul, N.odd_mul. reflexivity.
Qed.
