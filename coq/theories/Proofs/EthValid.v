(** The validity checks of the Ethereum client model against the specification-level
    predicate [valid_child_b]: [check_validity] accepts exactly the rule-abiding children
    of stored headers and never panics (on a well-formed header index). *)
From Teleport Require Import Base.Bytes Base.Outcome Model.Eth Proofs.EthBase.
From Coq Require Import Lia ZArith NArith List.
Local Open Scope N_scope.

(** * Arithmetic *)
Lemma wrap_i64_small z : (-9223372036854775808 <= z < 9223372036854775808)%Z -> wrap_i64 z = z.
Proof. intro H. unfold wrap_i64. rewrite Z.mod_small; lia. Qed.

Lemma i64_of_u64_small x : x < two63 -> i64_of_u64 x = Z.of_N x.
Proof. intro H. unfold i64_of_u64. apply wrap_i64_small. unfold two63 in H. lia. Qed.

Lemma u64_of_i64_nonneg z : (0 <= z < 18446744073709551616)%Z -> u64_of_i64 z = Z.to_N z.
Proof. intro H. unfold u64_of_i64. rewrite Z.mod_small by exact H. reflexivity. Qed.

(** VerifyGaslimit with its int64 conversions is |parent - limit| < parent / 1024 /\ limit >= 5000
    for gas limits below 2^63 (Header.ValidateBasic). *)
Lemma verify_gaslimit_spec pg hg : pg < two63 -> hg < two63 -> verify_gaslimit pg hg = gaslimit_ok pg hg.
Proof.
  intros Hp Hh. unfold verify_gaslimit, gaslimit_ok.
  rewrite !i64_of_u64_small by assumption.
  unfold two63 in *.
  rewrite (wrap_i64_small (Z.of_N pg - Z.of_N hg)) by lia.
  set (d := (Z.of_N pg - Z.of_N hg)%Z).
  assert (Hd : (-9223372036854775808 < d < 9223372036854775808)%Z) by (unfold d; lia).
  assert (E : u64_of_i64 (if (d <? 0)%Z then wrap_i64 (d * -1) else d) = Z.to_N (Z.abs d)).
  { destruct (Z.ltb_spec d 0).
    - rewrite wrap_i64_small by lia. rewrite u64_of_i64_nonneg by lia. f_equal. lia.
    - rewrite u64_of_i64_nonneg by lia. f_equal. lia. }
  rewrite E.
  destruct (N.leb_spec (pg / 1024) (Z.to_N (Z.abs d))) as [L|L].
  - destruct (Z.ltb_spec (Z.abs d) (Z.of_N (pg / 1024))) as [L2|L2]; [lia | reflexivity].
  - destruct (Z.ltb_spec (Z.abs d) (Z.of_N (pg / 1024))) as [L2|L2]; [|lia].
    cbn [andb]. destruct (N.ltb_spec hg 5000), (N.leb_spec 5000 hg); try reflexivity; lia.
Qed.

Lemma gaslimit_ok_parent_big pg hg : gaslimit_ok pg hg = true -> 1024 <= pg.
Proof.
  unfold gaslimit_ok. rewrite andb_true_iff, Z.ltb_lt. intros [H _].
  destruct (N.le_gt_cases 1024 pg) as [L|L]; [exact L|].
  exfalso. assert (Z : pg / 1024 = 0) by (apply N.div_small; exact L). rewrite Z in H. lia.
Qed.

(** CalcBaseFee is the EIP-1559 formula and does not divide by zero when the gas target is positive. *)
Lemma calc_base_fee_spec p : 2 <= h_gaslimit p -> calc_base_fee p = Ok (expected_base_fee p).
Proof.
  intro H. unfold calc_base_fee, expected_base_fee.
  assert (T : h_gaslimit p / 2 <> 0).
  { intro Z. apply N.div_small_iff in Z; [lia | discriminate]. }
  destruct (h_gasused p =? h_gaslimit p / 2); [reflexivity|].
  destruct (N.eqb_spec (h_gaslimit p / 2) 0) as [Z|_]; [contradiction|].
  destruct (h_gaslimit p / 2 <? h_gasused p); [|reflexivity].
  rewrite N.max_comm. reflexivity.
Qed.

Section Valid.
  Variable hash : header -> bytes.
  Variable ethash_ok : header -> bool.

  (** Well-formed header index: the entry under (x, k) is a header with hash x and number k,
      carrying the client's revision number, block number and gas limit below 2^63. *)
  Definition wf_hdr (r0 : N) (a : header) : Prop := h_rev a = r0 /\ h_num a < two63 /\ h_gaslimit a < two63.
  Definition idx_wf (r0 : N) (ix : imap) : Prop :=
    forall x k a, iget (x, k) ix = Some a -> hash a = x /\ h_num a = k /\ wf_hdr r0 a.

  Lemma validate_basic_gaslimit h : validate_basic h = true -> h_gaslimit h < two63.
  Proof.
    unfold validate_basic. rewrite !andb_true_iff. intros [[[_ H] _] _].
    apply N.leb_le in H. unfold two63. lia.
  Qed.

  (** [check_validity] = the specification-level predicate (and the two candidate repairs); in particular it
      never panics. *)
  Lemma check_validity_eq v r0 bt s h :
    idx_wf r0 (idx s) -> h_num h < two63 ->
    check_validity_gen hash ethash_ok v bt s h =
      if valid_child_b hash ethash_ok bt s h && rev_ok v s h && exp_ok v bt s h then Ok tt else Err.
  Proof.
    intros WF Hn.
    (* the code without the candidate repairs *)
    assert (Core : (if negb (validate_basic h) then Err else
                    _ <- verify_header hash bt s h ;;
                    if chain_id s =? rinkeby then Ok tt
                    else if 32 <? len (h_extra h) then Err
                    else if ethash_ok h then Ok tt else Err)
                   = if valid_child_b hash ethash_ok bt s h then Ok tt else Err).
    { unfold valid_child_b, verify_header, parent_of, rules_b.
      assert (Hn64 : h_num h < two64) by (pose proof two63_lt_two64; lia).
      destruct (validate_basic h) eqn:VB; cbn [negb].
      2:{ (* not valid: the predicate is false whatever else *)
        destruct (1 <=? h_num h); cbn [andb]; [|reflexivity].
        destruct (h_num h <? two63); cbn [andb]; [|reflexivity].
        destruct (iget _ (idx s)); [|reflexivity]. rewrite andb_false_r. reflexivity. }
      destruct (N.leb_spec 1 (h_num h)) as [H1|H1].
      2:{ (* number 0: the parent key is (_, 2^64-1), which a well-formed index does not hold *)
        cbn [andb]. assert (h_num h = 0) as -> by lia.
        destruct (iget (to_hash (h_parent h), sub64 0 1) (idx s)) as [p|] eqn:E; [|reflexivity].
        exfalso. apply WF in E. destruct E as [_ [E [_ [L _]]]]. rewrite sub64_zero in E. rewrite E in L.
        revert L. unfold two63, two64. lia. }
      rewrite sub64_pred by assumption.
      destruct (N.ltb_spec (h_num h) two63) as [_|]; [|lia]. cbn [andb].
      destruct (iget (to_hash (h_parent h), h_num h - 1) (idx s)) as [p|] eqn:E; [|reflexivity].
      apply WF in E. destruct E as [_ [_ [_ [_ Gp]]]].
      destruct (beq (hash p) (to_hash (h_parent h))); cbn [negb andb obind]; [|reflexivity].
      rewrite (N.leb_antisym (bt + 15) (h_time h)). destruct (bt + 15 <? h_time h); cbn [negb andb obind]; [reflexivity|].
      rewrite (N.ltb_antisym (h_time h) (h_time p)). destruct (h_time h <=? h_time p); cbn [negb andb obind]; [reflexivity|].
      rewrite verify_gaslimit_spec by (auto using validate_basic_gaslimit).
      destruct (gaslimit_ok (h_gaslimit p) (h_gaslimit h)) eqn:GL; cbn [negb andb obind]; [|reflexivity].
      rewrite calc_base_fee_spec by (apply gaslimit_ok_parent_big in GL; lia).
      destruct (big (h_basefee h) =? expected_base_fee p); cbn [negb andb obind]; [|reflexivity].
      rewrite Z.eqb_sym.
      destruct (chain_id s =? rinkeby) eqn:R; cbn [orb obind].
      - destruct (Z.of_N (big (h_diff h)) =? calc_difficulty (h_time h) p)%Z; cbn [obind]; rewrite ?R; reflexivity.
      - destruct (Z.of_N (big (h_diff h)) =? calc_difficulty (h_time h) p)%Z; cbn [andb obind]; rewrite ?R; [|reflexivity].
        rewrite (N.leb_antisym 32 (len (h_extra h))). destruct (32 <? len (h_extra h)); cbn [negb andb]; [reflexivity|].
        destruct (ethash_ok h); reflexivity. }
    unfold check_validity_gen.
    destruct (validate_basic h) eqn:VB; cbn [negb] in *.
    2:{ destruct (valid_child_b hash ethash_ok bt s h); [discriminate | reflexivity]. }
    destruct (rev_ok v s h); cbn [negb]; [|rewrite andb_false_r; reflexivity].
    destruct (exp_ok v bt s h); cbn [negb]; [rewrite !andb_true_r; exact Core|].
    rewrite andb_false_r.
    destruct (verify_header hash bt s h) as [[]| |]; cbn [obind] in *; try reflexivity.
    destruct (valid_child_b hash ethash_ok bt s h); discriminate.
  Qed.

  (** the parent named by an accepted header *)
  Lemma valid_child_parent bt s h :
    valid_child_b hash ethash_ok bt s h = true ->
    1 <= h_num h /\ h_num h < two63 /\
    exists p, iget (to_hash (h_parent h), h_num h - 1) (idx s) = Some p /\
              hash p = to_hash (h_parent h) /\ rules_b ethash_ok bt (chain_id s) p h = true.
  Proof.
    unfold valid_child_b. rewrite !andb_true_iff. intros [[H1 H2] H3].
    apply N.leb_le in H1. apply N.ltb_lt in H2. split; [exact H1|]. split; [exact H2|].
    destruct (iget _ (idx s)) as [p|]; [|discriminate].
    apply andb_true_iff in H3. destruct H3 as [H3 H4].
    exists p. split; [reflexivity|]. split; [|exact H4].
    destruct (beq_spec (hash p) (to_hash (h_parent h))); [assumption | discriminate].
  Qed.
End Valid.
