(** Generic lemmas about the regenerated guards (Model/HaltGuardIR.v): a guard that is [forced] under an
    assumption fires in every environment in which the assumption holds; hence a validation that did not
    reject refutes the assumption.  The side conditions [existsb (forced a) guards = true] are decided by
    [vm_compute] on Gen/HaltGuardsGen.v (Proofs/Halt.v). *)
From Coq Require Import String List NArith Bool Lia.
Import ListNotations.
From Teleport Require Import Model.HaltGuardIR.
Local Open Scope N_scope.

Definition holds (e : genv) (a : gassume) : Prop :=
  match a with
  | ABelow k n => exists v, key_val e k = Some v /\ v < n
  | AAbove k n => exists v, key_val e k = Some v /\ n < v
  end.

Lemma term_is_eval e k t : term_is k t = true -> eval_term e t = key_val e k.
Proof.
  destruct k as [f|f], t as [g|g|m]; cbn; try discriminate; intro H; apply String.eqb_eq in H; subst; reflexivity.
Qed.

Lemma is_const0_eval e t : is_const0 t = true -> eval_term e t = Some 0.
Proof. destruct t; cbn; try discriminate. intro H. apply N.eqb_eq in H. subst. reflexivity. Qed.

Lemma forced_sound e a c : holds e a -> forced a c = true -> eval_cond e c = Some true.
Proof.
  intro Hh. induction c as [x y|x y|x y|p IHp q IHq|p IHp q IHq|p IHp|]; cbn; intro F; try discriminate.
  - (* CLt *)
    destruct a as [k n|k n]; cbn in Hh; destruct Hh as (v & Hv & Hlt).
    + destruct y as [| |m]; try discriminate. apply andb_true_iff in F as [Ft Fn].
      rewrite (term_is_eval e k x Ft), Hv. cbn. f_equal. apply N.ltb_lt. apply N.leb_le in Fn. lia.
    + destruct x as [| |m]; try discriminate. apply andb_true_iff in F as [Ft Fn].
      rewrite (term_is_eval e k y Ft), Hv. cbn. f_equal. apply N.ltb_lt. apply N.leb_le in Fn. lia.
  - (* CLe *)
    destruct a as [k n|k n]; cbn in Hh; destruct Hh as (v & Hv & Hlt).
    + destruct y as [| |m]; try discriminate. apply andb_true_iff in F as [Ft Fn].
      rewrite (term_is_eval e k x Ft), Hv. cbn. f_equal. apply N.leb_le. apply N.leb_le in Fn. lia.
    + destruct x as [| |m]; try discriminate. apply andb_true_iff in F as [Ft Fn].
      rewrite (term_is_eval e k y Ft), Hv. cbn. f_equal. apply N.leb_le. apply N.leb_le in Fn. lia.
  - (* CEq *)
    destruct a as [k n|k n]; [|discriminate]. cbn in Hh; destruct Hh as (v & Hv & Hlt).
    apply andb_true_iff in F as [F Fn]. apply N.leb_le in Fn. assert (v = 0) by lia. subst v.
    apply orb_true_iff in F as [F|F]; apply andb_true_iff in F as [Ft F0].
    + rewrite (term_is_eval e k x Ft), Hv, (is_const0_eval e y F0). reflexivity.
    + rewrite (term_is_eval e k y Ft), Hv, (is_const0_eval e x F0). reflexivity.
  - (* COr *)
    apply orb_true_iff in F as [F|F].
    + rewrite (IHp F). reflexivity.
    + rewrite (IHq F). destruct (eval_cond e p) as [[]|]; reflexivity.
  - (* CAnd *)
    apply andb_true_iff in F as [F1 F2]. rewrite (IHp F1), (IHq F2). reflexivity.
Qed.

Lemma reject_of_forced e a gs : holds e a -> existsb (forced a) gs = true -> guards_reject e gs = true.
Proof.
  intros Hh Hex. apply existsb_exists in Hex as (c & Hin & Hf).
  unfold guards_reject. apply existsb_exists. exists c. split; [exact Hin|].
  unfold fires. rewrite (forced_sound e a c Hh Hf). reflexivity.
Qed.

(** The two forms used by the proofs: a validation that did not reject gives a lower / an upper bound. *)
Lemma accepted_lower_bound e gs k n v :
  guards_reject e gs = false -> existsb (forced (ABelow k n)) gs = true -> key_val e k = Some v -> n <= v.
Proof.
  intros Hacc Hf Hv. destruct (N.lt_ge_cases v n) as [Hlt|Hge]; [|exact Hge].
  exfalso. assert (Hh : holds e (ABelow k n)) by (exists v; split; assumption).
  rewrite (reject_of_forced e _ gs Hh Hf) in Hacc. discriminate.
Qed.

Lemma accepted_upper_bound e gs k n v :
  guards_reject e gs = false -> existsb (forced (AAbove k n)) gs = true -> key_val e k = Some v -> v <= n.
Proof.
  intros Hacc Hf Hv. destruct (N.lt_ge_cases n v) as [Hlt|Hge]; [|exact Hge].
  exfalso. assert (Hh : holds e (AAbove k n)) by (exists v; split; assumption).
  rewrite (reject_of_forced e _ gs Hh Hf) in Hacc. discriminate.
Qed.

(** Non-vacuity of [forced]: it is not satisfied by guards that do not imply the bound. *)
Example forced_discriminates :
  forced (ABelow (KLen "Extra") 97) (CLt (TLen "Extra") (TConst 97)) = true /\
  forced (ABelow (KLen "Extra") 97) (CLt (TLen "Extra") (TConst 65)) = false /\
  forced (ABelow (KFld "Epoch") 1) (CEq (TField "Epoch") (TConst 0)) = true /\
  forced (ABelow (KFld "Epoch") 1) (CAnd (CEq (TField "Epoch") (TConst 0)) (CLt (TConst 0) (TField "Height.RevisionHeight"))) = false /\
  forced (AAbove (KLen "Bloom") 256) (CLt (TConst 256) (TLen "Bloom")) = true /\
  forced (AAbove (KLen "Bloom") 256) (CLt (TConst 257) (TLen "Bloom")) = false.
Proof. vm_compute. repeat split; reflexivity. Qed.
