(** Lemmas on association lists and on the string functions of Model/Registry.v (library part of the
    C12 proofs, no registry content). *)
From Teleport Require Import Base.Bytes Base.Outcome Base.AList Model.Registry.

(** * Association lists *)

Lemma existsb_eqb_In (d : bytes) (l : list bytes) : existsb (bytes_eqb d) l = true <-> In d l.
Proof.
  rewrite existsb_exists. split.
  - intros [x [Hin He]]. apply bytes_eqb_eq in He. subst. exact Hin.
  - intro Hin. exists d. split; [exact Hin | apply bytes_eqb_refl].
Qed.

Lemma existsb_eqb_nIn (d : bytes) (l : list bytes) : existsb (bytes_eqb d) l = false <-> ~ In d l.
Proof.
  split.
  - intros H Hin. apply existsb_eqb_In in Hin. congruence.
  - intro H. destruct (existsb (bytes_eqb d) l) eqn:E; [apply existsb_eqb_In in E; contradiction | reflexivity].
Qed.

Lemma aget_in_keys {V} (k : bytes) (l : alist V) v : aget k l = Some v -> In k (map fst l).
Proof.
  induction l as [|[k' v'] l IH]; cbn; [discriminate|].
  destruct (bytes_eqb_spec k k') as [->|N]; intro H; [left; reflexivity | right; apply IH; exact H].
Qed.

Lemma ahas_true {V} k (l : alist V) : ahas k l = true <-> aget k l <> None.
Proof. unfold ahas. destruct (aget k l); split; intro H; try reflexivity; try discriminate; congruence. Qed.

Lemma ahas_false {V} k (l : alist V) : ahas k l = false <-> aget k l = None.
Proof. unfold ahas. destruct (aget k l); split; intro H; try reflexivity; try discriminate. Qed.

Lemma aget_set_denoms d ds id (m : alist bytes) :
  aget d (set_denoms m ds id) = if existsb (bytes_eqb d) ds then Some id else aget d m.
Proof.
  unfold set_denoms. revert m. induction ds as [|x ds IH]; intro m; cbn; [reflexivity|].
  rewrite IH. destruct (existsb (bytes_eqb d) ds); cbn.
  - rewrite orb_true_r. reflexivity.
  - rewrite orb_false_r. rewrite aget_aset. reflexivity.
Qed.

Lemma aget_del_denoms d ds (m : alist bytes) :
  aget d (del_denoms m ds) = if existsb (bytes_eqb d) ds then None else aget d m.
Proof.
  unfold del_denoms. revert m. induction ds as [|x ds IH]; intro m; cbn; [reflexivity|].
  rewrite IH. destruct (existsb (bytes_eqb d) ds); cbn.
  - rewrite orb_true_r. reflexivity.
  - rewrite orb_false_r. rewrite aget_adel. reflexivity.
Qed.

Lemma get0_some (m : alist bytes) k id : aget k m = Some id -> get0 m k = id.
Proof. unfold get0. intros ->. reflexivity. Qed.

Lemma get0_cons (m : alist bytes) k b r : get0 m k = b :: r -> aget k m = Some (b :: r).
Proof. unfold get0. destruct (aget k m); [intros ->; reflexivity | discriminate]. Qed.

(** * Strings *)

Lemma addr_of_length s : length (addr_of s) = 20%nat.
Proof.
  unfold addr_of. destruct (Nat.ltb 20 (length (from_hex s))) eqn:E.
  - apply Nat.ltb_lt in E. rewrite skipn_length. lia.
  - apply Nat.ltb_ge in E. rewrite app_length, repeat_length. lia.
Qed.

(* CreateDenom never yields a string that reads as a hex address *)
Lemma create_denom_not_hex t : is_hex_address (create_denom t) = false.
Proof.
  unfold create_denom, is_hex_address. cbn.
  apply andb_false_intro2. reflexivity.
Qed.

